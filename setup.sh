#!/bin/bash
# Builds the framework from files on disk only (offline): regenerates the built-in table from /repo,
# compiles the Lean library (all proofs are checked by the kernel here) and the model driver.
set -e
cd "$(dirname "$0")"
export CASSIS_REPO="${CASSIS_REPO:-/repo}"
export PYTHONPATH="$CASSIS_REPO:$(pwd)"
export PYTHONDONTWRITEBYTECODE=1
/venv/bin/python harness/extract_builtins.py
cd lean
# (the exit status of lake decides, not that of the filter: a failed build must fail the setup even if an older driver exists)
set -o pipefail
lake build CassisModel cassis_driver 2>&1 | { grep -v '^✔' || true; } | tail -20
test -x .lake/build/bin/cassis_driver
echo '{"k":"covered","l":[[2,5,1],[2,2,0],[5,5,2]],"q":[[2,5]]}' | .lake/build/bin/cassis_driver | grep -q '"covered":\[\[2,2,0\],\[2,5,1\],\[5,5,2\]\]'
echo "setup ok"
