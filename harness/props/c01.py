"""C01 — XMI save/load is lossless: same views, FS graph, values, ids and indexes."""
import copy

from harness import casgen, common, refio, sessions
from harness.common import bud

PROP = "C01"
MODULES = ["CassisModel.Properties.C01", "CassisModel.Properties.C01RoundTrip", "CassisModel.Properties.C01Applies", "CassisModel.Properties.C01RoundTripColl", "CassisModel.Properties.C01AppliesColl", "CassisModel.Properties.C01FixpointColl", "CassisModel.Properties.C03Doc"]
THEOREMS = [
    "Cassis.Xmi.xmi_roundtrip_coll_fixpoint",
    "Cassis.Lex.parseInt_showInt",
    "Cassis.Lex.splitWs_joinSp",
    "Cassis.Lex.hexDec_hexEnc",
    "Cassis.Lex.parseBool_showBool",
    "Cassis.Xmi.parseInts_showInts",
    "Cassis.Xmi.resolveIds_showIds",
    "Cassis.Xmi.intArray_roundtrip",
    "Cassis.Xmi.byteArray_roundtrip",
    "Cassis.Xmi.boolArray_roundtrip",
    "Cassis.Xmi.floatArray_roundtrip",
    "Cassis.Xmi.primValue_roundtrip_int",
    "Cassis.Xmi.primValue_roundtrip_str",
    "Cassis.Xmi.primValue_roundtrip_bool",
    "Cassis.Xmi.sortById_perm",
    "Cassis.Xmi.sortById_sorted",
    "Cassis.Xmi.saveXmi_ids_nodup",
    "Cassis.Xmi.sofa_roundtrip",
    "Cassis.Xmi.view_roundtrip",
    "Cassis.Xmi.xmi_roundtrip_flat",
    "Cassis.Xmi.xmi_roundtrip_flat_fixpoint",
    "Cassis.Xmi.xmi_offset_roundtrip",
    "Cassis.Xmi.rtAppliesB_sound",
    "Cassis.Xmi.xmi_roundtrip_coll",
    "Cassis.Xmi.collFs_of_flatFs",
    "Cassis.Xmi.collAppliesB_sound",
]
ASSUMPTIONS = [
    "the theorems cover the lexical layer (int/bool/hex/token lists), the per-kind encode/decode pairs of the model's writer and reader, id ordering/uniqueness of the written document and the sofa/view records; the end-to-end statement load(save c) ~ c over whole graphs is NOT proved: it is checked on the implementation (oracle) and between implementation and model (correspondence) on generated CASes (partial)",
    "lxml text layer (escaping, namespaces, pretty printing), float <-> literal conversion of CPython, and the tag <-> type-name mapping are trusted and exercised through an independent stdlib reader/writer",
    "generators stay out of the recorded findings: null elements in FSArrays (X3), empty inline StringLists (X5), annotations without sofa (U2)",
    "the end-to-end theorem xmi_roundtrip_coll covers CASes with primitive, reference, sofa, array and list features (inlined or shared) subject to the side conditions of Spec/RoundTripCollFrag.lean (what XMI cannot express: null FSArray elements, inlined collection objects without element list, empty inlined string lists, ...); whether it applies to a generated CAS is decided by the sound Boolean tests collAppliesB / rtAppliesB evaluated by the compiled model (histograms collection-theorem-applies / flat-theorem-applies); for CASes outside, the round trip is checked per run only",
]


def norm_val(v):
    if isinstance(v, dict) and "arr" in v and isinstance(v["arr"], list):
        return {"arr": [None if x == "" else x for x in v["arr"]]}
    if isinstance(v, dict) and "list" in v:
        return {"list": [None if x == "" else x for x in v["list"]]}
    if isinstance(v, list):
        return [None if x == "" else x for x in v]
    return v


def norm_dump(d):
    """the two equivalences XMI cannot express: "" vs null inside string arrays/lists (inline collections are
    already content in the coarse dump)"""
    d = copy.deepcopy(d)
    if "views" in d:
        d["views"] = sorted(d["views"], key=lambda v: v["name"])   # content is keyed by view name
    for k, e in d.get("fs", {}).items():
        if e and "feats" in e:
            e["feats"] = {n: norm_val(v) for n, v in e["feats"].items()}
    return d


def make_case(rng, size):
    # every third case lies in the fragment of the end-to-end theorem (primitive and plain reference features only)
    g = casgen.CasGen(rng, n_types=rng.randint(1, 6), n_fs=size, xmi_safe=True, flat=rng.random() < 0.34).build()
    if rng.random() < 0.2:
        # features added to a type that already has an instance, after a first serialisation
        casgen.add_late_extension(g, rng, lambda h0: [{"op": "xmi.save", "h": h0}])
    return g


def run_cases(ctx, out, cases, tag):
    # stage A: implementation only, to obtain the documents
    stage_a = []
    for g in cases:
        ops = list(g.sb.ops)
        h0 = g.views["_InitialView"]
        ops += [{"op": "rt.applies", "h": h0}, {"op": "xmi.save", "h": h0}, {"op": "cas.dump", "h": h0}]
        stage_a.append(ops)
    ia = sessions.run_impl_sessions(stage_a)
    stage_b = []
    for g, ops, io in zip(cases, stage_a, ia):
        doc = io[-2].get("ok")
        if doc is None:
            stage_b.append(None)
            continue
        nh = g.sb.n_h
        ops2 = ops + [{"op": "xmi.load", "ts": g.ts, "doc": doc},
                      {"op": "cas.dump", "h": nh},
                      {"op": "xmi.save", "h": nh},
                      {"op": "xmi.save", "h": nh, "pretty": True}]
        stage_b.append(ops2)
    idx = [i for i, o in enumerate(stage_b) if o is not None]
    ib = sessions.run_impl_sessions([stage_b[i] for i in idx])
    mb = sessions.run_model_sessions(ctx.driver, [stage_b[i] for i in idx])
    ib = dict(zip(idx, ib))
    mb = dict(zip(idx, mb)) if mb is not None else None
    for k, (g, ops, io) in enumerate(zip(cases, stage_a, ia)):
        out.evaluations += 1
        sc = {"k": "session", "ops": ops}
        save0, dump0 = io[-2], io[-1]
        if "ok" not in save0 or "ok" not in dump0:
            out.oracle_failures.append({"scenario": sc, "what": "to_xmi / dump raised on a well-formed CAS", "actual": [save0, dump0]})
            continue
        ops2 = stage_b[k]
        io2 = ib[k]
        sc2 = {"k": "session", "ops": ops2}
        n = len(ops)
        load_r, dump1, save1, save_pretty = io2[n], io2[n + 1], io2[n + 2], io2[n + 3]
        if "ok" not in load_r:
            out.oracle_failures.append({"scenario": sc2, "what": "loading the document written by to_xmi raised", "actual": load_r})
        elif "ok" not in dump1 or common.canon(norm_dump(dump1["ok"])) != common.canon(norm_dump(dump0["ok"])):
            out.oracle_failures.append({"scenario": sc2, "what": "CAS loaded from its own XMI differs from the original",
                                        "expected": dump0, "actual": dump1})
        elif common.canon(save1) != common.canon(save0):
            out.oracle_failures.append({"scenario": sc2, "what": "serialising the loaded CAS again does not yield the identical document",
                                        "expected": save0, "actual": save1})
        elif common.canon(save_pretty) != common.canon(save0):
            out.oracle_failures.append({"scenario": sc2, "what": "pretty_print changes the content of the document",
                                        "expected": save0, "actual": save_pretty})
        # correspondence with the model (writer, reader, dump)
        if mb is not None and mb[k] is not None:
            def canon_op(i, x, ops2=ops2):
                if i < len(ops2) and ops2[i]["op"] == "xmi.save" and isinstance(x, dict) and "ok" in x:
                    return {"ok": refio.canon_doc(x["ok"])}
                if i < len(ops2) and ops2[i]["op"] == "rt.applies":
                    return "model-only"
                return x
            ap = mb[k][n - 3].get("ok") if len(mb[k]) > n - 3 and isinstance(mb[k][n - 3], dict) else None
            ap = ap if isinstance(ap, dict) else {}
            out.count("flat-theorem-applies:%s" % ("yes" if ap.get("flat") is True else "no"))
            out.count("collection-theorem-applies:%s" % ("yes" if ap.get("coll") is True else "no"))
            if ap.get("coll") is True or ap.get("flat") is True:
                # the theorems (collAppliesB_sound / rtAppliesB_sound) say the model's load of the model's document succeeds
                # and preserves the content; the implementation must then show the same round trip
                if "ok" not in mb[k][n] or "ok" not in load_r:
                    out.oracle_failures.append({"scenario": sc2, "what": "the round-trip theorem applies to this CAS but loading raised",
                                                "actual": [load_r, mb[k][n]]})
            d = sessions.first_diff(io2, mb[k], canon_op)
            if d is not None:
                out.disagreements.append({"scenario": sc2, "op_index": d, "op": ops2[d] if d < len(ops2) else None,
                                          "impl": io2[d] if d < len(io2) else None,
                                          "model": mb[k][d] if d < len(mb[k]) else None})
        nfs = len(dump0["ok"]["fs"])
        kinds = set()
        for t in g.types.values():
            for f in t["feats"].values():
                kinds.add(f["kind"] + ("+" if f.get("multi") else ""))
        for kk in kinds:
            out.count("feature-kind:" + kk)
        out.count("views:%d" % len(g.views))
        if nfs >= 3 and len(kinds) >= 2:
            out.nontriv((tag, k))
        if k < 2:
            out.sample({"n_ops": len(ops), "n_fs": nfs, "doc_head": save0["ok"][:3]})


def run(ctx, out, budget):
    out.rule = ("type-directed CASes: 1-6 user types (no-namespace names, colliding package suffixes, packages ending in cas/xmi/tcas, "
                "features named self/type/begin/end, a user subtype of String, every primitive/array/list kind, multipleReferencesAllowed "
                "tri-state), 1-3 views with astral text, indexed and referenced-only structures, cycles, shared and inline collections, "
                "empty collections, edge values (64-bit ints, NaN/Infinity, XML-special strings). Checked: load(save(c)) = c on the "
                "canonical id-keyed dump, re-serialisation identical, pretty_print content-neutral; writer, reader and dump compared "
                "with the Lean model op by op. Non-trivial = distinct CASes with >= 3 separately written structures and >= 2 feature kinds.")
    rng = ctx.rng(0)
    n = bud(budget, 150, 15000)
    cases = [make_case(rng, rng.randint(1, 12)) for _ in range(n)]
    if budget != "quick":
        cases += [make_case(rng, rng.randint(50, 200)) for _ in range(30)]
    run_cases(ctx, out, cases, "gen")
    out.partial = ["outside the fragment of xmi_roundtrip_coll (see rt.applies counts) and at byte level: implementation oracle + model correspondence only"]


def replay(ctx, payload):
    fl = payload.get("failure") or {}
    ops = fl["scenario"]["ops"]
    io = sessions.run_impl_sessions([ops])[0]
    # recompute the oracle on the stored session
    saves = [i for i, o in enumerate(ops) if o["op"] == "xmi.save"]
    dumps = [i for i, o in enumerate(ops) if o["op"] == "cas.dump"]
    if any("ok" not in io[i] for i in saves + dumps):
        return True
    if len(dumps) >= 2 and common.canon(norm_dump(io[dumps[0]]["ok"])) != common.canon(norm_dump(io[dumps[1]]["ok"])):
        return True
    if len(saves) >= 2 and common.canon(io[saves[0]]) != common.canon(io[saves[1]]):
        return True
    return False
