"""C20 — cas_to_comparable_text ignores ids and creation order but not content."""
import copy
import csv
import io

from harness import sessions
from harness.common import bud
from harness.sessions import SB

PROP = "C20"
MODULES = ["CassisModel.Properties.C20", "CassisModel.Properties.C20Ids", "CassisModel.Properties.C20Sens", "CassisModel.Properties.C20Iso", "CassisModel.Properties.C20IsoColl", "CassisModel.Properties.C20IsoJsonColl"]
THEOREMS = [
    "Cassis.Comparable.render_json_roundtrip_coll",
    "Cassis.Comparable.render_xmi_roundtrip_coll",
    "Cassis.Comparable.renderVal_budget_saturated",
    "Cassis.Comparable.renderFrom_iso",
    "Cassis.Comparable.distinct_iso",
    "Cassis.Comparable.render_xmi_roundtrip_flat",
    "Cassis.Comparable.render_json_roundtrip_flat",
    "Cassis.Comparable.xmi_roundtrip_flat_iso",
    "Cassis.Comparable.json_roundtrip_flat_iso",
    "Cassis.Comparable.renderFrom_prim_sensitive",
    "Cassis.Comparable.renderFrom_offset_sensitive",
    "Cassis.Comparable.renderFrom_ref_sensitive",
    "Cassis.Comparable.renderFrom_fsarray_elem_sensitive",
    "Cassis.Comparable.renderFrom_fsarray_elem_sensitive_own",
    "Cassis.Comparable.renderFrom_primarray_sensitive",
    "Cassis.Comparable.renderFrom_primarray_sensitive_own",
    "Cassis.Comparable.renderFrom_view_sensitive",
    "Cassis.Comparable.renderFrom_indexed_sensitive",
    "Cassis.Comparable.renderFrom_total",
    "Cassis.Comparable.xidInj_of_findAllFs",
    "Cassis.Comparable.anchorPlain_of_sofaID",
    "Cassis.Comparable.sortFs_perm_invariant",
    "Cassis.Comparable.sortFs_perm",
    "Cassis.Comparable.sortFs_sorted",
    "Cassis.Comparable.group_perm",
    "Cassis.Comparable.typeKeys_perm",
    "Cassis.Comparable.renderFrom_perm_invariant",
    "Cassis.Comparable.renderVal_prim_injective",
    "Cassis.Comparable.renderCols_prim_sensitive",
    "Cassis.Comparable.renderFrom_renumber",
    "Cassis.Comparable.renderFrom_ids_and_order",
]
ASSUMPTIONS = [
    "proved on the model: under the property's side condition (structures of one type are pairwise ordered by their offsets) the table depends only on the *set* of collected structures and the *set* of indexed structures, not on the order in which the traversal or the index delivered them, nor on the content hash; rows of a type ascend by begin and descend by end; a changed primitive cell changes the row (partial: the other sensitivity clauses and invariance under the round trips are checked per run on implementation and model)",
    "that the traversal delivers the same set whatever the ids and creation order is C04 (findAllFs sound/complete)",
    "csv quoting and str() of Python lists and floats are re-done with the same stdlib calls when the model's cells are compared with the implementation's text",
    "generated CASes satisfy the side condition: unique (type, begin, end) over all views for annotations; at most one structure per type without offsets (this includes separately listed arrays and list nodes); empty strings are avoided in string arrays (XMI cannot tell them from null)",
]

TEXTS = ["The quick brown fox jumps over the lazy dog and keeps running for a while", "a\U0001f600b\U0001f600c def ghi jkl mno pqr stu vwx yz0 123 456",
         "日本語のテキスト and some more text after it to be long enough"]
TYPES = [
    ("x.Ann", "uima.tcas.Annotation", [("v", "uima.cas.Integer", None, None), ("s", "uima.cas.String", None, None),
                                       ("d", "uima.cas.Double", None, None), ("flag", "uima.cas.Boolean", None, None),
                                       ("ref", "uima.cas.TOP", None, None), ("arr", "uima.cas.FSArray", "uima.cas.TOP", None),
                                       ("ints", "uima.cas.IntegerArray", None, None), ("strs", "uima.cas.StringArray", None, None)]),
    ("x.sub.Ann", "x.Ann", [("w", "uima.cas.Integer", None, None)]),
    ("y.Ann", "uima.tcas.Annotation", [("ref", "uima.tcas.Annotation", None, None), ("type", "uima.cas.String", None, None)]),
    ("Plain", "uima.tcas.Annotation", []),
    ("x.Rec", "uima.cas.TOP", [("v", "uima.cas.Integer", None, None), ("ref", "uima.tcas.Annotation", None, None),
                               ("marr", "uima.cas.FSArray", None, True), ("lst", "uima.cas.FSList", None, None)]),
    ("x.Rec2", "uima.cas.TOP", [("s", "uima.cas.String", None, None), ("next", "x.Rec", None, None)]),
]
ANN_TYPES = ["x.Ann", "x.sub.Ann", "y.Ann", "Plain"]
STRS = ["plain", "with space", "quote\"s, and 'apos'", "üñí \U0001f600", "line\nbreak", "0", "None", "<NULL>"]
FLOATS = ["0.0", "1.5", "-2.25", "NaN", "Infinity", "1.0E-5", "123456.789", "1.0E22"]


def feats_of(t):
    out = {}
    d = {n: (s, f) for n, s, f in TYPES}
    chain = []
    while t in d:
        chain.append(t)
        t = d[t][0]
    for c in reversed(chain):
        for f in d[c][1]:
            out[f[0]] = f
    return out


def gen_spec(rng, n_ann):
    """abstract description of a CAS that satisfies the side condition"""
    views = [("_InitialView", rng.choice(TEXTS))]
    for k in range(rng.randint(0, 2)):
        views.append(("view%d" % (k + 2), rng.choice(TEXTS)))
    if rng.random() < 0.25:
        views.append(("notext", None))      # a view whose sofa has no text: covered text is None there
    nodes = {}
    used = set()
    for i in range(n_ann):
        t = rng.choice(ANN_TYPES)
        vn, text = rng.choice(views)
        tl = len(text) if text is not None else 6
        for _try in range(50):
            b = rng.randint(0, tl)
            e = rng.randint(b, tl)
            if (t, b, e) not in used:
                break
        else:
            continue
        used.add((t, b, e))
        nodes["a%d" % i] = {"type": t, "view": vn, "b": b, "e": e, "prims": {}, "refs": {}, "arrs": {}, "indexed": rng.random() < 0.7}
    # twins: structures of *different* types with the same short name at identical offsets, view and index status
    # (their anchors collide and are told apart by the disambiguation counter only)
    SAME_SHORT = ["x.Ann", "x.sub.Ann", "y.Ann"]
    for k in list(nodes):
        n = nodes[k]
        if n["type"] in SAME_SHORT and rng.random() < 0.35:
            t2 = rng.choice([t for t in SAME_SHORT if t != n["type"]])
            if (t2, n["b"], n["e"]) not in used:
                used.add((t2, n["b"], n["e"]))
                nodes[k + "t"] = {"type": t2, "view": n["view"], "b": n["b"], "e": n["e"], "prims": {}, "refs": {}, "arrs": {},
                                  "indexed": n["indexed"], "twin": k}
                n["twin"] = k + "t"
    anns = sorted(nodes)
    if not anns:
        return gen_spec(rng, n_ann + 1)
    if rng.random() < 0.6:
        nodes["r1"] = {"type": "x.Rec", "view": rng.choice(views)[0], "prims": {}, "refs": {}, "arrs": {}, "indexed": rng.random() < 0.7}
        if rng.random() < 0.6:
            nodes["r2"] = {"type": "x.Rec2", "view": rng.choice(views)[0], "prims": {}, "refs": {"next": "r1"}, "arrs": {}, "indexed": True}
    for k, n in nodes.items():
        for fname, (fn, rg, el, multi) in feats_of(n["type"]).items():
            if rng.random() < 0.3:
                continue
            if rg == "uima.cas.Integer":
                n["prims"][fname] = rng.choice([0, 1, -1, 42, 2 ** 31 - 1])
            elif rg == "uima.cas.String":
                n["prims"][fname] = rng.choice(STRS)
            elif rg == "uima.cas.Double":
                n["prims"][fname] = {"f": rng.choice(FLOATS)}
            elif rg == "uima.cas.Boolean":
                n["prims"][fname] = rng.random() < 0.5
            elif rg in ("uima.cas.TOP", "uima.tcas.Annotation"):
                tw = [a for a in anns if "twin" in nodes[a]]
                n["refs"][fname] = rng.choice(tw) if tw and rng.random() < 0.5 else rng.choice(anns)
            elif rg == "x.Rec":
                pass
            elif rg == "uima.cas.FSArray" and not multi:
                n["arrs"][fname] = ("rs", [rng.choice(anns + [None]) for _ in range(rng.randint(0, 3))])
            elif rg == "uima.cas.FSArray" and multi:
                n["arrs"][fname] = ("shared", [rng.choice(anns) for _ in range(rng.randint(0, 3))])
            elif rg == "uima.cas.IntegerArray":
                n["arrs"][fname] = ("is", [rng.choice([0, 5, -7]) for _ in range(rng.randint(0, 3))])
            elif rg == "uima.cas.StringArray":
                n["arrs"][fname] = ("ss", [rng.choice(STRS) for _ in range(rng.randint(0, 3))])
            elif rg == "uima.cas.FSList":
                n["arrs"][fname] = ("list", [rng.choice(anns) for _ in range(rng.randint(0, 1))])
    if not any(n["indexed"] for n in nodes.values()):
        nodes[anns[0]]["indexed"] = True
    return {"views": views, "nodes": nodes}


def reachable(spec):
    nodes = spec["nodes"]
    seen, todo = set(), [k for k, n in nodes.items() if n["indexed"]]
    while todo:
        k = todo.pop()
        if k in seen:
            continue
        seen.add(k)
        n = nodes[k]
        todo.extend(n["refs"].values())
        for kind, els in n["arrs"].values():
            if kind in ("rs", "shared", "list"):
                todo.extend(x for x in els if x is not None)
    return seen


def build_ops(spec, rng, explicit_ids, shuffle):
    """session creating the CAS described by `spec`; creation order, add order and ids are at the caller's choice"""
    sb = SB()
    ts = sb.ts_new()
    for n, s, fs in TYPES:
        sb.create_type(ts, n, s)
    for n, s, fs in TYPES:
        for (fn, rg, el, multi) in fs:
            sb.create_feature(ts, n, fn, rg, elem=el, multi=multi)
    vh = {}
    h0 = sb.cas_new(ts, text=spec["views"][0][1])
    vh["_InitialView"] = h0
    for vn, text in spec["views"][1:]:
        h = sb.create_view(h0, vn)
        if text is not None:
            sb.op(op="cas.sofa_set", h=h, field="string", v=[ord(c) for c in text])
        vh[vn] = h
    keys = list(spec["nodes"])
    if shuffle:
        rng.shuffle(keys)
    pool = rng.sample(range(50, 5000), 4 * len(keys) + 16) if explicit_ids else None

    def xid():
        return pool.pop() if pool is not None else None
    label = {}
    for k in keys:
        n = spec["nodes"][k]
        feats = {("type_" if f == "type" else f): v for f, v in n["prims"].items()}
        if "b" in n:
            feats["begin"], feats["end"] = n["b"], n["e"]
        label[k] = sb.fs_new(ts, n["type"], feats, xid=xid())
    setters = []
    for k in keys:
        n = spec["nodes"][k]
        for f, tgt in n["refs"].items():
            setters.append({"op": "fs.set", "fs": label[k], "path": f, "v": {"r": label[tgt]}})
        for f, (kind, els) in n["arrs"].items():
            if kind in ("rs", "shared"):
                arr = sb.fs_new(ts, "uima.cas.FSArray", {"elements": {"rs": [None if x is None else label[x] for x in els]}}, xid=xid())
            elif kind == "is":
                arr = sb.fs_new(ts, "uima.cas.IntegerArray", {"elements": {"is": els}}, xid=xid())
            elif kind == "ss":
                arr = sb.fs_new(ts, "uima.cas.StringArray", {"elements": {"ss": els}}, xid=xid())
            else:
                arr = sb.fs_new(ts, "uima.cas.EmptyFSList", {}, xid=xid())
                for x in reversed(els):
                    arr = sb.fs_new(ts, "uima.cas.NonEmptyFSList", {"head": {"r": label[x]}, "tail": {"r": arr}}, xid=xid())
            setters.append({"op": "fs.set", "fs": label[k], "path": f, "v": {"r": arr}})
    if shuffle:
        rng.shuffle(setters)
    sb.ops.extend(setters)
    adds = []
    for k in keys:
        n = spec["nodes"][k]
        if n["indexed"]:
            adds.append({"op": "cas.add", "h": vh[n["view"]], "fs": label[k]})
        elif "b" in n:
            adds.append({"op": "fs.set", "fs": label[k], "path": "sofa", "v": {"sofa": [0, n["view"]]}})
    if shuffle:
        rng.shuffle(adds)
    sb.ops.extend(adds)
    sb.meta = {"label": label, "vh": vh, "ts": ts}
    return sb, h0


MUTATIONS = ["prim", "offset", "ref", "array", "view", "indexed"]


def mutate(spec, rng, kind):
    """a single-point content change that keeps the side condition; None if not applicable"""
    sp = copy.deepcopy(spec)
    nodes = sp["nodes"]
    reach = sorted(reachable(sp))
    rng.shuffle(reach)
    anns = sorted(k for k in nodes if "b" in nodes[k])
    texts = dict(sp["views"])
    for k in reach:
        n = nodes[k]
        if kind == "prim" and n["prims"]:
            f = rng.choice(sorted(n["prims"]))
            v = n["prims"][f]
            if isinstance(v, bool):
                n["prims"][f] = not v
            elif isinstance(v, int):
                n["prims"][f] = v + 1 if v < 2 ** 31 - 1 else 7
            elif isinstance(v, str):
                n["prims"][f] = v + "x"
            else:
                n["prims"][f] = {"f": "2.5" if v["f"] != "2.5" else "3.5"}
            return sp
        if kind == "offset" and "b" in n:
            used = {(m["type"], m["b"], m["e"]) for m in nodes.values() if "b" in m}
            L = len(texts[n["view"]]) if texts[n["view"]] is not None else 6
            for cand in [(n["b"], n["e"] + 1), (n["b"] + 1, max(n["e"], n["b"] + 1)), (max(n["b"] - 1, 0), n["e"])]:
                if cand[1] <= L and cand != (n["b"], n["e"]) and (n["type"], cand[0], cand[1]) not in used:
                    n["b"], n["e"] = cand
                    return sp
        if kind == "ref" and n["refs"]:
            f = rng.choice(sorted(n["refs"]))
            if f == "next":
                continue
            cur = n["refs"][f]
            if "twin" in nodes[cur]:
                n["refs"][f] = nodes[cur]["twin"]
                return sp
            others = [a for a in anns if a != cur]
            if others:
                n["refs"][f] = rng.choice(others)
                return sp
        if kind == "array" and n["arrs"]:
            f = rng.choice(sorted(n["arrs"]))
            ak, els = n["arrs"][f]
            if ak in ("rs", "shared"):
                tw = [i for i, x in enumerate(els) if x is not None and "twin" in nodes[x]]
                if tw:
                    els = list(els)
                    els[tw[0]] = nodes[els[tw[0]]]["twin"]
                else:
                    els = list(els) + [anns[0]]
            elif ak == "is":
                els = list(els) + [9]
            elif ak == "ss":
                # changes that a naive joining of the elements would not show: an element split at ", ", an empty string added
                r_ = rng.random()
                if r_ < 0.35:
                    els = list(els) + [""]
                elif r_ < 0.7 and els:
                    els = [x for e_ in els for x in ((e_ + ", b") if e_ == els[0] and e_ is not None else e_,)]
                    els = els[:1] + ["b"] + els[1:] if rng.random() < 0.5 else els   # either "x, b" or "x","b" - both differ from the base
                else:
                    els = list(els) + ["more"]
            else:
                continue
            n["arrs"][f] = (ak, els)
            return sp
        if kind == "view" and "b" in n and len(sp["views"]) > 1:
            others = [v for v, t in sp["views"] if v != n["view"] and (len(t) if t is not None else 6) >= n["e"]]
            if others:
                n["view"] = rng.choice(others)
                return sp
        if kind == "indexed":
            # flip, keeping the structure reachable
            n["indexed"] = not n["indexed"]
            if k in reachable(sp) and any(m["indexed"] for m in nodes.values()):
                return sp
            n["indexed"] = not n["indexed"]
    return None


def py_cell(c):
    if c is None or isinstance(c, (str, bool, int)):
        return c
    if isinstance(c, list):
        return [py_cell(x) for x in c]
    if "f" in c:
        return float(c["f"])
    if "t" in c:
        return "".join(chr(x) for x in c["t"])
    raise ValueError(c)


def model_text(secs):
    out = io.StringIO()
    w = csv.writer(out, dialect=csv.unix_dialect)
    for s in secs:
        w.writerow([s["type"]])
        w.writerow(s["header"])
        for r in s["rows"]:
            w.writerow([py_cell(c) for c in r])
    return out.getvalue() or None


def canon_op(i, x, ops):
    if i < len(ops) and ops[i]["op"] == "cas.comparable" and isinstance(x, dict) and "ok" in x:
        v = x["ok"]
        if isinstance(v, list):
            return {"ok": {"text": model_text(v)}}
    return x


def sorted_ok(text):
    """rows of every section that carry offsets ascend by begin, then descend by end"""
    rows = list(csv.reader(io.StringIO(text or "")))
    i = 0
    while i < len(rows):
        if len(rows[i]) == 1 and i + 1 < len(rows) and rows[i + 1] and rows[i + 1][0] == "<ANCHOR>":
            hdr = rows[i + 1]
            j = i + 2
            keys = []
            while j < len(rows) and not (len(rows[j]) == 1 and j + 1 < len(rows) and rows[j + 1][:1] == ["<ANCHOR>"]):
                r = rows[j]
                if "begin" in hdr and len(r) == len(hdr):
                    b, e = r[hdr.index("begin")], r[hdr.index("end")]
                    if b != "<NULL>" and e != "<NULL>":
                        keys.append((int(b), -int(e)))
                j += 1
            if keys != sorted(keys):
                return False
            i = j
        else:
            i += 1
    return True


def run_nested(ctx, out, budget):
    ns = nested_sessions(ctx.rng(7), bud(budget, 40, 2000))
    impl = sessions.run_impl_sessions([x[0] for x in ns])
    model = sessions.run_model_sessions(ctx.driver, [x[0] for x in ns])
    for si, (ops, i0, depth) in enumerate(ns):
        sc = {"k": "session", "ops": ops, "variant": "nested"}
        out.evaluations += 1
        out.count("variant:nested/depth=%d" % depth)
        if "ok" not in impl[si][i0]:
            out.oracle_failures.append({"scenario": sc, "op_index": i0, "what": "cas_to_comparable_text raised", "actual": impl[si][i0]})
        if model is not None and model[si] is not None:
            # several array objects of one type without offsets: their order (and the anchor counters that follow it) is outside
            # the property's side condition; the CELLS - the nested renderings - are what this stream compares
            def canon_nested(i, x, ops=ops):
                x = canon_op(i, x, ops)
                if i == i0 and isinstance(x, dict) and isinstance(x.get("ok"), dict) and "text" in x["ok"]:
                    import re as _re
                    return {"ok": sorted(_re.sub(r'^"FSArray\*?(\(\d+\))?"', '"FSArray"', ln) for ln in x["ok"]["text"].split("\n"))}
                return x
            d = sessions.first_diff(impl[si], model[si], canon_nested)
            if d is not None:
                out.disagreements.append({"scenario": sc, "op_index": d, "op": ops[d] if d < len(ops) else None,
                                          "impl": impl[si][d] if d < len(impl[si]) else None,
                                          "model": canon_nested(d, model[si][d]) if d < len(model[si]) else None})


def run(ctx, out, budget):
    run_nested(ctx, out, budget)
    out.rule = ("CASes built from an abstract description satisfying the property's side condition (annotation types incl. equal short "
                "names in different packages and a feature named `type`, two record types, 1-3 views with astral text, references, "
                "inline and shared FSArrays with null elements, Integer/String arrays, FS lists, indexed and only-referenced structures). "
                "For each: the base build, >= 3 equal variants (explicit random ids; shuffled creation/set/add order; both; XMI reload; "
                "JSON reload) whose text must be identical, and one single-point mutation of each applicable kind {prim, offset, ref, "
                "array, view, indexed} whose text must differ; no call may raise; rows ordered by begin asc / end desc; every text is "
                "also produced by the Lean model (cells -> csv via the same stdlib writer). Non-trivial = distinct (CAS, variant) pairs.")
    rng = ctx.rng(0)
    n = bud(budget, 40, 5600)
    sess, metas = [], []
    for k in range(n):
        spec = gen_spec(rng, rng.randint(2, 8))
        variants = [("base", spec, False, False), ("ids", spec, True, False), ("order", spec, False, True), ("ids+order", spec, True, True)]
        for mk in MUTATIONS:
            m = mutate(spec, rng, mk)
            if m is not None:
                variants.append(("mut:" + mk, m, rng.random() < 0.5, rng.random() < 0.5))
        # an annotation removed from its view and added to another one must read like one created there
        mv = next((v for v in variants if v[0] == "mut:view"), None)
        if mv is not None:
            moved = [kk for kk in spec["nodes"] if spec["nodes"][kk]["view"] != mv[1]["nodes"][kk]["view"]]
            if len(moved) == 1 and spec["nodes"][moved[0]]["indexed"]:
                variants.append(("moved", spec, False, False, moved[0], mv[1]["nodes"][moved[0]]["view"]))
        cand = [kk for kk, nd in spec["nodes"].items() if nd["type"] in ("x.Ann", "x.sub.Ann")]
        if cand:
            variants.append(("late", spec, False, False))
        for var in variants:
            (tag, sp, ids, shuf) = var[:4]
            sb, h0 = build_ops(sp, rng, ids, shuf)
            ops = sb.ops
            if tag == "moved":
                kk, dest = var[4], var[5]
                ops.append({"op": "cas.remove", "h": sb.meta["vh"][sp["nodes"][kk]["view"]], "fs": sb.meta["label"][kk]})
                ops.append({"op": "cas.add", "h": sb.meta["vh"][dest], "fs": sb.meta["label"][kk]})
            late_ops = None
            if tag == "late":
                # render once, add a feature to a type, create one more structure that carries it.  The type is named after
                # the scenario: `Type.__eq__` is structural across type systems, so equally named types of other sessions run
                # by the same worker process could otherwise answer for it in any per-type cache
                tname = "x.Late%d" % k
                ops.append({"op": "ts.create_type", "ts": sb.meta["ts"], "name": tname, "super": "x.Ann"})
                used_be = {(nd.get("b"), nd.get("e")) for nd in sp["nodes"].values()}
                L = len(sp["views"][0][1])
                free = [(b, b) for b in range(L, -1, -1) if (b, b) not in used_be]
                be0, be1 = (free + [(0, 0), (0, 0)])[:2]
                lab0 = sb.fs_new(sb.meta["ts"], tname, {"begin": be0[0], "end": be0[1], "v": 3})
                ops.append({"op": "cas.add", "h": h0, "fs": lab0})
                ops.append({"op": "cas.comparable", "h": h0})
                ops.append({"op": "ts.create_feature", "ts": sb.meta["ts"], "domain": tname, "name": "late", "range": "uima.cas.Integer"})
                lab = sb.fs_new(sb.meta["ts"], tname, {"begin": be1[0], "end": be1[1], "late": 1})
                ops.append({"op": "cas.add", "h": h0, "fs": lab})
                late_ops = lab
            i0 = len(ops)
            ops.append({"op": "cas.comparable", "h": h0})
            extra = []
            if tag == "late":
                ops.append({"op": "fs.set", "fs": late_ops, "path": "late", "v": 2})
                ops.append({"op": "cas.comparable", "h": h0})
            if tag == "base":
                nh = sb.n_h
                has_null = any(kind in ("rs", "shared") and None in els for nd in spec["nodes"].values() for kind, els in nd["arrs"].values())
                if not has_null:      # a null FSArray element cannot be written as XMI (finding X3)
                    ops.append({"op": "cas.reload", "h": h0, "fmt": "xmi"})
                    ops.append({"op": "cas.comparable", "h": nh})
                    extra.append((len(ops) - 1, "XMI"))
                    nh += 1
                ops.append({"op": "cas.reload", "h": h0, "fmt": "json"})
                ops.append({"op": "cas.comparable", "h": nh})
                extra.append((len(ops) - 1, "JSON"))
                ops.append({"op": "cas.comparable", "h": h0, "mark_indexed": False, "covered_text": False})
                ops.append({"op": "cas.comparable", "h": h0, "exclude": ["x.Ann", "uima.cas.FSArray"]})
            sess.append(ops)
            metas.append((k, tag, i0, extra))
    impl = sessions.run_impl_sessions(sess)
    model = sessions.run_model_sessions(ctx.driver, sess)
    base_text = {}
    for si, (k, tag, i0, extra) in enumerate(metas):
        io_ = impl[si]
        ops = sess[si]
        sc = {"k": "session", "ops": ops, "variant": tag}
        out.evaluations += 1
        out.count("variant:" + tag)
        if model is not None and model[si] is not None:
            d = sessions.first_diff(io_, model[si], lambda i, x: canon_op(i, x, ops))
            if d is not None:
                out.disagreements.append({"scenario": sc, "op_index": d, "op": ops[d] if d < len(ops) else None,
                                          "impl": io_[d] if d < len(io_) else None,
                                          "model": canon_op(d, model[si][d], ops) if d < len(model[si]) else None})
        got = io_[i0]
        if "ok" not in got:
            out.oracle_failures.append({"scenario": sc, "op_index": i0, "what": "cas_to_comparable_text raised", "actual": got})
            continue
        text = got["ok"]["text"]
        if not sorted_ok(text):
            out.oracle_failures.append({"scenario": sc, "op_index": i0, "what": "rows are not ordered by begin ascending / end descending", "actual": text})
        for j in range(i0 + 1, len(ops)):
            if ops[j]["op"] == "cas.comparable" and "ok" not in io_[j]:
                out.oracle_failures.append({"scenario": sc, "op_index": j, "what": "cas_to_comparable_text raised", "actual": io_[j]})
        if tag == "base":
            base_text[k] = (text, sc)
            for j, what in extra:
                r = io_[j]
                if "ok" in r and r["ok"]["text"] != text:
                    out.oracle_failures.append({"scenario": sc, "op_index": j, "what": "text differs after a %s save/load round trip" % what,
                                                "expected": text, "actual": r["ok"]["text"]})
                out.nontriv((k, "rt", what))
        elif tag == "moved":
            ref_text = next((impl[sj][metas[sj][2]] for sj in range(len(metas)) if metas[sj][0] == k and metas[sj][1] == "mut:view"), None)
            if ref_text is not None and "ok" in ref_text and ref_text["ok"]["text"] != text:
                out.oracle_failures.append({"scenario": sc, "op_index": i0, "what": "an annotation moved to another view (remove + add) reads differently from one created in that view",
                                            "expected": ref_text["ok"]["text"], "actual": text})
            out.nontriv((k, tag))
        elif tag == "late":
            t2 = io_[i0 + 2]
            if '"late"' not in (text or ""):
                out.oracle_failures.append({"scenario": sc, "op_index": i0, "what": "a feature added to the type after an earlier rendering is missing from the table", "actual": text})
            elif "ok" in t2 and t2["ok"]["text"] == text:
                out.oracle_failures.append({"scenario": sc, "op_index": i0 + 2, "what": "a prim mutation of a feature added after an earlier rendering does not change the text", "actual": text})
            out.nontriv((k, tag))
        elif tag.startswith("mut:"):
            if k in base_text and text == base_text[k][0]:
                out.oracle_failures.append({"scenario": sc, "op_index": i0, "what": "a %s mutation does not change the text" % tag[4:],
                                            "base_ops": base_text[k][1]["ops"], "actual": text})
            out.nontriv((k, tag))
        else:
            if k in base_text and text != base_text[k][0]:
                out.oracle_failures.append({"scenario": sc, "op_index": i0, "what": "text differs for a variant that differs only in %s" % tag,
                                            "base_ops": base_text[k][1]["ops"], "expected": base_text[k][0], "actual": text})
            out.nontriv((k, tag))
        if si < 2:
            out.sample({"variant": tag, "text_head": (text or "")[:300]})


def nested_sessions(rng, n):
    """small heaps with deeply nested FSArrays (arrays of arrays, also holding annotations, null, themselves): the rendering
    recurses through them; the model's recursion budget must never be what decides (Python's only limit is its recursion depth)"""
    out = []
    for k in range(n):
        sb = SB()
        ts = sb.ts_new()
        sb.create_type(ts, "x.Doc", "uima.tcas.Annotation")
        sb.create_feature(ts, "x.Doc", "fsa", "uima.cas.FSArray", multi=rng.choice([None, True]))
        h = sb.cas_new(ts, text="abcdef")
        depth = rng.randint(1, 6)
        anns = [sb.fs_new(ts, "x.Doc", {"begin": i, "end": i + 1}) for i in range(rng.randint(1, 2))]
        cur = sb.fs_new(ts, "uima.cas.FSArray", {"elements": {"rs": [rng.choice(anns + [None]) for _ in range(rng.randint(0, 2))]}})
        for _ in range(depth):
            elems = [cur] + [rng.choice(anns + [None]) for _ in range(rng.randint(0, 1))]
            rng.shuffle(elems)
            cur = sb.fs_new(ts, "uima.cas.FSArray", {"elements": {"rs": elems}})
        sb.op(op="fs.set", fs=anns[0], path="fsa", v={"r": cur})
        for a in anns:
            sb.op(op="cas.add", h=h, fs=a)
        if rng.random() < 0.5:
            sb.op(op="cas.add", h=h, fs=cur)
        i0 = sb.op(op="cas.comparable", h=h)
        out.append((sb.ops, i0, depth))
    return out


def replay(ctx, payload):
    fl = payload.get("failure") or {}
    sc = fl["scenario"]
    ops = sc["ops"]
    io_ = sessions.run_impl_sessions([ops])[0]
    comps = [i for i, o in enumerate(ops) if o["op"] == "cas.comparable"]
    if any("ok" not in io_[i] for i in comps):
        return True
    text = io_[comps[0]]["ok"]["text"]
    if not sorted_ok(text):
        return True
    tag = sc.get("variant", "")
    if tag == "late":
        t1, t2 = io_[comps[-2]]["ok"]["text"], io_[comps[-1]]["ok"]["text"]
        return '"late"' not in (t1 or "") or t1 == t2
    if tag == "moved":
        return fl.get("expected") is not None and io_[comps[-1]]["ok"]["text"] != fl["expected"]
    if tag == "base":
        return any(io_[i]["ok"]["text"] != text for i in comps[1:] if ops[i - 1]["op"] == "cas.reload")
    if fl.get("base_ops"):
        b = sessions.run_impl_sessions([fl["base_ops"]])[0]
        bi = [i for i, o in enumerate(fl["base_ops"]) if o["op"] == "cas.comparable"][0]
        if "ok" not in b[bi]:
            return True
        same = b[bi]["ok"]["text"] == text
        return same if tag.startswith("mut:") else not same
    return False


# ---- recorded findings (witnesses through the public API; the generators stay outside these regions: view names never end in ')',
# ---- references to array objects are compared by content only) ----
def _n1_witness():
    from cassis import Cas, TypeSystem
    from cassis.util import cas_to_comparable_text

    def build_view(view_of_y):
        ts = TypeSystem(); A = ts.create_type("a.T"); B = ts.create_type("b.T")
        cas = Cas(typesystem=ts)
        v = cas.create_view("V"); v.sofa_string = "abcd"
        w = cas.create_view("V(1)"); w.sofa_string = "abcd"
        v.add(A(begin=0, end=1)); (v if view_of_y == "V" else w).add(B(begin=0, end=1))
        return cas

    def build_ref(target):
        ts = TypeSystem()
        A = ts.create_type("a.T"); B = ts.create_type("b.T"); C = ts.create_type("c.T")
        H = ts.create_type("d.H"); ts.create_feature(H, "r", "uima.tcas.Annotation")
        cas = Cas(typesystem=ts)
        v = cas.create_view("V"); v.sofa_string = "abcd"
        w = cas.create_view("V(1)"); w.sofa_string = "abcd"
        x = A(begin=0, end=1); v.add(x); y = B(begin=0, end=1); v.add(y); z = C(begin=0, end=1); w.add(z)
        v.add(H(begin=2, end=3, r={"y": y, "z": z}[target]))
        return cas

    return (cas_to_comparable_text(build_view("V")) == cas_to_comparable_text(build_view("V(1)"))
            and cas_to_comparable_text(build_ref("y")) == cas_to_comparable_text(build_ref("z")))


def _n2_witness():
    from cassis import Cas, TypeSystem
    from cassis.util import cas_to_comparable_text

    def build_arr(target):
        ts = TypeSystem(); H = ts.create_type("d.H"); ts.create_feature(H, "t", "uima.cas.TOP")
        IA = ts.get_type("uima.cas.IntegerArray"); LA = ts.get_type("uima.cas.LongArray")
        cas = Cas(typesystem=ts); cas.sofa_string = "abcd"
        ia = IA(elements=[1, 2]); la = LA(elements=[1, 2]); cas.add(ia); cas.add(la)
        cas.add(H(begin=2, end=3, t={"ia": ia, "la": la}[target]))
        return cas

    return cas_to_comparable_text(build_arr("ia")) == cas_to_comparable_text(build_arr("la"))


def run_witness(ctx, finding):
    import warnings
    with warnings.catch_warnings():
        warnings.simplefilter("ignore")
        try:
            if finding["id"] == "N1-anchor-counter-ambiguous":
                return _n1_witness()
            if finding["id"] == "N2-array-reference-by-content":
                return _n2_witness()
        except Exception:
            return False
    return False
