"""C05 — Loading depends on what a document says, not on how it is laid out."""
from harness import casgen, common, refio, sessions
from harness.common import bud
from harness.props import c01

PROP = "C05"
MODULES = ["CassisModel.Properties.C05", "CassisModel.Properties.C01", "CassisModel.Properties.C05Perm", "CassisModel.Properties.C05PermJson", "CassisModel.Properties.C05PermJsonColl", "CassisModel.Properties.C05PermColl"]
THEOREMS = [
    "Cassis.Xmi.xmi_load_perm_coll",
    "Cassis.Json.json_load_perm_flat",
    "Cassis.Json.json_load_perm_coll",
    "Cassis.Xmi.xmi_load_perm_flat",
    "Cassis.Xmi.lookupFs_perm",
    "Cassis.Xmi.resolveIds_perm",
    "Cassis.Xmi.pass1_sofas_perm",
    "Cassis.Xmi.resolveIds_showIds",
    "Cassis.Json.toposort_sound",
    "Cassis.Json.lookup_perm",
]
ASSUMPTIONS = [
    "proved end to end on the model (XMI, flat fragment): every permutation of the elements of a written document loads, and loads to the same structures, ids, types, feature contents, views (initial view first) and generator values (xmi_load_perm_flat); reference resolution in both loaders depends only on the id-keyed map of the parsed structures; embedded types are created supertypes first whatever the declaration order",
    "proved: permutation invariance of loading for XMI and JSON, flat fragment and whole format (xmi_load_perm_*, json_load_perm_*); NOT proved: the id-keyed JSON form and the text-level layout dimensions (checked per run: every layout of a document must load to the same canonical dump, equal to an independent reading of the document and to the model's loader) (partial)",
    "namespace prefixes, attribute order, whitespace/pretty printing, escaping and JSON member order do not exist in the abstract documents of the model: they are lxml's/json's business and are exercised through the independent writer only",
    "JSON documents in the id-keyed object form with a sofa byte array (finding J7) are outside the generators",
]


def perm(doc_list, order):
    return [doc_list[i] for i in order]


def run(ctx, out, budget):
    out.rule = ("documents written by the library for the CASes of C01/C02 are re-written by an independent writer under >= 5 random "
                "layouts each (element permutation incl. forward references and sofas last, prefix names, attribute order, "
                "pretty/compact, omission of empty views; JSON: FS order, id-keyed object form, type order, views first, pretty, "
                "ensure_ascii) and loaded; all layouts must give the same canonical dump, equal to the independent reading of the "
                "document. Java-style float literals are substituted in one layout. Non-trivial = distinct (document, layout) pairs "
                "whose element order differs from the original.")
    rng = ctx.rng(0)
    n = bud(budget, 60, 4800)
    nlay = bud(budget, 5, 8)
    cases = [casgen.CasGen(rng, n_types=rng.randint(1, 5), n_fs=rng.randint(1, 10), xmi_safe=(kk % 4 != 3)).build() for kk in range(n)]
    stage_a = []
    for g in cases:
        h0 = g.views["_InitialView"]
        if g.xmi_safe:
            stage_a.append(list(g.sb.ops) + [{"op": "xmi.save", "h": h0}, {"op": "json.save", "h": h0, "mode": "full"}])
        else:   # null FSArray elements etc.: JSON layouts only
            stage_a.append(list(g.sb.ops) + [{"op": "cas.views", "h": h0}, {"op": "json.save", "h": h0, "mode": "full"}])
    ia = sessions.run_impl_sessions(stage_a)
    stage_b, metas = [], []
    index_q = {}
    for g, ops, io in zip(cases, stage_a, ia):
        xdoc, jdoc = io[-2].get("ok"), io[-1].get("ok")
        if not g.xmi_safe and jdoc is not None:
            xdoc = []
        if xdoc is None or jdoc is None:
            stage_b.append(None); metas.append(None)
            continue
        ops2 = list(ops)
        meta = []
        nh = g.sb.n_h
        for li in range(nlay if g.xmi_safe else 0):
            lay = refio.random_layout(rng, len(xdoc))
            d = perm(xdoc, lay["order"]) if lay["order"] is not None else list(xdoc)
            if lay["drop_empty_views"]:
                d = [e for e in d if not (e["ty"] == "uima.cas.View" and not dict(map(tuple, e["attrs"])).get("members", "").strip())]
            lay2 = {k: v for k, v in lay.items() if k not in ("order", "drop_empty_views")}
            if li == 1:
                d = java_floats(d, g.tsinfo())
            ops2.append({"op": "xmi.load", "ts": g.ts, "doc": d, "layout": lay2})
            ops2.append({"op": "cas.dump", "h": nh})
            meta.append(("xmi", len(ops2) - 1, lay["order"] is not None))
            if li == 0:
                # the index of the loaded view is keyed by the loaded (code-point) offsets: containment queries agree with the
                # definition applied to what select returns
                q0 = len(ops2)
                ops2.append({"op": "cas.select", "h": nh, "type": "uima.tcas.Annotation", "by": "name"})
                for e_ in (2, 5, 9, 14):
                    ops2.append({"op": "cas.select_covered", "h": nh, "type": "uima.tcas.Annotation", "by": "name", "b": 0, "e": e_})
                index_q.setdefault(len(stage_b), []).append(q0)
            nh += 1
        for li in range(nlay):
            order = rng.sample(range(len(jdoc["fss"])), len(jdoc["fss"])) if rng.random() < 0.8 else None
            d = dict(jdoc)
            if order is not None:
                d["fss"] = perm(jdoc["fss"], order)
            if d.get("types") and rng.random() < 0.7:
                d["types"] = perm(d["types"], rng.sample(range(len(d["types"])), len(d["types"])))
            lay2 = {"dict_form": rng.random() < 0.4, "pretty": rng.random() < 0.5, "ensure_ascii": rng.random() < 0.5,
                    "views_first": rng.random() < 0.5}
            ops2.append({"op": "json.load", "doc": d, "layout": lay2})
            ops2.append({"op": "cas.dump", "h": nh, "fine": not g.xmi_safe})
            meta.append(("json", len(ops2) - 1, order is not None))
            nh += 1
        stage_b.append(ops2); metas.append(meta)
    idx = [i for i, o in enumerate(stage_b) if o is not None]
    ib = dict(zip(idx, sessions.run_impl_sessions([stage_b[i] for i in idx])))
    mb = sessions.run_model_sessions(ctx.driver, [stage_b[i] for i in idx])
    mb = dict(zip(idx, mb)) if mb is not None else None
    for k, (g, ops, io) in enumerate(zip(cases, stage_a, ia)):
        if stage_b[k] is None:
            out.oracle_failures.append({"scenario": {"k": "session", "ops": ops}, "what": "serialisation raised", "actual": [io[-2], io[-1]]})
            continue
        ops2, io2, meta = stage_b[k], ib[k], metas[k]
        sc2 = {"k": "session", "ops": ops2}
        info = g.tsinfo()
        if g.xmi_safe:
            said = c01.norm_dump(refio.xmi_to_dump(io[-2]["ok"], info))
        else:
            said = c01.norm_dump(refio.json_to_dump(io[-1]["ok"], info))
        for fmt, di, permuted in meta:
            out.evaluations += 1
            got = io2[di]
            load_r = io2[di - 1]
            if "ok" not in load_r or "ok" not in got:
                out.oracle_failures.append({"scenario": sc2, "op_index": di - 1, "what": fmt + ": a re-laid-out document could not be loaded",
                                            "actual": [load_r, got], "layout": ops2[di - 1].get("layout")})
                break
            if common.canon(c01.norm_dump(got["ok"])) != common.canon(said):
                out.oracle_failures.append({"scenario": sc2, "op_index": di, "what": fmt + ": loaded content differs from what the document says / from other layouts",
                                            "expected": said, "actual": c01.norm_dump(got["ok"]), "layout": ops2[di - 1].get("layout")})
                break
            if permuted:
                out.nontriv((k, di))
            out.count("layout:" + fmt)
        for q0 in index_q.get(k, []):
            sel = io2[q0]
            if "ok" in sel:
                alls = [(e_[0], e_[1]) for e_ in sel["ok"]]
                for j_, e_ in enumerate((2, 5, 9, 14)):
                    cov = io2[q0 + 1 + j_]
                    want = sorted(x for x in alls if 0 <= x[0] and x[1] <= e_)
                    if "ok" not in cov or sorted((c_[0], c_[1]) for c_ in cov["ok"]) != want:
                        out.oracle_failures.append({"scenario": sc2, "op_index": q0 + 1 + j_, "what": "select_covered on the loaded CAS differs from the containment definition applied to the loaded offsets",
                                                    "expected": want, "actual": cov})
                        break
        if mb is not None and mb[k] is not None:
            def canon5(i, x, ops2=ops2):
                if i < len(ops2) and ops2[i]["op"] in ("cas.select", "cas.select_covered") and isinstance(x, dict) and isinstance(x.get("ok"), list):
                    return {"ok": sorted([e_[0], e_[1]] for e_ in x["ok"])}     # loaded structures carry no generator label
                return c04_canon(i, x, ops2)
            d = sessions.first_diff(io2, mb[k], canon5)
            if d is not None:
                out.disagreements.append({"scenario": sc2, "op_index": d, "op": {kk: vv for kk, vv in ops2[d].items() if kk != "doc"} if d < len(ops2) else None,
                                          "impl": io2[d] if d < len(io2) else None, "model": mb[k][d] if d < len(mb[k]) else None})
        if k < 1:
            out.sample({"layouts": [ops2[di - 1].get("layout") for _f, di, _p in meta][:4]})


def canon_floats(x):
    """float tokens are opaque in the model: compare them as the doubles they denote"""
    if isinstance(x, dict):
        if set(x) == {"f"} and isinstance(x["f"], str):
            try:
                return {"f": refio._ftok(float(x["f"]))}
            except ValueError:
                return x
        return {k: canon_floats(v) for k, v in x.items()}
    if isinstance(x, list):
        return [canon_floats(v) for v in x]
    return x


def c04_canon(i, x, ops):
    if i < len(ops) and isinstance(x, dict) and "ok" in x and ops[i]["op"] == "cas.dump":
        return {"ok": canon_floats(x["ok"])}
    if i < len(ops) and isinstance(x, dict) and "ok" in x:
        if ops[i]["op"] == "xmi.save":
            return {"ok": refio.canon_doc(x["ok"])}
        if ops[i]["op"] == "json.save":
            return {"ok": refio.canon_jdoc(x["ok"])}
    return x


def java_floats(doc, info):
    """Java prints 1.0E-5 where Python prints 1E-05: both literals denote the same double.  Only attributes of
    Float/Double features are rewritten (a hex byte array such as 8E01 looks like a float literal, too)."""
    import re

    def float_feats(ty):
        names = set()
        while ty in info:
            for sp in info[ty]["feats"].values():
                if sp.get("kind") == "prim" and sp.get("range") in ("uima.cas.Double", "uima.cas.Float"):
                    names.add(sp.get("xml"))
            ty = info[ty]["super"]
        return names
    out = []
    for e in doc:
        ff = float_feats(e["ty"])
        attrs = []
        for k, v in e["attrs"]:
            if k in ff and re.fullmatch(r"-?\d(\.\d+)?E-?\d+", v or ""):
                m, ex = v.split("E")
                if "." not in m:
                    m += ".0"
                v = m + "E" + str(int(ex))
            attrs.append([k, v])
        out.append({"ty": e["ty"], "attrs": attrs, "kids": e["kids"]})
    return out


def replay(ctx, payload):
    fl = payload.get("failure") or {}
    ops = fl["scenario"]["ops"]
    io = sessions.run_impl_sessions([ops])[0]
    dumps = [io[i] for i, o in enumerate(ops) if o["op"] == "cas.dump"]
    if any("ok" not in d for d in dumps):
        return True
    cs = {common.canon(c01.norm_dump(d["ok"])) for d in dumps}
    return len(cs) > 1
