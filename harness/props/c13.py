"""C13 — merge_typesystems follows the UIMA merge rules, is order-independent and pure."""
import itertools
import json

from harness import sessions
from harness.common import bud
from harness.sessions import SB

PROP = "C13"
MODULES = ["CassisModel.Properties.C13", "CassisModel.Properties.C13Self", "CassisModel.Properties.C13Perm", "CassisModel.Properties.C13FeatInv", "CassisModel.Properties.C13PermSub"]
THEOREMS = [
    "Cassis.TS.merge_featInv",
    "Cassis.TS.merge_effective_features",
    "Cassis.TS.reparent_featInv",
    "Cassis.TS.merge_perm_subtree_compete",
    "Cassis.TS.merge_perm_subtree_compete_inputs",
    "Cassis.TS.merge_perm_one_super",
    "Cassis.TS.merge_perm_leaf_compete",
    "Cassis.TS.merge_grouping",
    "Cassis.TS.merge_consistent",
    "Cassis.TS.merge_contains_all",
    "Cassis.TS.merge_terminates",
    "Cassis.TS.processDecl_new",
    "Cassis.TS.reparent_contradictory_error",
    "Cassis.TS.processDecl_incomparable_error",
    "Cassis.TS.processDecl_same_super",
    "Cassis.TS.reparent_super",
    "Cassis.TS.merge_empty",
    "Cassis.TS.merge_single_same",
    "Cassis.TS.merge_self_same",
    "Cassis.TS.merge_empty_same",
]
ASSUMPTIONS = [
    "order independence is proved whenever no competing supertype of a name, nor any declared ancestor of one, has competing supertypes itself (StableCompete: merge_perm_subtree_compete, which subsumes merge_perm_one_super and merge_perm_leaf_compete) - the property's own side condition; grouping independence holds by construction of the model (merge works on the concatenated declarations; merge_grouping); every merge result satisfies the C10/C11 invariants (merge_featInv); outside StableCompete lies finding M6",
    "the registry order of the merged type system is not part of the model's contract (re-parented subtrees are moved to the end of the list); merged type systems are compared as name-keyed maps",
    "purity (inputs unmodified, no input object reachable from the result) is observed on the implementation: inputs are dumped before and after, and an object-identity walk is run on the result; in the functional model it holds by construction",
    "declarations of one feature that differ only in description or multiple-references flag are outside the claim",
]

NAMES = ["x.A", "x.B", "x.C"]
BUILTIN_SUPERS = ["uima.tcas.Annotation", "uima.cas.TOP"]
FEATVARS = [None, ("f", "uima.cas.Integer", None), ("f", "uima.cas.String", None)]


def candidate_typesystems(names=NAMES, featvars=FEATVARS):
    """all type systems over a subset of `names`: each declared type gets a supertype among the built-ins and
    the other declared names (no cycles inside one type system) and one feature variant"""
    out = []
    for k in range(0, len(names) + 1):
        for subset in itertools.combinations(names, k):
            sup_choices = [BUILTIN_SUPERS + [m for m in subset if m != n] for n in subset]
            for sups in itertools.product(*sup_choices):
                par = dict(zip(subset, sups))
                # acyclic inside one type system
                ok = True
                for n in subset:
                    seen, cur = set(), n
                    while cur in par:
                        if cur in seen:
                            ok = False
                            break
                        seen.add(cur)
                        cur = par[cur]
                    if not ok:
                        break
                if not ok:
                    continue
                for fv in itertools.product(featvars, repeat=len(subset)):
                    tsd = {"types": [(n, par[n]) for n in subset], "feats": {n: f for n, f in zip(subset, fv) if f}}
                    if internally_consistent(tsd):
                        out.append(tsd)
    return out


def internally_consistent(tsd):
    """no feature is declared with two different ranges on one chain inside this type system (such a type
    system cannot be built through the API)"""
    par = dict(tsd["types"])
    for n in par:
        seen = {}
        cur = n
        while cur in par:
            f = tsd["feats"].get(cur)
            if f is not None:
                if f[0] in seen and seen[f[0]][1:] != f[1:]:
                    return False
                seen.setdefault(f[0], f)
            cur = par[cur]
    return True


def creation_order(tsd):
    """declare supertypes first"""
    par = dict(tsd["types"])
    done, order = set(), []
    while len(order) < len(par):
        for n, s in tsd["types"]:
            if n not in done and (s not in par or s in done):
                order.append(n); done.add(n)
    return order


def build_session(tsds, merges):
    """tsds: list of type system descriptions; merges: list of lists of indices (into the tss built so far,
    merged results are appended) -- returns ops and the index of the dump ops"""
    sb = SB()
    for tsd in tsds:
        ts = sb.ts_new()
        par = dict(tsd["types"])
        for n in creation_order(tsd):
            sb.create_type(ts, n, par[n])
        for n, f in tsd["feats"].items():
            sb.create_feature(ts, n, f[0], f[1], elem=f[2])
    sb.ts_new()   # an empty type system (index len(tsds)) for the "merging with an empty type system" clause
    before = []
    for i in range(len(tsds)):
        before.append(len(sb.ops)); sb.query(i, "dump")
    results = []
    for m in merges:
        i = len(sb.ops)
        sb.ops.append({"op": "ts.merge", "inputs": m})
        results.append(i)
    return sb, before, results


def spec_merge(tsds):
    """independent reading of the UIMA merge rules. Returns ("error",) / ("ok", parents, feats) /
    ("unspecified",) when the competing supertypes of some type are not declared identically in all inputs"""
    decl = {}   # name -> set of declared supers
    fdecl = {}  # name -> set of feature variants
    for tsd in tsds:
        for n, s in tsd["types"]:
            decl.setdefault(n, set()).add(s)
        for n, f in tsd["feats"].items():
            fdecl.setdefault(n, set()).add(f)
    # precondition of the order-independence clause
    for n, sups in decl.items():
        if len(sups) > 1:
            for s in sups:
                if s in decl:
                    # s must be declared identically wherever it is declared, and declared in every input
                    ds = [dict(t["types"]).get(s) for t in tsds]
                    if len(set(ds)) != 1 or ds[0] is None:
                        return ("unspecified",)
    # all declared edges
    edges = {n: set(s) for n, s in decl.items()}

    def anc(n, seen=None):
        seen = seen or set()
        out = set()
        for s in edges.get(n, ()):  # built-ins: Annotation < AnnotationBase < TOP
            out.add(s)
            if s in seen:
                return None
            r = anc(s, seen | {n})
            if r is None:
                return None
            out |= r
        if n == "uima.tcas.Annotation":
            out |= {"uima.cas.AnnotationBase", "uima.cas.TOP"}
        if n in ("uima.cas.AnnotationBase",):
            out.add("uima.cas.TOP")
        return out
    closure = {}
    for n in decl:
        a = anc(n)
        if a is None or n in a:
            return ("error",)   # contradictory: each below the other
        closure[n] = a
    parents = {}
    for n, sups in decl.items():
        sups = list(sups)
        best = None
        for s in sups:
            sa = (closure.get(s) or anc(s) or set()) | {s}
            if all(o in sa for o in sups):
                best = s
        if best is None:
            return ("error",)   # incomparable supertypes
        parents[n] = best
    # features along final chains
    def chain(n):
        out = [n]
        while out[-1] in parents:
            out.append(parents[out[-1]])
        return out
    for n in decl:
        seen = {}
        for m in chain(n):
            for f in fdecl.get(m, ()):
                if f[0] in seen and (seen[f[0]][1] != f[1] or (seen[f[0]][2] or "uima.cas.TOP") != (f[2] or "uima.cas.TOP")):
                    return ("error",)
                seen.setdefault(f[0], f)
    feats = {n: sorted({f[0] for m in chain(n) for f in fdecl.get(m, ())}) for n in decl}
    return ("ok", parents, feats)


def pending_ancestor_region(tsds):
    """finding M6: a type is declared with different supertypes and comparing them hinges on the
    re-parenting of an *ancestor* of one of the competing supertypes (that ancestor is itself declared
    with different supertypes, or is missing from some input)"""
    decl = {}
    for tsd in tsds:
        for n, s_ in tsd["types"]:
            decl.setdefault(n, set()).add(s_)
    def unstable(n):
        ds = [dict(t["types"]).get(n) for t in tsds]
        return len(set(ds)) != 1
    for n, sups in decl.items():
        if len(sups) < 2:
            continue
        for s_ in sups:
            seen, todo = set(), [s_]
            while todo:
                c = todo.pop()
                if c in seen or c not in decl:
                    continue
                seen.add(c)
                if c != s_ and unstable(c):
                    return True
                todo.extend(decl[c])
    return False


def canon_dump(d, names):
    return {n: {"super": d[n]["super"], "eff": [e for e in d[n]["eff"]]} for n in names if n in d}


def evaluate_group(ctx, out, tsds, tag, exhaustive_perms=True):
    """one tuple of type systems: all permutations and groupings through impl and model"""
    k = len(tsds)
    idx = list(range(k))
    perms = list(itertools.permutations(idx)) if exhaustive_perms else [tuple(idx), tuple(reversed(idx))]
    merges = [list(p) for p in perms]
    sb, before, results = build_session(tsds, merges)
    base = len(tsds) + 1
    empty = len(tsds)
    # Re-merging a result (alone, with itself, with an empty type system in either order) and groupings
    # (merge(merge(a,b),c), merge(a,merge(b,c)) through already merged results).  The indices below are those the results get
    # when every earlier merge of the session succeeded (a failed merge allocates no type system); they are only looked at then.
    P = len(merges)
    r0 = base
    extra = [("again-alone", [r0]), ("again-self", [r0, r0]), ("again-empty", [r0, empty]), ("empty-again", [empty, r0])]
    nx = base + P + len(extra)
    if k >= 2:
        extra.append(("inner-left", idx[:-1])); extra.append(("outer-left", [nx, idx[-1]])); nx += 2
        extra.append(("inner-right", idx[1:])); extra.append(("outer-right", [idx[0], nx])); nx += 2
    group_ops = []
    for tag_, inputs in extra:
        group_ops.append((tag_, len(sb.ops))); sb.ops.append({"op": "ts.merge", "inputs": inputs})
    dump_ops = []
    n_results = len(merges) + len(group_ops)
    for r in range(n_results):
        dump_ops.append(len(sb.ops)); sb.query(base + r, "dump")
        sb.query(base + r, "identity")
    after = []
    pure_ops = []
    for i in range(k):
        after.append(len(sb.ops)); sb.query(i, "dump")
        pure_ops.append(len(sb.ops)); sb.query(i, "identity")
        pure_ops.append(len(sb.ops)); sb.query(i, "disjoint")
    return sb.ops, {"before": before, "after": after, "results": results, "dumps": dump_ops, "perms": perms, "tsds": tsds, "tag": tag,
                    "pure_ops": pure_ops, "group_ops": group_ops}


def check_group(out, ops, meta, io, mo):
    sc = {"k": "session", "ops": ops}
    tsds = meta["tsds"]
    names = sorted({n for t in tsds for n, _ in t["types"]})
    # result index bookkeeping: a failed merge allocates no type system, so later indices shift
    ok_count = 0
    outcomes = []
    for ri in meta["results"]:
        got = io[ri]
        outcomes.append("ok" if "ok" in got else got.get("err"))
    spec = spec_merge(tsds)
    out.evaluations += len(outcomes)
    out.count("spec:" + spec[0])
    # which order-independence theorem speaks about this tuple (hypotheses of merge_perm_one_super / merge_perm_leaf_compete)
    sups = {}
    for t in tsds:
        for n_, s_ in t["types"]:
            sups.setdefault(n_, set()).add(s_)
    competing = [n_ for n_, ss in sups.items() if len(ss) > 1]
    declared_supers = {s_ for ss in sups.values() for s_ in ss}
    if not competing:
        out.count("order-theorem:merge_perm_one_super")
    elif not any(n_ in declared_supers for n_ in competing):
        out.count("order-theorem:merge_perm_leaf_compete")
    else:
        # StableCompete: no competing supertype of a name, and no declared ancestor of one, has competing supertypes itself
        def anc_or_self(x, seen=None):
            seen = seen if seen is not None else set()
            if x in seen:
                return seen
            seen.add(x)
            for s2 in sups.get(x, ()):
                anc_or_self(s2, seen)
            return seen
        stable = all(a not in competing for n_ in competing for s_ in sups[n_] for a in anc_or_self(s_))
        out.count("order-theorem:merge_perm_subtree_compete" if stable else "order-theorem:none (a competing supertype or one of its ancestors has competing supertypes itself: region of M6)")
    # 1. success/failure independent of the order (when the clause applies) and as specified
    if spec[0] != "unspecified":
        want = "ok" if spec[0] == "ok" else "ValueError"
        for p, oc in zip(meta["perms"], outcomes):
            if oc != want:
                out.oracle_failures.append({"scenario": sc, "tsds": tsds, "what": "merge outcome differs from the merge rules",
                                            "perm": list(p), "expected": want, "actual": oc})
                return
    else:
        if any(o not in ("ok", "ValueError") for o in outcomes):
            out.oracle_failures.append({"scenario": sc, "tsds": tsds, "what": "merge raised something else than ValueError", "actual": outcomes})
            return
    # 2. result content
    if all(o == "ok" for o in outcomes):
        dumps = []
        for di in meta["dumps"][: len(outcomes)]:
            d = io[di].get("ok")
            ident = io[di + 1].get("ok")
            if d is None:
                out.oracle_failures.append({"scenario": sc, "tsds": tsds, "what": "dump of merged type system failed", "actual": io[di]})
                return
            if ident is not True:
                out.oracle_failures.append({"scenario": sc, "tsds": tsds, "what": "the merged type system references Type objects that are not its own registered types"})
                return
            dumps.append(canon_dump(d, names))
            # contains every declared type, tree consistency of the dump
            for n in names:
                if n not in d:
                    out.oracle_failures.append({"scenario": sc, "tsds": tsds, "what": "declared type missing from the merge result", "type": n})
                    return
            for n, rec in d.items():
                if rec["super"] is not None and n not in d[rec["super"]]["children"]:
                    out.oracle_failures.append({"scenario": sc, "tsds": tsds, "what": "merged type is not among the children of its supertype", "type": n})
                    return
                for c in rec["children"]:
                    if d[c]["super"] != n:
                        out.oracle_failures.append({"scenario": sc, "tsds": tsds, "what": "merged type lists a child whose supertype is another type", "type": n, "child": c})
                        return
                if rec["super"] is not None:
                    sup_eff = {e[0] for e in d[rec["super"]]["eff"]}
                    own = {f["name"] for f in rec["own"]}
                    if {e[0] for e in rec["eff"]} != sup_eff | own:
                        out.oracle_failures.append({"scenario": sc, "tsds": tsds, "what": "effective features of a merged type are not own + supertype's", "type": n})
                        return
        if spec[0] == "ok":
            for p, dmp in zip(meta["perms"], dumps):
                for n in names:
                    if dmp[n]["super"] != spec[1][n] or not set(spec[2][n]) <= {e[0] for e in dmp[n]["eff"]}:
                        out.oracle_failures.append({"scenario": sc, "tsds": tsds, "what": "merged supertype/features differ from the merge rules",
                                                    "type": n, "perm": list(p), "expected": [spec[1][n], spec[2][n]], "actual": dmp[n]})
                        return
            if any(dmp != dumps[0] for dmp in dumps):
                out.oracle_failures.append({"scenario": sc, "tsds": tsds, "what": "merge result depends on the argument order"})
                return
            if any(len(set(dict(t["types"]).get(n) for t in tsds if n in dict(t["types"]))) > 1 for n in names):
                out.nontriv(json.dumps(tsds, sort_keys=True))
        # 2b. merging a result again (alone, with itself, with an empty type system) changes nothing; grouping is irrelevant
        # (the latter when the order-independence clause applies)
        gops = meta.get("group_ops", [])
        P = len(outcomes)
        for gi, (gtag, opi) in enumerate(gops):
            again = gtag.startswith("again") or gtag.startswith("empty")
            if not again and spec[0] != "ok":
                break
            got = io[opi]
            if gtag.startswith("inner"):
                if "ok" not in got:
                    out.oracle_failures.append({"scenario": sc, "tsds": tsds, "op_index": opi, "what": "merging a sub-tuple of a mergeable tuple failed", "actual": got})
                    return
                continue
            if "ok" not in got:
                out.oracle_failures.append({"scenario": sc, "tsds": tsds, "op_index": opi,
                                            "what": ("merging a merge result again (%s) failed" % gtag) if again else ("grouped merge (%s) failed" % gtag), "actual": got})
                return
            d = io[meta["dumps"][P + gi]].get("ok")
            if d is None or canon_dump(d, names) != dumps[0]:
                out.oracle_failures.append({"scenario": sc, "tsds": tsds, "op_index": opi,
                                            "what": ("merging a merge result again (%s) changes it" % gtag) if again else ("merge result depends on the grouping (%s)" % gtag),
                                            "expected": dumps[0], "actual": canon_dump(d, names) if d else None})
                return
    # 3. purity: inputs unchanged
    for b, a in zip(meta["before"], meta["after"]):
        if io[b] != io[a]:
            out.oracle_failures.append({"scenario": sc, "tsds": tsds, "what": "an input type system was modified by merging"})
            return
    for i in meta.get("pure_ops", []):
        if io[i].get("ok") is not True:
            out.oracle_failures.append({"scenario": sc, "tsds": tsds, "op_index": i,
                                        "what": "after merging, an input type system is no longer self-contained or shares objects with a result (purity)",
                                        "actual": io[i]})
            return
    # correspondence with the model
    if mo is not None:
        # The model keeps the registry of a merge result "parents first" (a re-parented subtree moves to the end), the code keeps
        # dict insertion order.  As long as results are only looked at, nothing can tell; as INPUTS of a further merge the order of
        # their declarations matters exactly where merging is order dependent (outside StableCompete: region of finding M6).  There
        # the ops that merge results again are not compared with the model (the oracles above still judge the implementation).
        first_extra = min([i_ for _t, i_ in meta.get("group_ops", [])] or [len(ops)])
        sups_ = {}
        for t_ in tsds:
            for n_, s_ in t_["types"]:
                sups_.setdefault(n_, set()).add(s_)
        comp_ = [n_ for n_, ss in sups_.items() if len(ss) > 1]

        def anc_(x, seen=None):
            seen = seen if seen is not None else set()
            if x not in seen:
                seen.add(x)
                for s2 in sups_.get(x, ()):
                    anc_(s2, seen)
            return seen
        stable_ = all(a_ not in comp_ for n_ in comp_ for s_ in sups_[n_] for a_ in anc_(s_))
        skip_ = set()
        if not stable_:
            P_ = len(meta["perms"])
            skip_ = {i_ for _t, i_ in meta.get("group_ops", [])}
            for di_ in meta["dumps"][P_:]:
                skip_ |= {di_, di_ + 1}
        extra_dumps_ = set(meta["dumps"][len(meta["perms"]):])

        def canon_(i_, x_):
            if i_ in skip_:
                return "not compared"
            if i_ in extra_dumps_ and isinstance(x_, dict) and isinstance(x_.get("ok"), dict):
                # results of merging merge results: the order of the children lists follows the registry order of the inputs
                # ... and so does which of two identical declarations on one chain counts as the own one: compared is what the
                # property (and SameHier) speaks about - supertype, children, effective features
                return {"ok": {n_: {"super": r_.get("super"), "children": sorted(r_.get("children") or []),
                                    "eff": sorted(r_.get("eff") or [], key=str)} for n_, r_ in x_["ok"].items()}}
            return x_
        d = sessions.first_diff(io, mo, canon_)
        if d is not None:
            out.disagreements.append({"scenario": sc, "op_index": d, "impl": io[d] if d < len(io) else None,
                                      "model": mo[d] if mo and d < len(mo) else None})


def run_groups(ctx, out, groups, tag, exhaustive_perms=True):
    # in chunks: every session carries a dozen complete type-system dumps on both sides (the whole battery at once needed > 20 GB)
    CH = 1500
    for c0 in range(0, len(groups), CH):
        built = [evaluate_group(ctx, out, g, tag, exhaustive_perms) for g in groups[c0:c0 + CH]]
        ops_list = [b[0] for b in built]
        impl = sessions.run_impl_sessions(ops_list)
        model = sessions.run_model_sessions(ctx.driver, ops_list)
        for k, (ops, meta) in enumerate(built):
            check_group(out, ops, meta, impl[k], model[k] if model is not None else None)
            if (c0 + k) % 500 == 0:
                out.sample({"type_systems": meta["tsds"], "merge_outcomes": [("ok" if "ok" in impl[k][r] else impl[k][r].get("err")) for r in meta["results"]]})
        del built, ops_list, impl, model


def random_tsd(rng, pool, nfeat):
    k = rng.randint(0, len(pool))
    subset = rng.sample(pool, k)
    par = {}
    for n in subset:
        cands = BUILTIN_SUPERS + [m for m in subset if m != n and m not in par.get(n, ()) and not _reaches(par, m, n)]
        par[n] = rng.choice(cands)
    feats = {}
    for n in subset:
        if rng.random() < 0.5:
            feats[n] = (rng.choice(["f", "g"]), rng.choice(["uima.cas.Integer", "uima.cas.String", "uima.cas.FSArray", "uima.cas.StringArray"]),
                        rng.choice([None, "uima.tcas.Annotation"]) if rng.random() < 0.3 else None)
            if feats[n][1] == "uima.cas.StringArray":
                # element types are compared for every range (absent = TOP), also where the range implies them
                feats[n] = (feats[n][0], feats[n][1], rng.choice([None, "uima.cas.String"]))
            elif feats[n][1] != "uima.cas.FSArray":
                feats[n] = (feats[n][0], feats[n][1], None)
    tsd = {"types": [(n, par[n]) for n in subset], "feats": feats}
    if not internally_consistent(tsd):
        tsd["feats"] = {}
    return tsd


def _reaches(par, a, b):
    seen = set()
    while a in par and a not in seen:
        seen.add(a)
        a = par[a]
        if a == b:
            return True
    return False


def run(ctx, out, budget):
    out.rule = ("tuples of type systems over a shared pool of names; every permutation of the tuple (and a left grouping for triples) "
                "is merged on the implementation and on the model; outcomes and canonical results are compared with an independent "
                "reading of the merge rules (when the competing supertypes are declared identically in all inputs) and across "
                "permutations; C10/C11 invariants, identity walk and input purity are checked on every result. Non-trivial = "
                "distinct tuples in which some type is declared with two different supertypes and the merge succeeds.")
    rng = ctx.rng(0)
    cands = candidate_typesystems()
    groups = []
    if budget == "quick":
        pairs = list(itertools.product(cands, repeat=2))
        groups = rng.sample(pairs, 1200)
        out.exhaustive = False
        out.exhaustive_scope = "sample of 1200 of the %d ordered pairs of the %d type systems over 3 names (quick tier)" % (len(pairs), len(cands))
    else:
        small = candidate_typesystems(NAMES[:2])
        groups = [list(p) for p in itertools.product(small, repeat=2)]
        groups += rng.sample(list(itertools.product(cands, repeat=2)), 20000)
        groups += [list(t) for t in rng.sample(list(itertools.product(small, repeat=3)), 3000)]
        out.exhaustive = True
        out.exhaustive_scope = "all ordered pairs of the %d type systems over 2 names x both orders; samples of pairs over 3 names and of triples" % len(small)
    run_groups(ctx, out, [list(g) for g in groups], "pool3")
    pool = ["p.T%d" % i for i in range(8)]
    big = [[random_tsd(rng, pool, 2) for _ in range(rng.randint(2, 4))] for _ in range(bud(budget, 60, 1500))]
    run_groups(ctx, out, big, "rand", exhaustive_perms=False)
    # user types without namespace named like the short name of a built-in (resolved by short name unless looked up exactly)
    pool2 = ["p.T0", "p.T1", "p.T2", "Annotation", "TOP", "q.Annotation"]
    big2 = [[random_tsd(rng, pool2, 2) for _ in range(rng.randint(2, 3))] for _ in range(bud(budget, 60, 1500))]
    run_groups(ctx, out, big2, "shortnames", exhaustive_perms=False)
    out.partial = ["purity (no object shared with the inputs) and descriptions of merged types: implementation-side observation only"]


M6_WITNESS = [
    {"types": [("x.C", "uima.cas.TOP"), ("x.B", "x.C"), ("x.A", "x.B")], "feats": {}},
    # (x.A is created FIRST in the second input: `get_types()` follows creation order, and with x.A last both orders succeed)
    {"types": [("x.A", "uima.tcas.Annotation"), ("x.C", "uima.tcas.Annotation"), ("x.B", "x.C")], "feats": {}},
]


def finding_of(fl):
    tsds = fl.get("tsds")
    if tsds is None:
        return None
    tsds = [{"types": [tuple(x) for x in t["types"]], "feats": t["feats"]} for t in tsds]
    # the finding is: whether the merge *succeeds or raises ValueError* depends on the argument order.  Anything else
    # that goes wrong on such inputs (other exceptions, impure merges, wrong hierarchy) is not this finding.
    if fl.get("what") != "merge outcome differs from the merge rules" or {fl.get("expected"), fl.get("actual")} != {"ok", "ValueError"}:
        return None
    if pending_ancestor_region(tsds):
        return "M6-merge-order-pending-ancestor"
    return None


def run_witness(ctx, finding):
    if finding["id"] != "M6-merge-order-pending-ancestor":
        return False
    sb, before, results = build_session(M6_WITNESS, [[0, 1], [1, 0]])
    io = sessions.run_impl_sessions([sb.ops])[0]
    a, b = io[results[0]], io[results[1]]
    return ("ok" in a) != ("ok" in b)


def replay(ctx, payload):
    fl = payload.get("failure") or {}
    tsds = fl.get("tsds")
    if tsds is None:
        return True
    tsds = [{"types": [tuple(x) for x in t["types"]], "feats": {k: tuple(v) for k, v in t["feats"].items()}} for t in tsds]
    from harness.common import Outcome
    o = Outcome()
    ops, meta = evaluate_group(ctx, o, tsds, "replay", len(tsds) <= 3)
    io = sessions.run_impl_sessions([ops])[0]
    check_group(o, ops, meta, io, None)
    return bool(o.oracle_failures)
