"""C11 — Effective features = own + all ancestors', whatever the order of creation."""
import copy

from harness import sessions, tsderive, tsgen
from harness.common import bud
from harness.sessions import SB

PROP = "C11"
MODULES = ["CassisModel.Properties.C11"]
THEOREMS = [
    "Cassis.TS.featInv_builtins",
    "Cassis.TS.featInv_createType",
    "Cassis.TS.featInv_addFeature",
    "Cassis.TS.featInv_createFeature",
    "Cassis.TS.featInv_history",
    "Cassis.TS.effective_names",
    "Cassis.TS.effective_names_nodup",
    "Cassis.TS.inherited_down",
    "Cassis.TS.feature_visible_everywhere",
    "Cassis.TS.future_descendants_inherit",
    "Cassis.TS.redefine_identical_noop",
    "Cassis.TS.conflict_with_ancestor",
    "Cassis.TS.conflict_with_descendant",
    "Cassis.TS.construct_ok_iff",
    "Cassis.TS.construct_slots",
]
ASSUMPTIONS = [
    "attr.make_class builds a constructor accepting exactly the given field names (plus xmiID, type); instances created before a feature was added keep their old slots (the property speaks of new instances)",
    "Feature.__eq__ decides 'identical' (name, description, range, element type with absent = TOP; the multiple-references flag is compared with itself and never differs)",
    "definitions differing only in description / element type are outside the statement's 'different range' clause: compared between model and implementation, not against the oracle",
    "histories in this round: create_type / create_feature / instantiation through the API",
]


def gen_session(rng, n_ops):
    sb = SB()
    ts = sb.ts_new()
    sh = tsgen.Shadow()
    expect = {}
    user = []
    instantiated = []

    def listing_checks(t, ts=ts, sh=sh, own=True):
        eff = sh.effective(t)
        i = len(sb.ops); sb.query(ts, "all_features", name=t); expect[i] = ("names", sorted(eff))
        if own:
            i = len(sb.ops); sb.query(ts, "features", name=t); expect[i] = ("names", sorted(f["name"] for f in sh.own[t]))
        for n in list(eff)[:3] + ["nosuch"]:
            i = len(sb.ops); sb.query(ts, "get_feature", name=t, feature=n)
            expect[i] = ("feat", None if n not in eff else (eff[n]["name"], eff[n]["range"], eff[n]["elem"]))

    def instantiate(t, ts=ts, sh=sh):
        eff = sh.effective(t)
        names = [n for n in eff if n != "sofa"]
        rngs = {n: eff[n]["range"] for n in names}
        kw = {}
        for n in rng.sample(names, min(len(names), rng.randint(0, 3))):
            if rngs[n] == "uima.cas.Integer":
                kw[n] = rng.randint(0, 9)
            elif rngs[n] == "uima.cas.String":
                kw[n] = "s"
            elif rngs[n] == "uima.cas.Boolean":
                kw[n] = True
        bad = rng.random() < 0.25
        if bad:
            kw[rng.choice(["zz", "nosuch", "Begin", "f9"])] = 1
        i = len(sb.ops)
        sb.ops.append({"op": "fs.new", "ts": ts, "type": t, "feats": kw})
        if bad and not all(k in eff for k in kw):
            expect[i] = "TypeError"
        else:
            expect[i] = "ok"
            lab = sb.n_fs
            sb.n_fs += 1
            # readable and writable on the new instance
            j = len(sb.ops); sb.ops.append({"op": "fs.slots", "fs": lab})
            expect[j] = ("slots", sorted(eff), kw)
            instantiated.append(t)

    for _ in range(n_ops):
        r = rng.random()
        if r < 0.25 or not user:
            name = tsgen.rand_type_name(rng)
            if name in sh.K["predefined"] or name in sh.parent:
                continue
            sup = rng.choice(user + ["uima.tcas.Annotation", "uima.cas.TOP", "uima.cas.AnnotationBase"]) if user else "uima.tcas.Annotation"
            i = len(sb.ops); sb.create_type(ts, name, sup); expect[i] = sh.create_type(name, sup)
            if expect[i] == "ok":
                user.append(name)
        elif r < 0.65:
            dom = rng.choice(user)
            fname = rng.choice(["f", "g", "value", "ref", "self", "type", "id", "lang"])
            pool = sh.effective(dom)
            mode = rng.random()
            if mode < 0.25 and pool:
                # identical redefinition of an effective feature (own or inherited)
                g = pool[rng.choice(sorted(pool))]
                fname = g["name"][:-1] if g["name"] in ("self_", "type_") else g["name"]
                args = (g["range"], g["elem"], g["descr"], g["multi"])
            elif mode < 0.5:
                # conflicting range with something on the chain (above or below)
                chain_names = set(pool)
                for d in sh.descendants(dom)[1:]:
                    chain_names |= {f["name"] for f in sh.own[d]}
                if chain_names:
                    n0 = rng.choice(sorted(chain_names))
                    fname = n0[:-1] if n0 in ("self_", "type_") else n0
                args = (rng.choice(tsgen.RANGES_PRIM + ["uima.cas.FSArray"] + user[-2:]), None, None, None)
            else:
                r_ = rng.choice(tsgen.RANGES_PRIM + tsgen.RANGES_COLL[:4] + user[-3:] + ["uima.tcas.Annotation", "no.such.T"])
                el = rng.choice([None, None, "uima.tcas.Annotation"] + user[-1:]) if r_ in ("uima.cas.FSArray", "uima.cas.FSList") else None
                args = (r_, el, rng.choice([None, None, "d"]), rng.choice([None, True, False]))
            i = len(sb.ops)
            sb.create_feature(ts, dom, fname, args[0], elem=args[1], descr=args[2], multi=args[3])
            expect[i] = sh.create_feature(dom, fname, args[0], args[1], args[2], args[3])
            if expect[i] is None:
                # outcome not fixed by the statement: stop asserting from the oracle after this point
                return sb.ops, expect, len(user), True
        elif r < 0.8:
            listing_checks(rng.choice(user))
        else:
            instantiate(rng.choice(user + instantiated[-2:]))
    for t in user:
        listing_checks(t)
        instantiate(t)
    # the same after XML loading, JSON loading or merging (C11: "after XML/JSON loading or merging"), and a feature
    # added to the derived type system reaches the type and all its descendants
    if user and rng.random() < 0.6:
        kind = rng.choice(tsderive.KINDS)
        ts2 = tsderive.derive(rng, sb, ts, sh, kind)
        sh2 = copy.deepcopy(sh)
        # (which of two identical definitions on one chain counts as the own one may depend on the merge order)
        own = kind not in ("merge-reparent", "merge-reparent-again")

        def own_ok(t_):
            # a feature that a type declares although an ancestor declares it identically (declared on the subtype first) is
            # kept as an own feature by the API but not by a derivation, which creates supertypes first (finding X12 for the
            # descriptor; the property speaks about EFFECTIVE features): the own listing is then not compared
            inh_ = {g["name"] for a_ in sh2.ancestors(t_)[1:] for g in sh2.own[a_]}
            return own and not any(f_["name"] in inh_ for f_ in sh2.own[t_])
        for t in user:
            listing_checks(t, ts2, sh2, own_ok(t))
        d = rng.choice(user)
        i = len(sb.ops)
        sb.create_feature(ts2, d, "lateFeature", "uima.cas.Integer")
        expect[i] = sh2.create_feature(d, "lateFeature", "uima.cas.Integer", None, None, None)
        if expect[i] == "ok":
            for t in sh2.descendants(d)[:4]:
                listing_checks(t, ts2, sh2, own_ok(t))
                instantiate(t, ts2, sh2)
    return sb.ops, expect, len(user), False


def evaluate(ctx, out, sess, tag):
    ops_list = [s[0] for s in sess]
    impl = sessions.run_impl_sessions(ops_list)
    model = sessions.run_model_sessions(ctx.driver, ops_list)
    for si, (ops, expect, nuser, cut) in enumerate(sess):
        io = impl[si]
        sc = {"k": "session", "ops": ops}
        if model is not None:
            d = sessions.first_diff(io, model[si])
            if d is not None:
                out.disagreements.append({"scenario": sc, "op_index": d, "impl": io[d] if d < len(io) else None,
                                          "model": model[si][d] if model[si] and d < len(model[si]) else None})
        for i, exp in expect.items():
            if exp is None:
                out.count("outcome-not-fixed-by-statement")
                continue
            out.evaluations += 1
            got = io[i]
            if exp == "ok":
                ok = "ok" in got
            elif isinstance(exp, str):
                ok = got.get("err") == exp
                out.count("err:" + exp)
            elif exp[0] == "names":
                ok = "ok" in got and sorted(f["name"] for f in got["ok"]) == exp[1]
            elif exp[0] == "feat":
                if exp[1] is None:
                    ok = got.get("ok", 1) is None
                else:
                    g = got.get("ok")
                    ok = isinstance(g, dict) and (g["name"], g["range"], g["elem"]) == tuple(exp[1])
            else:  # slots
                g = got.get("ok")
                ok = isinstance(g, dict) and sorted(k for k in g if not k.startswith("%")) == exp[1] and all(
                    g.get(k) == v for k, v in exp[2].items())
            if not ok:
                out.oracle_failures.append({"scenario": sc, "op_index": i, "op": ops[i], "what": "differs from own + ancestors' features",
                                            "expected": exp, "actual": got})
        if nuser >= 3:
            out.nontriv((tag, si))
        if si < 2:
            out.sample({"n_ops": len(ops), "ops_head": ops[1:6]})


def run(ctx, out, budget):
    out.rule = ("interleavings of create_type (below user and built-in types), create_feature (fresh, identical and "
                "conflicting redefinitions placed above and below existing definitions, reserved names self/type, every kind "
                "of range), feature listing / lookup and instantiation with valid and invalid keywords, before and after "
                "extension; oracle = own + ancestors' declarations kept by the generator. Non-trivial = distinct histories "
                "with >= 3 user types.")
    rng = ctx.rng(0)
    n = bud(budget, 150, 15000)
    sess = [gen_session(rng, rng.randint(8, 40)) for _ in range(n)]
    evaluate(ctx, out, sess, "h")


def replay(ctx, payload):
    fl = payload.get("failure") or {}
    ops = fl["scenario"]["ops"]
    io = sessions.run_impl_sessions([ops])[0]
    got = io[fl["op_index"]]
    exp = fl["expected"]
    if exp == "ok":
        return "ok" not in got
    if isinstance(exp, str):
        return got.get("err") != exp
    if exp[0] == "names":
        return not ("ok" in got and sorted(f["name"] for f in got["ok"]) == exp[1])
    if exp[0] == "feat":
        g = got.get("ok")
        if exp[1] is None:
            return g is not None
        return not (isinstance(g, dict) and [g["name"], g["range"], g["elem"]] == list(exp[1]))
    g = got.get("ok")
    return not (isinstance(g, dict) and sorted(k for k in g if not k.startswith("%")) == exp[1])
