"""C18 — Feature paths read and write exactly what step-by-step attribute access does."""
import copy
import itertools

from harness import sessions
from harness.common import bud
from harness.sessions import SB

PROP = "C18"
MODULES = ["CassisModel.Properties.C18"]
THEOREMS = [
    "Cassis.Heap.get_eq_stepwise",
    "Cassis.Heap.get_none_of_prefix_none",
    "Cassis.Heap.get_none_of_unknown",
    "Cassis.Heap.get_snoc",
    "Cassis.Heap.set_spec",
    "Cassis.Heap.setSlot_get",
    "Cassis.Heap.setSlot_frame",
    "Cassis.Heap.set_then_get",
    "Cassis.Heap.set_error_of_prefix",
    "Cassis.Heap.set_error_of_unknown_last",
]
ASSUMPTIONS = [
    "attrs slots classes: getattr on a missing slot raises AttributeError (so getattr(x, name, None) is None), setattr on a non-slot raises AttributeError",
    "str.split('.') agrees with Lean's splitOn \".\" (exercised with empty segments)",
    "path segments that are Python attributes but not features (type, xmiID, methods; attributes of str/int values) are the recorded finding A1 and kept in a separate stream",
]

FEATS = ["next", "other", "val", "name"]
SEGS = ["next", "other", "val", "nope", ""]
RESERVED = ["type", "xmiID", "get", "__class__", "value"]


def build(sb, graph):
    """graph: list of dicts feature -> value (refs as ('r', i)); returns ts index"""
    ts = sb.ts_new()
    sb.create_type(ts, "x.N", "uima.cas.TOP")
    sb.create_feature(ts, "x.N", "next", "x.N")
    sb.create_feature(ts, "x.N", "other", "uima.cas.TOP")
    sb.create_feature(ts, "x.N", "val", "uima.cas.Integer")
    sb.create_feature(ts, "x.N", "name", "uima.cas.String")
    for node in graph:
        sb.fs_new(ts, "x.N", {k: v for k, v in node.items() if not isinstance(v, tuple) and v is not None})
    for i, node in enumerate(graph):
        for k, v in node.items():
            if isinstance(v, tuple):
                sb.op(op="fs.set", fs=i, path=k, v={"r": v[1]})
    return ts


def follow(graph, start, parts):
    cur = ("r", start)
    for p in parts:
        if not isinstance(cur, tuple):
            return None  # a primitive value has no features
        node = graph[cur[1]]
        if p not in FEATS:
            return None
        cur = node.get(p)
        if cur is None:
            return None
    return cur


def enc(v):
    if isinstance(v, tuple):
        return {"r": v[1]}
    return v


def get_session(graph, start, paths, item=False):
    sb = SB()
    build(sb, graph)
    checks = []
    for p in paths:
        i = sb.op(op="fs.get", fs=start, path=p, **({"item": True} if item else {}))
        parts = p.split(".")
        exp = None if any(s in RESERVED for s in parts) else ("val", enc(follow(graph, start, parts)))
        checks.append((i, exp))
    return sb.ops, checks, graph


def set_session(graph, start, path, v, item=False):
    sb = SB()
    build(sb, graph)
    parts = path.split(".")
    g2 = copy.deepcopy(graph)
    if len(parts) == 1:
        target = ("r", start)
    else:
        target = follow(graph, start, parts[:-1])
    last = parts[-1]
    reserved = any(s in RESERVED for s in parts)
    if not isinstance(target, tuple) or last not in FEATS:
        exp = "AttributeError"
    else:
        exp = "ok"
        g2[target[1]][last] = v
    i = sb.op(op="fs.set", fs=start, path=path, v=enc(v), **({"item": True} if item else {}))
    checks = [(i, None if reserved else exp)]
    # after the call: every slot of every node is what the step-by-step semantics says (frame included)
    for k in range(len(graph)):
        j = sb.op(op="fs.slots", fs=k)
        if not reserved:
            checks.append((j, ("slots", {f: enc(g2[k].get(f)) for f in FEATS})))
    if exp == "ok" and not reserved:
        stable = len(parts) == 1 or follow(g2, start, parts[:-1]) == target
        j = sb.op(op="fs.get", fs=start, path=path)
        if stable:
            checks.append((j, ("val", enc(v))))
        else:
            checks.append((j, ("alias", enc(follow(g2, start, parts)))))
    return sb.ops, checks, graph


def all_paths(maxlen, segs=SEGS):
    out = []
    for n in range(1, maxlen + 1):
        for tup in itertools.product(segs, repeat=n):
            out.append(".".join(tup))
    return out


def small_graphs():
    gs = []
    refs = lambda n: [None] + [("r", i) for i in range(n)]
    for n in (1, 2):
        for combo in itertools.product(refs(n), repeat=2 * n):
            g = []
            for i in range(n):
                g.append({"next": combo[2 * i], "other": combo[2 * i + 1], "val": 7 if i == 0 else None,
                          "name": "s" if i == 1 else None})
            gs.append(g)
    for combo in itertools.product(refs(3), repeat=3):
        gs.append([{"next": combo[i], "other": None, "val": i, "name": None} for i in range(3)])
    return gs


def random_graph(rng, n):
    g = []
    for i in range(n):
        def r():
            return None if rng.random() < 0.25 else ("r", rng.randrange(n))
        g.append({"next": r(), "other": r(), "val": rng.choice([None, i, -5]), "name": rng.choice([None, "a.b", ""])})
    if rng.random() < 0.5:  # a linked list / ring
        for i in range(n):
            g[i]["next"] = ("r", (i + 1) % n) if (i + 1 < n or rng.random() < 0.5) else None
    return g


def random_path(rng, maxlen):
    return ".".join(rng.choice(SEGS + ["next", "next", "other"]) for _ in range(rng.randint(1, maxlen)))


def evaluate(ctx, out, sess, tag):
    ops_list = [s[0] for s in sess]
    impl = sessions.run_impl_sessions(ops_list)
    model = sessions.run_model_sessions(ctx.driver, ops_list)
    for si, (ops, checks, graph) in enumerate(sess):
        io = impl[si]
        sc = {"k": "session", "ops": ops}
        if model is not None:
            def canon_op(i, x, ops=ops):
                o = ops[i] if i < len(ops) else {}
                if o.get("op") in ("fs.get", "fs.set"):
                    parts = o["path"].split(".")
                    res = [k for k, sgm in enumerate(parts) if sgm in RESERVED]
                    if res:
                        # the model only knows *that* such a name answers with a non-feature attribute
                        if res[0] == len(parts) - 1 and o["op"] == "fs.get" and "ok" in x:
                            return {"ok_is_none": x["ok"] is None}
                        return "not-compared"
                return x
            d = sessions.first_diff(io, model[si], canon_op)
            if d is not None:
                out.disagreements.append({"scenario": sc, "op_index": d, "impl": io[d] if d < len(io) else None,
                                          "model": model[si][d] if model[si] and d < len(model[si]) else None})
        for (i, exp) in checks:
            if exp is None:
                out.count("reserved-segment (A1 stream, oracle not applied)")
                continue
            out.evaluations += 1
            got = io[i]
            if exp == "ok":
                ok = "ok" in got
            elif exp == "AttributeError":
                ok = got.get("err") == "AttributeError"
                out.count("set:AttributeError")
            elif exp[0] == "val":
                ok = "ok" in got and got["ok"] == exp[1]
                if exp[1] is not None and ops[i]["op"] == "fs.get" and ops[i]["path"].count(".") >= 1:
                    out.nontriv((tag, si, i))
            elif exp[0] == "alias":
                # the prefix walks through the assigned slot: get(path) is the step-by-step value in the new
                # heap, which is not v (finding A2); the heap itself must still be the step-by-step one
                ok = "ok" in got and got["ok"] == exp[1]
                out.count("set:prefix-alias")
            else:  # slots
                ok = "ok" in got and all(got["ok"].get(f) == v for f, v in exp[1].items())
            if not ok:
                out.oracle_failures.append({"scenario": sc, "op_index": i, "op": ops[i], "what": "differs from step-by-step attribute access",
                                            "expected": exp, "actual": got})
        if si % 400 == 0:
            out.sample({"graph": graph, "ops_tail": ops[-3:], "impl_tail": io[-3:]})


def nonstring_paths(out):
    """non-string paths are rejected (implementation only; the model has no such input)"""
    from cassis import TypeSystem
    ts = TypeSystem()
    T = ts.create_type("x.N", "uima.cas.TOP")
    ts.create_feature(T, "val", "uima.cas.Integer")
    fs = T(val=1)
    for bad in (5, None, ("val",), b"val", 1.5):
        for how in ("get", "getitem", "set", "setitem"):
            out.evaluations += 1
            try:
                if how == "get":
                    fs.get(bad)
                elif how == "getitem":
                    fs[bad]
                elif how == "set":
                    fs.set(bad, 3)
                else:
                    fs[bad] = 3
                out.oracle_failures.append({"scenario": {"k": "nonstring", "path": repr(bad), "how": how},
                                            "what": "non-string path accepted"})
            except Exception:  # noqa: BLE001
                out.count("nonstring-rejected")
            if fs.val != 1:
                out.oracle_failures.append({"scenario": {"k": "nonstring", "path": repr(bad), "how": how},
                                            "what": "rejected non-string path modified the structure"})
                fs.val = 1


def run(ctx, out, budget):
    out.rule = ("graphs of x.N nodes with reference features next/other and primitive features val/name; paths over "
                "{feature names, unknown name, empty segment}; get/[] compared with the generator's own step-by-step "
                "walk, set/[]= compared with the step-by-step assignment on a shadow heap (all slots of all nodes "
                "re-read, so the frame is checked). Non-trivial = distinct multi-segment get with a non-None result.")
    rng = ctx.rng(0)
    sess = []
    graphs = small_graphs()
    paths3 = all_paths(3)
    if budget == "quick":
        graphs_q = graphs[::3]
    else:
        graphs_q = graphs
    for gi, g in enumerate(graphs_q):
        sess.append(get_session(g, 0, paths3, item=(gi % 2 == 1)))
    out.exhaustive = True
    out.exhaustive_scope = (("every 3rd of " if budget == "quick" else "") +
                            "all graphs of <=2 nodes over (next, other) and all 3-node graphs over next x all paths of <=3 "
                            "segments over {next, other, val, unknown, empty}: get; exhaustive for that sub-space only")
    nset = bud(budget, 400, 48000)
    for k in range(nset):
        g = rng.choice(graphs) if rng.random() < 0.6 else random_graph(rng, rng.randint(2, 6))
        path = rng.choice(paths3) if rng.random() < 0.7 else random_path(rng, 12)
        v = rng.choice([9, None, ("r", 0), ("r", len(g) - 1), "str"])
        sess.append(set_session(g, rng.randrange(len(g)), path, v, item=(k % 3 == 0)))
    nget = bud(budget, 100, 12000)
    for _ in range(nget):
        g = random_graph(rng, rng.randint(2, 8))
        sess.append(get_session(g, rng.randrange(len(g)), [random_path(rng, 12) for _ in range(20)]))
    # reserved-name stream (A1): correspondence only
    for _ in range(bud(budget, 20, 1600)):
        g = random_graph(rng, 3)
        ps = [".".join(rng.choice(SEGS + RESERVED) for _ in range(rng.randint(1, 3))) for _ in range(10)]
        sess.append(get_session(g, 0, ps))
    evaluate(ctx, out, sess, "p")
    nonstring_paths(out)


A1_WITNESS = [
    {"op": "ts.new"},
    {"op": "ts.create_type", "ts": 0, "name": "x.N", "super": "uima.cas.TOP"},
    {"op": "fs.new", "ts": 0, "type": "x.N", "feats": {}},
    {"op": "fs.get", "fs": 0, "path": "type"},
    {"op": "fs.get", "fs": 0, "path": "get"},
]
A2_GRAPH = [{"next": ("r", 0), "other": None, "val": None, "name": None}, {"next": None, "other": None, "val": None, "name": None}]


def finding_of(fl):
    ops = fl["scenario"].get("ops", [])
    for o in ops:
        if o["op"] in ("fs.get", "fs.set") and any(s in RESERVED or s.startswith("__") for s in o["path"].split(".")):
            return "A1-reserved-attribute-names"
    return None


def run_witness(ctx, finding):
    if finding["id"] == "A1-reserved-attribute-names":
        io = sessions.run_impl_sessions([A1_WITNESS])[0]
        return io[3].get("ok") is not None and io[4].get("ok") is not None
    if finding["id"] == "A2-set-through-alias":
        ops, checks, _g = set_session(A2_GRAPH, 0, "next.next", ("r", 1))
        io = sessions.run_impl_sessions([ops])[0]
        return io[-1].get("ok") != {"r": 1}
    return False


def replay(ctx, payload):
    fl = payload.get("failure") or {}
    sc = fl.get("scenario") or {}
    if sc.get("k") != "session":
        o = type("O", (), {})()
        from harness.common import Outcome
        oc = Outcome()
        nonstring_paths(oc)
        return bool(oc.oracle_failures)
    io = sessions.run_impl_sessions([sc["ops"]])[0]
    got = io[fl["op_index"]]
    exp = fl["expected"]
    if exp == "ok":
        return "ok" not in got
    if exp == "AttributeError":
        return got.get("err") != "AttributeError"
    if exp[0] in ("val", "alias"):
        return not ("ok" in got and got["ok"] == exp[1])
    return not ("ok" in got and all(got["ok"].get(f) == v for f, v in exp[1].items()))
