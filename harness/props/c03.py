"""C03 — Offsets: code points in memory, UTF-16 code units in every document."""
import itertools
import json
import xml.etree.ElementTree as ET

from harness import common
from harness.common import bud

PROP = "C03"
MODULES = ["CassisModel.Properties.C03", "CassisModel.Properties.C03Doc", "CassisModel.Properties.C03DocJson", "CassisModel.Properties.C03DocWrite"]
THEOREMS = [
    "Cassis.Json.loadJson_convIs",
    "Cassis.Json.written_offset_is_utf16",
    "Cassis.Json.json_offset_roundtrip",
    "Cassis.Json.parseFs_restores",
    "Cassis.Json.saveJson_annotation_offsets",
    "Cassis.Json.saveJson_nonannotation_plain",
    "Cassis.Xmi.saveXmi_annotation_offsets",
    "Cassis.Xmi.saveXmi_nonannotation_plain",
    "Cassis.Xmi.loadXmi_nonannotation_plain",
    "Cassis.OffsetsDoc.convIs_history",
    "Cassis.OffsetsDoc.writer_formula_is_oracle",
    "Cassis.Offsets.p2e_eq_utf16_len",
    "Cassis.Offsets.p2e_strictMono",
    "Cassis.Offsets.p2e_id_of_bmp",
    "Cassis.Offsets.p2e_passthrough",
    "Cassis.Offsets.e2p_p2e",
    "Cassis.Offsets.p2e_e2p",
    "Cassis.Offsets.e2p_passthrough",
    "Cassis.Offsets.mem_boundaries",
    "Cassis.Offsets.covered_text_roundtrip",
    "Cassis.Offsets.setText_remaps",
    "Cassis.Offsets.converter_tracks_text",
    "Cassis.Xmi.convOfText_docText",
    "Cassis.Xmi.written_offset_is_utf16",
    "Cassis.Xmi.xmi_offset_roundtrip",
    "Cassis.Xmi.convertOffsets_restores",
]
ASSUMPTIONS = [
    "a Python str is a sequence of code points; len(c.encode('utf-16-le'))//2 is 1 below U+10000 and 2 otherwise (checked against the encoder on every generated string)",
    "document level (offsets written to / read from XMI and JSON) is checked on the implementation against an independent reader/writer; the codec theorems that cover it belong to C01/C02",
    "lxml/json text layer is trusted",
]

ALPHABET = ["a", "é", "�", "\U00010000", "\U0010ffff", "\U0001f600", "́"]


def u16len(s):
    return len(s.encode("utf-16-le", "surrogatepass")) // 2


def conv_queries(s):
    n, m = len(s), u16len(s)
    return [["p2e", i] for i in range(-1, n + 3)] + [["e2p", j] for j in range(-1, m + 3)]


def impl_conv(texts, qs):
    from cassis.cas import Sofa
    import warnings

    sofa = Sofa(type=None, sofaNum=1, xmiID=1, sofaID="v")
    for t in texts:
        sofa.sofaString = t
    out = []
    with warnings.catch_warnings():
        warnings.simplefilter("ignore")
        for d, i in qs:
            c = sofa._offset_converter
            out.append(c.python_to_external(i) if d == "p2e" else c.external_to_python(i))
    return out


def oracle_conv(text, qs):
    """independent: real UTF-16 encoding of prefixes"""
    if text is None:
        return [i for _d, i in qs]
    pref = [u16len(text[:i]) for i in range(len(text) + 1)]
    inv = {}
    for i, p in enumerate(pref):
        inv[p] = i
    out = []
    for d, i in qs:
        if d == "p2e":
            out.append(pref[i] if 0 <= i <= len(text) else i)
        else:
            out.append(inv.get(i, i))
    return out


def check_laws(text, out, fail):
    """the algebraic laws the property states, on the implementation's own answers"""
    n = len(text)
    p = impl_conv([text], [["p2e", i] for i in range(n + 1)])
    if any(p[i] >= p[i + 1] for i in range(n)):
        fail("not strictly monotone", text)
    if all(ord(c) < 0x10000 for c in text) and p != list(range(n + 1)):
        fail("not the identity on BMP-only text", text)
    back = impl_conv([text], [["e2p", j] for j in p])
    if back != list(range(n + 1)):
        fail("e2p(p2e(i)) != i", text)
    m = u16len(text)
    bset = set(p)
    for j in range(m + 2):
        r = impl_conv([text], [["e2p", j]])[0]
        if j not in bset and r != j:
            fail("non-boundary external offset not passed through", text)
        if j in bset and impl_conv([text], [["p2e", r]])[0] != j:
            fail("p2e(e2p(j)) != j on a boundary", text)


def run_converter(ctx, out, budget):
    cases = []
    maxlen = 4 if budget != "quick" else 3
    for n in range(0, maxlen + 1):
        for tup in itertools.product(ALPHABET, repeat=n):
            cases.append([("".join(tup))])
    out.exhaustive = True
    out.exhaustive_scope = f"all strings of length <= {maxlen} over {len(ALPHABET)} symbols (ASCII, 2/3-byte BMP, U+FFFD, U+10000, U+10FFFF, emoji, combining mark) x all internal offsets -1..len+2 x all external offsets -1..utf16len+2"
    rng = ctx.rng(0)
    # histories: the text is replaced (also by None) before converting
    nh = bud(budget, 150, 8000)
    for _ in range(nh):
        h = []
        for _ in range(rng.randint(1, 4)):
            if rng.random() < 0.15:
                h.append(None)
            else:
                h.append("".join(rng.choice(ALPHABET) for _ in range(rng.randint(0, 8))))
        cases.append(h)
    # long random strings
    nl = bud(budget, 10, 320)
    for _ in range(nl):
        L = rng.choice([50, 200, 2000])
        cases.append(["".join(rng.choice(ALPHABET + ["b", "c", " "]) for _ in range(L))])
    lines, metas = [], []
    for texts in cases:
        cur = None
        for t in texts:
            cur = t  # text property = last assigned; the converter keeps the last non-None mapping
        last_non_none = None
        for t in texts:
            if t is not None:
                last_non_none = t
        qtext = last_non_none if last_non_none is not None else ""
        if len(qtext) > 60:
            n, m = len(qtext), u16len(qtext)
            qs = [["p2e", rng.randint(0, n + 2)] for _ in range(40)] + [["e2p", rng.randint(0, m + 2)] for _ in range(40)]
        else:
            qs = conv_queries(qtext)
        lines.append({"k": "offsets", "texts": [None if t is None else [ord(c) for c in t] for t in texts], "q": qs,
                      "spec": [ord(c) for c in qtext]})
        metas.append((texts, qs, cur, last_non_none))
    model = ctx.driver.run(lines) if ctx.driver.available else None

    def mkfail(sc):
        def fail(what, text):
            out.oracle_failures.append({"scenario": sc, "what": what, "text": [ord(c) for c in text]})
        return fail

    for k, (texts, qs, cur, lnn) in enumerate(metas):
        got = impl_conv(texts, qs)
        out.evaluations += len(qs)
        sc = lines[k]
        # property oracle: when the current text is not None, conversions are those of the current text
        if cur is not None:
            exp = oracle_conv(cur, qs)
            if got != exp:
                bad = [i for i in range(len(qs)) if got[i] != exp[i]][0]
                out.oracle_failures.append({"scenario": sc, "what": "conversion differs from UTF-16 prefix length",
                                            "query": qs[bad], "expected": exp[bad], "actual": got[bad]})
            if len(cur) <= 8:
                check_laws(cur, out, mkfail(sc))
            if any(ord(c) >= 0x10000 for c in cur):
                out.nontriv(("astral", cur if len(cur) < 12 else hash(cur)))
        if model is not None:
            mo = model[k]
            if mo.get("ok") != got:
                out.disagreements.append({"scenario": sc, "impl": got, "model": mo.get("ok")})
            # model spec vs python encoder
            qtext = lnn if lnn is not None else ""
            u = list(qtext.encode("utf-16-le", "surrogatepass"))
            units = [u[i] + 256 * u[i + 1] for i in range(0, len(u), 2)]
            if mo.get("utf16") != units:
                out.disagreements.append({"scenario": sc, "what": "Lean utf16Encode differs from CPython's encoder",
                                          "model": mo.get("utf16"), "impl": units})
        if k % 997 == 0:
            out.sample({"texts": texts, "queries": qs[:6], "impl": got[:6]})
        out.count("history_len:%d" % len(texts))


# ---------------- document level ----------------

XMI_NS = "{http://www.omg.org/XMI}"


def doc_case(rng):
    """a CAS with two views with different astral texts; annotations indexed and referenced-only;
    optionally the text is replaced after the annotations exist"""
    t1 = "".join(rng.choice(ALPHABET + ["x", "y", " "]) for _ in range(rng.randint(1, 14)))
    t2 = "".join(rng.choice(ALPHABET + ["x", "y", " "]) for _ in range(rng.randint(1, 14)))
    replace = rng.random() < 0.4
    t1b = "".join(rng.choice(ALPHABET + ["z"]) for _ in range(len(t1) + rng.randint(0, 3))) if replace else None
    anns = []
    for vi, t in enumerate([t1b or t1, t2]):
        for _ in range(rng.randint(1, 4)):
            b = rng.randint(0, len(t))
            e = rng.randint(b, len(t))
            anns.append({"view": vi, "b": b, "e": e, "indexed": rng.random() < 0.6})
    # every referenced-only annotation needs an indexed referrer in the same view
    # the annotation type's name, and optionally a NON-annotation type with the same short name in another package that has
    # integer features `begin`/`end` of its own (never converted) and whose instance is written first
    aname = rng.choice(["x.A", "x.A", "text.Span", "Span", "q.tcas.Annotation"])
    twin = rng.random() < 0.5
    return {"t1": t1, "t2": t2, "t1b": t1b, "anns": anns, "aname": aname, "twin": twin, "redeclare": rng.random() < 0.4}


def build_doc_cas(case):
    from cassis import Cas, TypeSystem

    ts = TypeSystem()
    T = ts.create_type("x.Ref")
    ts.create_feature(T, "ref", "uima.tcas.Annotation")
    A = ts.create_type(case.get("aname", "x.A"))
    if case.get("redeclare"):
        # descriptors often list begin/end again on an annotation type: an identical redeclaration changes nothing
        ts.create_feature(A, "begin", "uima.cas.Integer")
        ts.create_feature(A, "end", "uima.cas.Integer")
    cas = Cas(ts, sofa_string=case["t1"])
    v2 = cas.create_view("v2")
    v2.sofa_string = case["t2"]
    views = [cas, v2]
    objs = []
    if case.get("twin"):
        D = ts.create_type("meta." + case.get("aname", "x.A").rsplit(".", 1)[-1], "uima.cas.TOP")
        ts.create_feature(D, "begin", "uima.cas.Integer")
        ts.create_feature(D, "end", "uima.cas.Integer")
        twin = D(begin=len(case["t1"]), end=len(case["t1"]) + 3)
        cas.add(twin)
        case["_twin_obj"] = twin
    for a in case["anns"]:
        v = views[a["view"]]
        fs = A(begin=a["b"], end=a["e"])
        if a["indexed"]:
            v.add(fs)
        else:
            holder = T(begin=0, end=0, ref=fs)
            v.add(holder)
            fs.sofa = v.get_sofa()
        objs.append(fs)
    if case["t1b"] is not None:
        cas.sofa_string = case["t1b"]
    return ts, cas, objs


def check_doc_case(case, out, k=0):
    import random
    import warnings

    from cassis import load_cas_from_json, load_cas_from_xmi

    rng = random.Random(repr(sorted(case.items(), key=lambda kv: kv[0])))
    texts = [case["t1b"] or case["t1"], case["t2"]]
    sc = {"k": "doc", "case": case}
    with warnings.catch_warnings():
        warnings.simplefilter("ignore")
        try:
            ts, cas, objs = build_doc_cas(case)
            xmi = cas.to_xmi()
            js = cas.to_json()
        except Exception as e:  # noqa: BLE001
            out.oracle_failures.append({"scenario": sc, "what": "serialisation raised " + repr(e)[:200]})
            return
        out.evaluations += 1
        # --- written offsets are UTF-16 offsets (independent readers) ---
        root = ET.fromstring(xmi.encode("utf-8"))
        by_id = {int(el.get(XMI_NS + "id")): el for el in root if el.get(XMI_NS + "id") is not None}
        data = json.loads(js)
        jby = {fs["%ID"]: fs for fs in data["%FEATURE_STRUCTURES"]}
        tw = case.pop("_twin_obj", None)
        if tw is not None:
            # begin/end of a structure that is not an annotation are plain integers in every document
            el = by_id.get(tw.xmiID); jf = jby.get(tw.xmiID)
            want = [len(case["t1"]), len(case["t1"]) + 3]
            gx = None if el is None else [int(el.get("begin")), int(el.get("end"))]
            gj = None if jf is None else [jf.get("begin"), jf.get("end")]
            if gx != want or gj != want:
                out.oracle_failures.append({"scenario": sc, "what": "integer features begin/end of a non-annotation structure were changed on writing",
                                            "expected": want, "actual": [gx, gj]})
        for a, fs in zip(case["anns"], objs):
            t = texts[a["view"]]
            eb, ee = u16len(t[: a["b"]]), u16len(t[: a["e"]])
            el = by_id.get(fs.xmiID)
            if el is None or int(el.get("begin")) != eb or int(el.get("end")) != ee:
                out.oracle_failures.append({"scenario": sc, "what": "XMI offsets are not the UTF-16 offsets", "ann": a,
                                            "expected": [eb, ee], "actual": None if el is None else [el.get("begin"), el.get("end")]})
            jf = jby.get(fs.xmiID)
            if jf is None or jf.get("begin") != eb or jf.get("end") != ee:
                out.oracle_failures.append({"scenario": sc, "what": "JSON offsets are not the UTF-16 offsets", "ann": a,
                                            "expected": [eb, ee], "actual": None if jf is None else [jf.get("begin"), jf.get("end")]})
            if eb != a["b"] or ee != a["e"]:
                out.nontriv(("doc", k, a["b"], a["e"], a["indexed"]))
        # --- loading maps back to code points: covered text is the same substring ---
        for fmt, load in (("xmi", lambda: load_cas_from_xmi(xmi, typesystem=ts)), ("json", lambda: load_cas_from_json(js))):
            try:
                c2 = load()
            except Exception as e:  # noqa: BLE001
                out.oracle_failures.append({"scenario": sc, "what": fmt + " load raised " + repr(e)[:200]})
                continue
            found = {}
            for fs2 in c2._find_all_fs():
                found[fs2.xmiID] = fs2
            for a, fs in zip(case["anns"], objs):
                t = texts[a["view"]]
                f2 = found.get(fs.xmiID)
                exp = t[a["b"]: a["e"]]
                try:
                    got = None if f2 is None else f2.get_covered_text()
                except Exception as e:  # noqa: BLE001
                    got = repr(e)
                if f2 is None or (f2.begin, f2.end) != (a["b"], a["e"]) or got != exp:
                    out.oracle_failures.append({"scenario": sc, "what": fmt + ": loaded offsets/covered text differ", "ann": a,
                                                "expected": [a["b"], a["e"], exp],
                                                "actual": None if f2 is None else [f2.begin, f2.end, got]})
            # --- the indexes of the loaded CAS are keyed by the CODE-POINT offsets: containment queries and removal work on them ---
            try:
                for vi, vname in enumerate(["_InitialView", "v2"]):
                    v2_ = c2.get_view(vname)
                    A2 = c2.typesystem.get_type(case.get("aname", "x.A"))
                    idx_ = [(a["b"], a["e"]) for a in case["anns"] if a["view"] == vi and a["indexed"]]
                    got_sel = [(x.begin, x.end) for x in v2_.select(A2)]
                    if got_sel != sorted(idx_):
                        out.oracle_failures.append({"scenario": sc, "what": fmt + ": select on the loaded CAS is not the indexed annotations in offset order",
                                                    "expected": sorted(idx_), "actual": got_sel})
                        break
                    for q in v2_.select(A2):
                        exp_cov = sorted((b, e) for (b, e) in idx_ if q.begin <= b and e <= q.end)
                        got_cov = sorted((x.begin, x.end) for x in v2_.select_covered(A2, q))
                        if got_cov != exp_cov:
                            out.oracle_failures.append({"scenario": sc, "what": fmt + ": select_covered on the loaded CAS differs from the containment definition on code-point offsets",
                                                        "span": [q.begin, q.end], "expected": exp_cov, "actual": got_cov})
                            break
                    first = next(iter(v2_.select(A2)), None)
                    if first is not None:
                        v2_.remove(first); v2_.add(first)
            except Exception as e:  # noqa: BLE001
                out.oracle_failures.append({"scenario": sc, "what": fmt + ": index query / remove on the loaded CAS raised " + repr(e)[:200]})
            out.count("loaded:" + fmt)
            # --- replace the text of the first view *after loading*, serialise again: every annotation of
            #     that view (indexed or only referenced) must be written with offsets of the new text ---
            tnew = "".join(rng.choice(ALPHABET + ["q"]) for _ in range(len(texts[0]) + 1))
            try:
                c2.sofa_string = tnew
                x3 = c2.to_xmi()
                j3 = json.loads(c2.to_json())
            except Exception as e:  # noqa: BLE001
                out.oracle_failures.append({"scenario": sc, "what": fmt + ": re-serialisation after text replacement raised " + repr(e)[:200]})
                continue
            r3 = ET.fromstring(x3.encode("utf-8"))
            by3 = {int(el.get(XMI_NS + "id")): el for el in r3 if el.get(XMI_NS + "id") is not None}
            jb3 = {f_["%ID"]: f_ for f_ in j3["%FEATURE_STRUCTURES"]}
            for a, fs in zip(case["anns"], objs):
                if a["view"] != 0:
                    continue
                eb, ee = u16len(tnew[: a["b"]]), u16len(tnew[: a["e"]])
                el = by3.get(fs.xmiID)
                jf = jb3.get(fs.xmiID)
                got3 = None if el is None else [int(el.get("begin")), int(el.get("end"))]
                gotj = None if jf is None else [jf.get("begin"), jf.get("end")]
                if got3 != [eb, ee] or gotj != [eb, ee]:
                    out.oracle_failures.append({"scenario": sc, "what": fmt + ": offsets written after replacing the text of a loaded view are not UTF-16 offsets of the new text",
                                                "ann": a, "new_text": [ord(c) for c in tnew], "expected": [eb, ee], "actual_xmi": got3, "actual_json": gotj})
            out.count("replaced-after-load:" + fmt)


def run_documents(ctx, out, budget):
    rng = ctx.rng(7)
    n = bud(budget, 120, 6000)
    for k in range(n):
        case = doc_case(rng)
        check_doc_case(case, out, k)
        if k < 2:
            out.sample({"doc_case": case})


def run(ctx, out, budget):
    out.rule = ("converter: every (text history, offset) pair compared on implementation, Lean model and an independent "
                "UTF-16 prefix-length oracle; documents: CASes with two views of astral text, indexed and referenced-only "
                "annotations, optional text replacement; offsets read from emitted XMI/JSON by independent parsers. "
                "Non-trivial = distinct texts containing an astral character / annotations whose UTF-16 offsets differ "
                "from their code-point offsets.")
    run_converter(ctx, out, budget)
    run_documents(ctx, out, budget)
    out.partial = ["document-level statement (saved_offsets_utf16 / loaded_offsets_codepoints) is checked on the "
                   "implementation only; its theorem is part of the codec model (C01/C02)"]


def replay(ctx, payload):
    fl = payload.get("failure") or {}
    sc = fl.get("scenario") or {}
    o = common.Outcome()
    if sc.get("k") == "offsets":
        texts = [None if t is None else "".join(chr(c) for c in t) for t in sc["texts"]]
        cur = texts[-1] if texts else None
        got = impl_conv(texts, sc["q"])
        return cur is not None and got != oracle_conv(cur, sc["q"])
    if sc.get("k") == "doc":
        o2 = common.Outcome()
        check_doc_case(sc["case"], o2)
        return bool(o2.oracle_failures)
    return True
