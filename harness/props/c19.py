"""C19 — typecheck reports exactly the FSArray element-type violations."""
from harness import sessions
from harness.common import bud
from harness.sessions import SB

PROP = "C19"
MODULES = ["CassisModel.Properties.C19", "CassisModel.Properties.C15"]
THEOREMS = [
    "Cassis.Traverse.typecheckFs_exact",
    "Cassis.Traverse.typecheckFs_total",
    "Cassis.Traverse.typecheckFs_nil_iff",
    "Cassis.Traverse.typecheckFs_count",
    "Cassis.Traverse.offending_iff_not_anc",
    "Cassis.Traverse.typecheckCas_exact",
    "Cassis.Traverse.typecheckCas_total",
    "Cassis.Traverse.findAllFs_nodup",
    "Cassis.Traverse.findAllFs_terminates",
]
ASSUMPTIONS = [
    "the set of structures typecheck visits is what Cas._find_all_fs collects; that this is exactly the set reachable from the indexed structures is compared with an independent reachability computation of the harness (its proof belongs to C04)",
    "structures are well typed as far as the checked features go: an FSArray-valued feature is None or holds an FSArray structure",
]

TREE = {"x.A": "uima.tcas.Annotation", "x.B": "x.A", "x.C": "x.B", "x.U": "uima.tcas.Annotation", "x.O": "uima.cas.TOP"}
ARR_FEATS = [("plain", None, None), ("elemA", "x.A", None), ("elemB", "x.B", True), ("elemTop", "uima.cas.TOP", None),
             ("elemAnn", "uima.tcas.Annotation", True)]


def subtree(t):
    out = {t}
    ch = True
    while ch:
        ch = False
        for c, p in TREE.items():
            if p in out and c not in out:
                out.add(c); ch = True
    return out


def gen_session(rng, n_nodes):
    sb = SB()
    ts = sb.ts_new()
    for c, p in TREE.items():
        sb.create_type(ts, c, p)
    sb.create_type(ts, "x.Own", "uima.tcas.Annotation")
    for (n, e, m) in ARR_FEATS:
        sb.create_feature(ts, "x.Own", n, "uima.cas.FSArray", elem=e, multi=m)
    sb.create_feature(ts, "x.Own", "link", "uima.cas.TOP")
    sb.create_type(ts, "x.OwnSub", "x.Own")        # inherits every FSArray feature
    sb.create_feature(ts, "x.OwnSub", "extra", "uima.cas.Integer")
    h = sb.cas_new(ts, text="x" * 50)
    h2 = sb.create_view(h, "v2")
    elems = []
    etype = {}
    for i in range(n_nodes):
        t = rng.choice(list(TREE))
        feats = {"begin": i, "end": i} if t != "x.O" else {}
        l = sb.fs_new(ts, t, feats, xid=1000 + sb.n_fs)
        elems.append(l); etype[l] = t
    owners = []
    edges = {}   # owner label -> labels it references (for reachability)
    spec = {}    # owner label -> list of (feature, [element labels or None]) for set arrays
    for k in range(rng.randint(1, 4)):
        o = sb.fs_new(ts, rng.choice(["x.Own", "x.Own", "x.OwnSub"]), {"begin": 100 + k, "end": 100 + k}, xid=1000 + sb.n_fs)
        owners.append(o); edges[o] = []; spec[o] = []
        for (fname, el, multi) in ARR_FEATS:
            r = rng.random()
            if r < 0.25:
                continue  # feature unset
            if r < 0.35:
                arr = sb.fs_new(ts, "uima.cas.FSArray", {}, xid=1000 + sb.n_fs)  # elements = None
                els = None
            elif r < 0.45:
                arr = sb.fs_new(ts, "uima.cas.FSArray", {"elements": {"rs": []}}, xid=1000 + sb.n_fs)
                els = []
            else:
                els = [rng.choice(elems + [None]) for _ in range(rng.randint(1, 5))]
                if all(x is None for x in els):
                    els[0] = elems[0]
                arr = sb.fs_new(ts, "uima.cas.FSArray", {"elements": {"rs": els}}, xid=1000 + sb.n_fs)
            sb.op(op="fs.set", fs=o, path=fname, v={"r": arr})
            spec[o].append((fname, el, els))
            edges[o].extend([x for x in (els or []) if x is not None])
    # some owners are indexed, others only referenced through `link` of an indexed one
    indexed = [owners[0]]
    sb.op(op="cas.add", h=h, fs=owners[0])
    if rng.random() < 0.3:
        sb.op(op="cas.add", h=h2, fs=owners[0])     # the same owner indexed in a second view: still one report per element
    prev = owners[0]
    for o in owners[1:]:
        if rng.random() < 0.5:
            sb.op(op="cas.add", h=rng.choice([h, h2]), fs=o); indexed.append(o)
        elif rng.random() < 0.5:
            sb.op(op="fs.set", fs=prev, path="link", v={"r": o}); edges[prev].append(o)
        elif rng.random() < 0.7:
            # reachable only as a member of an FSArray that is not the value of an FSArray-ranged feature
            arr = sb.fs_new(ts, "uima.cas.FSArray", {"elements": {"rs": [o]}}, xid=1000 + sb.n_fs)
            if rng.random() < 0.5:
                sb.op(op="fs.set", fs=prev, path="link", v={"r": arr}); edges[prev].append(o)
            else:
                outer = sb.fs_new(ts, "uima.cas.FSArray", {"elements": {"rs": [arr]}}, xid=1000 + sb.n_fs)
                sb.op(op="cas.add", h=h, fs=outer); indexed.append(o)
        prev = o
    # independent reachability from the indexed structures
    reach, todo = set(), list(indexed)
    while todo:
        a = todo.pop()
        if a in reach:
            continue
        reach.add(a)
        todo.extend(edges.get(a, []))
    expected = []
    for o in owners:
        if o not in reach:
            continue
        for (fname, el, els) in spec[o]:
            allowed = subtree(el) if el not in (None, "uima.cas.TOP") else None
            if el == "uima.tcas.Annotation":
                allowed = set(TREE) - {"x.O"}
            for x in (els or []):
                if x is None:
                    continue
                if allowed is not None and etype[x] not in allowed:
                    expected.append(1000 + o)
    i = sb.op(op="cas.typecheck", h=h)
    return sb.ops, i, sorted(expected), len(owners) - len(indexed)


def evaluate(ctx, out, sess):
    ops_list = [s[0] for s in sess]
    impl = sessions.run_impl_sessions(ops_list)
    model = sessions.run_model_sessions(ctx.driver, ops_list)
    for si, (ops, i, exp, n_ref_only) in enumerate(sess):
        io = impl[si]
        sc = {"k": "session", "ops": ops}
        out.evaluations += 1
        if model is not None:
            def canon_op(k, x, i=i):
                if k == i and "ok" in x:
                    return {"ok": sorted(x["ok"], key=str)}
                return x
            d = sessions.first_diff(io, model[si], canon_op)
            if d is not None:
                out.disagreements.append({"scenario": sc, "op_index": d, "impl": io[d] if d < len(io) else None,
                                          "model": model[si][d] if model[si] and d < len(model[si]) else None})
        got = io[i]
        if "ok" not in got:
            out.oracle_failures.append({"scenario": sc, "op_index": i, "what": "typecheck raised", "expected": exp, "actual": got})
        elif sorted(got["ok"], key=str) != exp:
            out.oracle_failures.append({"scenario": sc, "op_index": i, "what": "typecheck errors are not exactly the offending elements",
                                        "expected": exp, "actual": sorted(got["ok"], key=str)})
        out.count("errors:%d" % min(len(exp), 5))
        if exp:
            out.nontriv(("err", si))
        if n_ref_only:
            out.count("has-referenced-only-owner")
        if si < 2:
            out.sample({"ops_tail": ops[-6:], "expected_owner_ids": exp, "impl": got})


def run(ctx, out, budget):
    out.rule = ("type tree A>B>C, U, O(non-annotation); an owner type with five FSArray features (no element type, A, B shared, "
                "TOP, Annotation shared); each owner feature is unset / array without element list / empty array / array of "
                "conforming, non-conforming and null elements; owners indexed or reachable only through a reference. Oracle = "
                "the generator's own reachability and subtree computation. Non-trivial = distinct sessions with >= 1 expected error.")
    rng = ctx.rng(0)
    n = bud(budget, 300, 40000)
    evaluate(ctx, out, [gen_session(rng, rng.randint(1, 8)) for _ in range(n)])


def replay(ctx, payload):
    fl = payload.get("failure") or {}
    io = sessions.run_impl_sessions([fl["scenario"]["ops"]])[0]
    got = io[fl["op_index"]]
    return not ("ok" in got and sorted(got["ok"], key=str) == fl["expected"])
