"""C10 — Type hierarchy queries agree with the declared single-inheritance tree."""
from harness import sessions, tsderive, tsgen
from harness.common import bud
from harness.sessions import SB

PROP = "C10"
MODULES = ["CassisModel.Properties.C10"]
THEOREMS = [
    "Cassis.TS.consistent_builtins",
    "Cassis.TS.builtins_replay",
    "Cassis.TS.consistent_createType",
    "Cassis.TS.consistent_addFeature",
    "Cassis.TS.consistent_createFeature",
    "Cassis.TS.consistent_history",
    "Cassis.TS.descendants_eq_closure",
    "Cassis.TS.descendants_nodup",
    "Cassis.TS.subsumes_iff_ancestor",
    "Cassis.TS.isInstanceOf_iff_ancestor",
    "Cassis.TS.subsumes_iff_mem_descendants",
    "Cassis.TS.child_of_super_only",
    "Cassis.TS.getType_full",
    "Cassis.TS.getType_short_unique",
    "Cassis.TS.getType_unknown_or_ambiguous",
    "Cassis.TS.containsType_iff",
    "Cassis.TS.createType_final_error",
    "Cassis.TS.createType_duplicate_user_error",
]
ASSUMPTIONS = [
    "types are identified by name inside one type system in the model; that every Type object reachable through supertypes and feature domain/range/element types *is* the registered object is observed on the implementation only (identity walk), not proved",
    "histories: create_type / create_feature through the API, then optionally one derivation (load_typesystem(to_xml()), the type system reconstructed from a JSON document, merge with itself / an empty type system / a copy in which some types hang below a more general ancestor, so that merging re-parents them); the theorems cover the API steps (C10), the loader (C12: load_consistent) and the merge (C13: merge_consistent); that a derivation reproduces the same tree is checked per run",
    "re-creating a predefined type name (finding T3) is outside the theorems' hypothesis (hasExact ts name = false)",
]


def gen_session(rng, n_ops, finding_stream=False):
    sb = SB()
    ts = sb.ts_new()
    sh = tsgen.Shadow()
    expect = {}  # op index -> expected outcome
    kind = None if finding_stream else rng.choice([None, None] + tsderive.KINDS)
    if kind == "merge-reparent-again":
        # the shape this derivation is about: a type without namespace with a subtype, and a packaged type of the same short name
        for (n_, s_) in (("Base", "uima.tcas.Annotation"), ("x.Base", "uima.tcas.Annotation"), ("p.Kid", "Base"), ("p.Kid2", "p.Kid")):
            i = len(sb.ops)
            sb.create_type(ts, n_, s_)
            expect[i] = sh.create_type(n_, s_)
    for _ in range(n_ops):
        r = rng.random()
        if r < 0.72:
            name = tsgen.rand_type_name(rng)
            if rng.random() < 0.8:
                sup = rng.choice(sh.order)
            else:
                sup = rng.choice(["uima.cas.IntegerArray", "uima.cas.StringArray", "no.such.Type", "Token", "A", "Annotation",
                                  "TOP", "Sofa", "uima.cas.FSArray", "uima.cas.String", "IntegerArray", "StringArray",
                                  "ByteArray", "FSArray"])
            if finding_stream and rng.random() < 0.3:
                name = rng.choice(sorted(sh.K["predefined"]))
            if name in sh.K["predefined"] and not finding_stream:
                continue
            i = len(sb.ops)
            sb.create_type(ts, name, sup)
            expect[i] = sh.create_type(name, sup)
        else:
            dom = rng.choice(sh.order)
            if kind is not None:
                # a type system that is going to be serialised keeps the built-in types as they are
                usr = [n for n in sh.order if n not in sh.K["predefined"] and n != "uima.tcas.DocumentAnnotation"]
                if not usr:
                    continue
                dom = rng.choice(usr)
            i = len(sb.ops)
            if rng.random() < 0.25:
                # element types are Type objects a loader has to resolve as well (identity walk below)
                sb.create_feature(ts, dom, rng.choice(tsgen.FEAT_NAMES), "uima.cas.FSArray", elem=rng.choice(sh.order[-5:]))
            else:
                sb.create_feature(ts, dom, rng.choice(tsgen.FEAT_NAMES), rng.choice(tsgen.RANGES_PRIM + sh.order[-5:]))
            # feature creation is C11's subject: here it only has to leave the tree alone
    # the queries are asked of the type system itself or of one derived from it by XML / JSON loading or merging
    orig = ts
    if kind is not None:
        ts = tsderive.derive(rng, sb, ts, sh, kind)
    lst = (lambda l: ("val", l)) if kind is None else (lambda l: ("set", sorted(l)))
    # queries
    names = list(sh.order)
    user = [n for n in names if n not in sh.K["predefined"]]
    sample = user[:] + rng.sample(names, min(6, len(names)))
    rng.shuffle(sample)
    sample = sample[:14]
    for a in sample:
        i = len(sb.ops); sb.query(ts, "supertype", name=a); expect[i] = ("val", sh.parent[a])
        i = len(sb.ops); sb.query(ts, "children", name=a); expect[i] = lst(sh.children(a))
        i = len(sb.ops); sb.query(ts, "descendants", name=a); expect[i] = lst(sh.descendants(a))
    for a in sample[:10]:
        for b in sample[:10]:
            i = len(sb.ops); sb.query(ts, "subsumes", a=a, b=b); expect[i] = ("val", sh.subsumes(a, b))
            i = len(sb.ops); sb.query(ts, "is_instance_of", a=b, b=a); expect[i] = ("val", sh.subsumes(a, b))
    shorts = sorted({sh.short(n) for n in user}) + ["Nope", "Annotation", "TOP"]
    for n in user[:8] + shorts + ["no.such.Type", "x.", ""]:
        r = sh.resolve(n)
        i = len(sb.ops); sb.query(ts, "get_type", name=n)
        expect[i] = ("val", r) if r is not None else "TypeNotFoundError"
        i = len(sb.ops); sb.query(ts, "contains", name=n); expect[i] = ("val", r is not None)
    i = len(sb.ops); sb.query(ts, "identity"); expect[i] = ("val", True)
    if kind is not None:
        # a derivation leaves the type system it started from alone: it still describes one tree of its own objects, also
        # after it grows further
        i = len(sb.ops); sb.query(orig, "identity"); expect[i] = ("val", True)
        if user:
            sup = rng.choice(user)
            nn = "late.Sub%d" % rng.randrange(10 ** 6)
            i = len(sb.ops); sb.create_type(orig, nn, sup); expect[i] = "ok"
            i = len(sb.ops); sb.query(orig, "descendants", name=sup); expect[i] = ("set", sorted(sh.descendants(sup) + [nn]))
            i = len(sb.ops); sb.query(orig, "identity"); expect[i] = ("val", True)
    sb.meta["derived"] = kind
    return sb.ops, expect, len(user)


def evaluate(ctx, out, sess, tag):
    ops_list = [s[0] for s in sess]
    impl = sessions.run_impl_sessions(ops_list)
    model = sessions.run_model_sessions(ctx.driver, ops_list)
    for si, (ops, expect, nuser) in enumerate(sess):
        io = impl[si]
        if model is not None:
            def canon_op(i, x, ops=ops):
                # the order of children / descendants / registered types of a derived type system is not compared
                if i < len(ops) and ops[i]["op"] == "ts.query" and ops[i].get("kind") in ("children", "descendants", "types") \
                        and isinstance(x, dict) and isinstance(x.get("ok"), list):
                    return {"ok": sorted(x["ok"])}
                return x
            d = sessions.first_diff(io, model[si], canon_op)
            if d is not None:
                out.disagreements.append({"scenario": {"k": "session", "ops": ops}, "op_index": d,
                                          "impl": io[d] if d < len(io) else None,
                                          "model": model[si][d] if model[si] and d < len(model[si]) else None})
        for i, exp in expect.items():
            if exp is None:
                continue
            out.evaluations += 1
            got = io[i]
            out.count("op:" + ops[i]["op"] + (":" + ops[i].get("kind", "") if ops[i]["op"] == "ts.query" else ""))
            if exp == "ok":
                ok = "ok" in got
            elif isinstance(exp, tuple) and exp[0] == "set":
                ok = "ok" in got and isinstance(got["ok"], list) and sorted(got["ok"]) == exp[1]
            elif isinstance(exp, tuple):
                ok = "ok" in got and got["ok"] == exp[1]
            else:
                ok = got.get("err") == exp
                out.count("err:" + exp)
            if not ok:
                out.oracle_failures.append({"scenario": {"k": "session", "ops": ops}, "op_index": i, "op": ops[i],
                                            "what": "API answer differs from the declared tree", "expected": exp, "actual": got})
        if nuser >= 3:
            out.nontriv((tag, si))
        if si < 2:
            out.sample({"n_ops": len(ops), "first_ops": ops[:4], "last_op": ops[-2], "impl_last": io[-2]})


def run(ctx, out, budget):
    out.rule = ("histories of create_type over arbitrary (built-in, user, final, unknown, short-named) parents mixed with "
                "create_feature, then supertype/children/descendants for a sample of types, subsumes/is_instance_of for all "
                "pairs of the sample, get_type/contains_type for full, short, ambiguous and unknown names, and an object "
                "identity walk. Non-trivial = distinct histories that created >= 3 user types.")
    rng = ctx.rng(0)
    n = bud(budget, 60, 4800)
    sess = [gen_session(rng, rng.randint(3, 25)) for _ in range(n)]
    sess += [gen_session(rng, rng.randint(40, 70)) for _ in range(bud(budget, 4, 240))]
    evaluate(ctx, out, sess, "h")
    out.partial = ["object identity of reachable Type objects: implementation-side observation only"]


def finding_of(fl):
    # T3: the failing scenario re-creates a predefined type name
    pre = tsgen.builtin_table()[2]["predefined"]
    for o in fl["scenario"]["ops"]:
        if o["op"] == "ts.create_type" and o["name"] in pre:
            return "T3-recreate-predefined"
    return None


T3_WITNESS = [
    {"op": "ts.new"},
    {"op": "ts.create_type", "ts": 0, "name": "uima.cas.Sofa", "super": "uima.tcas.Annotation"},
    {"op": "ts.query", "ts": 0, "kind": "children", "name": "uima.cas.TOP"},
    {"op": "ts.query", "ts": 0, "kind": "supertype", "name": "uima.cas.Sofa"},
]


def run_witness(ctx, finding):
    if finding["id"] != "T3-recreate-predefined":
        return False
    io = sessions.run_impl_sessions([T3_WITNESS])[0]
    # create_type accepts the predefined name again: afterwards uima.cas.Sofa is still among the children
    # of uima.cas.TOP although its supertype is now uima.tcas.Annotation (a type listed under a non-parent)
    return "ok" in io[1] and "uima.cas.Sofa" in (io[2].get("ok") or []) and io[3].get("ok") == "uima.tcas.Annotation"


def replay(ctx, payload):
    fl = payload.get("failure") or {}
    ops = fl["scenario"]["ops"]
    io = sessions.run_impl_sessions([ops])[0]
    exp = fl["expected"]
    got = io[fl["op_index"]]
    if exp == "ok":
        return "ok" not in got
    if isinstance(exp, (list, tuple)) and len(exp) == 2 and exp[0] == "val":
        return not ("ok" in got and got["ok"] == exp[1])
    return got.get("err") != exp
