"""C14 — Serialisation is deterministic and does not disturb the CAS."""
import json
import os
import subprocess
import sys

from harness import casgen, common, sessions
from harness.common import bud
from harness.props import c05

PROP = "C14"
MODULES = ["CassisModel.Properties.C14", "CassisModel.Properties.C15", "CassisModel.Properties.C14Json"]
THEOREMS = [
    "Cassis.Json.saveJson_idempotent",
    "Cassis.Json.saveJson_idempotent_second",
    "Cassis.Json.saveJson_heap_frame",
    "Cassis.Xmi.sortById_perm_invariant",
    "Cassis.Xmi.sortInts_perm_invariant",
    "Cassis.Json.sortByName_perm_invariant",
    "Cassis.TsXml.toDescriptor_perm_invariant",
    "Cassis.Traverse.findAllFs_idempotent",
    "Cassis.Traverse.findAllFs_heap_frame",
    "Cassis.Xmi.saveXmi_idempotent",
    "Cassis.Xmi.saveXmi_heap_frame",
]
ASSUMPTIONS = [
    "proved on the model: every place where the code iterates a set or dict whose order is not fixed feeds a sort whose result does not depend on that order (structures by id, view members numerically, embedded types and descriptor types by name); the traversal changes nothing in the heap but missing ids; repeating it (hence repeating a serialisation) yields the same collection, the same document and the same state",
    "the cross-process part (PYTHONHASHSEED) and the sink dispatch (str/Path/return value) are runtime behaviour the model cannot exhibit: they are observed by re-running every scenario in fresh interpreters with different hash seeds and comparing SHA-256 of the produced bytes (partial)",
    "generated CASes satisfy the property's precondition: no two indexed structures of one type and view tie on their offsets",
]

SEEDS_QUICK = ["0", "1", "4242"]
SEEDS_THOROUGH = ["0", "1", "2", "3", "17", "4242", "99991", "123456789", "7", "31337", "65535", "2147483647"]


def run_in_seed(seed, sess):
    env = dict(os.environ)
    env["PYTHONHASHSEED"] = seed
    root = os.path.dirname(os.path.dirname(os.path.dirname(os.path.abspath(__file__))))
    env["PYTHONPATH"] = common.REPO + ":" + root
    p = subprocess.run([sys.executable, "-m", "harness.seedrun"], input=json.dumps(sess).encode(), env=env,
                       stdout=subprocess.PIPE, stderr=subprocess.PIPE, cwd=os.path.dirname(os.path.dirname(os.path.dirname(os.path.abspath(__file__)))),
                       timeout=3000)
    if p.returncode != 0:
        raise RuntimeError("seed run failed: " + p.stderr.decode()[-2000:])
    r = json.loads(p.stdout.decode())
    assert r["hashseed"] == seed
    return r["outs"]


def ser_ops(rng, h, ts):
    """one of each serialisation flavour, shuffled, with random sinks"""
    ops = []
    for pretty in (False, True):
        ops.append({"op": "raw.xmi", "h": h, "pretty": pretty, "sink": rng.choice(["none", "str", "path"])})
    for mode in ("full", "minimal", "none"):
        ops.append({"op": "raw.json", "h": h, "mode": mode, "pretty": rng.random() < 0.5, "ascii": rng.random() < 0.5,
                    "sink": rng.choice(["none", "str", "path"])})
    ops.append({"op": "raw.tsxml", "h": h, "sink": rng.choice(["none", "str", "path"])})
    ops.append({"op": "xmi.save", "h": h})
    ops.append({"op": "json.save", "h": h, "mode": rng.choice(["full", "minimal"])})
    ops.append({"op": "cas.typecheck", "h": h})
    ops.append({"op": "cas.select_all", "h": h})
    rng.shuffle(ops)
    return ops


def all_sinks(h):
    out = []
    for sink in ("none", "str", "path"):
        out.append({"op": "raw.xmi", "h": h, "pretty": False, "sink": sink})
        out.append({"op": "raw.json", "h": h, "mode": "full", "pretty": False, "ascii": False, "sink": sink})
        out.append({"op": "raw.tsxml", "h": h, "sink": sink})
    return out


def ser_key(o):
    return json.dumps({k: v for k, v in o.items() if k != "sink"}, sort_keys=True)


def make_session(rng, g, desc, tsdump=None):
    ops = list(g.sb.ops)
    h = g.views["_InitialView"]
    origin = "api"
    nh = g.sb.n_h
    # type systems loaded from XML and merged (their registries are filled in toposort / set order)
    ts_ops = []
    if desc is not None:
        layout = {"order": rng.sample(range(len(desc)), len(desc))} if len(desc) > 1 else None
        d2 = [desc[i] for i in layout["order"]] if layout else list(desc)
        if tsdump is not None and rng.random() < 0.6:
            # built-ins redeclared identically are remembered in a set and written back: their order must not depend
            # on the hash seed
            from harness.props import c12
            for bn in rng.sample(["uima.tcas.Annotation", "uima.cas.Sofa", "uima.cas.AnnotationBase", "uima.cas.FSArray",
                                  "uima.cas.NonEmptyFSList", "uima.cas.StringArray", "uima.cas.FSList"], rng.randint(2, 5)):
                d2.insert(rng.randint(0, len(d2)), c12.builtin_entry(tsdump, bn))
        ops.append({"op": "ts.load_xml", "desc": d2})
        t_xml = g.sb.n_ts
        ops.append({"op": "ts.merge", "inputs": [t_xml, g.ts]})
        for t in (t_xml, t_xml + 1):
            for sink in ("none", "str", "path"):
                ts_ops.append({"op": "raw.tsxml", "ts": t, "sink": sink})
            ts_ops.append({"op": "ts.to_xml", "ts": t})
    # a type that is extended AFTER the first rounds of serialisation (see the end of the session).  Its name is unique per
    # scenario: `Type.__eq__` is structural across type systems, so equally named types of other scenarios run by the same
    # interpreter could otherwise answer for it in a per-type cache
    late = None
    if rng.random() < 0.6:
        late = "x.Late%d" % rng.randrange(10 ** 9)
        ops.append({"op": "ts.create_type", "ts": g.ts, "name": late, "super": "uima.cas.TOP"})
        ops.append({"op": "ts.create_feature", "ts": g.ts, "domain": late, "name": "v", "range": "uima.cas.Integer"})
        g.sb.fs_new(g.ts, late, {"v": 1}); ops.append(g.sb.ops[-1])
        ops.append({"op": "cas.add", "h": h, "fs": g.sb.n_fs - 1})
    late_ts = g.ts
    r = rng.random()
    views = list(g.views.values())
    if r < 0.25:
        ops.append({"op": "cas.reload", "h": h, "fmt": "xmi"})
        h, origin, views = nh, "xmi", [nh]
    elif r < 0.5:
        ops.append({"op": "cas.reload", "h": h, "fmt": "json"})
        h, origin, views = nh, "json", [nh]
        late_ts = g.sb.n_ts + (2 if desc is not None else 0)   # the CAS loaded from JSON brings its own type system
    obs = [{"op": "cas.select_all", "h": v} for v in views]
    # a typed query through EVERY view (also views without members): queries must not leave anything behind that a later
    # serialisation shows
    obs += [{"op": "cas.select", "h": v, "type": rng.choice(g.order + ["uima.tcas.Annotation"])} for v in views]
    for t in rng.sample(g.order, min(2, len(g.order))):
        obs.append({"op": "cas.select", "h": h, "type": t})
    labels = list(range(g.sb.n_fs)) if origin == "api" else []
    slots = [{"op": "fs.slots", "fs": l} for l in labels]
    marks = {}
    # observations before anything is serialised (only a part of the scenarios: the queries of A0 already touch the indexes)
    if rng.random() < 0.5:
        marks["A0"] = (len(ops), len(ops) + len(obs) + len(slots))
        ops += obs + slots
    # one serialisation before the first query of the other scenarios (queries must not leave anything behind that a later
    # serialisation shows)
    ops.append({"op": "raw.xmi", "h": h, "pretty": False, "sink": "none"})
    ops.append({"op": "raw.json", "h": h, "mode": "none", "pretty": False, "ascii": False, "sink": "none"})
    marks["A"] = (len(ops), len(ops) + len(obs) + len(slots))
    ops += obs + slots
    s1 = ser_ops(rng, h, g.ts) + ts_ops
    rng.shuffle(s1)
    marks["S1"] = (len(ops), len(ops) + len(s1))
    ops += s1
    marks["B"] = (len(ops), len(ops) + len(obs) + len(slots) + 1)
    ops += obs + slots + [{"op": "cas.dump", "h": h, "fine": True}]
    s2 = ser_ops(rng, h, g.ts) + all_sinks(h)
    marks["S2"] = (len(ops), len(ops) + len(s2))
    ops += s2
    marks["C"] = (len(ops), len(ops) + len(obs) + len(slots) + 1)
    ops += obs + slots + [{"op": "cas.dump", "h": h, "fine": True}]
    if late is not None and origin == "api":   # (labels of structures created after a reload are not comparable between model and code)
        # ... extend the type system after everything above was serialised (several times), use the new feature, serialise again
        ops.append({"op": "ts.create_feature", "ts": late_ts, "domain": late, "name": "late", "range": "uima.cas.String"})
        g.sb.fs_new(late_ts, late, {"v": 2, "late": "x"}); ops.append(g.sb.ops[-1])
        ops.append({"op": "cas.add", "h": h, "fs": g.sb.n_fs - 1})
        l0 = len(ops)
        ops += [{"op": "json.save", "h": h, "mode": "full"}, {"op": "json.save", "h": h, "mode": "minimal"}, {"op": "ts.to_xml", "ts": late_ts},
                {"op": "raw.json", "h": h, "mode": "full", "pretty": False, "ascii": False, "sink": "none"},
                {"op": "raw.tsxml", "h": h, "sink": "none"}, {"op": "raw.xmi", "h": h, "pretty": False, "sink": "none"}]
        marks["L"] = (l0, len(ops), late)
    return ops, marks, origin, len(slots), len(obs)


def strip_xid(x):
    if isinstance(x, dict) and isinstance(x.get("ok"), dict) and "%xid" in x["ok"]:
        d = dict(x["ok"])
        d.pop("%xid")
        return {"ok": d}
    return x


def model_ops(ops):
    out = []
    for o in ops:
        if o["op"] == "raw.xmi":
            out.append({"op": "xmi.save", "h": o["h"]})
        elif o["op"] == "raw.json":
            out.append({"op": "json.save", "h": o["h"], "mode": o["mode"]})
        elif o["op"] == "raw.tsxml":
            out.append({"op": "cas.views", "h": o["h"]} if "h" in o else {"op": "ts.to_xml", "ts": o["ts"]})      # no state change in the model
        else:
            out.append(o)
    return out


def run(ctx, out, budget):
    out.rule = ("type-directed CASes as for C01 (built through the API, or loaded from their XMI / JSON form), no index-key ties. Per scenario: "
                "observations A (select_all per view, select of two types, slot dump of every structure), a shuffled sequence S1 of "
                "{to_xmi plain/pretty, to_json FULL/MINIMAL/NONE x pretty x ensure_ascii, typesystem.to_xml, typecheck, select_all} with "
                "random sinks {returned string, str path, Path}, observations B (+ fine dump), a second shuffled sequence S2 plus every "
                "format through every sink, observations C. Checked: A = B up to ids that were missing, B = C exactly, every "
                "serialisation flavour gives one SHA-256 whatever the sink and the position in the sequence; the whole scenario is "
                "re-run in fresh interpreters with PYTHONHASHSEED in a seed set and every SHA-256 must agree across seeds. "
                "Non-trivial = distinct (scenario, seed) pairs with >= 2 structures.")
    rng = ctx.rng(0)
    n = bud(budget, 40, 1800)
    seeds = SEEDS_QUICK if budget == "quick" else SEEDS_THOROUGH
    gens = [casgen.CasGen(rng, n_types=rng.randint(1, 6), n_fs=rng.randint(1, 9), xmi_safe=True).build() for _ in range(n)]
    # the descriptors of the generated type systems (stage A, this process), to load them back from XML
    stage_a = sessions.run_impl_sessions([list(g.sb.ops) + [{"op": "ts.query", "ts": g.ts, "kind": "dump"}, {"op": "ts.to_xml", "ts": g.ts}] for g in gens])
    descs = [io_[-1].get("ok") for io_ in stage_a]
    dumps = [io_[-2].get("ok") for io_ in stage_a]
    scen = [make_session(rng, g, d, dm) for g, d, dm in zip(gens, descs, dumps)]
    sess = [s[0] for s in scen]
    from concurrent.futures import ThreadPoolExecutor
    with ThreadPoolExecutor(max_workers=min(len(seeds), 12)) as ex:
        per_seed = list(ex.map(lambda sd: run_in_seed(sd, sess), seeds))
    model = sessions.run_model_sessions(ctx.driver, [model_ops(o) for o in sess])
    # the same scenarios in the opposite order in one more fresh interpreter: what a scenario writes must not depend on which
    # other CASes / type systems the process serialised before (module- or class-level state)
    rev = list(reversed(run_in_seed(seeds[0], list(reversed(sess)))))
    for si, (ops, marks, origin, n_slots, n_obs) in enumerate(scen):
        for i, (o, r, r0) in enumerate(zip(ops, rev[si], per_seed[0][si])):
            if o["op"].startswith("raw.") and r != r0:
                out.oracle_failures.append({"scenario": {"k": "session", "ops": ops, "origin": origin, "hashseed": seeds[0]}, "op_index": i,
                                            "what": "bytes depend on which other scenarios the interpreter ran before (scenario order reversed)",
                                            "expected": r0, "actual": r})
                break
    for si, (ops, marks, origin, n_slots, n_obs) in enumerate(scen):
        sc = {"k": "session", "ops": ops, "origin": origin}
        ref = per_seed[0][si]
        out.count("origin:" + origin)
        for sdi, sd in enumerate(seeds):
            io_ = per_seed[sdi][si]
            out.evaluations += 1
            scs = dict(sc, hashseed=sd)
            bad = [i for i, (o, r) in enumerate(zip(ops, io_)) if "ok" not in r and o["op"].startswith(("raw.", "xmi.", "json.", "cas.dump"))]
            if bad:
                out.oracle_failures.append({"scenario": scs, "op_index": bad[0], "what": "a serialisation raised", "actual": io_[bad[0]]})
                continue
            # one SHA per flavour within the process
            shas = {}
            lstart = marks["L"][0] if "L" in marks else len(ops)
            for i, (o, r) in enumerate(zip(ops, io_)):
                if i >= lstart:
                    break
                if o["op"].startswith("raw."):
                    kk = ser_key(o)
                    if kk in shas and shas[kk][1] != r["ok"]:
                        out.oracle_failures.append({"scenario": scs, "op_index": i, "what": "the same serialisation gives different bytes (sink %s vs %s, or repeated)" % (ops[shas[kk][0]].get("sink"), o.get("sink")),
                                                    "expected": shas[kk][1], "actual": r["ok"], "first_index": shas[kk][0]})
                        break
                    shas.setdefault(kk, (i, r["ok"]))
            # the structured documents repeat as well
            docs = {}
            for i, (o, r) in enumerate(zip(ops, io_)):
                if i >= lstart:
                    break
                if o["op"] in ("xmi.save", "json.save"):
                    kk = ser_key(o)
                    c = common.canon(r)
                    if kk in docs and docs[kk][1] != c:
                        out.oracle_failures.append({"scenario": scs, "op_index": i, "what": "repeated serialisation gives a different document", "first_index": docs[kk][0]})
                        break
                    docs.setdefault(kk, (i, c))
            # non-disturbance
            a0, a1 = marks["A"]; b0, b1 = marks["B"]; c0, c1 = marks["C"]
            A = [sessions.sort_entries(x) for x in io_[a0:a1]]
            B = [sessions.sort_entries(x) for x in io_[b0:b1]]
            C = [sessions.sort_entries(x) for x in io_[c0:c1]]
            if common.canon(B) != common.canon(C):
                j = next(j for j in range(len(B)) if common.canon(B[j]) != common.canon(C[j]))
                out.oracle_failures.append({"scenario": scs, "op_index": c0 + j, "what": "serialising changed what a later query/dump returns",
                                            "expected": B[j], "actual": C[j]})
            if "A0" in marks:
                z0, z1 = marks["A0"]
                A0 = [strip_xid(sessions.sort_entries(x)) for x in io_[z0:z1]]
                A1 = [strip_xid(x) for x in A]
                if common.canon(A0) != common.canon(A1):
                    j = next(j for j in range(len(A0)) if common.canon(A0[j]) != common.canon(A1[j]))
                    out.oracle_failures.append({"scenario": scs, "op_index": a0 + j, "what": "the first serialisation changed more than missing ids",
                                                "expected": A0[j], "actual": A1[j]})
            A2 = [strip_xid(x) for x in A]
            B2 = [strip_xid(x) for x in B[:-1]]
            if common.canon(A2) != common.canon(B2):
                j = next(j for j in range(len(A2)) if common.canon(A2[j]) != common.canon(B2[j]))
                out.oracle_failures.append({"scenario": scs, "op_index": b0 + j, "what": "the first serialisations changed more than missing ids",
                                            "expected": A2[j], "actual": B2[j]})
            else:
                # ids present before must be kept
                for x, y in zip(A, B[:-1]):
                    if isinstance(x.get("ok"), dict) and "%xid" in x["ok"] and x["ok"]["%xid"] is not None and x["ok"]["%xid"] != y["ok"]["%xid"]:
                        out.oracle_failures.append({"scenario": scs, "what": "serialising changed an existing id", "expected": x, "actual": y})
                        break
            # serialisations made before an extension of the type system must not decide what later ones write
            if "L" in marks:
                l0, l1, late = marks["L"]
                for i in (l0, l0 + 1, l0 + 2):
                    r = io_[i].get("ok")
                    decls = (r.get("types") if isinstance(r, dict) else r) or []
                    ent = next((t for t in decls if t.get("name") == late), None)
                    if ent is None or sorted(f["name"] for f in ent["feats"]) != ["late", "v"]:
                        out.oracle_failures.append({"scenario": scs, "op_index": i, "what": "a serialisation made after the type system was extended does not declare the extension (earlier serialisations disturbed later ones)",
                                                    "expected": [late, ["late", "v"]], "actual": ent})
                        break
            # across hash seeds
            if sdi > 0:
                for i, (o, r, r0) in enumerate(zip(ops, io_, ref)):
                    if o["op"].startswith("raw.") and r != r0:
                        out.oracle_failures.append({"scenario": scs, "op_index": i, "what": "bytes differ between PYTHONHASHSEED=%s and %s" % (seeds[0], sd),
                                                    "expected": r0, "actual": r})
                        break
            nfs = len(io_[c1 - 1].get("ok", {}).get("fs", {})) if isinstance(io_[c1 - 1].get("ok"), dict) else 0
            if nfs >= 2:
                out.nontriv((si, sd))
        if model is not None and model[si] is not None:
            mops = model_ops(ops)

            def canon_op(i, x, ops=ops, mops=mops):
                if i < len(ops) and ops[i]["op"].startswith("raw."):
                    return {"ok": "raw"}
                if i < len(ops) and ops[i]["op"] in ("cas.select_all", "cas.select"):
                    x = sessions.sort_entries(x)
                    if isinstance(x, dict) and isinstance(x.get("ok"), list):
                        return {"ok": sorted([e[:2] for e in x["ok"]], key=lambda e: json.dumps(e))}
                    return x
                if i < len(ops) and ops[i]["op"] == "cas.typecheck" and isinstance(x, dict) and "ok" in x:
                    return {"ok": sorted(x["ok"], key=str)}
                if i < len(ops) and ops[i]["op"] == "fs.slots" and isinstance(x, dict) and isinstance(x.get("ok"), dict):
                    return {"ok": {k: ({"empty": []} if isinstance(v, dict) and len(v) == 1 and list(v.values())[0] == [] else v)
                                   for k, v in x["ok"].items()}}
                return c05.c04_canon(i, x, mops)
            d = sessions.first_diff(ref, model[si], canon_op)
            if d is not None:
                out.disagreements.append({"scenario": sc, "op_index": d, "op": {kk: vv for kk, vv in ops[d].items() if kk != "doc"} if d < len(ops) else None,
                                          "impl": ref[d] if d < len(ref) else None, "model": model[si][d] if d < len(model[si]) else None})
        if si < 2:
            out.sample({"origin": origin, "n_ops": len(ops), "seeds": seeds, "sha_sample": [r["ok"] for o, r in zip(ops, ref) if o["op"].startswith("raw.")][:3]})
    out.partial = ["cross-process hash-seed independence and sink dispatch: observed, not provable on a model"]


def replay(ctx, payload):
    fl = payload.get("failure") or {}
    sc = fl["scenario"]
    ops = sc["ops"]
    seeds = [sc.get("hashseed") or "0", "0", "1"]
    outs = [run_in_seed(sd, [ops])[0] for sd in dict.fromkeys(seeds)]
    for io_ in outs:
        shas = {}
        for o, r in zip(ops, io_):
            if o["op"].startswith(("raw.", "xmi.save", "json.save")):
                if "ok" not in r:
                    return True
                kk = ser_key(o)
                if kk in shas and common.canon(shas[kk]) != common.canon(r["ok"]):
                    return True
                shas.setdefault(kk, r["ok"])
    for io_ in outs[1:]:
        for o, r, r0 in zip(ops, io_, outs[0]):
            if o["op"].startswith("raw.") and r != r0:
                return True
    # non-disturbance: the two trailing observation blocks are identical
    dumps = [i for i, o in enumerate(ops) if o["op"] == "cas.dump"]
    if len(dumps) >= 2 and common.canon(outs[0][dumps[-1]]) != common.canon(outs[0][dumps[-2]]):
        return True
    return False


def run_witness(ctx, finding):
    if finding["id"] != "J8-sofa-array-through-api":
        return False
    import warnings
    from cassis import Cas, TypeSystem
    with warnings.catch_warnings():
        warnings.simplefilter("ignore")
        try:
            ts = TypeSystem(); H = ts.create_type("x.Holder", "uima.cas.TOP"); ts.create_feature(H, "arr", "uima.cas.ByteArray")
            BA = ts.get_type("uima.cas.ByteArray")
            cas = Cas(ts); arr = BA(elements=b"abc"); cas.sofa_array = arr; cas.sofa_mime = "x/y"; cas.add(H(arr=arr))
            a, b, c = cas.to_json(), cas.to_json(), cas.to_json()
            return a != b and b == c and '"%ID": null' in a
        except Exception:
            return False
