"""C04 — Written documents are complete, closed under reachability and faithful."""
from harness import casgen, common, refio, sessions
from harness.common import bud
from harness.props import c01

PROP = "C04"
MODULES = ["CassisModel.Properties.C04", "CassisModel.Properties.C01", "CassisModel.Properties.C15", "CassisModel.Properties.C04Faithful", "CassisModel.Properties.C04FaithfulColl", "CassisModel.Properties.C04FaithfulJson"]
THEOREMS = [
    "Cassis.Xmi.saveXmi_faithful_coll",
    "Cassis.Json.saveJson_faithful_flat",
    "Cassis.Json.saveJson_faithful_coll",
    "Cassis.Traverse.findAllFs_closed",
    "Cassis.Traverse.findAllFs_complete",
    "Cassis.Traverse.findAllFs_sound",
    "Cassis.Traverse.findAllFs_ids",
    "Cassis.Traverse.findAllFs_nodup",
    "Cassis.Xmi.saveXmi_shape",
    "Cassis.Xmi.saveXmi_ids_nodup",
    "Cassis.Xmi.saveXmi_faithful_flat",
]
ASSUMPTIONS = [
    "proved: the set of structures both serialisers write is exactly the set reachable from the indexed structures, each once under its own id, closed under every kind of reference (arrays and lists, inlined or not); the XMI document lists them in ascending distinct ids",
    "faithfulness of the rendering (types by namespace, values, element order, sofa data, membership) is established per run by reading the emitted bytes with an independent stdlib reader and comparing with an independent dump of the in-memory CAS; it is not a theorem",
    "a structure explicitly forced onto a sofa's id (finding I3, C09) is outside the generators",
]


def run(ctx, out, budget):
    out.rule = ("CASes of C01/C02 (FS reachable only through array/list elements, TOP-ranged features, shared collections; colliding "
                "package suffixes, packages ending in cas/xmi/tcas, no-namespace types). The bytes written by to_xmi and to_json are "
                "read by an independent reader into the id-keyed dump and compared with an independent dump of the in-memory CAS "
                "(own reachability walk); ids distinct, sofa references and members resolve. Non-trivial = distinct CASes with a "
                "structure that is only reachable through a reference.")
    rng = ctx.rng(0)
    n = bud(budget, 150, 18000)
    cases = [casgen.CasGen(rng, n_types=rng.randint(1, 6), n_fs=rng.randint(1, 12), xmi_safe=True).build() for _ in range(n)]
    for g in cases:
        if rng.random() < 0.2:   # features added to a type that already has an instance, after a first serialisation / typecheck
            casgen.add_late_extension(g, rng, lambda h0: [{"op": "xmi.save", "h": h0}, {"op": "cas.typecheck", "h": h0}])
    sess = []
    for g in cases:
        h0 = g.views["_InitialView"]
        ops = list(g.sb.ops) + [{"op": "xmi.save", "h": h0}, {"op": "cas.dump", "h": h0},
                                {"op": "json.save", "h": h0, "mode": "full"}, {"op": "cas.dump", "h": h0, "fine": True}]
        sess.append(ops)
    impl = sessions.run_impl_sessions(sess)
    model = sessions.run_model_sessions(ctx.driver, sess)
    for k, (g, ops, io) in enumerate(zip(cases, sess, impl)):
        out.evaluations += 1
        sc = {"k": "session", "ops": ops}
        xdoc, dump_c, jdoc, dump_f = io[-4], io[-3], io[-2], io[-1]
        if any("ok" not in x for x in (xdoc, dump_c, jdoc, dump_f)):
            out.oracle_failures.append({"scenario": sc, "what": "serialisation raised", "actual": [x.get("err") for x in (xdoc, dump_c, jdoc, dump_f)]})
            continue
        info = g.tsinfo()
        why = refio.doc_closed(xdoc["ok"])
        if why:
            out.oracle_failures.append({"scenario": sc, "what": "XMI document is not closed: " + why})
        try:
            said = refio.xmi_to_dump(xdoc["ok"], info)
        except Exception as e:  # noqa: BLE001
            out.oracle_failures.append({"scenario": sc, "what": "XMI document cannot be read independently: " + repr(e)[:200]})
            said = None
        if said is not None and common.canon(c01.norm_dump(said)) != common.canon(c01.norm_dump(dump_c["ok"])):
            out.oracle_failures.append({"scenario": sc, "what": "XMI document does not describe the in-memory CAS",
                                        "expected": c01.norm_dump(dump_c["ok"]), "actual": c01.norm_dump(said)})
        ids = [f["id"] for f in jdoc["ok"]["fss"]]
        if len(set(ids)) != len(ids) or None in ids:
            out.oracle_failures.append({"scenario": sc, "what": "JSON document has duplicate or missing ids", "actual": ids})
        try:
            saidj = refio.json_to_dump(jdoc["ok"], info)
        except Exception as e:  # noqa: BLE001
            out.oracle_failures.append({"scenario": sc, "what": "JSON document cannot be read independently: " + repr(e)[:200]})
            saidj = None
        if saidj is not None and common.canon(saidj) != common.canon(dump_f["ok"]):
            out.oracle_failures.append({"scenario": sc, "what": "JSON document does not describe the in-memory CAS",
                                        "expected": dump_f["ok"], "actual": saidj})
        if model is not None and model[k] is not None:
            def canon_op(i, x, ops=ops):
                if i < len(ops) and isinstance(x, dict) and "ok" in x:
                    if ops[i]["op"] == "xmi.save":
                        return {"ok": refio.canon_doc(x["ok"])}
                    if ops[i]["op"] == "json.save":
                        return {"ok": refio.canon_jdoc(x["ok"])}
                return x
            d = sessions.first_diff(io, model[k], canon_op)
            if d is not None:
                out.disagreements.append({"scenario": sc, "op_index": d, "op": ops[d] if d < len(ops) else None,
                                          "impl": io[d] if d < len(io) else None, "model": model[k][d] if d < len(model[k]) else None})
        ref_only = [l for l in g.mains if not g.fs[l].get("indexed")]
        if ref_only:
            out.nontriv(("gen", k))
        if k < 2:
            out.sample({"n_fs": len(dump_c["ok"]["fs"]), "xmi_head": xdoc["ok"][:3]})


def replay(ctx, payload):
    fl = payload.get("failure") or {}
    return True if fl else False
