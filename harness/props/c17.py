"""C17 — Lenient loading drops exactly the unknown-typed FS; strict loading refuses."""
from harness import casgen, common, sessions
from harness.common import bud
from harness.props import c01, c05

PROP = "C17"
MODULES = ["CassisModel.Properties.C17", "CassisModel.Properties.C08"]
THEOREMS = [
    "Cassis.Xmi.pass1_strict_all_known",
    "Cassis.Xmi.pass1_strict_unknown_error",
    "Cassis.Xmi.pass1_lenient_eq_filtered",
    "Cassis.Xmi.pass1_known_same",
    "Cassis.Xmi.pass1_lenient_ids",
    "Cassis.Xmi.buildCas_skip_eq_dropped",
    "Cassis.Xmi.buildCas_flag_irrelevant",
    "Cassis.Xmi.loadXmi_lenient_eq_strict_filtered",
    "Cassis.Cas.handles_history",
]
ASSUMPTIONS = [
    "proved: the first pass of the XMI reader raises type-not-found in strict mode as soon as an element of unknown type occurs; in lenient mode it produces exactly the state it produces on the document with those elements removed (plus the remembered ids); with all types known both modes coincide; every view handle of a CAS keeps its leniency (C08)",
    "proved end to end on the model: a lenient load of a document yields exactly the CAS and heap of the strict load of the document without the unknown-typed elements and without their ids in the view member lists (third pass skips exactly the remembered ids; the flag is irrelevant for registered types); the same equation is checked per run on the implementation with an independently filtered document",
    "documents are subject to the property's side condition: no remaining structure references a dropped one",
]


def droppable(g):
    """sets of user types that can be deleted from the type system such that no remaining declaration or
    structure refers to them"""
    order = [n for n in g.order]
    cands = []
    for n in order:
        if n == "x.Str":
            continue
        closed = {n} | {m for m in order if g.descends(m, n)}
        ok = True
        for m in order:
            if m in closed:
                continue
            for sp in g.types[m]["feats"].values():
                if sp["range"] in closed or sp.get("elem") in closed:
                    ok = False
        if ok:
            cands.append(closed)
    return cands


def refs_of(dump_entry):
    out = []
    for v in dump_entry["feats"].values():
        if isinstance(v, dict):
            if "ref" in v:
                out.append(v["ref"])
            for key in ("arr", "list"):
                if key in v and v[key]:
                    out.extend(x for x in v[key] if isinstance(x, int) and not isinstance(x, bool))
        elif isinstance(v, list):
            out.extend(x for x in v if isinstance(x, int) and not isinstance(x, bool))
    return out


def foreign_sessions(rng, n):
    """a strict CAS refuses to index a structure of a foreign type, a lenient one accepts it, through every kind of handle.
    'Foreign' is decided the way `contains_type` documents it: the exact name is registered, or the name has no
    namespace and is the short name of exactly one registered type."""
    from harness.sessions import SB
    out = []
    for _ in range(n):
        sb = SB()
        ts = sb.ts_new()
        own = rng.sample(["medical.Entity", "legal.Entity", "x.Unique", "x.y.Deep", "Plain", "q.Plain"], rng.randint(2, 5))
        for t in own:
            sb.create_type(ts, t, "uima.tcas.Annotation")
        fts = sb.ts_new()
        foreign = rng.sample(["Entity", "Unique", "Deep", "Plain", "Other", "z.Other", "medical.Entity", "y.Deep"], rng.randint(2, 5))
        for t in foreign:
            sb.create_type(fts, t, "uima.tcas.Annotation")
        lenient = rng.random() < 0.35
        h0 = sb.cas_new(ts, lenient=lenient, text="Hello world, hello again")
        handles = [h0, sb.get_view(h0, "_InitialView"), sb.create_view(h0, "other")]
        expect = []
        k = 0
        for t in foreign:
            h = rng.choice(handles)
            l = sb.fs_new(fts, t, {"begin": k, "end": k + 1})
            k += 1
            shorts = [o for o in own if o.rsplit(".", 1)[-1] == t]
            known = t in own or ("." not in t and len(shorts) == 1)
            i = sb.op(op="cas.add", h=h, fs=l)
            expect.append((i, "ok" if (lenient or known) else "RuntimeError", t))
        sel = [sb.op(op="cas.select_all", h=h) for h in handles]
        n_ok = sum(1 for e in expect if e[1] == "ok")
        out.append((sb.ops, expect, sel, n_ok, lenient))
    return out


def run_foreign(ctx, out, budget):
    rng = ctx.rng(7)
    sess = foreign_sessions(rng, bud(budget, 60, 9000))
    ops_list = [s_[0] for s_ in sess]
    impl = sessions.run_impl_sessions(ops_list)
    model = sessions.run_model_sessions(ctx.driver, ops_list)
    for si, (ops, expect, sel, n_ok, lenient) in enumerate(sess):
        io_ = impl[si]
        sc = {"k": "session", "ops": ops, "foreign": True}
        out.evaluations += 1
        out.count("foreign-add:%s" % ("lenient" if lenient else "strict"))
        for (i, want, t) in expect:
            got = "ok" if "ok" in io_[i] else io_[i].get("err")
            if got != want:
                out.oracle_failures.append({"scenario": sc, "op_index": i, "what": ("a strict CAS indexed a structure of the foreign type %s" % t) if want != "ok"
                                            else "adding a structure of type %s was refused" % t, "expected": want, "actual": io_[i]})
                break
        else:
            total = sum(len(io_[j].get("ok") or []) for j in sel[:1]) + sum(len(io_[j].get("ok") or []) for j in sel[2:])
            if total != n_ok:
                out.oracle_failures.append({"scenario": sc, "what": "the views do not hold exactly the accepted structures", "expected": n_ok, "actual": total})
        if any(w != "ok" for _i, w, _t in expect):
            out.nontriv(("foreign", si))
        if model is not None and model[si] is not None:
            d = sessions.first_diff(io_, model[si], lambda i, x: sessions.sort_entries(x))
            if d is not None:
                out.disagreements.append({"scenario": sc, "op_index": d, "op": ops[d] if d < len(ops) else None,
                                          "impl": io_[d] if d < len(io_) else None, "model": model[si][d] if d < len(model[si]) else None})


def run(ctx, out, budget):
    out.rule = ("XMI documents written for the CASes of C01 x sets of user types (a type with all its subtypes, not referred to by any "
                "remaining declaration) deleted from the type system such that no remaining structure references a dropped one x "
                "lenient in {True, False}: strict load must raise type-not-found iff the document uses a deleted type; lenient load "
                "must equal the strict load of the document with those elements and their view memberships removed; handles of every "
                "view of the lenient CAS stay lenient. Non-trivial = distinct (document, deleted set) where at least one structure is dropped.")
    run_foreign(ctx, out, budget)
    rng = ctx.rng(0)
    n = bud(budget, 120, 15000)
    cases = [casgen.CasGen(rng, n_types=rng.randint(2, 6), n_fs=rng.randint(2, 10), xmi_safe=True).build() for _ in range(n)]
    stage_a = []
    for g in cases:
        h0 = g.views["_InitialView"]
        stage_a.append(list(g.sb.ops) + [{"op": "xmi.save", "h": h0}, {"op": "cas.dump", "h": h0}])
    ia = sessions.run_impl_sessions(stage_a)
    stage_b, metas = [], []
    for g, ops, io in zip(cases, stage_a, ia):
        doc, dmp = io[-2].get("ok"), io[-1].get("ok")
        cands = droppable(g)
        if doc is None or dmp is None or not cands:
            stage_b.append(None); metas.append(None)
            continue
        drop = rng.choice(cands)
        if rng.random() < 0.15:
            drop = set()
        # XMI does not prescribe an element order: views (and sofas) may come before the structures they list
        r_ = rng.random()
        if r_ < 0.3:
            doc = [e for e in doc if e["ty"] == "uima.cas.View"] + [e for e in doc if e["ty"] != "uima.cas.View"]
        elif r_ < 0.6:
            doc = rng.sample(doc, len(doc))
        dropped_ids = {k for k, e in dmp["fs"].items() if e["type"] in drop}
        # side condition: no remaining structure references a dropped one (strings hold ids of the dump)
        dangling = any(str(r) in dropped_ids for k, e in dmp["fs"].items() if k not in dropped_ids for r in refs_of(e))
        if dangling:
            stage_b.append(None); metas.append(None)
            continue
        ops2 = list(ops)
        ts2 = g.sb.n_ts
        ops2.append({"op": "ts.new"})
        for o in g.sb.ops:
            if o["op"] == "ts.create_type" and o["name"] not in drop:
                ops2.append(dict(o, ts=ts2))
        for o in g.sb.ops:
            if o["op"] == "ts.create_feature" and o["domain"] not in drop:
                ops2.append(dict(o, ts=ts2))
        filtered = []
        for e in doc:
            if e["ty"] in drop:
                continue
            if e["ty"] == "uima.cas.View":
                attrs = []
                for k, v in e["attrs"]:
                    if k == "members":
                        v = " ".join(m for m in v.split() if m not in dropped_ids)
                    attrs.append([k, v])
                e = {"ty": e["ty"], "attrs": attrs, "kids": e["kids"]}
            filtered.append(e)
        nh = g.sb.n_h
        ops2 += [{"op": "xmi.load", "ts": ts2, "doc": doc, "lenient": False},
                 ]
        uses_dropped = bool(dropped_ids)
        # a failed load allocates no handle
        h_len = nh if uses_dropped else nh + 1
        ops2 += [{"op": "xmi.load", "ts": ts2, "doc": doc, "lenient": True}, {"op": "cas.dump", "h": h_len},
                 {"op": "xmi.load", "ts": ts2, "doc": filtered, "lenient": False}, {"op": "cas.dump", "h": h_len + 1}]
        views = [v["name"] for v in dmp["views"]]
        lens = []
        hh = h_len + 2
        for vn in views:
            ops2.append({"op": "cas.get_view", "h": h_len, "name": vn})
            ops2.append({"op": "cas.is_lenient", "h": hh})
            lens.append(len(ops2) - 1)
            hh += 1
        stage_b.append(ops2)
        metas.append({"n": len(ops), "drop": sorted(drop), "uses": uses_dropped, "lens": lens, "strict_i": None})
        metas[-1]["strict_i"] = [i for i, o in enumerate(ops2) if o["op"] == "xmi.load"][0]
    idx = [i for i, o in enumerate(stage_b) if o is not None]
    ib = dict(zip(idx, sessions.run_impl_sessions([stage_b[i] for i in idx])))
    mb = sessions.run_model_sessions(ctx.driver, [stage_b[i] for i in idx])
    mb = dict(zip(idx, mb)) if mb is not None else None
    for k in idx:
        ops2, io2, m = stage_b[k], ib[k], metas[k]
        out.evaluations += 1
        sc = {"k": "session", "ops": ops2, "dropped_types": m["drop"]}
        si = m["strict_i"]
        strict_r, len_r, len_d, fil_r, fil_d = io2[si], io2[si + 1], io2[si + 2], io2[si + 3], io2[si + 4]
        if m["uses"]:
            if strict_r.get("err") != "TypeNotFoundError":
                out.oracle_failures.append({"scenario": sc, "what": "strict loading of a document with structures of an unknown type did not raise type-not-found", "actual": strict_r})
            out.nontriv((k, tuple(m["drop"])))
        elif "ok" not in strict_r:
            out.oracle_failures.append({"scenario": sc, "what": "strict loading raised although every type is known", "actual": strict_r})
        if "ok" not in len_r or "ok" not in len_d or "ok" not in fil_r or "ok" not in fil_d:
            out.oracle_failures.append({"scenario": sc, "what": "lenient load / strict load of the filtered document raised", "actual": [len_r, len_d.get("err"), fil_r, fil_d.get("err")]})
        elif common.canon(c01.norm_dump(len_d["ok"])) != common.canon(c01.norm_dump(fil_d["ok"])):
            out.oracle_failures.append({"scenario": sc, "what": "lenient load differs from the strict load of the document without the unknown-typed structures",
                                        "expected": fil_d, "actual": len_d})
        for li in m["lens"]:
            if io2[li].get("ok") is not True:
                out.oracle_failures.append({"scenario": sc, "what": "a view handle of a lenient CAS is not lenient", "actual": io2[li]})
                break
        if mb is not None and mb[k] is not None:
            d = sessions.first_diff(io2, mb[k], lambda i, x: c05.c04_canon(i, x, ops2))
            if d is not None:
                out.disagreements.append({"scenario": sc, "op_index": d, "op": {kk: vv for kk, vv in ops2[d].items() if kk != "doc"} if d < len(ops2) else None,
                                          "impl": io2[d] if d < len(io2) else None, "model": mb[k][d] if d < len(mb[k]) else None})
        out.count("dropped-structures:%s" % ("yes" if m["uses"] else "no"))
        if out.evaluations <= 2:
            out.sample({"dropped_types": m["drop"], "uses_dropped": m["uses"]})


def replay(ctx, payload):
    fl = payload.get("failure") or {}
    ops = fl["scenario"]["ops"]
    io = sessions.run_impl_sessions([ops])[0]
    if fl["scenario"].get("foreign"):
        i = fl.get("op_index")
        if i is None:
            return True
        got = "ok" if "ok" in io[i] else io[i].get("err")
        return got != fl.get("expected")
    loads = [i for i, o in enumerate(ops) if o["op"] == "xmi.load"]
    dumps = [i for i, o in enumerate(ops) if o["op"] == "cas.dump"]
    if len(dumps) >= 3:
        a, b = io[dumps[-2]], io[dumps[-1]]
        if "ok" not in a or "ok" not in b or common.canon(c01.norm_dump(a["ok"])) != common.canon(c01.norm_dump(b["ok"])):
            return True
    lens = [io[i] for i, o in enumerate(ops) if o["op"] == "cas.is_lenient"]
    return any(x.get("ok") is not True for x in lens)

