"""C07 — select_covered / select_covering implement the containment definitions."""
import itertools

from harness import sessions
from harness.common import bud
from harness.sessions import SB

PROP = "C07"
MODULES = ["CassisModel.Properties.C07"]
THEOREMS = [
    "Cassis.Index.selectCovered1_eq_spec",
    "Cassis.Index.selectCovering1_eq_spec",
    "Cassis.Index.mem_selectCovered1",
    "Cassis.Index.mem_selectCovering1",
    "Cassis.Index.selectCovered1_count",
    "Cassis.Index.selectCoveredNames_eq_spec",
    "Cassis.Index.selectCoveringNames_eq_spec",
    "Cassis.Index.takeWhile_window_filter",
    "Cassis.Index.insert_sorted",
]
ASSUMPTIONS = [
    "sortedcontainers.SortedKeyList: add = sorted insertion by key, bisect_key_left/right = number of keys </<= probe, positional slicing (assumed contract, exercised by the correspondence)",
    "annotations are well formed (0 <= begin <= end, int offsets) and their offsets are not mutated while indexed",
    "the order of results across types and among equal (begin,end) is not promised and not compared",
]

TREE = {"x.P": "uima.tcas.Annotation", "x.C": "x.P", "x.D": "x.C", "x.U": "uima.tcas.Annotation"}


def subtree(t):
    out = {t}
    changed = True
    while changed:
        changed = False
        for c, p in TREE.items():
            if p in out and c not in out:
                out.add(c)
                changed = True
    return out


def build_session(spans_types, distract, queries, text_len=12):
    """spans_types: list of (b, e, type) indexed in the initial view; distract: same for view v2"""
    sb = SB()
    ts = sb.ts_new()
    for c, p in TREE.items():
        sb.create_type(ts, c, p)
    h0 = sb.cas_new(ts, text="x" * text_len)
    h1 = sb.create_view(h0, "v2")
    shadow = {h0: [], h1: []}
    for b, e, t in spans_types:
        l = sb.fs_new(ts, t, {"begin": b, "end": e})
        sb.op(op="cas.add", h=h0, fs=l)
        shadow[h0].append((l, b, e, t))
    for b, e, t in distract:
        l = sb.fs_new(ts, t, {"begin": b, "end": e})
        sb.op(op="cas.add", h=h1, fs=l)
        shadow[h1].append((l, b, e, t))
    qmeta = []
    for qi, (kind, h, T, by, qb, qe) in enumerate(queries):
        o = dict(op="cas.select_" + kind, h=h, type=T if by != "short" else T.split(".")[-1], by=by, b=qb, e=qe)
        # the span may be given by an annotation that is itself indexed (it must then be among the results like any other)
        same = [l for (l, b, e, t) in shadow[h] if b == qb and e == qe]
        if same and qi % 3 == 0:
            o["span_fs"] = same[qi % len(same)]
        i = sb.op(**o)
        sub = subtree(T)
        if kind == "covered":
            exp = [l for (l, b, e, t) in shadow[h] if t in sub and qb <= b and e <= qe]
        else:
            exp = [l for (l, b, e, t) in shadow[h] if t in sub and b <= qb and qe <= e]
        qmeta.append((i, sorted(exp), len(shadow[h])))
    return sb.ops, qmeta


def exhaustive_sessions():
    spans = [(b, e) for b in range(4) for e in range(b, 4)]
    qs = [(b, e) for b in range(4) for e in range(b, 4)]
    pats = [["x.C", "x.P", "x.U"], ["x.P", "x.D", "x.C"], ["x.D", "x.U", "x.P"]]
    out = []
    for n in range(0, 4):
        for ms in itertools.combinations_with_replacement(spans, n):
            for pi, pat in enumerate(pats):
                st = [(b, e, pat[i % 3]) for i, (b, e) in enumerate(ms)]
                distract = [(b, e, "x.C") for (b, e) in ms[:2]]
                queries = []
                for (qb, qe) in qs:
                    T = ["x.P", "x.C"][(qb + qe + pi) % 2]
                    by = ["name", "object", "short"][(qb + pi) % 3]
                    queries.append(("covered", 0, T, by, qb, qe))
                    queries.append(("covering", 0, T, by, qb, qe))
                out.append(build_session(st, distract, queries))
    return out


def random_sessions(rng, n, max_ann, max_off):
    out = []
    types = list(TREE)
    for _ in range(n):
        k = rng.randint(0, max_ann)
        hot = [rng.randint(0, max_off) for _ in range(4)]

        def off():
            return rng.choice(hot) if rng.random() < 0.5 else rng.randint(0, max_off)

        st = []
        for _ in range(k):
            b = off()
            e = b if rng.random() < 0.25 else min(max_off, b + rng.choice([0, 1, 2, 3, rng.randint(0, max_off)]))
            st.append((b, max(b, e), rng.choice(types)))
        distract = [(b, e, rng.choice(types)) for (b, e, _) in st[: rng.randint(0, 5)]]
        queries = []
        for _ in range(12):
            if st and rng.random() < 0.6:
                b0, e0, _t = rng.choice(st)
                qb, qe = b0, e0
                if rng.random() < 0.5:
                    qb = max(0, qb - rng.randint(0, 2))
                    qe = min(max_off, qe + rng.randint(0, 2))
            else:
                qb = off()
                qe = max(qb, off())
            kind = rng.choice(["covered", "covering"])
            T = rng.choice(types + ["uima.tcas.Annotation"])
            by = rng.choice(["name", "object", "short"]) if T.startswith("x.") else rng.choice(["name", "object"])
            queries.append((kind, rng.choice([0, 0, 0, 1]), T, by, qb, qe))
        out.append(build_session(st, distract, queries, text_len=max_off + 1))
    return out


def handle_sessions(rng, n, max_off=12):
    """queries interleaved with adds and removes, each through one of several live handles of the same view (the root, handles
    from get_view / create_view taken at different times): every handle must answer from the view's current index"""
    out = []
    types = list(TREE)
    for _ in range(n):
        sb = SB()
        ts = sb.ts_new()
        for c, p in TREE.items():
            sb.create_type(ts, c, p)
        h0 = sb.cas_new(ts, text="x" * (max_off + 1))
        h1 = sb.create_view(h0, "v2")
        handles = {"_InitialView": [h0, sb.get_view(h1, "_InitialView")], "v2": [h1, sb.get_view(h0, "v2")]}
        shadow = {"_InitialView": [], "v2": []}
        qmeta = []
        for step in range(rng.randint(8, 30)):
            v = rng.choice(["_InitialView", "_InitialView", "v2"])
            r = rng.random()
            if r < 0.15:
                handles[v].append(sb.get_view(rng.choice(handles[rng.choice(list(handles))]), v))
            elif r < 0.5 or not shadow[v]:
                b = rng.randint(0, max_off); e = rng.randint(b, min(max_off, b + rng.choice([0, 1, 3, max_off])))
                t = rng.choice(types)
                l = sb.fs_new(ts, t, {"begin": b, "end": e})
                sb.op(op="cas.add", h=rng.choice(handles[v]), fs=l)
                shadow[v].append((l, b, e, t))
            elif r < 0.62:
                x = rng.choice(shadow[v])
                sb.op(op="cas.remove", h=rng.choice(handles[v]), fs=x[0])
                shadow[v].remove(x)
            else:
                # the same query through two handles of the view in a row, then (next steps) mutations through any handle
                b0, e0 = rng.choice(shadow[v])[1:3]
                qb = max(0, b0 - rng.randint(0, 1)); qe = min(max_off, e0 + rng.randint(0, 1))
                kind = rng.choice(["covered", "covering"])
                T = rng.choice(types + ["uima.tcas.Annotation"])
                sub = subtree(T)
                for h in rng.sample(handles[v], min(2, len(handles[v]))):
                    i = sb.op(op="cas.select_" + kind, h=h, type=T, by=rng.choice(["name", "object"]), b=qb, e=qe)
                    if kind == "covered":
                        exp = [l for (l, b, e, t) in shadow[v] if t in sub and qb <= b and e <= qe]
                    else:
                        exp = [l for (l, b, e, t) in shadow[v] if t in sub and b <= qb and qe <= e]
                    qmeta.append((i, sorted(exp), len(shadow[v])))
        out.append((sb.ops, qmeta))
    return out


def dynamic_sessions(rng, n):
    """the type tree grows *during* the history: query, create a type below a proper descendant, add, query"""
    out = []
    for _ in range(n):
        sb = SB()
        ts = sb.ts_new()
        parent = {}
        order = []

        def sub(T):
            res = {T}
            ch = True
            while ch:
                ch = False
                for c, p_ in parent.items():
                    if p_ in res and c not in res:
                        res.add(c); ch = True
            return res

        def mk(name, sup):
            sb.create_type(ts, name, sup)
            parent[name] = sup
            order.append(name)

        mk("d.T0", "uima.tcas.Annotation")
        h0 = sb.cas_new(ts, text="x" * 40)
        shadow = []
        qmeta = []
        for step in range(rng.randint(6, 14)):
            r = rng.random()
            if r < 0.3:
                mk("d.T%d" % len(order), rng.choice(order))
            elif r < 0.6:
                t = rng.choice(order)
                b = rng.randint(0, 20); e = rng.randint(b, 30)
                l = sb.fs_new(ts, t, {"begin": b, "end": e})
                sb.op(op="cas.add", h=h0, fs=l)
                shadow.append((l, b, e, t))
            else:
                T = rng.choice(order[:2] + ["uima.tcas.Annotation"])
                qb = rng.randint(0, 10); qe = rng.randint(qb, 30)
                kind = rng.choice(["covered", "covering"])
                i = sb.op(op="cas.select_" + kind, h=h0, type=T, by=rng.choice(["name", "object"]), b=qb, e=qe)
                st = sub(T) if T != "uima.tcas.Annotation" else set(order) | {T}
                if kind == "covered":
                    exp = [l for (l, b, e, t) in shadow if t in st and qb <= b and e <= qe]
                else:
                    exp = [l for (l, b, e, t) in shadow if t in st and b <= qb and qe <= e]
                qmeta.append((i, sorted(exp), len(shadow)))
        out.append((sb.ops, qmeta))
    return out


def evaluate(ctx, out, sess, tag):
    ops_list = [s[0] for s in sess]
    impl = sessions.run_impl_sessions(ops_list)
    model = sessions.run_model_sessions(ctx.driver, ops_list)
    for si, (ops, qmeta) in enumerate(sess):
        io = impl[si]
        mo = model[si] if model is not None else None
        # correspondence: every op, select results as multisets
        if mo is not None:
            d = sessions.first_diff(io, mo, lambda i, x: sessions.sort_entries(x))
            if d is not None:
                out.disagreements.append({"scenario": {"k": "session", "ops": ops}, "op_index": d,
                                          "impl": io[d] if d < len(io) else None, "model": mo[d] if d < len(mo) else None})
        # oracle: containment definition on the generator's own shadow set
        for (i, exp, nview) in qmeta:
            out.evaluations += 1
            out.count("op:" + ops[i]["op"])
            got = io[i]
            if "ok" not in got:
                out.oracle_failures.append({"scenario": {"k": "session", "ops": ops}, "op_index": i,
                                            "what": "query raised " + str(got), "expected": exp})
                continue
            labels = sorted(e[2] for e in got["ok"])
            if labels != exp:
                out.oracle_failures.append({"scenario": {"k": "session", "ops": ops}, "op_index": i,
                                            "what": "wrong result set", "expected": exp, "actual": labels})
            if 0 < len(exp) < nview:
                out.nontriv((tag, si, i))
        if si < 2:
            out.sample({"ops": ops[-3:], "n_ops": len(ops), "impl_last": io[-1]})


def run(ctx, out, budget):
    out.rule = ("sessions = type tree P>C>D, U; annotations in two views; queries select_covered/select_covering by "
                "type object / full name / short name; a stream in which the type tree grows between queries; a stream in which queries are interleaved with adds and removes through several live handles of each view. Non-trivial = distinct (session, query) whose expected result "
                "is a non-empty strict subset of the view's annotations.")
    if budget in ("quick", "thorough", "search"):
        ex = exhaustive_sessions()
        evaluate(ctx, out, ex, "ex")
        out.exhaustive = True
        out.exhaustive_scope = ("all multisets of <=3 spans over offsets 0..3 (incl. zero-width, duplicates) x 3 type "
                                "assignments x all 10 query spans x {covered, covering}; exhaustive for that sub-space only")
    rng = ctx.rng(1)
    evaluate(ctx, out, dynamic_sessions(ctx.rng(2), bud(budget, 150, 12000)), "dyn")
    evaluate(ctx, out, handle_sessions(ctx.rng(3), bud(budget, 150, 8000)), "handles")
    if budget == "quick":
        evaluate(ctx, out, random_sessions(rng, 120, 40, 30), "rnd")
    else:
        evaluate(ctx, out, random_sessions(rng, 1500, 60, 40), "rnd")
        evaluate(ctx, out, random_sessions(rng, 60, 500, 10000), "big")
    out.partial = []


def replay(ctx, payload):
    fl = payload.get("failure") or {}
    sc = fl.get("scenario")
    if not sc:
        return True
    ops = sc["ops"]
    io = sessions.run_impl_sessions([ops])[0]
    i = fl["op_index"]
    got = io[i]
    if "ok" not in got:
        return True
    return sorted(e[2] for e in got["ok"]) != fl.get("expected")


def shrink(ctx, fl):
    return fl
