"""C16 — Converting between XMI and JSON preserves the CAS."""
from harness import casgen, common, refio, sessions
from harness.common import bud
from harness.props import c01, c05

PROP = "C16"
MODULES = ["CassisModel.Properties.C16Chain", "CassisModel.Properties.C01", "CassisModel.Properties.C02", "CassisModel.Properties.C04", "CassisModel.Properties.C13", "CassisModel.Properties.C16ChainColl", "CassisModel.Properties.C16ChainEmbedded", "CassisModel.Properties.C16ChainEmbedded2", "CassisModel.Properties.C16ChainEmbedded3"]
THEOREMS = [
    "Cassis.flagCoherentChain_of_history",
    "Cassis.multiRes_of_flagCoherentChain",
    "Cassis.flagCoherentChain_strictly_weaker",
    "Cassis.chain_json_xmi_minimal_coll",
    "Cassis.chain_xmi_json_full_coll",
    "Cassis.chain_xmi_json_minimal_coll",
    "Cassis.chain_json_xmi_full_coll",
    "Cassis.chain_json_xmi_embedded_coll_of_same",
    "Cassis.chain_xmi_json_coll",
    "Cassis.chain_json_xmi_coll",
    "Cassis.chain_xmi_json_flat",
    "Cassis.chain_json_xmi_flat",
    "Cassis.Xmi.saveXmi_shape",
    "Cassis.Json.saveJson_shape",
    "Cassis.Xmi.parseInts_showInts",
    "Cassis.Xmi.resolveIds_showIds",
    "Cassis.Json.floatElem_roundtrip",
    "Cassis.Json.range_roundtrip_primArray",
    "Cassis.TS.merge_consistent",
]
ASSUMPTIONS = [
    "proved end to end on the flat fragment (primitive features, plain references, sofa references; any graph, any views, astral text): both conversion chains succeed and the CAS at the end has the same views, members, structures, ids, types and feature contents as the CAS written first (chain_xmi_json_flat, chain_json_xmi_flat; original type system supplied at every step); for CASes with array and list features and for the JSON-embedded type system variant the chains are checked per run on the implementation (oracle) and against the same chains executed by the Lean model (partial)",
    "restricted to what both formats can express: text sofas, no null elements in FSArrays (XMI cannot write them), no empty inline string lists",
]


def fixture_sessions():
    """the repository's reference documents: the UIMA-Java JSON reference files (each with the XMI and descriptor of the same
    CAS) and the XMI fixtures (paired with the first fixture descriptor under which they load strictly).  Read by the
    independent readers, loaded / dumped / written / converted by implementation and model."""
    import glob
    import os
    import warnings
    from cassis import load_cas_from_xmi, load_typesystem
    tf = os.path.join(common.REPO, "tests", "test_files")
    sess = []
    for d in sorted(glob.glob(os.path.join(tf, "json", "fs_as_array", "*", "*"))):
        jf, xf, tsf = (os.path.join(d, n) for n in ("data.json", "debug.xmi", "debug-typesystem.xml"))
        if not all(os.path.exists(x) for x in (jf, xf, tsf)):
            continue
        try:
            jdoc = refio.read_json(open(jf, encoding="utf-8").read())
            xdoc = refio.read_xmi(open(xf, encoding="utf-8").read())
            desc = [t for t in refio.read_ts_xml(open(tsf, "rb").read())]
        except Exception:  # noqa: BLE001
            continue
        if any(t["name"] is None or t["super"] is None for t in desc):
            continue
        if any(k_ in ("sofaURI", "@sofaArray") for e in jdoc["fss"] if e.get("ty") == "uima.cas.Sofa" for (k_, _v) in e.get("feats", [])):
            continue       # C16 (like C01) speaks about CASes with text sofas: XMI carries neither sofa URIs nor sofa byte arrays
        ops = [{"op": "json.load", "doc": jdoc, "merge": True},                 # handle 0, embedded type system
               {"op": "cas.dump", "h": 0},
               {"op": "conv.chain", "h": 0, "kind": "json-xmi", "embedded": True}]
        sess.append((os.path.relpath(d, tf), ops, "json-ref"))
    tss = sorted(glob.glob(os.path.join(tf, "typesystems", "*.xml")))
    with warnings.catch_warnings():
        warnings.simplefilter("ignore")
        loaded = []
        for t in tss:
            try:
                loaded.append((t, load_typesystem(open(t, "rb")), refio.read_ts_xml(open(t, "rb").read())))
            except Exception:  # noqa: BLE001
                pass
        for xf in sorted(glob.glob(os.path.join(tf, "xmi", "*.xmi"))):
            text = open(xf, encoding="utf-8").read()
            for t, ts, desc in loaded:
                try:
                    load_cas_from_xmi(text, typesystem=ts)
                except Exception:  # noqa: BLE001
                    continue
                if any(x["name"] is None or x["super"] is None for x in desc):
                    continue
                try:
                    xdoc = refio.read_xmi(text)
                except Exception:  # noqa: BLE001
                    break
                ids_ = [v for e in xdoc for (k_, v) in e.get("attrs", []) if k_ == "xmi:id"]
                if ids_ is not None and len(ids_) != len(set(ids_)):
                    break      # a fixture whose xmi:ids are not pairwise distinct is outside the properties' quantifier
                # finding J9: the JSON document of a CAS cannot be merged with a type system that declares element types on
                # primitive-array features: convert such fixtures without supplying the type system again
                j9 = any(f.get("elem") is not None and f["range"] in casgen.PRIM_ARRAYS for t_ in desc for f in t_["feats"])
                ops = [{"op": "ts.load_xml", "desc": desc}, {"op": "xmi.load", "doc": xdoc, "ts": 0}, {"op": "cas.dump", "h": 0},
                       {"op": "conv.chain", "h": 0, "kind": "xmi-json", "embedded": True}]
                if not j9:
                    ops.append({"op": "conv.chain", "h": 0, "kind": "xmi-json", "embedded": False})
                sess.append((os.path.basename(xf) + " + " + os.path.basename(t), ops, "xmi-fixture"))
                break
    return sess


def run_fixtures(ctx, out):
    fx = fixture_sessions()
    impl = sessions.run_impl_sessions([x[1] for x in fx])
    model = sessions.run_model_sessions(ctx.driver, [x[1] for x in fx])
    for k, ((name, ops, kind), io) in enumerate(zip(fx, impl)):
        out.evaluations += 1
        sc = {"k": "session", "ops": ops, "fixture": name}
        bad = [i for i, r in enumerate(io) if "ok" not in r]
        out.count("fixture:%s:%s" % (kind, "ok" if not bad else "raises"))
        if bad:
            out.oracle_failures.append({"scenario": sc, "op_index": bad[0], "what": "a reference document of the repository (%s) could not be loaded or converted" % name,
                                        "actual": io[bad[0]]})
        else:
            for i, o_ in enumerate(ops):
                if o_["op"] != "conv.chain":
                    continue
                d1, d2 = io[i]["ok"]

                def nd(d):
                    # an array object without element list and an empty one are the same array: JSON has one form for both
                    d = c01.norm_dump(d)
                    for e in d.get("fs", {}).values():
                        v_ = (e or {}).get("feats", {}).get("elements", 0)
                        if v_ == [] or (isinstance(v_, dict) and len(v_) == 1 and list(v_.values())[0] == []):
                            e["feats"].pop("elements")
                    return d
                if "ok" not in d1 or "ok" not in d2 or common.canon(nd(d1["ok"])) != common.canon(nd(d2["ok"])):
                    def nullrefs(d):
                        # finding X3: references to xmi:id 0 (the cas:NULL element) read as an object; after JSON they are None
                        def f_(x):
                            if isinstance(x, list):
                                return [None if y == 0 else f_(y) for y in x]
                            if isinstance(x, dict):
                                return {k_: (None if (k_ == "ref" and v_ == 0) else f_(v_)) for k_, v_ in x.items()}
                            return x
                        return f_(nd(d))
                    only_null = "ok" in d1 and "ok" in d2 and common.canon(nullrefs(d1["ok"])) == common.canon(nullrefs(d2["ok"]))
                    out.oracle_failures.append({"scenario": sc, "op_index": i, "what": "reference document %s: the CAS at the end of the conversion chain differs from the CAS loaded first" % name,
                                                "expected": d1, "actual": d2, "only_null_refs": only_null})
                    break
        if model is not None and model[k] is not None:
            def canon_op(i, x, ops=ops):
                return c05.canon_floats(c05.c04_canon(i, x, ops))
            d = sessions.first_diff(io, model[k], canon_op)
            if d is not None:
                out.disagreements.append({"scenario": {"k": "fixture", "fixture": name}, "op_index": d, "op": {kk: vv for kk, vv in ops[d].items() if kk not in ("doc", "desc")},
                                          "impl": str(io[d])[:600], "model": str(model[k][d])[:600] if d < len(model[k]) else None})


def run(ctx, out, budget):
    run_fixtures(ctx, out)
    out.rule = ("CASes of C01; both chains XMI -> CAS -> JSON -> CAS and JSON -> CAS -> XMI -> CAS, with the original or the "
                "JSON-embedded type system; the coarse id-keyed dump of the last CAS must equal the dump of the CAS loaded first; the "
                "same chain is executed by the model. Non-trivial = distinct (CAS, chain) with >= 3 structures.")
    rng = ctx.rng(0)
    n = bud(budget, 100, 20000)
    cases = [casgen.CasGen(rng, n_types=rng.randint(1, 5), n_fs=rng.randint(1, 10), xmi_safe=True).build() for _ in range(n)]
    sess = []
    for k, g in enumerate(cases):
        h0 = g.views["_InitialView"]
        kind = ["xmi-json", "json-xmi"][k % 2]
        emb = (k // 2) % 2 == 1
        sess.append(list(g.sb.ops) + [{"op": "conv.chain", "h": h0, "kind": kind, "embedded": emb}])
    impl = sessions.run_impl_sessions(sess)
    model = sessions.run_model_sessions(ctx.driver, sess)
    for k, (g, ops, io) in enumerate(zip(cases, sess, impl)):
        out.evaluations += 1
        sc = {"k": "session", "ops": ops}
        r = io[-1]
        out.count("chain:%s/embedded=%s" % (ops[-1]["kind"], ops[-1]["embedded"]))
        if "ok" not in r:
            out.oracle_failures.append({"scenario": sc, "what": "conversion chain raised", "actual": r})
            continue
        d1, d2 = r["ok"]
        if "ok" not in d1 or "ok" not in d2 or common.canon(c01.norm_dump(d1["ok"])) != common.canon(c01.norm_dump(d2["ok"])):
            out.oracle_failures.append({"scenario": sc, "what": "CAS at the end of the conversion chain differs from the CAS loaded first",
                                        "expected": d1, "actual": d2})
        if model is not None and model[k] is not None:
            d = sessions.first_diff(io, model[k], lambda i, x: c05.canon_floats(x))
            if d is not None:
                out.disagreements.append({"scenario": sc, "op_index": d, "op": ops[d] if d < len(ops) else None,
                                          "impl": io[d] if d < len(io) else None, "model": model[k][d] if d < len(model[k]) else None})
        if "ok" in d1 and len(d1["ok"]["fs"]) >= 3:
            out.nontriv((k, ops[-1]["kind"]))
        if k < 2:
            out.sample({"chain": ops[-1], "n_fs": len(d1.get("ok", {}).get("fs", {}))})
    out.partial = ["type systems that are not FlagCoherent (a redefinition differing only in multipleReferencesAllowed) and CASes outside the common fragment: checked on implementation and model per run, no theorem"]


def replay(ctx, payload):
    fl = payload.get("failure") or {}
    io = sessions.run_impl_sessions([fl["scenario"]["ops"]])[0]
    r = io[-1]
    if "ok" not in r:
        return True
    d1, d2 = r["ok"]
    return "ok" not in d1 or "ok" not in d2 or common.canon(c01.norm_dump(d1["ok"])) != common.canon(c01.norm_dump(d2["ok"]))


def finding_of(fl):
    if fl.get("only_null_refs") is True and str(fl.get("what", "")).startswith("reference document"):
        return "X3-null-reference-as-NULL-object"
    return None


def run_witness(ctx, finding):
    if finding["id"] != "X3-null-reference-as-NULL-object":
        return False
    import os
    import warnings
    from cassis import load_cas_from_json, load_cas_from_xmi, load_typesystem
    tf = os.path.join(common.REPO, "tests", "test_files")
    with warnings.catch_warnings():
        warnings.simplefilter("ignore")
        try:
            ts = load_typesystem(open(os.path.join(tf, "typesystems", "typesystem_with_collections.xml"), "rb"))
            cas = load_cas_from_xmi(open(os.path.join(tf, "xmi", "cas_with_collections.xmi"), "rb"), typesystem=ts)
            arrs = [fs for fs in cas._find_all_fs() if fs.type.name == "uima.cas.FSArray" and fs.elements]
            had = any(e is not None and e.type.name == "uima.cas.NULL" for a in arrs for e in a.elements)
            c2 = load_cas_from_json(cas.to_json())
            arrs2 = [fs for fs in c2._find_all_fs() if fs.type.name == "uima.cas.FSArray" and fs.elements]
            now = any(e is None for a in arrs2 for e in a.elements)
            return had and now
        except Exception:  # noqa: BLE001
            return False
