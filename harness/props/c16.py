"""C16 — Converting between XMI and JSON preserves the CAS."""
from harness import casgen, common, sessions
from harness.common import bud
from harness.props import c01, c05

PROP = "C16"
MODULES = ["CassisModel.Properties.C16Chain", "CassisModel.Properties.C01", "CassisModel.Properties.C02", "CassisModel.Properties.C04", "CassisModel.Properties.C13", "CassisModel.Properties.C16ChainColl"]
THEOREMS = [
    "Cassis.chain_xmi_json_coll",
    "Cassis.chain_json_xmi_coll",
    "Cassis.chain_xmi_json_flat",
    "Cassis.chain_json_xmi_flat",
    "Cassis.Xmi.saveXmi_shape",
    "Cassis.Json.saveJson_shape",
    "Cassis.Xmi.parseInts_showInts",
    "Cassis.Xmi.resolveIds_showIds",
    "Cassis.Json.floatElem_roundtrip",
    "Cassis.Json.range_roundtrip_primArray",
    "Cassis.TS.merge_consistent",
]
ASSUMPTIONS = [
    "proved end to end on the flat fragment (primitive features, plain references, sofa references; any graph, any views, astral text): both conversion chains succeed and the CAS at the end has the same views, members, structures, ids, types and feature contents as the CAS written first (chain_xmi_json_flat, chain_json_xmi_flat; original type system supplied at every step); for CASes with array and list features and for the JSON-embedded type system variant the chains are checked per run on the implementation (oracle) and against the same chains executed by the Lean model (partial)",
    "restricted to what both formats can express: text sofas, no null elements in FSArrays (XMI cannot write them), no empty inline string lists",
]


def run(ctx, out, budget):
    out.rule = ("CASes of C01; both chains XMI -> CAS -> JSON -> CAS and JSON -> CAS -> XMI -> CAS, with the original or the "
                "JSON-embedded type system; the coarse id-keyed dump of the last CAS must equal the dump of the CAS loaded first; the "
                "same chain is executed by the model. Non-trivial = distinct (CAS, chain) with >= 3 structures.")
    rng = ctx.rng(0)
    n = bud(budget, 100, 20000)
    cases = [casgen.CasGen(rng, n_types=rng.randint(1, 5), n_fs=rng.randint(1, 10), xmi_safe=True).build() for _ in range(n)]
    sess = []
    for k, g in enumerate(cases):
        h0 = g.views["_InitialView"]
        kind = ["xmi-json", "json-xmi"][k % 2]
        emb = (k // 2) % 2 == 1
        sess.append(list(g.sb.ops) + [{"op": "conv.chain", "h": h0, "kind": kind, "embedded": emb}])
    impl = sessions.run_impl_sessions(sess)
    model = sessions.run_model_sessions(ctx.driver, sess)
    for k, (g, ops, io) in enumerate(zip(cases, sess, impl)):
        out.evaluations += 1
        sc = {"k": "session", "ops": ops}
        r = io[-1]
        out.count("chain:%s/embedded=%s" % (ops[-1]["kind"], ops[-1]["embedded"]))
        if "ok" not in r:
            out.oracle_failures.append({"scenario": sc, "what": "conversion chain raised", "actual": r})
            continue
        d1, d2 = r["ok"]
        if "ok" not in d1 or "ok" not in d2 or common.canon(c01.norm_dump(d1["ok"])) != common.canon(c01.norm_dump(d2["ok"])):
            out.oracle_failures.append({"scenario": sc, "what": "CAS at the end of the conversion chain differs from the CAS loaded first",
                                        "expected": d1, "actual": d2})
        if model is not None and model[k] is not None:
            d = sessions.first_diff(io, model[k], lambda i, x: c05.canon_floats(x))
            if d is not None:
                out.disagreements.append({"scenario": sc, "op_index": d, "op": ops[d] if d < len(ops) else None,
                                          "impl": io[d] if d < len(io) else None, "model": model[k][d] if d < len(model[k]) else None})
        if "ok" in d1 and len(d1["ok"]["fs"]) >= 3:
            out.nontriv((k, ops[-1]["kind"]))
        if k < 2:
            out.sample({"chain": ops[-1], "n_fs": len(d1.get("ok", {}).get("fs", {}))})
    out.partial = ["chains with the JSON-embedded type system and CASes outside the common fragment: checked on implementation and model per run, no theorem"]


def replay(ctx, payload):
    fl = payload.get("failure") or {}
    io = sessions.run_impl_sessions([fl["scenario"]["ops"]])[0]
    r = io[-1]
    if "ok" not in r:
        return True
    d1, d2 = r["ok"]
    return "ok" not in d1 or "ok" not in d2 or common.canon(c01.norm_dump(d1["ok"])) != common.canon(c01.norm_dump(d2["ok"]))
