"""C06 — select / select_all return exactly the indexed instances of a type subtree."""
from harness import sessions, tsgen
from harness.sessions import SB

PROP = "C06"
MODULES = ["CassisModel.Properties.C06"]
THEOREMS = [
    "Cassis.Index.keysNodup_add",
    "Cassis.Index.allSorted_add",
    "Cassis.Index.pairs_add_perm",
    "Cassis.Index.rem_none_iff",
    "Cassis.Index.rem_some_perm",
    "Cassis.Index.all_eq_pairs",
    "Cassis.Index.selectNames_perm",
    "Cassis.Index.selectNames_chunks_sorted",
    "Cassis.Index.rep_init",
    "Cassis.Index.rep_step",
    "Cassis.Index.rep_history",
    "Cassis.Index.sstep_frame",
    "Cassis.Index.select_history",
    "Cassis.TS.descendants_eq_closure",
    "Cassis.TS.descendants_nodup",
    "Cassis.TS.consistent_history",
]
ASSUMPTIONS = [
    "sortedcontainers.SortedKeyList contract (sorted insertion, remove by key raising ValueError when absent)",
    "offsets of an indexed structure are not mutated while it is indexed",
    "the same object added twice to one view (finding S2) is outside the theorems' abstract bag = set reading; the bag model itself reproduces the double entry",
    "order of results across types and among equal (begin,end) keys is not promised and not compared",
]

SUPERS = ["uima.tcas.Annotation", "uima.cas.TOP", "uima.cas.AnnotationBase"]


def gen_session(rng, n_ops, double_add=False):
    sb = SB()
    ts = sb.ts_new()
    sh = tsgen.Shadow()
    lenient = rng.random() < 0.3
    h0 = sb.cas_new(ts, lenient=lenient, text="0123456789" * 3)
    foreign_ts = None
    if lenient:
        foreign_ts = sb.ts_new()
        sb.create_type(foreign_ts, "foreign.F", "uima.tcas.Annotation")
        sb.create_type(foreign_ts, "foreign.G", "uima.cas.TOP")
    handles = {h0: "_InitialView"}
    views = {"_InitialView": []}  # view -> list of labels (bag)
    fs = {}  # label -> (type, b, e)
    checks = []  # (op index, kind, payload)
    user = []

    def new_type():
        name = tsgen.rand_type_name(rng)
        if name in sh.parent:
            return
        sup = rng.choice(user + SUPERS) if user else rng.choice(SUPERS)
        if sh.create_type(name, sup) == "ok":
            sb.create_type(ts, name, sup)
            user.append(name)

    def new_fs():
        if foreign_ts is not None and rng.random() < 0.3:
            # a structure of a type the CAS's type system does not define (lenient CAS only)
            if rng.random() < 0.5:
                b = rng.randint(0, 12); e = rng.randint(b, 20)
                l = sb.fs_new(foreign_ts, "foreign.F", {"begin": b, "end": e})
                fs[l] = ("foreign.F", b, e)
            else:
                l = sb.fs_new(foreign_ts, "foreign.G", {})
                fs[l] = ("foreign.G", None, None)
            return l
        t = rng.choice(user + ["uima.tcas.Annotation", "uima.tcas.DocumentAnnotation"]) if user else "uima.tcas.Annotation"
        xid = rng.choice([None, None, None, 7, 7, 100]) if rng.random() < 0.5 else None
        if "begin" in sh.effective(t):
            if fs and rng.random() < 0.25:
                # a twin: same type and offsets (and possibly the same explicit id) as an existing structure
                t0, b, e = rng.choice([v for v in fs.values()])
                if b is None or t0.startswith("foreign."):
                    b = rng.randint(0, 12); e = rng.randint(b, 20)
                else:
                    t = t0
            else:
                b = rng.randint(0, 12)
                e = rng.randint(b, min(29, b + rng.choice([0, 0, 1, 3, 10])))
            l = sb.fs_new(ts, t, {"begin": b, "end": e}, xid=xid)
            fs[l] = (t, b, e)
        else:
            l = sb.fs_new(ts, t, {}, xid=xid)
            fs[l] = (t, None, None)
        return l

    for _ in range(3):
        new_type()
    for _ in range(n_ops):
        r = rng.random()
        h = rng.choice(list(handles))
        v = handles[h]
        if r < 0.10:
            new_type()
        elif r < 0.40:
            cand = [l for l in fs if l not in views[v]]
            l = rng.choice(cand) if cand and rng.random() < 0.3 else new_fs()
            if double_add and views[v] and rng.random() < 0.3:
                l = rng.choice(views[v])
            if l in views[v] and not double_add:
                continue
            alias = rng.choice([None, None, "add_annotation", "add_all", "add_annotations", "add_all_iter"])
            o = {"op": "cas.add", "h": h, "fs": l}
            if alias:
                o["alias"] = alias
            elif rng.random() < 0.3:
                o["keep_id"] = False
            sb.ops.append(o)
            views[v].append(l)
        elif r < 0.52:
            if not fs:
                continue
            present = views[v] and rng.random() < 0.7
            l = rng.choice(views[v]) if present else rng.choice(list(fs))
            o = {"op": "cas.remove", "h": h, "fs": l}
            if rng.random() < 0.3:
                o["alias"] = "remove_annotation"
            i = len(sb.ops)
            sb.ops.append(o)
            if l in views[v]:
                views[v].remove(l)
                checks.append((i, "ok", None))
            else:
                checks.append((i, "raises", None))
        elif r < 0.58:
            name = rng.choice(["v2", "v3", "v4"])
            if name in views:
                nh = sb.get_view(h, name)
            else:
                nh = sb.create_view(h, name)
                views[name] = []
            handles[nh] = name
        elif r < 0.88:
            T = rng.choice(user + ["uima.tcas.Annotation", "uima.cas.TOP", "uima.cas.AnnotationBase",
                                   "uima.tcas.DocumentAnnotation"])
            by = rng.choice(["name", "object", "short"])
            arg = T
            if by == "short":
                arg = sh.short(T)
                if sh.resolve(arg) != T:
                    by = "name"
                    arg = T
            i = len(sb.ops)
            sb.ops.append({"op": "cas.select", "h": h, "type": arg, "by": by})
            sub = set(sh.descendants(T))
            exp = sorted(l for l in views[v] if fs[l][0] in sub)
            checks.append((i, "select", (exp, len(views[v]))))
        else:
            i = len(sb.ops)
            sb.ops.append({"op": "cas.select_all", "h": h})
            checks.append((i, "select", (sorted(views[v]), -1)))
    # final: every view, select_all through a fresh handle
    for name in views:
        nh = sb.get_view(h0, name)
        i = len(sb.ops)
        sb.ops.append({"op": "cas.select_all", "h": nh})
        checks.append((i, "select", (sorted(views[name]), -1)))
    return sb.ops, checks, fs


def order_ok(entries, fs):
    """instances of one concrete type appear in non-decreasing (begin, end) order"""
    last = {}
    for b, e, l in entries:
        t = fs[l][0]
        if t in last and (b, e) < last[t]:
            return False
        last[t] = (b, e)
    return True


def evaluate(ctx, out, sess, tag):
    ops_list = [s[0] for s in sess]
    impl = sessions.run_impl_sessions(ops_list)
    model = sessions.run_model_sessions(ctx.driver, ops_list)
    for si, (ops, checks, fs) in enumerate(sess):
        io = impl[si]
        if model is not None:
            d = sessions.first_diff(io, model[si], lambda i, x: sessions.sort_entries(x))
            if d is not None:
                out.disagreements.append({"scenario": {"k": "session", "ops": ops}, "op_index": d,
                                          "impl": io[d] if d < len(io) else None,
                                          "model": model[si][d] if model[si] and d < len(model[si]) else None})
        for (i, kind, payload) in checks:
            out.evaluations += 1
            got = io[i]
            out.count("check:" + kind)
            sc = {"k": "session", "ops": ops}
            if kind == "ok":
                if "ok" not in got:
                    out.oracle_failures.append({"scenario": sc, "op_index": i, "what": "remove of an indexed structure raised", "actual": got, "expected": "ok"})
            elif kind == "raises":
                if "err" not in got:
                    out.oracle_failures.append({"scenario": sc, "op_index": i, "what": "remove of a structure not indexed in the view did not raise", "actual": got, "expected": "raises"})
            else:
                exp, nview = payload
                if "ok" not in got:
                    out.oracle_failures.append({"scenario": sc, "op_index": i, "what": "select raised", "actual": got, "expected": exp})
                    continue
                labels = sorted(e[2] for e in got["ok"])
                if labels != exp:
                    out.oracle_failures.append({"scenario": sc, "op_index": i, "what": "select result is not exactly the indexed instances of the subtree",
                                                "expected": exp, "actual": labels})
                elif not order_ok(got["ok"], fs):
                    out.oracle_failures.append({"scenario": sc, "op_index": i, "what": "instances of one type not in (begin,end) order",
                                                "expected": exp, "actual": got["ok"]})
                if nview > 0 and 0 < len(exp) < nview:
                    out.nontriv((tag, si, i))
        if si < 2:
            out.sample({"n_ops": len(ops), "ops_tail": ops[-4:], "impl_tail": io[-2:]})


def run(ctx, out, budget):
    out.rule = ("histories over {add (+3 aliases, add_all also with a one-shot iterator), remove (+alias, also of absent structures), create_view, get_view, "
                "create_type below any existing type, select by object/full/short name, select_all} on up to 4 views with "
                "several live handles; oracle = the generator's own bag per view filtered by the declared subtree. "
                "Non-trivial = distinct select whose expected result is a non-empty strict subset of the view.")
    rng = ctx.rng(0)
    if budget == "quick":
        sess = [gen_session(rng, 40) for _ in range(150)]
    elif budget == "search":
        sess = [gen_session(rng, 40) for _ in range(1500)] + [gen_session(rng, 400) for _ in range(100)]
    else:
        sess = [gen_session(rng, 40) for _ in range(9000)] + [gen_session(rng, 400) for _ in range(500)]
    evaluate(ctx, out, sess, "h")


S2_WITNESS = [
    {"op": "ts.new"},
    {"op": "cas.new", "ts": 0, "text": [97, 98, 99]},
    {"op": "fs.new", "ts": 0, "type": "uima.tcas.Annotation", "feats": {"begin": 0, "end": 1}},
    {"op": "cas.add", "h": 0, "fs": 0},
    {"op": "cas.add", "h": 0, "fs": 0},
    {"op": "cas.select", "h": 0, "type": "uima.tcas.Annotation"},
]


def finding_of(fl):
    # S2: the failing session adds one structure to a view in which it is already indexed
    ops = fl["scenario"]["ops"]
    hview = {}
    n_h = 0
    idx = {}
    for o in ops:
        if o["op"] == "cas.new":
            hview[n_h] = "_InitialView"; n_h += 1
        elif o["op"] in ("cas.create_view", "cas.get_view"):
            hview[n_h] = o["name"]; n_h += 1
        elif o["op"] == "cas.add":
            v = hview.get(o["h"])
            if o["fs"] in idx.setdefault(v, []):
                return "S2-double-add"
            idx[v].append(o["fs"])
        elif o["op"] == "cas.remove":
            v = hview.get(o["h"])
            if o["fs"] in idx.get(v, []):
                idx[v].remove(o["fs"])
    return None


def run_witness(ctx, finding):
    if finding["id"] != "S2-double-add":
        return False
    io = sessions.run_impl_sessions([S2_WITNESS])[0]
    return "ok" in io[5] and len(io[5]["ok"]) == 2


def replay(ctx, payload):
    fl = payload.get("failure") or {}
    ops = fl["scenario"]["ops"]
    io = sessions.run_impl_sessions([ops])[0]
    got = io[fl["op_index"]]
    exp = fl.get("expected")
    if exp == "ok":
        return "ok" not in got
    if exp == "raises":
        return "err" not in got
    if "ok" not in got:
        return True
    return sorted(e[2] for e in got["ok"]) != exp
