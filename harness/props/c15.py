"""C15 — Every operation terminates on every reference-graph shape."""
import time

from harness import sessions
from harness.sessions import SB

PROP = "C15"
MODULES = ["CassisModel.Properties.C15", "CassisModel.Properties.C10"]
THEOREMS = [
    "Cassis.Traverse.findAllFs_steps_bound",
    "Cassis.Traverse.findAllFs_terminates",
    "Cassis.Traverse.findAllFs_nodup",
    "Cassis.Traverse.findAllFs_heap_frame",
    "Cassis.TS.descendants_eq_closure",
    "Cassis.TS.subsumes_iff_ancestor",
    "Cassis.TS.isInstanceOf_iff_ancestor",
]
ASSUMPTIONS = [
    "iteration counts of the worklist are what the model bounds (pops <= |seeds| + sum of out-degrees); the cost of one iteration, list.pop(0) being linear, the CPython recursion limit and wall-clock time are runtime behaviour outside the model (observed under deadlines, not proved)",
    "inline list spines are finite (a cyclic FSList spine makes _collect_list_elements diverge, as in UIMA)",
    "step counts of the implementation are taken with sys.monitoring LINE events on the lines `openlist.pop(`, `openlist.append(`, `v = v.tail` of Cas._find_all_fs",
    "serialisers/loaders/cas_to_comparable_text are exercised under deadlines on the implementation only until their models are claimed (C01/C02/C20)",
]

FEATS = [("l", "x.N", None, None), ("r", "uima.cas.TOP", None, None),
         ("arr", "uima.cas.FSArray", None, None), ("sarr", "uima.cas.FSArray", None, True),
         ("lst", "uima.cas.FSList", None, None), ("slst", "uima.cas.FSList", None, True),
         ("v", "uima.cas.Integer", None, None)]


class G:
    """graph under construction: nodes are FS labels"""

    def __init__(self, deep_types=0):
        self.sb = SB()
        self.ts = self.sb.ts_new()
        # nodes are annotations with pairwise distinct offsets: the index order (and hence the seed order of
        # the traversal) is then fixed by the keys and does not hinge on id() ties
        self.sb.create_type(self.ts, "x.N", "uima.tcas.Annotation")
        for (n, r, e, m) in FEATS:
            self.sb.create_feature(self.ts, "x.N", n, r, elem=e, multi=m)
        self.chain = ["x.N"]
        for i in range(deep_types):
            self.sb.create_type(self.ts, "x.D%d" % i, self.chain[-1])
            self.chain.append("x.D%d" % i)
        self.h = self.sb.cas_new(self.ts, text="abc")
        self.n_nodes = 0

    def node(self, ty="x.N", **feats):
        self.n_nodes += 1
        feats = dict(feats)
        feats["begin"] = self.sb.n_fs
        feats["end"] = self.sb.n_fs
        return self.sb.fs_new(self.ts, ty, feats)

    def set(self, a, path, v):
        self.sb.op(op="fs.set", fs=a, path=path, v=v)

    def array(self, elems):
        return self.sb.fs_new(self.ts, "uima.cas.FSArray", {"elements": {"rs": elems}})

    def fslist(self, elems):
        cur = self.sb.fs_new(self.ts, "uima.cas.EmptyFSList", {})
        for e in reversed(elems):
            cur = self.sb.fs_new(self.ts, "uima.cas.NonEmptyFSList",
                                 {"head": None if e is None else {"r": e}, "tail": {"r": cur}})
        return cur

    def add(self, a):
        self.sb.op(op="cas.add", h=self.h, fs=a)


def shape(rng, kind, size):
    g = G(deep_types=size if kind == "deep_types" else 0)
    if kind == "ring":
        ns = [g.node() for _ in range(size)]
        for i, a in enumerate(ns):
            g.set(a, "l", {"r": ns[(i + 1) % size]})
        g.add(ns[0])
    elif kind == "self":
        a = g.node()
        g.set(a, "l", {"r": a}); g.set(a, "r", {"r": a})
        arr = g.array([a, a, None, a]); g.set(a, "arr", {"r": arr})
        g.add(a)
    elif kind == "diamond":
        top = g.node(); cur = top
        for _ in range(size):
            x, y, z = g.node(), g.node(), g.node()
            g.set(cur, "l", {"r": x}); g.set(cur, "r", {"r": y})
            g.set(x, "l", {"r": z}); g.set(y, "l", {"r": z})
            cur = z
        g.add(top)
    elif kind == "arrays":
        ns = [g.node() for _ in range(size)]
        owner = g.node()
        elems = [rng.choice(ns + [None, owner]) for _ in range(size * 2)]
        g.set(owner, "arr", {"r": g.array(elems)})
        g.set(owner, "sarr", {"r": g.array(list(reversed(elems)))})
        o2 = g.node(); g.set(o2, "arr", {"r": g.array(elems[: size])})
        if ns:
            g.set(ns[0], "l", {"r": o2})
        g.add(owner)
        if ns:
            g.add(ns[-1])
    elif kind == "inline_list":
        ns = [g.node() for _ in range(max(1, size // 10))]
        owner = g.node()
        elems = [rng.choice(ns + [None, owner]) for _ in range(size)]
        g.add(ns[0])  # a head that is already visited when the walk reaches it
        g.set(owner, "lst", {"r": g.fslist(elems)})
        g.add(owner)
    elif kind == "shared_list":
        ns = [g.node() for _ in range(max(1, size // 10))]
        owner = g.node(); o2 = g.node()
        lst = g.fslist([rng.choice(ns + [None]) for _ in range(size)])
        g.set(owner, "slst", {"r": lst}); g.set(o2, "slst", {"r": lst}); g.set(owner, "l", {"r": o2})
        g.add(owner)
    elif kind == "cyclic_shared_list":
        # a shared FSList (multipleReferencesAllowed) whose spine runs into a cycle: back to the first node (size even) or to a
        # later node, so that the cycle does not pass through the first node (size odd); an owner with the same list inline is
        # NOT generated: cyclic inline spines cannot be written (side condition of C01)
        ns = [g.node() for _ in range(max(1, size // 3))]
        nodes = [g.sb.fs_new(g.ts, "uima.cas.NonEmptyFSList", {"head": {"r": rng.choice(ns)}}) for _ in range(max(2, size))]
        for i in range(len(nodes) - 1):
            g.set(nodes[i], "tail", {"r": nodes[i + 1]})
        g.set(nodes[-1], "tail", {"r": nodes[0] if size % 2 == 0 else nodes[1]})
        owner = g.node(); o2 = g.node()
        g.set(owner, "slst", {"r": nodes[0]}); g.set(o2, "slst", {"r": nodes[len(nodes) // 2]}); g.set(owner, "l", {"r": o2})
        g.add(owner)
    elif kind == "deep_types":
        a = g.node(ty=g.chain[-1]); b = g.node(ty=g.chain[len(g.chain) // 2])
        g.set(a, "l", {"r": b})
        g.add(a)
        for t in (g.chain[0], g.chain[-1], g.chain[len(g.chain) // 2]):
            g.sb.op(op="cas.select", h=g.h, type=t)
            g.sb.query(g.ts, "descendants", name=t)
            g.sb.query(g.ts, "subsumes", a=g.chain[0], b=t)
            g.sb.query(g.ts, "is_instance_of", a=g.chain[-1], b=t)
            g.sb.query(g.ts, "is_primitive", name=t)
    elif kind == "type_diamonds":
        # a chain of user types in which each type refers to the next one twice (a reference feature and the
        # element type of an array feature): the closure over the *type* graph must not re-expand types
        for i in range(size):
            g.sb.create_type(g.ts, "t.T%d" % i, "uima.tcas.Annotation")
        for i in range(size - 1):
            g.sb.create_feature(g.ts, "t.T%d" % i, "first", "t.T%d" % (i + 1))
            g.sb.create_feature(g.ts, "t.T%d" % i, "more", "uima.cas.FSArray", elem="t.T%d" % (i + 1))
        a = g.node(ty="t.T0")
        g.add(a)
    elif kind == "random":
        ns = [g.node() for _ in range(size)]
        for a in ns:
            for f in ("l", "r"):
                if rng.random() < 0.6:
                    g.set(a, f, {"r": rng.choice(ns)})
            if rng.random() < 0.3:
                g.set(a, rng.choice(["arr", "sarr"]), {"r": g.array([rng.choice(ns + [None]) for _ in range(rng.randint(0, 5))])})
            if rng.random() < 0.3:
                g.set(a, rng.choice(["lst", "slst"]), {"r": g.fslist([rng.choice(ns + [None]) for _ in range(rng.randint(0, 5))])})
        for a in rng.sample(ns, max(1, size // 4)):
            g.add(a)
    ops = g.sb.ops
    i1 = len(ops); ops.append({"op": "cas.find_all_fs", "h": g.h})
    i2 = len(ops); ops.append({"op": "cas.find_all_fs", "h": g.h, "inlinable": True})
    i3 = len(ops); ops.append({"op": "cas.typecheck", "h": g.h})
    return ops, [i1, i2], i3, kind, size, g.n_nodes


def impl_only_ops(ops, deadline=60.0):
    """serialisers, loaders and comparable text on the same graph, under deadlines (implementation only)"""
    from harness import implrun
    import warnings
    warnings.simplefilter("ignore")
    out, s = implrun.run_session(ops, op_timeout=deadline)
    if any(o.get("err") in ("Timeout", "SkippedAfterTimeout") for o in out):
        return {"build": ("timeout", deadline)}
    cas = s.cass[0]
    ts = s.tss[0]
    res = {}
    import signal

    def alarm(sig, frm):
        raise implrun.OpTimeout()
    old = signal.signal(signal.SIGALRM, alarm)
    try:
        from cassis.typesystem import TypeSystemMode
        for name, fn in (("to_xmi", lambda: cas.to_xmi()), ("to_json", lambda: cas.to_json()),
                         ("to_json_minimal", lambda: cas.to_json(type_system_mode=TypeSystemMode.MINIMAL)),
                         ("to_xml", lambda: ts.to_xml()),
                         ("xmi_roundtrip", lambda: __import__("cassis").load_cas_from_xmi(cas.to_xmi(), typesystem=ts).to_xmi()),
                         ("json_roundtrip", lambda: __import__("cassis").load_cas_from_json(cas.to_json()).to_json()),
                         ("comparable", lambda: __import__("cassis.util", fromlist=["x"]).cas_to_comparable_text(cas))):
            t0 = time.time()
            signal.setitimer(signal.ITIMER_REAL, deadline)
            try:
                fn()
                res[name] = ("ok", time.time() - t0)
            except implrun.OpTimeout:
                res[name] = ("timeout", time.time() - t0)
                break
            except RecursionError:
                res[name] = ("recursion", time.time() - t0)
            except Exception as e:  # noqa: BLE001
                res[name] = ("raised:" + type(e).__name__, time.time() - t0)
            finally:
                signal.setitimer(signal.ITIMER_REAL, 0)
    finally:
        signal.signal(signal.SIGALRM, old)
    return res


def run(ctx, out, budget):
    out.rule = ("shape generators: rings, self references (also through arrays), diamond chains, arrays with repeated / "
                "visited / null elements (inline and shared), inline FSLists whose heads are null or already visited, "
                "shared lists, deep type chains, random graphs. For every graph the loop counters of Cas._find_all_fs "
                "(both traversal modes) are compared exactly with the model's and with the proved bound; serialisers, "
                "round trips, typecheck and comparable text run under a 60 s deadline. Non-trivial = distinct shapes with "
                "a cycle, a diamond or a collection of >= 2 elements.")
    rng = ctx.rng(0)
    # "search" (the quick tier looking harder after a change): quick sizes and deadline, more random graphs; the large
    # sizes and the 60 s deadline belong to the thorough tier only (a change that hangs would otherwise cost a deadline per
    # scenario)
    q = budget != "thorough"
    nrand = 4 if budget == "quick" else (16 if budget == "search" else 60)
    plan = []
    for kind, sizes in (("ring", [1, 2, 50] if q else [1, 2, 3, 50, 500, 2000]),
                        ("self", [1]),
                        ("diamond", [1, 4, 12, 40] if q else [1, 2, 4, 8, 12, 20, 40, 200]),
                        ("arrays", [0, 3, 30] if q else [0, 1, 3, 30, 300]),
                        ("inline_list", [0, 1, 12, 300] if q else [0, 1, 12, 300, 1000, 5000]),
                        ("shared_list", [0, 5, 300] if q else [0, 5, 300, 1000, 5000]),
                        ("cyclic_shared_list", [2, 3, 4, 5, 41] if q else [2, 3, 4, 5, 40, 41, 500, 501]),
                        ("deep_types", [30] if q else [30, 60]),
                        ("type_diamonds", [3, 45] if q else [3, 20, 45, 80]),
                        ("random", [3, 8, 20] * nrand)):
        for sz in sizes:
            plan.append(shape(rng, kind, sz))
    ops_list = [p[0] for p in plan]
    deadline = 15.0 if q else 60.0
    impl = sessions.run_impl_sessions(ops_list, op_timeout=deadline, retry_timeouts=False)
    model = sessions.run_model_sessions(ctx.driver, ops_list)
    for si, (ops, idxs, i3, kind, size, nn) in enumerate(plan):
        io = impl[si]
        sc = {"k": "session", "ops": ops} if len(ops) < 400 else {"k": "shape", "kind": kind, "size": size, "seed": ctx.seed}
        mo = model[si] if model is not None else None
        out.count("shape:" + kind)
        for i in idxs + [i3]:
            out.evaluations += 1
            got = io[i]
            if got.get("err") == "SkippedAfterTimeout":
                continue
            if got.get("err") in ("Timeout", "RecursionError"):
                out.oracle_failures.append({"scenario": sc, "kind": kind, "size": size, "op": ops[i], "what": "operation did not terminate within the deadline: " + got["err"]})
                continue
            if mo is not None:
                m = mo[i]
                if i == i3:
                    same = (sorted(got.get("ok", [None]), key=str) == sorted(m.get("ok", [None]), key=str)) if "ok" in got and "ok" in m else got == m
                    if not same:
                        out.disagreements.append({"scenario": sc, "op_index": i, "impl": got, "model": m})
                    continue
                if "ok" in got and "ok" in m:
                    g_, m_ = got["ok"], m["ok"]
                    if g_["pops"] is None:
                        out.count("step-counters-unavailable")
                        cmp_keys = ["fs"]
                    else:
                        cmp_keys = ["fs", "pops", "pushes", "list_steps"]
                    if any(g_[k] != m_[k] for k in cmp_keys):
                        out.disagreements.append({"scenario": sc, "op_index": i, "what": "traversal result / step counts differ",
                                                  "impl": {k: g_[k] for k in cmp_keys if k != "fs"}, "model": {k: m_[k] for k in cmp_keys if k != "fs"},
                                                  "fs_equal": g_["fs"] == m_["fs"]})
                    # the property's oracle: iterations within the proved bound (low-order polynomial)
                    if g_["pops"] is not None and g_["pops"] > m_["bound"]:
                        out.oracle_failures.append({"scenario": sc, "kind": kind, "size": size, "op": ops[i],
                                                    "what": "more worklist iterations than |seeds| + sum of out-degrees",
                                                    "pops": g_["pops"], "bound": m_["bound"]})
                elif got != m:
                    out.disagreements.append({"scenario": sc, "op_index": i, "impl": got, "model": m})
            elif "ok" in got and got["ok"].get("pops") is not None:
                # no model available: fall back to a generous polynomial bound on the node count
                if got["ok"]["pops"] > 10 * (nn + 10) ** 2:
                    out.oracle_failures.append({"scenario": sc, "kind": kind, "size": size, "op": ops[i],
                                                "what": "worklist iterations exceed 10*(n+10)^2", "pops": got["ok"]["pops"]})
        # remaining ops of the session (selects / hierarchy queries on deep type chains)
        for i, got in enumerate(io):
            if got.get("err") in ("Timeout", "RecursionError"):
                out.oracle_failures.append({"scenario": sc, "kind": kind, "size": size, "op": ops[i], "what": "operation did not terminate: " + got["err"]})
        if size >= 2 or kind in ("self",):
            out.nontriv((kind, size, si))
        if si % 9 == 0:
            out.sample({"kind": kind, "size": size, "nodes": nn, "impl_steps": {k: v for k, v in (io[idxs[0]].get("ok") or {}).items() if k != "fs"}})
    # serialisers etc. under deadlines (implementation only)
    for si, (ops, idxs, i3, kind, size, nn) in enumerate(plan):
        if kind == "random" and si % 5:
            continue
        res = impl_only_ops(ops[: idxs[0]], deadline)
        for name, (st, dt) in res.items():
            out.evaluations += 1
            out.count("impl:" + name + ":" + st.split(":")[0])
            if st in ("timeout", "recursion"):
                out.oracle_failures.append({"scenario": {"k": "shape", "kind": kind, "size": size, "seed": ctx.seed}, "kind": kind, "size": size,
                                            "what": name + " did not terminate within the deadline: " + st, "op": {"op": name}})
    out.partial = ["wall-clock time and recursion depth: runtime behaviour outside the model (deadlines only)",
                   "step bounds of the serialisers'/loaders' own passes: not yet modelled (C01/C02)"]


def finding_of(fl):
    return None


def replay(ctx, payload):
    fl = payload.get("failure") or {}
    sc = fl.get("scenario") or {}
    if sc.get("k") == "session":
        io = sessions.run_impl_sessions([sc["ops"]], op_timeout=60.0, retry_timeouts=False)[0]
        model = sessions.run_model_sessions(ctx.driver, [sc["ops"]])
        for i, got in enumerate(io):
            if got.get("err") in ("Timeout", "RecursionError"):
                return True
            if model is not None and model[0] and sc["ops"][i]["op"] == "cas.find_all_fs" and "ok" in got and "ok" in model[0][i]:
                if got["ok"]["pops"] is not None and got["ok"]["pops"] > model[0][i]["ok"]["bound"]:
                    return True
        return False
    if sc.get("k") == "shape":
        import random
        ops = shape(random.Random(0), sc["kind"], sc["size"])[0]
        io = sessions.run_impl_sessions([ops], op_timeout=60.0, retry_timeouts=False)[0]
        if any(g.get("err") in ("Timeout", "RecursionError") for g in io):
            return True
        idx = [i for i, o in enumerate(ops) if o["op"] == "cas.find_all_fs"][0]
        res = impl_only_ops(ops[:idx])
        return any(st in ("timeout", "recursion") for st, _ in res.values())
    return True
