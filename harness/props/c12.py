"""C12 — Type system XML round trip preserves every declaration, in any declaration order."""
import copy

from harness import common, refio, sessions, tsgen
from harness.common import bud
from harness.sessions import SB

PROP = "C12"
MODULES = ["CassisModel.Properties.C12", "CassisModel.Properties.C12RoundTrip"]
THEOREMS = [
    "Cassis.TsXml.tsxml_roundtrip",
    "Cassis.TsXml.tsxml_roundtrip_redeclared",
    "Cassis.TsXml.tsxml_roundtrip_docann",
    "Cassis.TsXml.load_consistent",
    "Cassis.TsXml.load_declares",
    "Cassis.TsXml.load_declares_exact",
    "Cassis.TsXml.load_only_declared",
    "Cassis.TsXml.load_ok_predefined_match",
    "Cassis.TsXml.checkPredefined_super_diff_error",
    "Cassis.TsXml.creationOrder_sound",
    "Cassis.TsXml.renderFeat_mk",
    "Cassis.TsXml.renderType_fields",
    "Cassis.TsXml.toDescriptor_user_sorted",
    "Cassis.TsXml.load_redeclared_reg",
]
ASSUMPTIONS = [
    "proved: every type system the model's descriptor reader builds is one tree with consistent feature bookkeeping (it only uses create_type/create_feature on the built-in table), types are created supertypes first for every order of declaration, the writer emits the user types sorted by name with every declared field, a built-in redeclared with a different supertype is rejected",
    "proved end to end (tsxml_roundtrip*): every permutation of the emitted descriptor (optionally with identically redeclared built-ins / DocumentAnnotation) loads to the same declarations and re-emits the trimmed descriptor, for API-built type systems without shadowed features (finding X12); checked per run on the implementation and against the model as well",
    "XML text layer (namespaces, escaping, byte-for-byte re-emission) is lxml's business; byte identity of re-emission is observed on the implementation",
    "features added to DocumentAnnotation through the API (finding D1) are outside the generators",
]

DESCRS = [None, None, "plain", "  padded  ", "multi\nline", "", "with <angle> & amp"]


def gen_ts(rng, n_types, finding_stream=False):
    """a type system through the API, with descriptions, every kind of range, element types, tri-state flag,
    reserved names, no-namespace types, mutually recursive ranges"""
    sb = SB()
    ts = sb.ts_new()
    sh = tsgen.Shadow()
    user = []
    for _ in range(n_types):
        name = tsgen.rand_type_name(rng)
        if name in sh.parent or name in sh.K["predefined"]:
            continue
        sup = rng.choice(user + ["uima.tcas.Annotation", "uima.cas.TOP", "uima.cas.AnnotationBase", "uima.cas.String"]) if user else "uima.tcas.Annotation"
        d = rng.choice(DESCRS)
        if sh.create_type(name, sup) == "ok":
            sb.create_type(ts, name, sup, descr=d)
            user.append(name)
    # features are declared in an arbitrary order over the types (also on a subtype before its ancestor); declaring a feature
    # on an ancestor of a type that already declares it identically is finding X12 and only generated in the finding stream
    slots = [n for n in user for _ in range(rng.randint(0, 4))]
    rng.shuffle(slots)
    if finding_stream and len(user) >= 2:
        slots += [rng.choice(user) for _ in range(3)]
    recent = []
    for n in slots:
        for _ in range(1):
            if finding_stream and recent and rng.random() < 0.5:
                # copy a declaration of a descendant to one of its ancestors
                dn, (fname, r, el, d, multi) = rng.choice(recent)
                ancs = [a for a in sh.ancestors(dn)[1:] if a in user]
                if ancs:
                    an = rng.choice(ancs)
                    if sh.create_feature(an, fname, r, el, d, multi) == "ok":
                        sb.create_feature(ts, an, fname, r, elem=el, descr=d, multi=multi)
                    continue
            fname = rng.choice(["f", "g", "self", "type", "value", "k1", "k2", "ref", "class_", "label_", "self_"])
            r = rng.choice(tsgen.RANGES_PRIM + tsgen.RANGES_COLL + user + ["uima.tcas.Annotation", "uima.cas.TOP"])
            el = rng.choice([None, "uima.tcas.Annotation", "uima.cas.TOP"] + user[:2]) if r in ("uima.cas.FSArray", "uima.cas.FSList") else None
            multi = rng.choice([None, None, True, False])
            d = rng.choice(DESCRS)
            pyname = fname + "_" if fname in ("self", "type") else fname
            if not finding_stream and any(g["name"] == pyname for t_ in sh.descendants(n)[1:] for g in sh.own[t_]):
                continue   # region of X12 (or a conflict): a descendant already declares this name
            if sh.create_feature(n, fname, r, el, d, multi) == "ok":
                sb.create_feature(ts, n, fname, r, elem=el, descr=d, multi=multi)
                recent.append((n, (fname, r, el, d, multi)))
    return sb, ts, user


def shadowed(ops):
    """names (type, feature) that a type declares although an ancestor declares the same feature: replay of the API calls"""
    sh = tsgen.Shadow()
    for o in ops:
        if o.get("op") == "ts.create_type" and o.get("ts", 0) == 0:
            sh.create_type(o["name"], o.get("super") or "uima.tcas.Annotation")
        elif o.get("op") == "ts.create_feature" and o.get("ts", 0) == 0:
            sh.create_feature(o["domain"], o["name"], o["range"], o.get("elem"), o.get("descr"), o.get("multi"))
    out = []
    for t in sh.order:
        if t in sh.K["predefined"]:
            continue
        inh = {g["name"] for a in sh.ancestors(t)[1:] for g in sh.own[a]}
        out += [(t, f["name"]) for f in sh.own[t] if f["name"] in inh]
    return out


REDECL_SETS = [["uima.tcas.Annotation"], ["uima.tcas.Annotation", "uima.cas.AnnotationBase"], ["uima.cas.FSArray", "uima.cas.ArrayBase"],
               ["uima.cas.NonEmptyFSList", "uima.cas.FSList"], ["uima.cas.Sofa"], ["uima.cas.AnnotationBase"],
               ["uima.cas.StringArray", "uima.cas.ArrayBase"]]
BUILTIN_NAMES = {n for s_ in REDECL_SETS for n in s_} | {"uima.cas.NonEmptyStringList"}


def builtin_entry(dump, name):
    """descriptor entry that redeclares the built-in `name` exactly as the library defines it (read off the dump)"""
    t = dump[name]
    return {"name": name, "descr": None, "super": t["super"] or "",
            "feats": [{"name": f["name"], "descr": f.get("descr"), "range": f["range"], "multi": f.get("multi"), "elem": f.get("elem")} for f in t["own"]]}


def norm_ts_dump(d):
    """descriptions up to surrounding whitespace; "" and None cannot be told apart in XML"""
    d = copy.deepcopy(d)
    for t in d.values():
        dd = t.get("descr")
        t["descr"] = (dd.strip() or None) if isinstance(dd, str) else None
        for f in t["own"]:
            fd = f.get("descr")
            f["descr"] = (fd.strip() or None) if isinstance(fd, str) else None
        t["own"] = sorted(t["own"], key=lambda f: f["name"])
        t.pop("eff", None)
    return d


def run(ctx, out, budget):
    out.rule = ("type systems built through the API (trees of any shape, descriptions incl. padded/empty/multi-line, every kind of "
                "range, element types, tri-state multipleReferencesAllowed, reserved names self/type, no-namespace types, ranges "
                "referring to later types): to_xml -> independent reader -> re-written by an independent writer under several "
                "permutations of the declarations (optionally with identically redeclared built-ins, padded descriptions) -> "
                "load_typesystem -> canonical dump must equal the original (descriptions trimmed); re-emission byte-identical; a "
                "differently redeclared built-in must be rejected. Non-trivial = distinct (type system, permutation) with >= 3 user types.")
    run_corpus(ctx, out, budget)
    rng = ctx.rng(0)
    n = bud(budget, 80, 6000)
    nperm = bud(budget, 4, 8)
    gens = [gen_ts(rng, rng.randint(1, 8)) for _ in range(n)]
    # finding stream (X12): a feature declared on a subtype and afterwards identically on an ancestor
    gens += [gen_ts(rng, rng.randint(2, 6), finding_stream=True) for _ in range(bud(budget, 12, 300))]
    stage_a = [list(sb.ops) + [{"op": "ts.to_xml", "ts": ts}, {"op": "ts.query", "ts": ts, "kind": "dump"}] for sb, ts, user in gens]
    ia = sessions.run_impl_sessions(stage_a)
    stage_b, metas = [], []
    for (sb, ts, user), ops, io in zip(gens, stage_a, ia):
        desc = io[-2].get("ok")
        if desc is None:
            stage_b.append(None); metas.append(None); continue
        ops2 = list(ops)
        meta = []
        nts = sb.n_ts
        for pi in range(nperm):
            d = list(desc)
            order = rng.sample(range(len(d)), len(d))
            d = [d[i] for i in order]
            if rng.random() < 0.4:   # redundantly redeclare built-ins identically (also a built-in together with its supertype)
                for bn in rng.choice(REDECL_SETS):
                    d.insert(rng.randint(0, len(d)), builtin_entry(io[-1]["ok"], bn))
            docdecl = None
            if rng.random() < 0.35:   # a redeclared DocumentAnnotation: as the library defines it, with more features, without `language`, bare
                fl = {"name": "language", "descr": None, "range": "uima.cas.String", "multi": None, "elem": None}
                extra = [{"name": "docId", "descr": rng.choice([None, "corpus id"]), "range": "uima.cas.String", "multi": None, "elem": None},
                         {"name": "sections", "descr": None, "range": "uima.cas.FSArray", "multi": rng.choice([None, False, True]),
                          "elem": rng.choice([None, "uima.tcas.Annotation"] + user[:1])}]
                feats = rng.choice([[fl], [fl] + extra, extra, extra[:1], [], [extra[0], fl]])
                docdecl = {"name": "uima.tcas.DocumentAnnotation", "descr": rng.choice([None, "Document annotation"]),
                           "super": "uima.tcas.Annotation", "feats": feats}
                d.insert(rng.randint(0, len(d)), docdecl)
            lay = {"pad": rng.random() < 0.4, "pretty": rng.random() < 0.5, "empty_descr": rng.choice(["self-closing", "open-close", "omit"])}
            ops2.append({"op": "ts.load_xml", "desc": d, "layout": lay})
            ops2.append({"op": "ts.query", "ts": nts, "kind": "dump"})
            ops2.append({"op": "ts.to_xml", "ts": nts})
            ops2.append({"op": "ts.query", "ts": nts, "kind": "identity"})
            meta.append(len(ops2) - 4)
            nts += 1
        # a built-in redeclared differently must be rejected: other supertype, a feature missing, an extra feature, a retyped feature
        bads = [list(desc) + [{"name": "uima.tcas.Annotation", "descr": None, "super": "uima.cas.TOP", "feats": []}]]
        bn = rng.choice(["uima.tcas.Annotation", "uima.cas.NonEmptyFSList", "uima.cas.Sofa", "uima.cas.AnnotationBase", "uima.cas.NonEmptyStringList"])
        e = builtin_entry(io[-1]["ok"], bn)
        fewer = dict(e, feats=e["feats"][:-1])
        more = dict(e, feats=e["feats"] + [{"name": "extra", "descr": None, "range": "uima.cas.Integer", "multi": None, "elem": None}])
        retyped = dict(e, feats=[dict(e["feats"][0], range="uima.cas.Boolean" if e["feats"][0]["range"] != "uima.cas.Boolean" else "uima.cas.Integer")] + e["feats"][1:])
        for b in (fewer, more, retyped):
            dd = list(desc)
            dd.insert(rng.randint(0, len(dd)), b)
            bads.append(dd)
        for b in bads:
            ops2.append({"op": "ts.load_xml", "desc": b})
        stage_b.append(ops2); metas.append(meta)
    idx = [i for i, o in enumerate(stage_b) if o is not None]
    ib = dict(zip(idx, sessions.run_impl_sessions([stage_b[i] for i in idx])))
    mb = sessions.run_model_sessions(ctx.driver, [stage_b[i] for i in idx])
    mb = dict(zip(idx, mb)) if mb is not None else None
    for k, ((sb, ts, user), ops, io) in enumerate(zip(gens, stage_a, ia)):
        if stage_b[k] is None:
            out.oracle_failures.append({"scenario": {"k": "session", "ops": ops}, "what": "to_xml raised", "actual": io[-2]})
            continue
        ops2, io2, meta = stage_b[k], ib[k], metas[k]
        sc = {"k": "session", "ops": ops2}
        orig = norm_ts_dump(io[-1]["ok"])
        first_xml = io[-2]["ok"]
        for li in meta:
            out.evaluations += 1
            lr, dr, xr, ir = io2[li], io2[li + 1], io2[li + 2], io2[li + 3]
            if "ok" not in lr or "ok" not in dr:
                out.oracle_failures.append({"scenario": sc, "op_index": li, "what": "a permuted descriptor could not be loaded", "actual": lr,
                                            "layout": ops2[li].get("layout")})
                break
            loaded_desc = ops2[li]["desc"]
            docdecl = next((t for t in loaded_desc if t["name"] == "uima.tcas.DocumentAnnotation"), None)
            exp_dump = orig
            if docdecl is not None:
                # a redeclared DocumentAnnotation carries exactly the declared features and description
                exp_dump = copy.deepcopy(orig)
                da = exp_dump["uima.tcas.DocumentAnnotation"]
                da["descr"] = docdecl["descr"]
                da["own"] = sorted([{"name": f["name"], "domain": "uima.tcas.DocumentAnnotation", "range": f["range"], "elem": f["elem"],
                                     "descr": f["descr"], "multi": f["multi"], "reserved": False} for f in docdecl["feats"]],
                                   key=lambda f: f["name"])
            if common.canon(norm_ts_dump(dr["ok"])) != common.canon(exp_dump):
                out.oracle_failures.append({"scenario": sc, "op_index": li, "what": "type system loaded from its descriptor differs from the original",
                                            "expected": exp_dump, "actual": norm_ts_dump(dr["ok"])})
                break
            rn = sorted({t["name"] for t in loaded_desc if t["name"] in BUILTIN_NAMES or t["name"] == "uima.tcas.DocumentAnnotation"})
            redecl = [next(t for t in loaded_desc if t["name"] == n_) for n_ in rn]
            trimmed = [{**t, "descr": (t["descr"].strip() or None) if t["descr"] else None,
                        "feats": [{**f, "descr": (f["descr"].strip() or None) if f["descr"] else None} for f in t["feats"]]}
                       for t in redecl + first_xml]
            if "ok" not in xr or common.canon(xr["ok"]) != common.canon(trimmed):
                out.oracle_failures.append({"scenario": sc, "op_index": li + 2, "what": "re-emitting the loaded type system does not reproduce the descriptor",
                                            "expected": trimmed, "actual": xr})
                break
            if ir.get("ok") is not True:
                out.oracle_failures.append({"scenario": sc, "op_index": li + 3, "what": "loaded type system references Type objects that are not registered"})
                break
            if len(user) >= 3:
                out.nontriv((k, li))
        for bi, what in zip(range(len(ops2) - 4, len(ops2)), ("a different supertype", "a feature missing", "an extra feature", "a retyped feature")):
            if io2[bi].get("err") != "ValueError":
                out.oracle_failures.append({"scenario": sc, "op_index": bi, "what": "a built-in type redeclared with %s was not rejected" % what,
                                            "actual": io2[bi]})
                break
        if mb is not None and mb[k] is not None:
            def canon_op(i, x, ops2=ops2):
                if i < len(ops2) and ops2[i]["op"] == "ts.query" and ops2[i].get("kind") == "dump" and isinstance(x, dict) and "ok" in x:
                    return {"ok": norm_ts_dump(x["ok"])}
                return x
            d = sessions.first_diff(io2, mb[k], canon_op)
            if d is not None:
                out.disagreements.append({"scenario": sc, "op_index": d, "op": {kk: vv for kk, vv in ops2[d].items() if kk != "desc"} if d < len(ops2) else None,
                                          "impl": io2[d] if d < len(io2) else None, "model": mb[k][d] if d < len(mb[k]) else None})
        if k < 2:
            out.sample({"user_types": user, "descriptor_head": first_xml[:2]})
    # byte-for-byte re-emission on the implementation
    from cassis import load_typesystem
    import warnings
    warnings.simplefilter("ignore")
    for k, ((sb, ts, user), ops, io) in enumerate(zip(gens[:40], stage_a, ia)):
        from harness import implrun
        res, s = implrun.run_session(ops[:-1])
        x1 = s.last_text
        t2 = load_typesystem(x1)
        x2 = t2.to_xml()
        t3 = load_typesystem(x2)
        x3 = t3.to_xml()
        out.evaluations += 1
        if x2 != x3:
            out.oracle_failures.append({"scenario": {"k": "session", "ops": ops}, "what": "re-emission of a loaded type system is not byte-identical"})


CORPUS_PRESTRIP = False   # the model strips every descriptor text itself since the repair of TsXml.normalize


def run_corpus(ctx, out, budget):
    """the repository's own descriptors (test fixtures and the bundled DKPro Core type system, several hundred types): read by
    the independent reader, loaded by implementation and model, dumped, re-emitted, loaded again (also in reversed order)"""
    import glob
    import os
    files = sorted(glob.glob(os.path.join(common.REPO, "tests", "test_files", "typesystems", "*.xml")))
    files.append(os.path.join(common.REPO, "cassis", "resources", "dkpro-core-types.xml"))
    sess, names = [], []
    for f in files:
        try:
            desc = refio.read_ts_xml(open(f, "rb").read())
        except Exception:  # noqa: BLE001  (not a descriptor the independent reader understands)
            continue
        if any(t["name"] is None or t["super"] is None for t in desc):
            continue       # e.g. a declaration without supertypeName: not expressible in the abstract descriptor
        if CORPUS_PRESTRIP:
            # (kept for bisecting: before the repair of `TsXml.normalize` the model stripped descriptions only and answered KeyError
            #  on dkpro-core-types.xml, which carries an element type followed by a line break)
            for t in desc:
                t["name"] = t["name"].strip(); t["super"] = t["super"].strip()
                for fd_ in t["feats"]:
                    fd_["name"] = fd_["name"].strip(); fd_["range"] = fd_["range"].strip()
                    fd_["elem"] = None if fd_["elem"] is None else fd_["elem"].strip()
        ops = [{"op": "ts.load_xml", "desc": desc}, {"op": "ts.query", "ts": 0, "kind": "dump"}, {"op": "ts.to_xml", "ts": 0},
               {"op": "ts.reload_xml", "ts": 0}, {"op": "ts.query", "ts": 1, "kind": "dump"}, {"op": "ts.to_xml", "ts": 1},
               {"op": "ts.load_xml", "desc": list(reversed(desc))}, {"op": "ts.query", "ts": 2, "kind": "dump"},
               {"op": "ts.query", "ts": 2, "kind": "identity"}]
        sess.append(ops); names.append(os.path.basename(f))
    impl = sessions.run_impl_sessions(sess)
    model = sessions.run_model_sessions(ctx.driver, sess)
    for k, (ops, io) in enumerate(zip(sess, impl)):
        out.evaluations += 1
        out.count("corpus:" + ("loads" if "ok" in io[0] else str(io[0].get("err"))))
        sc = {"k": "session", "ops": ops, "file": names[k]}
        if "ok" in io[0]:
            if any("ok" not in r for r in io):
                out.oracle_failures.append({"scenario": sc, "what": "corpus descriptor %s: a step after loading raised" % names[k],
                                            "actual": [r for r in io if "ok" not in r][:1]})
            else:
                d0, d1, d2 = (norm_ts_dump(io[i]["ok"]) for i in (1, 4, 7))
                if common.canon(d0) != common.canon(d1):
                    out.oracle_failures.append({"scenario": sc, "what": "corpus descriptor %s: type system loaded from its re-emitted descriptor differs" % names[k]})
                elif common.canon(d0) != common.canon(d2):
                    out.oracle_failures.append({"scenario": sc, "what": "corpus descriptor %s: loading the declarations in reversed order gives another type system" % names[k]})
                elif common.canon(io[2]) != common.canon(io[5]):
                    out.oracle_failures.append({"scenario": sc, "what": "corpus descriptor %s: re-emission is not a fixpoint" % names[k]})
                elif io[8].get("ok") is not True:
                    out.oracle_failures.append({"scenario": sc, "what": "corpus descriptor %s: loaded type system references unregistered Type objects" % names[k]})
                if len(d0) > 40:
                    out.nontriv(("corpus", names[k]))
        if model is not None and model[k] is not None:
            def canon_op(i, x, ops=ops):
                if i < len(ops) and ops[i]["op"] == "ts.query" and ops[i].get("kind") == "dump" and isinstance(x, dict) and "ok" in x:
                    return {"ok": norm_ts_dump(x["ok"])}
                return x
            d = sessions.first_diff(io, model[k], canon_op)
            if d is not None:
                out.disagreements.append({"scenario": {"k": "session", "ops": ops if len(ops[0]["desc"]) < 40 else "corpus file " + names[k], "file": names[k]},
                                          "op_index": d, "impl": str(io[d])[:400] if d < len(io) else None,
                                          "model": str(model[k][d])[:400] if d < len(model[k]) else None})


def finding_of(fl):
    """X12: the original declares a feature on a type and identically on an ancestor, and the failure is exactly the loss of
    those redundant own declarations (anything else on such a type system is still reported)"""
    ops = (fl.get("scenario") or {}).get("ops") or []
    sh = set(shadowed(ops))
    if not sh:
        return None
    what = fl.get("what", "")
    try:
        if what == "type system loaded from its descriptor differs from the original":
            exp = copy.deepcopy(fl["expected"])
            for t, rec in exp.items():
                rec["own"] = [f for f in rec["own"] if (t, f["name"]) not in sh]
            return "X12-shadowed-own-feature" if common.canon(exp) == common.canon(fl["actual"]) else None
        if what == "re-emitting the loaded type system does not reproduce the descriptor":
            exp = copy.deepcopy(fl["expected"])
            for t in exp:
                t["feats"] = [f for f in t["feats"] if (t["name"], f["name"] + "_" if f["name"] in ("self", "type") else f["name"]) not in sh]
            return "X12-shadowed-own-feature" if common.canon(exp) == common.canon(fl["actual"].get("ok")) else None
    except Exception:
        return None
    return None


def run_witness(ctx, finding):
    if finding["id"] != "X12-shadowed-own-feature":
        return False
    import warnings
    from cassis import TypeSystem, load_typesystem
    with warnings.catch_warnings():
        warnings.simplefilter("ignore")
        ts = TypeSystem()
        for o in finding["witness"]["ops"]:
            if o[0] == "create_type":
                ts.create_type(o[1], o[2])
            else:
                ts.create_feature(ts.get_type(o[1]), o[2], o[3])
        x1 = ts.to_xml()
        t2 = load_typesystem(x1)
        own1 = [f.name for f in ts.get_type("x.B").features]
        own2 = [f.name for f in t2.get_type("x.B").features]
        return own1 == ["f"] and own2 == [] and t2.to_xml() != x1


def replay(ctx, payload):
    fl = payload.get("failure") or {}
    ops = fl["scenario"]["ops"]
    io = sessions.run_impl_sessions([ops])[0]
    dumps = [io[i] for i, o in enumerate(ops) if o["op"] == "ts.query" and o.get("kind") == "dump"]
    if any("ok" not in d for d in dumps):
        return True
    cs = {common.canon(norm_ts_dump(d["ok"])) for d in dumps}
    return len(cs) > 1 or any(io[i].get("err") != "ValueError" for i in range(len(ops) - 4, len(ops)))
