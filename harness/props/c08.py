"""C08 — Views are isolated, share ids and types, and every handle sees the same state."""
from harness import sessions, tsgen
from harness.common import bud
from harness.sessions import SB

PROP = "C08"
MODULES = ["CassisModel.Properties.C08"]
THEOREMS = [
    "Cassis.Cas.handles_history",
    "Cassis.Cas.add_frame",
    "Cassis.Cas.add_heap",
    "Cassis.Cas.remove_frame",
    "Cassis.Cas.sofa_readback",
    "Cassis.Cas.setSofaString_reads",
    "Cassis.Cas.coveredText_spec",
    "Cassis.Cas.docAnn_existing",
    "Cassis.Cas.docAnn_creates_once",
]
ASSUMPTIONS = [
    "the model keeps ONE shared state for all handles of a CAS; that the implementation's handles really share `_views`, `_sofas` and the id generators is what this check observes (every observation is taken through every live handle of the view)",
    "with instances of several DocumentAnnotation subtypes indexed, which one get_document_annotation returns follows set iteration order: only 'one of them' is checked",
    "covered text is checked for non-negative int offsets within the text",
]

TEXTS = ["", "abcdef", "x😀y😀z", "0123456789" * 2, "éèà €"]


def gen_session(rng, n_ops):
    sb = SB()
    ts = sb.ts_new()
    sb.create_type(ts, "x.A", "uima.tcas.Annotation")
    sb.create_type(ts, "x.Doc", "uima.tcas.DocumentAnnotation")
    sb.create_type(ts, "x.P", "uima.cas.TOP")
    ts2 = sb.ts_new()
    sb.create_type(ts2, "foreign.F", "uima.tcas.Annotation")
    lenient = rng.random() < 0.5
    t0 = rng.choice(TEXTS + [None])
    h0 = sb.cas_new(ts, lenient=lenient, text=t0)
    handles = {h0: "_InitialView"}
    views = {"_InitialView": {"text": t0, "mime": "text/plain" if t0 is not None else None, "uri": None,
                              "array": None, "bag": [], "docann": None}}
    fs = {}          # label -> dict(type, b, e, view=last view added to)
    checks = []

    def observe_all(v):
        """every observation through every live handle of view v must coincide with the shadow"""
        st = views[v]
        for h, vn in list(handles.items()):
            if vn != v:
                continue
            for field in ("string", "mime", "uri"):
                i = sb.op(op="cas.sofa_get", h=h, field=field)
                exp = st["text"] if field == "string" else st[field]
                checks.append((i, ("val", None if exp is None else ([ord(c) for c in exp] if field == "string" else exp))))
            i = sb.op(op="cas.sofa_get", h=h, field="array")
            checks.append((i, ("val", None if st["array"] is None else {"r": st["array"]})))
            i = sb.op(op="cas.select_all", h=h)
            checks.append((i, ("labels", sorted(st["bag"]))))
            i = sb.op(op="cas.is_lenient", h=h)
            checks.append((i, ("val", lenient)))

    for _ in range(n_ops):
        r = rng.random()
        h = rng.choice(list(handles))
        v = handles[h]
        st = views[v]
        if r < 0.12:
            name = rng.choice(["v2", "v3", "v4"])
            if name in views:
                i = sb.op(op="cas.create_view", h=h, name=name)
                checks.append((i, "ValueError"))
                nh = sb.get_view(h, name)
            else:
                nh = sb.create_view(h, name)
                views[name] = {"text": None, "mime": None, "uri": None, "array": None, "bag": [], "docann": None}
            handles[nh] = name
            if len(handles) > 8:
                pass
        elif r < 0.16:
            i = sb.op(op="cas.get_view", h=h, name="nope")
            checks.append((i, "KeyError"))
        elif r < 0.36:
            t = rng.choice(["x.A", "x.A", "uima.tcas.Annotation", "x.P"])
            # one id space: some structures bring their own (high, pairwise distinct) id and keep it, the others get theirs from
            # the CAS - through whichever handle they are added, the generated ids must come from ONE counter (strictly increasing
            # in the order of the adds)
            xid = (10000 + 7 * len(fs) if rng.random() < 0.25 else None)
            if t == "x.P":
                l = sb.fs_new(ts, t, {}, xid=xid); fs[l] = {"type": t, "b": None, "e": None, "view": None}
            else:
                b = rng.randint(0, 6); e = rng.randint(b, 8)
                l = sb.fs_new(ts, t, {"begin": b, "end": e}, xid=xid); fs[l] = {"type": t, "b": b, "e": e, "view": None}
            sb.op(op="cas.add", h=h, fs=l)
            st["bag"].append(l); fs[l]["view"] = v
            i = sb.op(op="fs.slots", fs=l)
            checks.append((i, ("kept", xid) if xid is not None else ("generated",)))
        elif r < 0.42:
            cand = [l for l in fs if l not in st["bag"] and fs[l]["type"] in ("x.A", "uima.tcas.Annotation", "x.Doc")
                    and fs[l]["view"] is not None]
            if cand:
                l = rng.choice(cand)   # a structure indexed elsewhere is added to this view as well
                sb.op(op="cas.add", h=h, fs=l)
                st["bag"].append(l); fs[l]["view"] = v
        elif r < 0.48:
            # a structure of a type unknown to the CAS's type system: accepted iff the CAS is lenient,
            # through every handle
            l = sb.fs_new(ts2, "foreign.F", {"begin": 0, "end": 0})
            i = sb.op(op="cas.add", h=h, fs=l)
            if lenient:
                checks.append((i, "ok")); st["bag"].append(l); fs[l] = {"type": "foreign.F", "b": 0, "e": 0, "view": v}
            else:
                checks.append((i, "RuntimeError")); fs[l] = {"type": "foreign.F", "b": 0, "e": 0, "view": None}
        elif r < 0.56:
            if st["bag"]:
                l = rng.choice(st["bag"])
                sb.op(op="cas.remove", h=h, fs=l); st["bag"].remove(l)
                if st["docann"] == l:
                    st["docann"] = None
        elif r < 0.72:
            field = rng.choice(["string", "string", "mime", "uri", "array"])
            if field == "string":
                val = rng.choice(TEXTS + [None])
                sb.op(op="cas.sofa_set", h=h, field="string", v=None if val is None else [ord(c) for c in val])
                st["text"] = val
            elif field == "array":
                l = sb.fs_new(ts, "uima.cas.ByteArray", {"elements": {"is": [1, 2, 255]}})
                fs[l] = {"type": "uima.cas.ByteArray", "b": None, "e": None, "view": None}
                sb.op(op="cas.sofa_set", h=h, field="array", v={"r": l}); st["array"] = l
            else:
                val = rng.choice([None, "text/plain", "text/html", "file:///x"])
                sb.op(op="cas.sofa_set", h=h, field=field, v=val); st[field] = val
        elif r < 0.82:
            docs = [l for l in st["bag"] if fs[l]["type"] in ("uima.tcas.DocumentAnnotation", "x.Doc")]
            i = sb.op(op="cas.doc_ann", h=h)
            if docs:
                checks.append((i, ("oneof", docs)))
            else:
                l = sb.n_fs; sb.n_fs += 1
                fs[l] = {"type": "uima.tcas.DocumentAnnotation", "b": None, "e": None, "view": v}
                st["bag"].append(l)
                checks.append((i, ("val", l)))
                j = sb.op(op="cas.doc_ann", h=h)
                checks.append((j, ("val", l)))
        elif r < 0.86:
            docs = [l for l in st["bag"] if fs[l]["type"] in ("uima.tcas.DocumentAnnotation", "x.Doc")]
            if not docs:
                l = sb.fs_new(ts, "x.Doc", {"begin": 0, "end": 0}); fs[l] = {"type": "x.Doc", "b": 0, "e": 0, "view": v}
                sb.op(op="cas.add", h=h, fs=l); st["bag"].append(l)
        elif r < 0.93:
            cand = [l for l in fs if fs[l]["view"] is not None and fs[l]["b"] is not None]
            if cand:
                l = rng.choice(cand)
                i = sb.op(op="fs.covered_text", fs=l)
                t = views[fs[l]["view"]]["text"]
                exp = None if t is None else [ord(c) for c in t[fs[l]["b"]: fs[l]["e"]]]
                checks.append((i, ("val", exp)))
        else:
            observe_all(rng.choice(list(views)))
    for v in views:
        observe_all(v)
    i = sb.op(op="cas.views", h=h0)
    checks.append((i, ("val", list(views))))
    return sb.ops, checks, lenient, len(views), len(handles)


def evaluate(ctx, out, sess):
    ops_list = [s[0] for s in sess]
    impl = sessions.run_impl_sessions(ops_list)
    model = sessions.run_model_sessions(ctx.driver, ops_list)
    for si, (ops, checks, lenient, nviews, nh) in enumerate(sess):
        io = impl[si]
        sc = {"k": "session", "ops": ops}
        if model is not None:
            def canon_op(i, x, ops=ops):
                x = sessions.sort_entries(x)
                if i < len(ops) and ops[i]["op"] == "cas.doc_ann":
                    return {"docann": "ok" in x} if isinstance(x, dict) else x
                return x
            d = sessions.first_diff(io, model[si], canon_op)
            if d is not None:
                out.disagreements.append({"scenario": sc, "op_index": d, "impl": io[d] if d < len(io) else None,
                                          "model": model[si][d] if model[si] and d < len(model[si]) else None})
        last_gen = None
        for (i, exp) in checks:
            out.evaluations += 1
            got = io[i]
            if exp[0] == "kept":
                ok = "ok" in got and got["ok"].get("%xid") == exp[1]
            elif exp[0] == "generated":
                g_ = got.get("ok", {}).get("%xid") if isinstance(got.get("ok"), dict) else None
                ok = isinstance(g_, int) and (last_gen is None or g_ > last_gen) and g_ < 10000
                last_gen = g_ if isinstance(g_, int) else last_gen
            elif exp == "ok":
                ok = "ok" in got
            elif isinstance(exp, str):
                ok = got.get("err") == exp
                out.count("err:" + exp)
            elif exp[0] == "val":
                ok = "ok" in got and got["ok"] == exp[1]
            elif exp[0] == "labels":
                ok = "ok" in got and sorted(e[2] for e in got["ok"]) == exp[1]
            else:  # oneof
                ok = "ok" in got and got["ok"] in exp[1]
            out.count("op:" + ops[i]["op"])
            if not ok:
                out.oracle_failures.append({"scenario": sc, "op_index": i, "op": ops[i], "what": "observation differs from the shared-state reading",
                                            "expected": exp, "actual": got})
        if nviews >= 2 and nh >= 3:
            out.nontriv((si, lenient))
        if si < 2:
            out.sample({"lenient": lenient, "views": nviews, "handles": nh, "n_ops": len(ops), "ops_head": ops[6:12]})


def run(ctx, out, budget):
    out.rule = ("interleavings of create_view / get_view (also failing ones) / add (own, already-indexed-elsewhere and foreign-typed "
                "structures) / remove / sofa setters (text incl. None and astral, mime, uri, byte array) / document annotation / "
                "covered text over up to 4 views and many live handles, lenient and strict roots; structures with kept (high) and generated ids added through any handle: generated ids strictly increase in the order of the adds; every sofa field, select_all and "
                "leniency is read through every live handle of the view. Non-trivial = distinct sessions with >= 2 views and >= 3 handles.")
    rng = ctx.rng(0)
    n = bud(budget, 250, 24000)
    evaluate(ctx, out, [gen_session(rng, rng.randint(20, 60)) for _ in range(n)])


def replay(ctx, payload):
    fl = payload.get("failure") or {}
    io = sessions.run_impl_sessions([fl["scenario"]["ops"]])[0]
    got = io[fl["op_index"]]
    exp = fl["expected"]
    if exp == "ok":
        return "ok" not in got
    if isinstance(exp, str):
        return got.get("err") != exp
    if exp[0] == "val":
        return not ("ok" in got and got["ok"] == exp[1])
    if exp[0] == "labels":
        return not ("ok" in got and sorted(e[2] for e in got["ok"]) == exp[1])
    return not ("ok" in got and got["ok"] in exp[1])
