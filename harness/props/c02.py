"""C02 — JSON save/load is lossless and carries a sufficient type system."""
from harness import casgen, common, refio, sessions
from harness.common import bud

PROP = "C02"
MODULES = ["CassisModel.Properties.C02", "CassisModel.Properties.C02Closure", "CassisModel.Properties.C02RoundTrip", "CassisModel.Properties.C02RoundTripColl", "CassisModel.Properties.C02AppliesColl", "CassisModel.Properties.C02EmbeddedTs", "CassisModel.Properties.C02RoundTripEmbedded"]
THEOREMS = [
    "Cassis.Json.json_roundtrip_full_flat",
    "Cassis.Json.json_roundtrip_full_coll",
    "Cassis.Json.json_roundtrip_minimal_flat",
    "Cassis.Json.json_roundtrip_minimal_coll",
    "Cassis.Json.json_minimal_ts_agree",
    "Cassis.Json.loadJson_congr_sameTs",
    "Cassis.Json.loadJson_congr",
    "Cassis.Json.loadJson_merge",
    "Cassis.Json.saveJson_mode_fss",
    "Cassis.Json.json_full_ts_same",
    "Cassis.Json.json_full_ts_same_needs_writable",
    "Cassis.Json.parseFloatValue_special",
    "Cassis.Json.floatElem_roundtrip",
    "Cassis.Json.parsePrimArray_absent",
    "Cassis.Json.intArray_roundtrip",
    "Cassis.Json.range_roundtrip_primArray",
    "Cassis.Json.range_roundtrip_fsArray",
    "Cassis.Json.range_roundtrip_other",
    "Cassis.Json.saveJson_shape",
    "Cassis.Json.toposort_sound",
    "Cassis.TS.merge_consistent",
    "Cassis.TS.closure_sufficient",
    "Cassis.TS.closure_members",
    "Cassis.TS.closure_of_closed",
    "Cassis.Json.json_roundtrip_flat",
    "Cassis.Json.json_roundtrip_flat_fixpoint",
    "Cassis.Json.json_roundtrip_coll",
    "Cassis.Json.jcollFs_of_collFs",
    "Cassis.Json.jcollAppliesB_sound",
]
ASSUMPTIONS = [
    "the theorems cover the per-kind encode/decode pairs (float specials, array elements, the X[] range encoding of array features), the shape of the written document (sofas, then structures once each in ascending id order) and the dependency order of embedded types; the end-to-end statement load(save c) ~ c is checked on the implementation and between implementation and model (partial)",
    "json text layer (escaping, number formatting), base64 and float <-> literal conversion are trusted and exercised through an independent stdlib reader/writer",
    "generators stay out of the recorded findings: sofa byte arrays created through the API (J8), mode NONE with merge_typesystem=True (J4)",
]

CONFIGS = [
    # (mode, supply original type system, merge_typesystem)
    ("full", False, True),
    ("minimal", False, True),
    ("full", True, True),
    ("minimal", True, True),
    ("none", True, False),
    ("full", True, False),
]


def make_case(rng, size):
    g = casgen.CasGen(rng, n_types=rng.randint(1, 6), n_fs=size, xmi_safe=False).build()
    if rng.random() < 0.4:
        name = rng.choice(list(g.views))
        g.sb.op(op="cas.sofa_set", h=g.views[name], field="uri", v="file:///some/where.txt")
    if rng.random() < 0.3:
        # a type system that grows between two serialisations (every mode written once before the extension)
        casgen.add_late_extension(g, rng, lambda h0: [{"op": "json.save", "h": h0, "mode": m} for m in ("full", "minimal", "none")])
    return g


def ts_sufficient(orig, loaded, used_types):
    """every type the document uses is declared in the loaded type system with the original supertype and the
    original effective features (range and element type)"""
    for t in used_types:
        if t not in loaded:
            return "type %s missing" % t
        if loaded[t]["super"] != orig[t]["super"]:
            return "supertype of %s differs" % t
        o = {e[0]: e for e in orig[t]["eff"]}
        l = {e[0]: e for e in loaded[t]["eff"]}
        for n, e in o.items():
            if n not in l:
                return "feature %s.%s missing" % (t, n)
            if l[n][1] != e[1]:
                return "range of %s.%s differs" % (t, n)
            oe, le = e[2], l[n][2]
            if (oe or "uima.cas.TOP") != (le or "uima.cas.TOP") and not (oe is None and e[1] not in ("uima.cas.FSArray", "uima.cas.FSList")):
                return "element type of %s.%s differs" % (t, n)
    return None


def run_cases(ctx, out, cases, tag):
    stage_a = []
    for g, cfg in cases:
        ops = list(g.sb.ops)
        h0 = g.views["_InitialView"]
        ops += [{"op": "rt.applies", "h": h0},
                {"op": "json.save", "h": h0, "mode": cfg[0]}, {"op": "cas.dump", "h": h0, "fine": True},
                {"op": "ts.query", "ts": g.ts, "kind": "dump"}]
        stage_a.append(ops)
    ia = sessions.run_impl_sessions(stage_a)
    stage_b = []
    for (g, cfg), ops, io in zip(cases, stage_a, ia):
        doc = io[-3].get("ok")
        if doc is None:
            stage_b.append(None)
            continue
        nh = g.sb.n_h
        nts = g.sb.n_ts
        ld = {"op": "json.load", "doc": doc, "merge": cfg[2]}
        if cfg[1]:
            ld["ts"] = g.ts
        ops2 = ops + [ld, {"op": "cas.dump", "h": nh, "fine": True},
                      {"op": "json.save", "h": nh, "mode": cfg[0]},
                      {"op": "ts.query", "ts": nts, "kind": "dump"},
                      {"op": "json.save", "h": nh, "mode": cfg[0], "pretty": True, "ascii": True}]
        stage_b.append(ops2)
    idx = [i for i, o in enumerate(stage_b) if o is not None]
    ib = dict(zip(idx, sessions.run_impl_sessions([stage_b[i] for i in idx])))
    mb = sessions.run_model_sessions(ctx.driver, [stage_b[i] for i in idx])
    mb = dict(zip(idx, mb)) if mb is not None else None
    for k, ((g, cfg), ops, io) in enumerate(zip(cases, stage_a, ia)):
        out.evaluations += 1
        out.count("config:%s/ts=%s/merge=%s" % cfg)
        sc = {"k": "session", "ops": ops, "config": list(cfg)}
        save0, dump0, ts0 = io[-3], io[-2], io[-1]
        if "ok" not in save0 or "ok" not in dump0:
            out.oracle_failures.append({"scenario": sc, "what": "to_json / dump raised on a well-formed CAS", "actual": [save0, dump0]})
            continue
        ops2 = stage_b[k]
        io2 = ib[k]
        sc2 = {"k": "session", "ops": ops2, "config": list(cfg)}
        n = len(ops)
        load_r, dump1, save1, ts1, save_p = io2[n], io2[n + 1], io2[n + 2], io2[n + 3], io2[n + 4]
        if "ok" not in load_r:
            out.oracle_failures.append({"scenario": sc2, "what": "loading the document written by to_json raised", "actual": load_r})
        elif "ok" not in dump1 or common.canon(dump1["ok"]) != common.canon(dump0["ok"]):
            out.oracle_failures.append({"scenario": sc2, "what": "CAS loaded from its own JSON differs from the original",
                                        "expected": dump0, "actual": dump1})
        elif cfg[0] != "full" or not cfg[1]:
            # (with the full embedded type system merged into the supplied one the re-serialised %TYPES may list
            #  both; the structures and views must still be identical)
            a, b = save1.get("ok"), save0.get("ok")
            if a is None or common.canon(a) != common.canon(b):
                out.oracle_failures.append({"scenario": sc2, "what": "serialising the loaded CAS again does not yield the same JSON value",
                                            "expected": save0, "actual": save1})
        if "ok" in load_r and "ok" in save1 and common.canon(save_p) != common.canon(save1):
            out.oracle_failures.append({"scenario": sc2, "what": "pretty_print / ensure_ascii change the JSON value",
                                        "expected": save1, "actual": save_p})
        if "ok" in load_r and "ok" in ts1 and "ok" in ts0:
            used = sorted({e["type"] for e in dump0["ok"]["fs"].values() if e})
            why = ts_sufficient(ts0["ok"], ts1["ok"], [t for t in used if t in ts0["ok"]])
            if why:
                out.oracle_failures.append({"scenario": sc2, "what": "type system of the loaded CAS is not sufficient: " + why})
        if mb is not None and mb[k] is not None:
            def canon_op(i, x, ops2=ops2):
                if i < len(ops2) and ops2[i]["op"] == "json.save" and isinstance(x, dict) and "ok" in x:
                    return {"ok": refio.canon_jdoc(x["ok"])}
                if i < len(ops2) and ops2[i]["op"] == "rt.applies":
                    return "model-only"
                return x
            ia_ = len(g.sb.ops)
            ap = mb[k][ia_].get("ok") if len(mb[k]) > ia_ and isinstance(mb[k][ia_], dict) else None
            ap = ap if isinstance(ap, dict) else {}
            out.count("json-collection-theorem-applies:%s" % ("yes" if ap.get("jcoll") is True else "no"))
            if ap.get("jcoll") is True and cfg == ("none", True, False) and ("ok" not in load_r or "ok" not in mb[k][n]):
                out.oracle_failures.append({"scenario": sc2, "what": "the JSON round-trip theorem applies to this CAS but loading raised",
                                            "actual": [load_r, mb[k][n]]})
            d = sessions.first_diff(io2, mb[k], canon_op)
            if d is not None:
                out.disagreements.append({"scenario": sc2, "op_index": d, "op": ops2[d] if d < len(ops2) else None,
                                          "impl": io2[d] if d < len(io2) else None,
                                          "model": mb[k][d] if d < len(mb[k]) else None})
        nfs = len(dump0["ok"]["fs"])
        if nfs >= 3:
            out.nontriv((tag, k))
        if k < 2:
            out.sample({"config": list(cfg), "n_fs": nfs, "doc_fss_head": save0["ok"]["fss"][:3]})


def corner_sessions():
    """documents and type systems at the edge of the format, where the hand-written model was found NOT to follow the code and was
    repaired (correspondence only: the property promises nothing about them): several sofa elements with one sofaID; feature
    names that collide with the reserved keys of a %TYPES entry"""
    def sofa(i, num, name, s="abc", **kw):
        f = [["sofaNum", num], ["sofaID", name]]
        if s is not None:
            f.append(["sofaString", s])
        for k, v in kw.items():
            f.append([k, v])
        return {"id": i, "ty": "uima.cas.Sofa", "elements": None, "feats": f}

    def tok(i, sofa_id):
        return {"id": i, "ty": "x.Tok", "elements": None, "feats": [["begin", 0], ["end", 1], ["@sofa", sofa_id]]}

    def sess_a(fss, views):
        return [{"op": "ts.new", "doc": True},
                {"op": "ts.create_type", "ts": 0, "name": "x.Tok", "super": "uima.tcas.Annotation"},
                {"op": "fs.new", "ts": 0, "type": "x.Tok", "feats": {"begin": 0, "end": 1}},
                {"op": "json.load", "ts": 0, "merge": False, "doc": {"types": None, "fss": fss, "views": views}},
                {"op": "cas.add", "h": 0, "fs": 0, "keep_id": True},
                {"op": "json.save", "h": 0, "mode": "none"}]

    out = []
    iv = sofa(1, 1, "_InitialView")
    for fss, views in [
        ([iv, sofa(2, 2, "v"), sofa(3, 7, "v")], []),
        ([iv, sofa(2, 2, "v", "first", mimeType="text/plain"), sofa(9, 7, "v", None, sofaURI="http://x")], []),
        ([sofa(1, 1, "_InitialView", "one"), sofa(5, 4, "_InitialView", "two")], []),
        ([iv, sofa(2, 2, "v"), sofa(3, 7, "v"), tok(4, 3)], [{"name": "v", "sofa": 2, "members": [4]}]),
        ([iv, sofa(2, 2, "v"), sofa(3, 7, "v"), tok(4, 2)], [{"name": "v", "sofa": 2, "members": [4]}]),
        ([iv, sofa(2, 2, "v"), sofa(10, 7, "v")], []),
        ([sofa(4, 3, "v"), sofa(6, 5, "v", "zzz"), sofa(2, 1, "_InitialView"), tok(7, 4)], [{"name": "v", "sofa": 4, "members": [7]}]),
    ]:
        out.append(sess_a(fss, views))
    for mode in ("full", "minimal"):
        for fname in ("%foo", "%NAME", "%SUPER_TYPE", "%RANGE", "%DESCRIPTION", "foo"):
            for first in (False, True):
                ops = [{"op": "ts.new", "doc": True},
                       {"op": "ts.create_type", "ts": 0, "name": "x.T", "super": "uima.cas.TOP", "descr": "td"}]
                f1 = {"op": "ts.create_feature", "ts": 0, "domain": "x.T", "name": "plain", "range": "uima.cas.String"}
                f2 = {"op": "ts.create_feature", "ts": 0, "domain": "x.T", "name": fname, "range": "uima.cas.Integer", "descr": "fd"}
                ops += [f2, f1] if first else [f1, f2]
                ops += [{"op": "ts.create_type", "ts": 0, "name": "x.U", "super": "uima.cas.TOP"},
                        {"op": "ts.create_feature", "ts": 0, "domain": "x.U", "name": "t", "range": "x.T"},
                        {"op": "cas.new", "ts": 0, "lenient": False},
                        {"op": "fs.new", "ts": 0, "type": "x.U", "feats": {}},
                        {"op": "cas.add", "h": 0, "fs": 0, "keep_id": True},
                        {"op": "json.save", "h": 0, "mode": mode}]
                out.append(ops)
    for fname in ("%foo", "%NAME", "%SUPER_TYPE", "foo"):
        # (a hand-written %DESCRIPTION member holding a feature object gives the type a dict-valued description in the code, which
        #  the model's type records cannot hold: the one documented place where the model stops with NotImplemented)
        doc = {"types": [{"name": "x.T", "super": "uima.cas.TOP", "descr": None, "feats": [
                   {"name": "plain", "range": "uima.cas.String", "descr": None, "multi": None, "elem": None},
                   {"name": fname, "range": "uima.cas.Integer", "descr": None, "multi": None, "elem": None}]}],
               "fss": [{"id": 1, "ty": "uima.cas.Sofa", "elements": None, "feats": [["sofaNum", 1], ["sofaID", "_InitialView"]]}],
               "views": [{"name": "_InitialView", "sofa": 1, "members": []}]}
        out.append([{"op": "json.load", "doc": doc, "merge": True}, {"op": "ts.query", "ts": 0, "kind": "features", "name": "x.T"}])
    return out


def run_corner(ctx, out):
    sess = corner_sessions()
    impl = sessions.run_impl_sessions(sess)
    model = sessions.run_model_sessions(ctx.driver, sess)
    if model is None:
        return
    for k, (ops, io) in enumerate(zip(sess, impl)):
        out.evaluations += 1
        out.count("corner:" + ("ok" if all("ok" in r for r in io) else "raises"))
        if model[k] is None:
            continue
        def canon_op(i, x, ops=ops):
            if i < len(ops) and ops[i]["op"] == "json.save" and isinstance(x, dict) and "ok" in x:
                return {"ok": refio.canon_jdoc(x["ok"])}
            return x
        d = sessions.first_diff(io, model[k], canon_op)
        if d is not None:
            out.disagreements.append({"scenario": {"k": "session", "ops": ops}, "op_index": d, "op": ops[d] if d < len(ops) else None,
                                      "impl": io[d] if d < len(io) else None, "model": model[k][d] if d < len(model[k]) else None})


def run(ctx, out, budget):
    run_corner(ctx, out)
    out.rule = ("type-directed CASes as for C01 plus null elements in FSArrays and sofa URIs, each under one of the configurations "
                "{FULL, MINIMAL} x {no type system supplied, original supplied and merged}, NONE with the original supplied unmerged, "
                "FULL with the original supplied unmerged; pretty_print/ensure_ascii on re-serialisation. Checked: load(save(c)) = c "
                "on the fine id-keyed dump (shared collections stay shared), re-serialisation equal as JSON value, sufficiency of the "
                "loaded type system; writer, reader, dump and resulting type system compared with the Lean model. Non-trivial = distinct "
                "CASes with >= 3 structures.")
    rng = ctx.rng(0)
    n = bud(budget, 150, 15000)
    cases = [(make_case(rng, rng.randint(1, 10)), CONFIGS[k % len(CONFIGS)]) for k in range(n)]
    run_cases(ctx, out, cases, "gen")
    out.partial = ["outside the fragment of json_roundtrip_coll (sofa URIs, ...) and for the configurations that merge the embedded type system into a supplied one (finding J9): implementation oracle + model correspondence only"]


def replay(ctx, payload):
    fl = payload.get("failure") or {}
    ops = fl["scenario"]["ops"]
    io = sessions.run_impl_sessions([ops])[0]
    dumps = [i for i, o in enumerate(ops) if o["op"] == "cas.dump"]
    loads = [i for i, o in enumerate(ops) if o["op"] == "json.load"]
    if any("ok" not in io[i] for i in dumps + loads):
        return True
    if len(dumps) >= 2 and common.canon(io[dumps[0]]["ok"]) != common.canon(io[dumps[1]]["ok"]):
        return True
    return False


def run_witness(ctx, finding):
    if finding["id"] != "J9-merge-with-original-typesystem":
        return False
    import warnings
    from cassis import Cas, TypeSystem, load_cas_from_json

    def raises(build):
        ts = TypeSystem(); build(ts); cas = Cas(ts)
        try:
            load_cas_from_json(cas.to_json(), typesystem=ts)
            return False
        except ValueError:
            return True
        except Exception:  # noqa: BLE001
            return False
    with warnings.catch_warnings():
        warnings.simplefilter("ignore")
        return (raises(lambda ts: ts.create_feature(ts.create_type("x.T"), "arr", "uima.cas.StringArray", elementType="uima.cas.String"))
                and raises(lambda ts: ts.create_feature(ts.create_type("x.T"), "f", "uima.cas.Integer", description=""))
                and not raises(lambda ts: ts.create_feature(ts.create_type("x.T"), "arr", "uima.cas.StringArray")))
