"""C09 — xmi:ids and sofaNums stay unique; fresh ids never collide, loaded ids persist."""
import json
import warnings
import xml.etree.ElementTree as ET

from harness import sessions
from harness.common import bud
from harness.sessions import SB

PROP = "C09"
MODULES = ["CassisModel.Properties.C09", "CassisModel.Properties.C15", "CassisModel.Properties.C09Doc", "CassisModel.Properties.C09DocJson", "CassisModel.Properties.C09Write"]
THEOREMS = [
    "Cassis.Traverse.findAllFs_duplicate_not_ok",
    "Cassis.Traverse.findAllFs_duplicate_raises",
    "Cassis.Traverse.findAllFs_ok_iff",
    "Cassis.Xmi.saveXmi_duplicate_raises",
    "Cassis.Json.saveJson_duplicate_raises",
    "Cassis.Xmi.saveXmi_ids_distinct",
    "Cassis.Json.saveJson_ids_distinct",
    "Cassis.Xmi.kept_ids_written",
    "Cassis.Json.kept_ids_written_json",
    "Cassis.Cas.ids_history_write",
    "Cassis.Json.loadJson_reseeds",
    "Cassis.Json.sofaPass_bounded",
    "Cassis.Json.fsPass_bounded",
    "Cassis.Json.loadJson_keeps_ids",
    "Cassis.Cas.ids_history",
    "Cassis.Cas.ids_step",
    "Cassis.Cas.generated_id_fresh",
    "Cassis.Cas.kept_id_persists",
    "Cassis.Cas.createView_fresh",
    "Cassis.Traverse.findAllFs_nodup",
    "Cassis.Traverse.findAllFs_heap_frame",
    "Cassis.Xmi.pass1_bounded",
    "Cassis.Xmi.pass1_fss_ids",
    "Cassis.Xmi.loadXmi_reseeds",
]
ASSUMPTIONS = [
    "state level (proved): every state reachable from an empty CAS, or from any state with bounded unique ids, keeps xmi:ids (sofas included) and sofaNums pairwise distinct and below the generators",
    "document level: loadXmi_reseeds / loadJson_reseeds are theorems; additionally observed on the implementation with independent XML/JSON parsers: loaders reseed the generators above every id and sofaNum of the document, writers emit exactly the ids of the state",
    "documents in scope have pairwise distinct ids and an _InitialView sofa (a document without one is the recorded finding I5); a structure explicitly forced onto a sofa's id is the recorded finding I3",
]

XMI_NS = "{http://www.omg.org/XMI}"


# ---------------- state level: sessions on implementation and model ----------------

def gen_session(rng, n_ops):
    sb = SB()
    ts = sb.ts_new()
    sb.create_type(ts, "x.A", "uima.tcas.Annotation")
    sb.create_feature(ts, "x.A", "ref", "uima.tcas.Annotation")
    h0 = sb.cas_new(ts, text="x" * 200)
    handles = [h0]
    labels = []
    off = [0]

    def new_fs():
        off[0] += 1
        l = sb.fs_new(ts, "x.A", {"begin": off[0], "end": off[0]})
        labels.append(l)
        return l

    probes = []
    for _ in range(n_ops):
        r = rng.random()
        h = rng.choice(handles)
        if r < 0.15:
            name = "v%d" % len(handles)
            handles.append(sb.create_view(h, name))
        elif r < 0.5:
            l = new_fs() if not labels or rng.random() < 0.7 else rng.choice(labels)
            sb.op(op="cas.add", h=h, fs=l, keep_id=rng.random() < 0.7)
        elif r < 0.6:
            a, b = new_fs(), new_fs()
            sb.op(op="fs.set", fs=a, path="ref", v={"r": b})   # b is only referenced: its id is assigned on traversal
            sb.op(op="cas.add", h=h, fs=a)
        elif r < 0.7:
            sb.op(op="cas.doc_ann", h=h)
            labels.append(sb.n_fs); sb.n_fs += 1  # may or may not be new; labels are only probed if they exist
            sb.n_fs -= 1; labels.pop()
        elif r < 0.85:
            sb.op(op="cas.find_all_fs", h=h)
        else:
            probes.append(len(sb.ops))
            for l in labels:
                sb.op(op="fs.slots", fs=l)
            for hh in handles:
                sb.op(op="cas.sofa_get", h=hh, field="id")
                sb.op(op="cas.sofa_get", h=hh, field="num")
    start = len(sb.ops)
    sb.op(op="cas.find_all_fs", h=h0)
    for l in labels:
        sb.op(op="fs.slots", fs=l)
    for hh in handles:
        sb.op(op="cas.sofa_get", h=hh, field="id")
        sb.op(op="cas.sofa_get", h=hh, field="num")
    return sb.ops, start, labels, handles


def check_ids(ops, io, start, labels, handles):
    """uniqueness of all ids / sofaNums observed at the end of the session"""
    ids, nums, bad = [], [], None
    k = start + 1
    for l in labels:
        x = io[k].get("ok", {}).get("%xid"); k += 1
        if x is not None:
            ids.append(("fs", l, x))
    seen_views = {}
    for hh in handles:
        sid = io[k].get("ok"); snum = io[k + 1].get("ok"); k += 2
        seen_views[sid] = snum
    sofa_ids = list(seen_views)
    allids = [x for (_, _, x) in ids] + sofa_ids
    if len(set(allids)) != len(allids):
        bad = "two structures/sofas share an xmi:id: %r" % sorted(allids)
    if len(set(seen_views.values())) != len(seen_views):
        bad = "two sofas share a sofaNum: %r" % sorted(seen_views.values())
    return bad


# ---------------- document level: implementation + independent parsers ----------------

def write_xmi(doc):
    """independent writer: doc = {sofas:[(id,num,name,text)], fs:[(id,begin,end,sofa_id)], members:{sofa_id:[ids]}}"""
    parts = ['<?xml version="1.0" encoding="UTF-8"?><xmi:XMI xmlns:xmi="http://www.omg.org/XMI" '
             'xmlns:cas="http:///uima/cas.ecore" xmlns:tcas="http:///uima/tcas.ecore" xmi:version="2.0">',
             '<cas:NULL xmi:id="0"/>']
    els = []
    for (i, b, e, s) in doc["fs"]:
        els.append('<tcas:Annotation xmi:id="%d" sofa="%d" begin="%d" end="%d"/>' % (i, s, b, e))
    for (i, n, name, text) in doc["sofas"]:
        els.append('<cas:Sofa xmi:id="%d" sofaNum="%d" sofaID="%s" mimeType="text/plain" sofaString="%s"/>' % (i, n, name, text))
    order = doc.get("order")
    if order:
        els = [els[k] for k in order]
    parts += els
    for (i, n, name, text) in doc["sofas"]:
        parts.append('<cas:View sofa="%d" members="%s"/>' % (i, " ".join(str(x) for x in doc["members"].get(i, []))))
    parts.append("</xmi:XMI>")
    return "".join(parts)


def write_json(doc):
    fss = []
    for (i, n, name, text) in doc["sofas"]:
        fss.append({"%ID": i, "%TYPE": "uima.cas.Sofa", "sofaNum": n, "sofaID": name, "mimeType": "text/plain", "sofaString": text})
    for (i, b, e, s) in doc["fs"]:
        fss.append({"%ID": i, "%TYPE": "uima.tcas.Annotation", "@sofa": s, "begin": b, "end": e})
    order = doc.get("order")
    if order:
        fss = [fss[k] for k in order]
    views = {name: {"%SOFA": i, "%MEMBERS": sorted(doc["members"].get(i, []))} for (i, n, name, text) in doc["sofas"]}
    for name in doc.get("views_only", []):
        # a view that is only declared in the views section (no sofa feature structure)
        views[name] = {"%SOFA": None, "%MEMBERS": []}
    return json.dumps({"%TYPES": {}, "%FEATURE_STRUCTURES": fss, "%VIEWS": views})


def gen_doc(rng):
    nsofa = rng.randint(1, 3)
    nfs = rng.randint(0, 6)
    pool = rng.sample(range(1, 60), nsofa + nfs)
    if rng.random() < 0.4:  # a sofa holds the largest id
        pool.sort()
        pool = [pool[-1]] + pool[:-1]
    sofa_ids = pool[:nsofa]
    fs_ids = pool[nsofa:]
    nums = rng.sample(range(1, 9), nsofa)   # gaps and any order; _InitialView need not have sofaNum 1
    names = ["_InitialView", "v2", "v3"][:nsofa]
    if rng.random() < 0.3:
        names = list(reversed(names))
    sofas = [(sofa_ids[k], nums[k], names[k], "t" * 30) for k in range(nsofa)]
    fs, members = [], {}
    for k, i in enumerate(fs_ids):
        s = rng.choice(sofa_ids)
        fs.append((i, k, k + 1, s))
        if rng.random() < 0.8:
            members.setdefault(s, []).append(i)
    doc = {"sofas": sofas, "fs": fs, "members": members}
    n_el = nsofa + nfs
    if rng.random() < 0.6:
        doc["order"] = rng.sample(range(n_el), n_el)
    if rng.random() < 0.3:
        doc["views_only"] = ["extra1"] if rng.random() < 0.7 else ["extra1", "extra2"]
        # make the small ids busy, so that a generator that was not reseeded collides
        doc["fs"] = [(i, b, e, s) for (i, b, e, s) in doc["fs"]]
    return doc


def ids_of_xmi(x):
    root = ET.fromstring(x.encode("utf-8"))
    ids, nums, anns = [], [], {}
    for el in root:
        i = el.get(XMI_NS + "id")
        if i is not None and el.tag != "{http:///uima/cas.ecore}NULL":
            ids.append(int(i))
        if el.tag == "{http:///uima/cas.ecore}Sofa":
            nums.append(int(el.get("sofaNum")))
        if el.tag.endswith("}Annotation"):
            anns[int(i)] = (int(el.get("begin")), int(el.get("end")))
    return ids, nums, anns


def ids_of_json(j):
    d = json.loads(j)
    ids, nums, anns = [], [], {}
    fss = d["%FEATURE_STRUCTURES"]
    for f in fss:
        ids.append(f["%ID"])
        if f["%TYPE"] == "uima.cas.Sofa":
            nums.append(f["sofaNum"])
        if f["%TYPE"] == "uima.tcas.Annotation":
            anns[f["%ID"]] = (f["begin"], f["end"])
    return ids, nums, anns


def doc_history(rng, out, k):
    from cassis import Cas, TypeSystem, load_cas_from_json, load_cas_from_xmi

    ts = TypeSystem()
    A = ts.get_type("uima.tcas.Annotation")
    start = rng.choice(["empty", "xmi", "json"])
    doc = gen_doc(rng)
    steps = [rng.choice(["add_keep", "add_new", "add_all", "create_view", "to_xmi", "to_json", "reload_xmi", "reload_json", "force", "force_next"])
             for _ in range(rng.randint(2, 12))]
    if rng.random() < 0.85:
        steps = [s for s in steps if not s.startswith("force")]
    sc = {"k": "dochist", "start": start, "doc": doc, "steps": steps}
    loaded = {}
    with warnings.catch_warnings():
        warnings.simplefilter("ignore")
        try:
            if start == "empty":
                cas = Cas(ts, sofa_string="t" * 30)
            elif start == "xmi":
                cas = load_cas_from_xmi(write_xmi(doc), typesystem=ts)
                loaded = {i: (b, e) for (i, b, e, s) in doc["fs"] if i in doc["members"].get(s, [])}
            else:
                cas = load_cas_from_json(write_json(doc), typesystem=ts)
                loaded = {i: (b, e) for (i, b, e, s) in doc["fs"] if i in doc["members"].get(s, [])}
        except Exception as e:  # noqa: BLE001
            out.oracle_failures.append({"scenario": sc, "what": "loading a document with distinct ids raised " + repr(e)[:200]})
            return
        forced = False
        nviews = 0
        for si, st in enumerate(steps):
            try:
                views = [cas.get_view(s.sofaID) for s in cas.sofas]
                v = rng.choice(views)
                if st == "add_keep":
                    v.add(A(begin=si, end=si + 1))
                elif st == "add_new":
                    v.add(A(begin=si, end=si + 1), keep_id=False)
                elif st == "add_all":
                    v.add_all([A(begin=si, end=si + 2), A(begin=si, end=si + 3)])
                elif st == "create_view":
                    nviews += 1
                    cas.create_view("n%d" % nviews).sofa_string = "t" * 30
                elif st == "force_next":
                    # a structure pinned (keep_id) to the id the generator will hand out next, plus a structure
                    # that is only referenced and gets its id during serialisation: a forced duplicate
                    nxt = cas._xmi_id_generator._next_id
                    tsc = cas.typesystem
                    T = tsc.get_type("uima.tcas.Annotation")
                    holder_t = tsc.get_type("x.Holder") if tsc.contains_type("x.Holder") else None
                    if holder_t is None:
                        holder_t = tsc.create_type("x.Holder")
                        tsc.create_feature(holder_t, "ref", "uima.tcas.Annotation")
                    v.add(T(begin=0, end=1, xmiID=nxt))
                    v.add(holder_t(begin=0, end=2, xmiID=nxt + 1000, ref=T(begin=0, end=3, sofa=v.get_sofa())))
                    for fmt in ("xmi", "json"):
                        try:
                            (cas.to_xmi if fmt == "xmi" else cas.to_json)()
                        except ValueError:
                            out.count("forced-duplicate-reported")
                            continue
                        out.oracle_failures.append({"scenario": sc, "step": si, "what": fmt + ": a structure pinned to the id the generator hands out next and a structure receiving that id during serialisation were written out instead of being reported"})
                    return
                elif st == "force":
                    # explicitly force two structures onto one id: must be reported when serialising
                    a, b = A(begin=0, end=1, xmiID=4242), A(begin=0, end=2, xmiID=4242)
                    v.add(a); v.add(b)
                    forced = True
                elif st in ("to_xmi", "to_json", "reload_xmi", "reload_json"):
                    fmt = "xmi" if st.endswith("xmi") else "json"
                    try:
                        text = cas.to_xmi() if fmt == "xmi" else cas.to_json()
                    except ValueError:
                        if forced:
                            out.count("forced-duplicate-reported")
                            return
                        raise
                    if forced:
                        out.oracle_failures.append({"scenario": sc, "step": si, "what": "two structures forced onto one id were written out instead of being reported"})
                        return
                    ids, nums, anns = ids_of_xmi(text) if fmt == "xmi" else ids_of_json(text)
                    out.evaluations += 1
                    if len(set(ids)) != len(ids):
                        out.oracle_failures.append({"scenario": sc, "step": si, "what": fmt + ": two elements share an xmi:id", "ids": sorted(ids)})
                        return
                    if len(set(nums)) != len(nums):
                        out.oracle_failures.append({"scenario": sc, "step": si, "what": fmt + ": two sofas share a sofaNum", "nums": sorted(nums)})
                        return
                    for i, be in loaded.items():
                        if anns.get(i) != be:
                            out.oracle_failures.append({"scenario": sc, "step": si, "what": fmt + ": a loaded id was not kept", "id": i,
                                                        "expected": be, "actual": anns.get(i)})
                            return
                    if start != "empty":
                        out.nontriv((k, si))
                    if st.startswith("reload"):
                        cas = load_cas_from_xmi(text, typesystem=ts) if fmt == "xmi" else load_cas_from_json(text, typesystem=ts)
                        loaded = dict(anns)
                out.count("step:" + st)
            except Exception as e:  # noqa: BLE001
                out.oracle_failures.append({"scenario": sc, "step": si, "what": "step %s raised %r" % (st, e)})
                return
    if k < 2:
        out.sample({"start": start, "doc": doc, "steps": steps})


def run(ctx, out, budget):
    out.rule = ("state level: sessions mixing create_view, add (kept / regenerated ids), referenced-only structures, document "
                "annotation and id-assigning traversals; all ids and sofaNums read back at the end, compared with the model and "
                "checked for uniqueness. Document level: documents written by an independent writer (ids in any order, a sofa "
                "holding the largest id, several sofas, gaps/permutations of sofaNums, any element order) x continuations over "
                "{add(keep), add(new), add_all, create_view, to_xmi, to_json, reload, forced duplicate}; ids read from every "
                "emitted document by independent parsers. Non-trivial = distinct serialisations after starting from a document.")
    rng = ctx.rng(0)
    n = bud(budget, 150, 12000)
    sess = [gen_session(rng, rng.randint(5, 30)) for _ in range(n)]
    ops_list = [s[0] for s in sess]
    impl = sessions.run_impl_sessions(ops_list)
    model = sessions.run_model_sessions(ctx.driver, ops_list)
    for si, (ops, start, labels, handles) in enumerate(sess):
        io = impl[si]
        sc = {"k": "session", "ops": ops}
        out.evaluations += 1
        if model is not None:
            def canon_op(i, x, ops=ops):
                if i < len(ops) and ops[i]["op"] == "cas.find_all_fs" and isinstance(x, dict) and "ok" in x:
                    return {"ok": sorted(x["ok"]["fs"])}
                if i < len(ops) and ops[i]["op"] == "cas.doc_ann":
                    return {"docann": "ok" in x}
                return x
            d = sessions.first_diff(io, model[si], canon_op)
            if d is not None:
                out.disagreements.append({"scenario": sc, "op_index": d, "impl": io[d] if d < len(io) else None,
                                          "model": model[si][d] if model[si] and d < len(model[si]) else None})
        bad = check_ids(ops, io, start, labels, handles)
        if bad:
            out.oracle_failures.append({"scenario": sc, "what": bad})
    nd = bud(budget, 300, 24000)
    rng2 = ctx.rng(1)
    for k in range(nd):
        doc_history(rng2, out, k)


I3_WITNESS = "an annotation added with keep_id=True under the xmi:id of the view's sofa is written next to the sofa under the same id"
I5_WITNESS = "XMI document without an _InitialView sofa"


def finding_of(fl):
    return None


def run_witness(ctx, finding):
    from cassis import Cas, TypeSystem, load_cas_from_xmi
    with warnings.catch_warnings():
        warnings.simplefilter("ignore")
        if finding["id"] == "I3-fs-on-sofa-id":
            ts = TypeSystem(); A = ts.get_type("uima.tcas.Annotation")
            cas = Cas(ts, sofa_string="abc")
            cas.add(A(begin=0, end=1, xmiID=cas.get_sofa().xmiID))
            try:
                ids, _n, _a = ids_of_xmi(cas.to_xmi())
            except ValueError:
                return False
            return len(set(ids)) != len(ids)
        if finding["id"] == "I5-no-initial-view-sofa":
            doc = {"sofas": [(7, 1, "v2", "ttt")], "fs": [(1, 0, 1, 7)], "members": {7: [1]}}
            ts = TypeSystem()
            try:
                cas = load_cas_from_xmi(write_xmi(doc), typesystem=ts)
                ids, nums, _a = ids_of_xmi(cas.to_xmi())
            except Exception:  # noqa: BLE001
                return True
            return len(set(ids)) != len(ids) or len(set(nums)) != len(nums)
    return False


def replay(ctx, payload):
    fl = payload.get("failure") or {}
    sc = fl.get("scenario") or {}
    if sc.get("k") == "session":
        ops = sc["ops"]
        io = sessions.run_impl_sessions([ops])[0]
        # recompute layout
        start = max(i for i, o in enumerate(ops) if o["op"] == "cas.find_all_fs")
        labels = [o["fs"] for o in ops[start + 1:] if o["op"] == "fs.slots"]
        handles = [o["h"] for o in ops[start + 1:] if o["op"] == "cas.sofa_get" and o["field"] == "id"]
        return check_ids(ops, io, start, labels, handles) is not None
    return True
