"""Independent Python specification ("shadow") of the type-system semantics the properties state, used as
oracle by C06/C10/C11, plus random growth of type systems over a name pool engineered for the quantifiers
of the properties.  Shares no code with cassis; the built-in table is read once from the Lean-side
generated data source (the live module) only for *names and parents*, which the properties take as given.
"""
import os
import sys

REPO = os.environ.get("CASSIS_REPO", "/repo")


def builtin_table(doc=True):
    """(name -> parent, name -> [own feature dicts]) of TypeSystem(), read from the implementation once;
    the oracle treats the built-ins as given data (the property quantifies over histories *from* them)."""
    sys.path.insert(0, REPO)
    import warnings

    warnings.simplefilter("ignore")
    from cassis import TypeSystem
    from cassis import typesystem as T

    ts = TypeSystem(add_document_annotation_type=doc)
    parents, feats = {}, {}
    for t in ts.get_types(built_in=True):
        parents[t.name] = t.supertype.name if t.supertype is not None else None
        feats[t.name] = [
            {"name": f.name, "range": f.rangeType.name, "elem": f.elementType.name if f.elementType else None,
             "descr": f.description, "multi": f.multipleReferencesAllowed}
            for f in t.features
        ]
    consts = {
        "predefined": set(T._PREDEFINED_TYPES),
        "final": set(T._INHERITANCE_FINAL_TYPES),
        "primitive": set(T._PRIMITIVE_TYPES),
    }
    return parents, feats, consts


class Shadow:
    """the declared single-inheritance tree and feature declarations, with the outcome each API call
    must have according to the property statements (None = the statement does not fix the outcome)"""

    def __init__(self, doc=True):
        self.parent, self.own, self.K = builtin_table(doc)
        self.order = list(self.parent)  # creation order

    # ---- lookup ----
    def short(self, n):
        return n.split(".")[-1]

    def resolve(self, n):
        """full name, or unique short name for dot-free names; None = unknown/ambiguous"""
        if n in self.parent:
            return n
        if "." in n:
            return None
        c = [t for t in self.order if self.short(t) == n]
        return c[0] if len(c) == 1 else None

    def ancestors(self, n):
        out = []
        while n is not None:
            out.append(n)
            n = self.parent[n]
        return out

    def subsumes(self, a, b):
        return a in self.ancestors(b)

    def children(self, a):
        return [t for t in self.order if self.parent[t] == a]

    def descendants(self, a):
        out = [a]
        for c in self.children(a):
            out.extend(self.descendants(c))
        return out

    # ---- features ----
    def effective(self, n):
        """name -> definition, own definitions first, then the ancestors' (nearest first)"""
        eff = {}
        for t in self.ancestors(n):
            for f in self.own[t]:
                eff.setdefault(f["name"], f)
        return eff

    @staticmethod
    def same_def(f, g):
        return (f["name"] == g["name"] and f["range"] == g["range"]
                and (f["elem"] or "uima.cas.TOP") == (g["elem"] or "uima.cas.TOP") and f["descr"] == g["descr"])

    @staticmethod
    def range_differs(f, g):
        return f["range"] != g["range"]

    # ---- API calls: expected outcome ("ok" | error class | None = not fixed by the statements) ----
    def create_type(self, name, sup):
        """returns expected outcome; mutates on success"""
        if sup in self.K["final"]:
            return "ValueError"
        if name in self.parent:
            if name in self.K["predefined"]:
                return None  # finding T3 region: re-creating a predefined name
            return "ValueError"
        p = self.resolve(sup)
        if p is None:
            return "TypeNotFoundError"
        if p in self.K["final"]:
            return "ValueError"  # primitive array types cannot be subtyped, however the supertype is named
        self.parent[name] = p
        self.own[name] = []
        self.order.append(name)
        return "ok"

    def create_feature(self, domain, name, range_, elem=None, descr=None, multi=None):
        d = self.resolve(domain)
        r = self.resolve(range_)
        e = self.resolve(elem) if elem is not None else None
        if d is None or r is None or (elem is not None and e is None):
            return "TypeNotFoundError"
        pyname = name + "_" if name in ("self", "type") else name
        f = {"name": pyname, "range": r, "elem": e, "descr": descr, "multi": multi}
        eff = self.effective(d)
        if pyname in eff:
            g = eff[pyname]
            if self.same_def(f, g):
                return "ok"  # identical redefinition: adds nothing
            if self.range_differs(f, g):
                return "ValueError"
            return None  # differs only in description / element type: not fixed by the statement
        for t in self.descendants(d)[1:]:
            for g in self.own[t]:
                if g["name"] == pyname and not self.same_def(f, g):
                    if self.range_differs(f, g):
                        return "ValueError"
                    return None
        self.own[d].append(f)
        return "ok"


USER_PKGS = ["x", "x.y", "a.b.c", "de.type", "q.cas", "q.xmi", "q.tcas", "other.type", ""]
USER_SHORT = ["A", "B", "C", "Token", "Sentence", "Lemma", "Annotation", "Sofa", "TOP", "T1", "T2", "T3"]
FEAT_NAMES = ["f", "g", "value", "ref", "self", "type", "begin", "end", "head", "tail", "elements", "language", "id"]
RANGES_PRIM = ["uima.cas.Integer", "uima.cas.String", "uima.cas.Boolean", "uima.cas.Float", "uima.cas.Double",
               "uima.cas.Long", "uima.cas.Short", "uima.cas.Byte"]
RANGES_COLL = ["uima.cas.FSArray", "uima.cas.FSList", "uima.cas.IntegerArray", "uima.cas.StringArray",
               "uima.cas.StringList", "uima.cas.IntegerList", "uima.cas.FloatList", "uima.cas.DoubleArray",
               "uima.cas.BooleanArray", "uima.cas.ByteArray", "uima.cas.LongArray", "uima.cas.ShortArray",
               "uima.cas.FloatArray"]


def rand_type_name(rng):
    pkg = rng.choice(USER_PKGS)
    sh = rng.choice(USER_SHORT)
    return (pkg + "." + sh) if pkg else sh
