"""Session builder (keeps track of the numbering of type systems, handles and FS labels that both the
implementation runner and the Lean driver use) and helpers to run sessions on both sides."""
import json
import multiprocessing as mp
import os

from harness import common


class SB:
    """builds the op list of one session; numbering mirrors Driver.lean / implrun.py
    (labels are allocated only by ops that succeed, so builders must only emit creating ops that are
    expected to succeed, or use `maybe_*` variants and fix up with the observed results)"""

    def __init__(self):
        self.ops = []
        self.n_ts = 0
        self.n_fs = 0
        self.n_h = 0
        self.fs_type = {}  # label -> type name
        self.meta = {}

    def op(self, **o):
        self.ops.append(o)
        return len(self.ops) - 1

    def ts_new(self, doc=True):
        self.op(op="ts.new", doc=doc)
        self.n_ts += 1
        return self.n_ts - 1

    def create_type(self, ts, name, sup=None, descr=None):
        o = {"op": "ts.create_type", "ts": ts, "name": name}
        if sup is not None:
            o["super"] = sup
        if descr is not None:
            o["descr"] = descr
        self.ops.append(o)

    def create_feature(self, ts, domain, name, range_, elem=None, descr=None, multi=None):
        o = {"op": "ts.create_feature", "ts": ts, "domain": domain, "name": name, "range": range_}
        if elem is not None:
            o["elem"] = elem
        if descr is not None:
            o["descr"] = descr
        if multi is not None:
            o["multi"] = multi
        self.ops.append(o)

    def query(self, ts, kind, **kw):
        self.ops.append(dict(op="ts.query", ts=ts, kind=kind, **kw))

    def fs_new(self, ts, type_, feats=None, xid=None):
        o = {"op": "fs.new", "ts": ts, "type": type_, "feats": feats or {}}
        if xid is not None:
            o["xid"] = xid
        self.ops.append(o)
        self.fs_type[self.n_fs] = type_
        self.n_fs += 1
        return self.n_fs - 1

    def cas_new(self, ts, lenient=False, text=None, mime=None):
        o = {"op": "cas.new", "ts": ts, "lenient": lenient}
        if text is not None:
            o["text"] = [ord(c) for c in text]
        if mime is not None:
            o["mime"] = mime
        self.ops.append(o)
        self.n_h += 1
        return self.n_h - 1

    def create_view(self, h, name):
        self.op(op="cas.create_view", h=h, name=name)
        self.n_h += 1
        return self.n_h - 1

    def get_view(self, h, name):
        self.op(op="cas.get_view", h=h, name=name)
        self.n_h += 1
        return self.n_h - 1


def run_impl_sessions(sessions, procs=None, op_timeout=20.0, retry_timeouts=True):
    """sessions: list of op lists. Returns list of observation lists (run in worker processes).
    An operation that exceeds `op_timeout` under the parallel load is not evidence of anything: such a session is run
    again alone with six times the deadline (properties about termination pass retry_timeouts=False and judge
    deadlines themselves)."""
    if not sessions:
        return []
    procs = procs or min(16, max(1, os.cpu_count() or 1), len(sessions))
    if procs <= 1 or len(sessions) < 8 or os.environ.get("VERIF_COVERAGE"):
        res = [_run_one((ops, op_timeout)) for ops in sessions]
    else:
        with mp.get_context("fork").Pool(procs) as pool:
            res = pool.map(_run_one, [(ops, op_timeout) for ops in sessions], chunksize=max(1, len(sessions) // (procs * 4)))
    if retry_timeouts:
        for k, io in enumerate(res):
            if any(isinstance(r, dict) and r.get("err") in ("Timeout", "OpTimeout", "SkippedAfterTimeout") for r in io):
                res[k] = _run_one((sessions[k], op_timeout * 6))
    return res


def _run_one(arg):
    ops, op_timeout = arg
    from harness import implrun

    out, _s = implrun.run_session(ops, op_timeout=op_timeout)
    # make JSON-clean (tuples -> lists)
    return json.loads(json.dumps(out, default=str))


def run_model_sessions(driver, sessions):
    if not driver.available:
        return None
    outs = driver.run([{"k": "session", "ops": ops} for ops in sessions])
    res = []
    for o in outs:
        if "res" not in o:
            res.append(None)
        else:
            res.append(o["res"])
    return res


def first_diff(a, b, canon_op=None):
    """index of the first op whose observations differ (after optional per-op canonicalisation)"""
    if a is None or b is None:
        return 0
    for i, (x, y) in enumerate(zip(a, b)):
        if canon_op is not None:
            x, y = canon_op(i, x), canon_op(i, y)
        if common.canon(x) != common.canon(y):
            return i
    if len(a) != len(b):
        return min(len(a), len(b))
    return None


def sort_entries(obs):
    """canonical form of a select result: the order across types and among ties is not promised"""
    if isinstance(obs, dict) and isinstance(obs.get("ok"), list) and all(
        isinstance(e, list) and len(e) == 3 for e in obs["ok"]
    ):
        return {"ok": sorted(obs["ok"], key=lambda e: (e[0] is None, e[0] or 0, e[1] or 0, e[2] if e[2] is not None else -1))}
    return obs
