"""Executes a session (list of ops, see lean/Driver.lean for the op language) on the *real* library in
/repo and returns one canonical observation per op, in the same shape the Lean driver answers.

FS are named by creation index ("label" == heap address of the model).  Exceptions are mapped to the
class names the model's `Err` enum prints.
"""
import math
import os
import signal
import sys
import warnings

REPO = os.environ.get("CASSIS_REPO", "/repo")
if REPO not in sys.path:
    sys.path.insert(0, REPO)
warnings.simplefilter("ignore")

import cassis  # noqa: E402
from cassis import Cas, TypeSystem  # noqa: E402
from cassis.cas import Sofa  # noqa: E402
from cassis.typesystem import FeatureStructure, Type, TypeNotFoundError, AnnotationHasNoSofa  # noqa: E402

assert os.path.realpath(cassis.__file__).startswith(os.path.realpath(REPO) + os.sep), (
    "cassis is not imported from the working tree: " + cassis.__file__
)

MAXSIZE = sys.maxsize


class BadOp(Exception):
    pass


class OpTimeout(Exception):
    pass


def err_name(e):
    if isinstance(e, OpTimeout):
        return "Timeout"
    if isinstance(e, TypeNotFoundError):
        return "TypeNotFoundError"
    if isinstance(e, AnnotationHasNoSofa):
        return "AnnotationHasNoSofa"
    if isinstance(e, RecursionError):
        return "RecursionError"
    for cls in (KeyError, IndexError, ValueError, RuntimeError, AttributeError, TypeError, NotImplementedError):
        if type(e) is cls:
            return cls.__name__
    for cls in (KeyError, IndexError, ValueError, AttributeError, TypeError, NotImplementedError, RuntimeError):
        if isinstance(e, cls):
            return cls.__name__
    return type(e).__name__


def float_token(x):
    """canonical token of a float: the Java-style literal (independent of cassis' formatter)"""
    if math.isnan(x):
        return "NaN"
    if math.isinf(x):
        return "Infinity" if x > 0 else "-Infinity"
    return repr(float(x)).upper().replace("E+", "E")


def token_float(t):
    return float(t)


def text_to_cps(s):
    return None if s is None else [ord(c) for c in s]


def cps_to_text(l):
    return None if l is None else "".join(chr(c) for c in l)


class Session:
    def __init__(self):
        self.tss = []
        self.fss = []  # label -> FeatureStructure
        self.fs_ts = []
        self.cass = []  # root Cas objects
        self.cas_ts = []
        self.handles = []  # (cas index, Cas handle object)
        self.sofa_owner = {}  # id(Sofa) -> (cas idx, view name)

    # ---- values ----
    def label_of(self, fs):
        for i, f in enumerate(self.fss):
            if f is fs:
                return i
        return None

    def register(self, fs, ti):
        lab = self.label_of(fs)
        if lab is None:
            self.fss.append(fs)
            self.fs_ts.append(ti)
            lab = len(self.fss) - 1
        return lab

    def sofa_ref(self, sofa):
        for ci, cas in enumerate(self.cass):
            for name, s in cas._sofas.items():
                if s is sofa:
                    return {"sofa": [ci, name]}
        return {"sofa": [-1, getattr(sofa, "sofaID", "?")]}

    def dec(self, v):
        if v is None or isinstance(v, (bool, int, str)):
            return v
        if isinstance(v, dict):
            if "r" in v:
                return self.fss[v["r"]]
            if "f" in v:
                return token_float(v["f"])
            if "rs" in v:
                return [None if x is None else self.fss[x] for x in v["rs"]]
            if "is" in v:
                return list(v["is"])
            if "fs" in v:
                return [token_float(x) for x in v["fs"]]
            if "bs" in v:
                return list(v["bs"])
            if "ss" in v:
                return list(v["ss"])
            if "sofa" in v:
                ci, name = v["sofa"]
                return self.cass[ci]._sofas[name]
        raise BadOp("value " + repr(v))

    def enc(self, v):
        if v is None or isinstance(v, (bool, int, str)):
            return v
        if isinstance(v, float):
            return {"f": float_token(v)}
        if isinstance(v, FeatureStructure):
            lab = self.label_of(v)
            return {"r": lab} if lab is not None else {"r": "unknown"}
        if isinstance(v, Sofa):
            return self.sofa_ref(v)
        if isinstance(v, (bytes, bytearray)):
            return {"is": list(v)}
        if isinstance(v, (list, tuple)):
            if all(x is None or isinstance(x, FeatureStructure) for x in v) and any(
                isinstance(x, FeatureStructure) for x in v
            ):
                return {"rs": [None if x is None else self.label_of(x) for x in v]}
            if len(v) == 0:
                return {"empty": []}
            if all(isinstance(x, bool) for x in v):
                return {"bs": list(v)}
            if all(isinstance(x, int) for x in v):
                return {"is": list(v)}
            if all(isinstance(x, float) for x in v):
                return {"fs": [float_token(x) for x in v]}
            if all(x is None or isinstance(x, str) for x in v):
                return {"ss": list(v)}
            if all(x is None for x in v):
                return {"rs": [None for _ in v]}
            return {"mixed": [self.enc(x) for x in v]}
        if isinstance(v, Type):
            return {"attr": "type"}
        return {"attr": getattr(v, "__name__", type(v).__name__)}

    def entry(self, fs):
        lab = self.label_of(fs)
        if "begin" in fs.__slots__ and "end" in fs.__slots__:
            return [fs.begin, fs.end, lab]
        return [MAXSIZE, MAXSIZE, lab]

    def feature_json(self, f):
        return {
            "name": f.name,
            "domain": f.domainType.name if isinstance(f.domainType, Type) else f.domainType,
            "range": f.rangeType.name if isinstance(f.rangeType, Type) else f.rangeType,
            "elem": None if f.elementType is None else f.elementType.name,
            "descr": f.description,
            "multi": f.multipleReferencesAllowed,
            "reserved": bool(f._has_reserved_name),
        }

    # ---- ops ----
    def run_op(self, o):
        op = o["op"]
        m = getattr(self, "op_" + op.replace(".", "_"), None)
        if m is None:
            raise BadOp(op)
        # handle numbers that were never allocated (an earlier creating op failed) are a harness matter
        for key, pool in (("ts", self.tss), ("fs", self.fss), ("h", self.handles)):
            if key in o and isinstance(o[key], int) and not (0 <= o[key] < len(pool)):
                raise BadOp(op)
        if "inputs" in o and any(not (0 <= i < len(self.tss)) for i in o["inputs"]):
            raise BadOp(op)
        return m(o)

    def op_ts_new(self, o):
        self.tss.append(TypeSystem(add_document_annotation_type=o.get("doc", True)))
        return len(self.tss) - 1

    def op_ts_to_xml(self, o):
        from harness import refio
        text = self.tss[o["ts"]].to_xml()
        self.last_text = text
        return refio.read_ts_xml(text)

    def op_ts_load_xml(self, o):
        from cassis import load_typesystem
        from harness import refio
        ts = load_typesystem(refio.write_ts_xml(o["desc"], o.get("layout")))
        self.tss.append(ts)
        return len(self.tss) - 1

    def op_ts_reload_xml(self, o):
        from cassis import load_typesystem
        ts = load_typesystem(self.tss[o["ts"]].to_xml())
        self.tss.append(ts)
        return len(self.tss) - 1

    def op_ts_merge(self, o):
        from cassis import merge_typesystems
        ts = merge_typesystems(*[self.tss[i] for i in o["inputs"]])
        self.tss.append(ts)
        return len(self.tss) - 1

    def op_ts_create_type(self, o):
        ts = self.tss[o["ts"]]
        kw = {}
        if o.get("super") is not None:
            kw["supertypeName"] = o["super"]
        if o.get("descr") is not None:
            kw["description"] = o["descr"]
        ts.create_type(o["name"], **kw)
        return None

    @staticmethod
    def _type_form(ts, name, salt):
        """The API takes a type as `Type` object, qualified name or (where unambiguous) short name: which form a scenario uses is
        derived from the op itself (reproducible), the meaning is the same by contract."""
        import zlib
        if name is None:
            return None
        k = zlib.crc32(("%s/%s" % (salt, name)).encode()) % 4
        try:
            if k == 1:
                return ts.get_type(name)
            if k == 2 and name.startswith("uima.cas."):
                short = name.rsplit(".", 1)[1]
                if ts.get_type(short).name == name:
                    return short
        except Exception:
            pass
        return name

    def op_ts_create_feature(self, o):
        ts = self.tss[o["ts"]]
        salt = "%s.%s" % (o["domain"], o["name"])
        ts.create_feature(
            o["domain"],
            o["name"],
            self._type_form(ts, o["range"], salt + "/r"),
            elementType=self._type_form(ts, o.get("elem"), salt + "/e"),
            description=o.get("descr"),
            multipleReferencesAllowed=o.get("multi"),
        )
        return None

    def op_ts_query(self, o):
        ts = self.tss[o["ts"]]
        k = o["kind"]
        if k == "get_type":
            return ts.get_type(o["name"]).name
        if k == "contains":
            return ts.contains_type(o["name"], o.get("exact", False))
        if k == "subsumes":
            return ts.subsumes(o["a"], o["b"])
        if k == "is_instance_of":
            ta = ts.get_type(o["a"])
            tb = ts.get_type(o["b"])
            return ts.is_instance_of(ta.name, tb.name)
        if k == "supertype":
            t = ts.get_type(o["name"])
            return None if t.supertype is None else t.supertype.name
        if k == "children":
            return [c.name for c in ts.get_type(o["name"]).children]
        if k == "descendants":
            return [c.name for c in ts.get_type(o["name"]).descendants]
        if k == "features":
            return [self.feature_json(f) for f in ts.get_type(o["name"]).features]
        if k == "all_features":
            return [self.feature_json(f) for f in ts.get_type(o["name"]).all_features]
        if k == "get_feature":
            f = ts.get_type(o["name"]).get_feature(o["feature"])
            return None if f is None else self.feature_json(f)
        if k == "is_primitive":
            return ts.is_primitive(ts.get_type(o["name"]))
        if k == "types":
            return [t.name for t in ts.get_types(o.get("built_in", False))]
        if k == "dump":
            d = {}
            for t in ts._types.values():
                d[t.name] = {
                    "super": None if t.supertype is None else t.supertype.name,
                    "children": sorted(c for c in t._children),
                    "own": [self.feature_json(f) for f in t.features],
                    "eff": sorted([[f.name, f.rangeType.name, None if f.elementType is None else f.elementType.name]
                                   for f in t.all_features], key=lambda x: x[0]),
                    "descr": t.description,
                }
            return d
        if k == "identity":
            # every Type object reachable through supertypes, children and feature domain/range/element
            # types is the one registered under its name
            reg = ts._types
            for t in reg.values():
                if t.supertype is not None and reg.get(t.supertype.name) is not t.supertype:
                    return False
                for c in t._children.values():
                    if reg.get(c.name) is not c:
                        return False
                for f in t.all_features:
                    for x in (f.domainType, f.rangeType, f.elementType):
                        if x is not None and reg.get(x.name) is not x:
                            return False
            return True
        if k == "disjoint":
            # no Type or Feature object of this type system is reachable from any other type system of the session
            mine_t = {id(t) for t in ts._types.values()}
            mine_f = {id(f) for t in ts._types.values() for f in list(t._features.values()) + list(t._inherited_features.values())}
            for j, other in enumerate(self.tss):
                if other is ts:
                    continue
                for t in other._types.values():
                    if id(t) in mine_t or (t.supertype is not None and id(t.supertype) in mine_t):
                        return False
                    if any(id(c) in mine_t for c in t._children.values()):
                        return False
                    for f in list(t._features.values()) + list(t._inherited_features.values()):
                        if id(f) in mine_f:
                            return False
                        for x in (f.domainType, f.rangeType, f.elementType):
                            if x is not None and not isinstance(x, str) and id(x) in mine_t:
                                return False
            return True
        raise BadOp(k)

    def op_fs_new(self, o):
        ts = self.tss[o["ts"]]
        t = ts.get_type(o["type"])
        kw = {k: self.dec(v) for k, v in o["feats"].items()}
        if o.get("xid") is not None:
            kw["xmiID"] = o["xid"]
        fs = t(**kw)
        return self.register(fs, o["ts"])

    def op_fs_get(self, o):
        fs = self.fss[o["fs"]]
        v = fs[o["path"]] if o.get("item") else fs.get(o["path"])
        if isinstance(v, str) and o.get("as_text"):
            return {"attr": "text"}
        return self.enc(v)

    def op_fs_set(self, o):
        fs = self.fss[o["fs"]]
        if o.get("item"):
            fs[o["path"]] = self.dec(o["v"])
        else:
            fs.set(o["path"], self.dec(o["v"]))
        return None

    def op_fs_slots(self, o):
        fs = self.fss[o["fs"]]
        d = {"%type": fs.type.name, "%xid": fs.xmiID}
        for f in fs.type.all_features:
            if hasattr(fs, f.name):
                d[f.name] = self.enc(getattr(fs, f.name))
        return d

    def op_fs_covered_text(self, o):
        return text_to_cps(self.fss[o["fs"]].get_covered_text())

    def op_xmi_save(self, o):
        from harness import refio
        ci, h = self.handles[o["h"]]
        kw = {}
        if "pretty" in o:
            kw["pretty_print"] = o["pretty"]
        text = h.to_xmi(**kw)
        self.last_text = text
        return refio.canon_doc(refio.read_xmi(text))

    def op_xmi_load(self, o):
        from cassis import load_cas_from_xmi
        from harness import refio
        text = refio.write_xmi(o["doc"], o.get("layout"))
        cas = load_cas_from_xmi(text, typesystem=self.tss[o["ts"]], lenient=o.get("lenient", False))
        self.cass.append(cas)
        self.cas_ts.append(o["ts"])
        self.handles.append((len(self.cass) - 1, cas))
        return len(self.handles) - 1

    def op_json_save(self, o):
        from cassis.typesystem import TypeSystemMode
        from harness import refio
        ci, h = self.handles[o["h"]]
        mode = {"full": TypeSystemMode.FULL, "minimal": TypeSystemMode.MINIMAL, "none": TypeSystemMode.NONE}[o.get("mode") or "full"]
        kw = {}
        if "pretty" in o:
            kw["pretty_print"] = o["pretty"]
        if "ascii" in o:
            kw["ensure_ascii"] = o["ascii"]
        text = h.to_json(type_system_mode=mode, **kw)
        self.last_text = text
        return refio.canon_jdoc(refio.read_json(text))

    def op_json_load(self, o):
        from cassis import load_cas_from_json
        from harness import refio
        text = refio.write_json(o["doc"], o.get("layout"))
        kw = {}
        if o.get("ts") is not None:
            kw["typesystem"] = self.tss[o["ts"]]
        cas = load_cas_from_json(text, lenient=o.get("lenient", False), merge_typesystem=o.get("merge", True), **kw)
        # the loader builds (merges) its own type system: register it the way the driver does
        self.tss.append(cas.typesystem)
        self.cass.append(cas)
        self.cas_ts.append(len(self.tss) - 1)
        self.handles.append((len(self.cass) - 1, cas))
        return len(self.handles) - 1

    def op_rt_applies(self, o):
        # a question to the model only (does the round-trip theorem apply to this CAS?)
        return None

    def op_cas_reload(self, o):
        from cassis import load_cas_from_json, load_cas_from_xmi
        ci, h = self.handles[o["h"]]
        ts = self.tss[self.cas_ts[ci]]
        if o["fmt"] == "xmi":
            cas = load_cas_from_xmi(h.to_xmi(), typesystem=ts, lenient=bool(h._lenient))
            self.cas_ts.append(self.cas_ts[ci])
        else:
            cas = load_cas_from_json(h.to_json(), typesystem=ts, lenient=bool(h._lenient))
            self.tss.append(cas.typesystem)
            self.cas_ts.append(len(self.tss) - 1)
        self.cass.append(cas)
        self.handles.append((len(self.cass) - 1, cas))
        return len(self.handles) - 1

    def op_conv_chain(self, o):
        from cassis import load_cas_from_json, load_cas_from_xmi
        from harness import dump
        ci, h = self.handles[o["h"]]
        ts = self.tss[self.cas_ts[ci]]
        if o["kind"] == "xmi-json":
            c1 = load_cas_from_xmi(h.to_xmi(), typesystem=ts)
            js = c1.to_json()
            c2 = load_cas_from_json(js) if o.get("embedded") else load_cas_from_json(js, typesystem=ts)
        else:
            js = h.to_json()
            c1 = load_cas_from_json(js) if o.get("embedded") else load_cas_from_json(js, typesystem=ts)
            c2 = load_cas_from_xmi(c1.to_xmi(), typesystem=c1.typesystem)
        return [{"ok": dump.dump_cas(c1)}, {"ok": dump.dump_cas(c2)}]

    def op_cas_dump(self, o):
        from harness import dump
        ci, h = self.handles[o["h"]]
        return dump.dump_cas(h, fine=o.get("fine", False))

    def op_cas_new(self, o):
        ts = self.tss[o["ts"]]
        kw = {}
        if o.get("text") is not None:
            kw["sofa_string"] = cps_to_text(o["text"])
        if o.get("mime") is not None:
            kw["sofa_mime"] = o["mime"]
        cas = Cas(ts, lenient=o.get("lenient", False), **kw)
        self.cass.append(cas)
        self.cas_ts.append(o["ts"])
        self.handles.append((len(self.cass) - 1, cas))
        return len(self.handles) - 1

    def op_cas_create_view(self, o):
        ci, h = self.handles[o["h"]]
        v = h.create_view(o["name"])
        self.handles.append((ci, v))
        return len(self.handles) - 1

    def op_cas_get_view(self, o):
        ci, h = self.handles[o["h"]]
        v = h.get_view(o["name"])
        self.handles.append((ci, v))
        return len(self.handles) - 1

    def op_cas_add(self, o):
        ci, h = self.handles[o["h"]]
        fs = self.fss[o["fs"]]
        alias = o.get("alias")
        if alias == "add_annotation":
            h.add_annotation(fs, o.get("keep_id", True))
        elif alias == "add_all":
            assert o.get("keep_id", True)
            h.add_all([fs])
        elif alias == "add_all_iter":
            # `add_all` takes any iterable: a one-shot iterator must work like a list
            assert o.get("keep_id", True)
            h.add_all(x for x in [fs])
        elif alias == "add_annotations":
            assert o.get("keep_id", True)
            h.add_annotations([fs])
        else:
            h.add(fs, keep_id=o.get("keep_id", True))
        return None

    def op_cas_remove(self, o):
        ci, h = self.handles[o["h"]]
        fs = self.fss[o["fs"]]
        if o.get("alias") == "remove_annotation":
            h.remove_annotation(fs)
        else:
            h.remove(fs)
        return None

    def _type_arg(self, ci, o):
        if o.get("by") == "object":
            return self.tss[self.cas_ts[ci]].get_type(o["type"])
        return o["type"]

    def op_cas_select(self, o):
        ci, h = self.handles[o["h"]]
        return [self.entry(f) for f in h.select(self._type_arg(ci, o))]

    def op_cas_select_all(self, o):
        ci, h = self.handles[o["h"]]
        return [self.entry(f) for f in h.select_all()]

    def _span(self, ci, o):
        if o.get("span_fs") is not None:
            return self.fss[o["span_fs"]]       # an indexed annotation used as the span
        ann = self.tss[self.cas_ts[ci]].get_type("uima.tcas.Annotation")
        return ann(begin=o["b"], end=o["e"])

    def op_cas_select_covered(self, o):
        ci, h = self.handles[o["h"]]
        return [self.entry(f) for f in h.select_covered(self._type_arg(ci, o), self._span(ci, o))]

    def op_cas_select_covering(self, o):
        ci, h = self.handles[o["h"]]
        return [self.entry(f) for f in h.select_covering(self._type_arg(ci, o), self._span(ci, o))]

    def op_cas_sofa_set(self, o):
        ci, h = self.handles[o["h"]]
        f = o["field"]
        if f == "string":
            h.sofa_string = cps_to_text(o.get("v"))
        elif f == "mime":
            h.sofa_mime = o.get("v")
        elif f == "uri":
            h.sofa_uri = o.get("v")
        elif f == "array":
            h.sofa_array = self.dec(o.get("v"))
        else:
            raise BadOp(f)
        return None

    def op_cas_sofa_get(self, o):
        ci, h = self.handles[o["h"]]
        f = o["field"]
        if f == "string":
            return text_to_cps(h.sofa_string)
        if f == "mime":
            return h.sofa_mime
        if f == "uri":
            return h.sofa_uri
        if f == "array":
            return self.enc(h.sofa_array)
        if f == "id":
            return h.get_sofa().xmiID
        if f == "num":
            return h.get_sofa().sofaNum
        if f == "name":
            return h.get_sofa().sofaID
        raise BadOp(f)

    def op_cas_views(self, o):
        ci, h = self.handles[o["h"]]
        return [v.sofa.sofaID for v in h.views]

    def op_cas_doc_ann(self, o):
        ci, h = self.handles[o["h"]]
        fs = h.get_document_annotation()
        return self.register(fs, self.cas_ts[ci])

    def op_cas_lang_set(self, o):
        ci, h = self.handles[o["h"]]
        try:
            h.document_language = self.dec(o["v"])
        finally:
            self._register_docann(ci, h)
        return None

    def op_cas_lang_get(self, o):
        ci, h = self.handles[o["h"]]
        try:
            return self.enc(h.document_language)
        finally:
            self._register_docann(ci, h)

    def _register_docann(self, ci, h):
        for fs in h.select_all():
            if fs.type.name == "uima.tcas.DocumentAnnotation":
                self.register(fs, self.cas_ts[ci])

    def op_cas_is_lenient(self, o):
        ci, h = self.handles[o["h"]]
        return bool(h._lenient)

    def op_cas_typecheck(self, o):
        ci, h = self.handles[o["h"]]
        return [e.xmiID for e in h.typecheck()]

    def op_cas_comparable(self, o):
        from cassis.util import cas_to_comparable_text
        ci, h = self.handles[o["h"]]
        kw = dict(mark_indexed=o.get("mark_indexed", True), covered_text=o.get("covered_text", True))
        if o.get("exclude"):
            kw["exclude_types"] = set(o["exclude"])
        if o.get("seeds") is not None:
            kw["seeds"] = [self.fss[i] for i in o["seeds"]]
        res = cas_to_comparable_text(h, **kw)
        # structures that received an id during the traversal
        return {"text": res}

    # ---- C14: raw bytes of the serialisers through the different sinks -------------------------------------
    def _raw(self, call, sink):
        import hashlib, tempfile
        from pathlib import Path
        if sink in (None, "none"):
            text = call(None)
            data = text.encode("utf-8")
        else:
            with tempfile.TemporaryDirectory(prefix="c14_") as d:
                p = Path(d) / "out.bin"
                r = call(str(p) if sink == "str" else p)
                if r is not None:
                    raise AssertionError("serialising to a path returned a value")
                data = p.read_bytes()
        return {"sha": hashlib.sha256(data).hexdigest(), "len": len(data)}

    def op_raw_xmi(self, o):
        ci, h = self.handles[o["h"]]
        return self._raw(lambda path: h.to_xmi(path, pretty_print=o.get("pretty", False)), o.get("sink"))

    def op_raw_json(self, o):
        from cassis.typesystem import TypeSystemMode
        ci, h = self.handles[o["h"]]
        mode = {"full": TypeSystemMode.FULL, "minimal": TypeSystemMode.MINIMAL, "none": TypeSystemMode.NONE}[o.get("mode") or "full"]
        return self._raw(lambda path: h.to_json(path, pretty_print=o.get("pretty", False), ensure_ascii=o.get("ascii", False),
                                                type_system_mode=mode), o.get("sink"))

    def op_raw_tsxml(self, o):
        if "h" in o:
            ci, h = self.handles[o["h"]]
            ts = h.typesystem
        else:
            ts = self.tss[o["ts"]]
        return self._raw(lambda path: ts.to_xml(path), o.get("sink"))

    def op_cas_find_all_fs(self, o):
        ci, h = self.handles[o["h"]]
        kw = dict(
            generate_missing_ids=o.get("generate_ids", True),
            include_inlinable_arrays_and_lists=o.get("inlinable", False),
        )
        if o.get("seeds") is not None:
            kw["seeds"] = [self.fss[i] for i in o["seeds"]]
        from harness import stepcount

        with stepcount.Counter() as cnt:
            res = list(h._find_all_fs(**kw))
        return {
            "fs": [[f.xmiID, self.label_of(f)] for f in res],
            "pops": cnt.pops,
            "pushes": cnt.pushes,
            "list_steps": cnt.list_steps,
        }


def _alarm(signum, frame):
    raise OpTimeout()


def run_session(ops, op_timeout=20.0):
    """returns list of {"ok": v} / {"err": name}"""
    s = Session()
    out = []
    old = signal.signal(signal.SIGALRM, _alarm)
    try:
        timed_out = False
        for o in ops:
            if timed_out:
                # after a hang the state of the library objects is unknown: do not continue
                out.append({"err": "SkippedAfterTimeout"})
                continue
            signal.setitimer(signal.ITIMER_REAL, op_timeout)
            try:
                out.append({"ok": s.run_op(o)})
            except BadOp:
                out.append({"err": "bad-op"})
            except (IndexError, KeyError) as e:
                # distinguish harness indexing errors (bad handle numbers) from library errors
                out.append({"err": err_name(e)})
            except BaseException as e:  # noqa: BLE001
                if isinstance(e, (KeyboardInterrupt, SystemExit)):
                    raise
                out.append({"err": err_name(e)})
                if isinstance(e, OpTimeout):
                    timed_out = True
            finally:
                signal.setitimer(signal.ITIMER_REAL, 0)
    finally:
        signal.signal(signal.SIGALRM, old)
    return out, s
