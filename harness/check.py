"""Entry point: python -m harness.check Cxx [--tier quick|thorough] [--replay FILE]

Verdicts (DESIGN.md §3.6):
  exit 0  all gates green (known findings are printed as KNOWN-FINDING lines)
  exit 1  VIOLATION property=<id> replay=<path> [no-failing-input-found]
  exit 2  infrastructure problem (never a VIOLATION line)
"""
import argparse
import importlib
import json
import os
import sys
import time
import traceback

HERE = os.path.dirname(os.path.abspath(__file__))
sys.path.insert(0, os.path.dirname(HERE))

from harness import common  # noqa: E402
from harness.common import Outcome, ProofGate, Driver, log  # noqa: E402


class Ctx:
    def __init__(self, prop, tier, seed, driver):
        self.prop, self.tier, self.seed, self.driver = prop, tier, seed, driver

    def rng(self, shard=0):
        return common.rng_for(self.seed, self.prop, shard)


def classify(mod, findings, failure):
    """id of the known finding whose region contains this (minimised) failure, else None"""
    fn = getattr(mod, "finding_of", None)
    if fn is None:
        return None
    fid = fn(failure)
    if fid is None:
        return None
    for f in findings:
        if f["id"] == fid and f.get("kind", "finding") == "finding":
            return fid
    return None


def main():
    ap = argparse.ArgumentParser()
    ap.add_argument("prop")
    ap.add_argument("--tier", default=os.environ.get("VERIF_TIER", "quick"), choices=["quick", "thorough"])
    ap.add_argument("--replay")
    args = ap.parse_args()
    prop = args.prop.upper()
    seed = int(os.environ.get("VERIF_SEED", "0") or 0)
    t0 = time.time()
    try:
        mod = importlib.import_module("harness.props." + prop.lower())
    except ImportError as e:
        log("no check for", prop, e)
        return 2

    if args.replay:
        payload = json.load(open(args.replay))
        driver = Driver()
        ctx = Ctx(prop, args.tier, seed, driver)
        if payload.get("kind") == "gate-broken" or "failure" not in payload:
            # the replay names a theorem or a correspondence case that no longer checked (no failing input was found): re-run
            # the first disagreeing scenario on implementation and model; a theorem is re-checked by the proof gate
            from harness import sessions as _ss
            gate = ProofGate(prop, mod.MODULES, mod.THEOREMS, "quick").run()
            still = not gate.ok if hasattr(gate, "ok") else False
            for dg in (payload.get("correspondence_disagreements") or [])[:1]:
                ops = (dg.get("scenario") or {}).get("ops")
                if isinstance(ops, list):
                    io = _ss.run_impl_sessions([ops])[0]
                    mo = (_ss.run_model_sessions(driver, [ops]) or [None])[0]
                    i = int(dg.get("op_index", 0))
                    if mo is not None and i < len(io) and i < len(mo) and common.canon(io[i]) != common.canon(mo[i]):
                        still = True
            if still:
                print(f"VIOLATION property={prop} replay={args.replay} no-failing-input-found")
                return 1
            print(f"replay passes: property={prop} {args.replay}")
            return 0
        still = mod.replay(ctx, payload)
        if still:
            print(f"VIOLATION property={prop} replay={args.replay}")
            return 1
        print(f"replay passes: property={prop} {args.replay}")
        return 0

    cov = None
    if os.environ.get("VERIF_COVERAGE"):
        # measurement mode (tools/impl_coverage.sh): which lines of the implementation do this property's scenarios execute?
        # Sessions then run in this process (see sessions.run_impl_sessions); nothing else changes.
        import coverage
        cdir = os.environ["VERIF_COVERAGE"]
        os.makedirs(cdir, exist_ok=True)
        cov = coverage.Coverage(data_file=os.path.join(cdir, ".coverage." + prop), branch=True,
                                include=[os.path.join(os.environ.get("CASSIS_REPO", "/repo"), "cassis", "*.py")])
        cov.start()
        import atexit
        atexit.register(lambda: (cov.stop(), cov.save()))
    try:
        gate = ProofGate(prop, mod.MODULES, mod.THEOREMS, args.tier).run()
        driver = Driver()
        if not gate.driver_ok:
            driver.available = False
        ctx = Ctx(prop, args.tier, seed, driver)
        out = Outcome()
        budget = args.tier
        from harness import fingerprint
        anchors_changed = args.tier == "quick" and fingerprint.changed(prop)
        if anchors_changed:
            # the anchored source differs from the tree the fingerprints were recorded on: never a finding by itself,
            # the quick tier just looks harder
            log(f"[{prop}] anchored source changed: running the search budget")
            budget = "search"
        mod.run(ctx, out, budget)
        findings = common.load_findings(prop)

        # witnesses of recorded findings
        for f in findings:
            if f.get("kind", "finding") != "finding":
                continue
            w = getattr(mod, "run_witness", None)
            if w is None:
                continue
            if w(ctx, f):
                print(f"KNOWN-FINDING: property={prop} {f['id']}: {f['what']}")
                out.known_hits.append(f["id"])
            else:
                out.known_hits.append(f["id"] + " (witness no longer fails)")

        unknown = []
        for fl in out.oracle_failures:
            fid = classify(mod, findings, fl)
            if fid is None:
                unknown.append(fl)
            else:
                out.count("known-finding:" + fid)

        escalated = None
        if not unknown and (not gate.ok or out.disagreements) and args.tier == "quick" and not anchors_changed:
            # a gate broke: search harder for a concrete failing input before reporting
            log(f"[{prop}] gate broken (proof_ok={gate.ok}, disagreements={len(out.disagreements)}): searching at thorough budget")
            escalated = Outcome()
            try:
                mod.run(ctx, escalated, "search")
            except Exception:  # noqa: BLE001
                log(traceback.format_exc())
            for fl in escalated.oracle_failures:
                if classify(mod, findings, fl) is None:
                    unknown.append(fl)

        violations = 0
        rc = 0
        if unknown:
            fl = unknown[0]
            shrink = getattr(mod, "shrink", None)
            if shrink is not None:
                try:
                    fl = shrink(ctx, fl)
                except Exception:  # noqa: BLE001
                    log(traceback.format_exc())
            path = common.write_replay(prop, {"property": prop, "kind": "oracle-failure", "seed": seed, "failure": fl})
            print(f"VIOLATION property={prop} replay={path}")
            violations = len(unknown)
            rc = 1
        elif not gate.ok or out.disagreements:
            payload = {
                "property": prop,
                "kind": "gate-broken",
                "seed": seed,
                "proof_gate_ok": gate.ok,
                "proof_gate_details": gate.details,
                "theorems_not_checking": getattr(gate, "failed_theorems", []),
                "correspondence_disagreements": out.disagreements[:3],
                "search": "model and implementation searched at the thorough budget, no input violating the property found",
            }
            path = common.write_replay(prop, payload)
            print(f"VIOLATION property={prop} replay={path} no-failing-input-found")
            violations = 1
            rc = 1

        extra = {}
        if anchors_changed:
            extra["anchor_fingerprint_changed"] = True
        if escalated is not None:
            extra["escalated_search_evaluations"] = escalated.evaluations
        common.write_evidence(prop, args.tier, seed, gate, out, time.time() - t0, violations, mod.ASSUMPTIONS, extra)
        log(f"[{prop}] tier={args.tier} seed={seed} evals={out.evaluations} nontrivial={len(out.nontrivial)} "
            f"proof_ok={gate.ok} ({gate.discharged}/{len(gate.theorems)}) disagreements={len(out.disagreements)} "
            f"oracle_failures={len(out.oracle_failures)} wall={time.time()-t0:.1f}s rc={rc}")
        return rc
    except Exception:  # noqa: BLE001
        log(traceback.format_exc())
        return 2


if __name__ == "__main__":
    sys.exit(main())
