"""Type-directed generator of CASes (as sessions): type systems over a name pool engineered for the
quantifiers of C01/C02/C04/C05/C16, feature structures whose feature values match the declared kinds,
indexed or only referenced, in several views with astral text.  The generator keeps its own description
of everything it builds (the "shadow"), which the oracles use."""
from harness.sessions import SB

PRIMS = ["uima.cas.Integer", "uima.cas.String", "uima.cas.Boolean", "uima.cas.Double", "uima.cas.Float",
         "uima.cas.Long", "uima.cas.Short", "uima.cas.Byte"]
PRIM_ARRAYS = {"uima.cas.IntegerArray": "int", "uima.cas.StringArray": "str", "uima.cas.BooleanArray": "bool",
               "uima.cas.DoubleArray": "float", "uima.cas.FloatArray": "float", "uima.cas.LongArray": "int",
               "uima.cas.ShortArray": "int", "uima.cas.ByteArray": "byte"}
PRIM_LISTS = {"uima.cas.IntegerList": "int", "uima.cas.FloatList": "float", "uima.cas.StringList": "str"}
TYPE_POOL = ["x.A", "x.B", "x.y.C", "a.type.Token", "b.type.Token", "c.type0.Tok", "q.cas.Item", "q.xmi.Item", "q.tcas.Span", "Plain",
             "NoNs", "de.tudarmstadt.Deep", "x.Str"]
TEXTS = ["The quick brown fox", "a\U0001f600b\U0001f600c def ghi", "", "日本語のテキスト and more", "x" * 40]
INT_EDGE = [0, 1, -1, 2 ** 31 - 1, -2 ** 31, 2 ** 63 - 1, -2 ** 63, 42]
def _canon_float(t):
    import math
    x = float(t)
    if math.isnan(x):
        return "NaN"
    if math.isinf(x):
        return "Infinity" if x > 0 else "-Infinity"
    return repr(x).upper().replace("E+", "E")


FLOAT_TOK = [_canon_float(t) for t in ["0.0", "1.5", "-2.25", "NaN", "Infinity", "-Infinity", "1.7976931348623157E308",
                                       "5E-324", "1.0E-5", "123456.789", "-0.0", "1E22", "2.5E-7"]]
STRINGS = ["", "plain", "with space", " lead and trail ", "quote\"s and 'apos'", "<tag> & entity", "üñí \U0001f600", "tab\there",
           "line\nbreak", "0", "None", "true", " ", "\n  ", "\t"]


def rand_string(rng):
    return rng.choice(STRINGS)


class CasGen:
    """opts: xmi_safe (avoid what XMI cannot express: null FSArray elements, empty inline string lists, …),
    json (non-text sofas), max_views"""

    def __init__(self, rng, n_types=4, n_fs=8, xmi_safe=True, max_views=3, lenient=False, foreign=False, flat=False):
        self.rng = rng
        self.sb = SB()
        self.xmi_safe = xmi_safe
        self.ts = self.sb.ts_new()
        self.types = {}      # name -> {"super":…, "feats": {name: spec}}
        self.order = []
        self.fs = {}         # label -> {"type":…, "vals": {...}, "view": name or None, "indexed": bool}
        self.views = {}      # name -> handle
        self.view_text = {}
        self.n_types, self.n_fs, self.max_views = n_types, n_fs, max_views
        self.lenient = lenient
        self.flat = flat     # only primitive and plain reference features (the fragment of the round-trip theorems)

    # ---------- type system ----------
    def is_annotation(self, t):
        while t in self.types:
            t = self.types[t]["super"]
        return t in ("uima.tcas.Annotation", "uima.tcas.DocumentAnnotation")

    def eff_feats(self, t):
        out = {}
        chain = []
        while t in self.types:
            chain.append(t)
            t = self.types[t]["super"]
        for u in reversed(chain):
            out.update(self.types[u]["feats"])
        return out

    def make_types(self):
        rng = self.rng
        names = rng.sample(TYPE_POOL, min(self.n_types, len(TYPE_POOL)))
        if all(n == "x.Str" for n in names):
            names.append("x.A")
        if rng.random() < 0.2:
            # a type without namespace named like the short name of a packaged type that is created before it (short-name lookups
            # must not confuse the two: merge of embedded and supplied type systems, lenient checks, get_type)
            pk = [n for n in names if "." in n and n != "x.Str"]
            if pk:
                bare = rng.choice(pk).rsplit(".", 1)[1]
                if bare not in names:
                    names.append(bare)
        for n in names:
            if n == "x.Str" and self.flat:
                continue
            if n == "x.Str":
                sup = "uima.cas.String"
            else:
                cands = ["uima.tcas.Annotation", "uima.tcas.Annotation", "uima.cas.TOP"] + [m for m in self.order if m != "x.Str"]
                if rng.random() < 0.12:
                    cands = ["uima.cas.AnnotationBase"]
                sup = rng.choice(cands)
            self.sb.create_type(self.ts, n, sup)
            self.types[n] = {"super": sup, "feats": {}}
            self.order.append(n)
        struct = [n for n in self.order if n != "x.Str"]
        for n in struct:
            if self.types[n]["super"] == "uima.cas.AnnotationBase":
                for fname in ("begin", "end"):
                    spec = {"name": fname, "kind": "prim", "range": "uima.cas.Integer", "py": fname, "span": True}
                    self.types[n]["feats"][fname] = spec
                    self.sb.create_feature(self.ts, n, fname, "uima.cas.Integer")
        for n in struct:
            taken = set(self.eff_feats(n))
            for _ in range(rng.randint(1, 5)):
                spec = self.rand_feature(struct)
                fname = spec["name"]
                pyname = fname + "_" if fname in ("self", "type") else fname
                if pyname in taken or any(pyname in self.types[d]["feats"] for d in self.order if self.descends(d, n)):
                    continue
                if fname in ("begin", "end", "sofa") and self.is_annotation(n):
                    continue
                if fname in ("begin", "end") and ({"begin", "end"} - {fname}) & taken:
                    continue   # a non-annotation type with both names would be indexed by these values
                taken.add(pyname)
                spec["py"] = pyname
                self.types[n]["feats"][pyname] = spec
                self.sb.create_feature(self.ts, n, fname, spec["range"], elem=spec.get("elem"), multi=spec.get("multi"))
        return struct

    def descends(self, d, n):
        while d in self.types:
            d = self.types[d]["super"]
            if d == n:
                return True
        return False

    def rand_feature(self, struct):
        rng = self.rng
        kind = rng.choice(["prim", "prim", "ref", "ref", "fsarray", "primarray", "fslist", "primlist"])
        base = rng.choice(["f", "g", "value", "head2", "self", "type", "begin", "end", "items", "label", "k1", "k2", "k3"])
        if self.flat:
            kind = rng.choice(["prim", "prim", "ref"])
            base = rng.choice(["f", "g", "value", "head2", "begin", "end", "items", "label", "k1", "k2", "k3"])
        multi = rng.choice([None, None, True, False])
        if kind == "prim":
            r = rng.choice(PRIMS + (["x.Str"] if "x.Str" in self.types else []))
            return {"name": base, "kind": "prim", "range": r}
        if kind == "ref":
            if rng.random() < 0.15 and not self.flat:
                return {"name": base, "kind": "ref", "range": rng.choice(["uima.cas.NonEmptyFSList", "uima.cas.ListBase", "uima.cas.ArrayBase", "uima.cas.EmptyFSList"]),
                        "node": True}
            return {"name": base, "kind": "ref", "range": rng.choice(struct + ["uima.tcas.Annotation", "uima.cas.TOP"])}
        if kind == "fsarray":
            return {"name": base, "kind": "fsarray", "range": "uima.cas.FSArray", "multi": multi,
                    "elem": rng.choice([None, None, "uima.tcas.Annotation"] + struct[:1])}
        if kind == "primarray":
            r = rng.choice(sorted(PRIM_ARRAYS))
            return {"name": base, "kind": "primarray", "range": r, "multi": multi, "ek": PRIM_ARRAYS[r]}
        if kind == "fslist":
            return {"name": base, "kind": "fslist", "range": "uima.cas.FSList", "multi": multi,
                    "elem": rng.choice([None, None] + struct)}
        r = rng.choice(sorted(PRIM_LISTS))
        return {"name": base, "kind": "primlist", "range": r, "multi": multi, "ek": PRIM_LISTS[r]}

    # ---------- values ----------
    def prim_value(self, r):
        rng = self.rng
        base = r
        if r == "x.Str":
            base = "uima.cas.String"
        if base == "uima.cas.String":
            return rand_string(rng)
        if base == "uima.cas.Boolean":
            return rng.random() < 0.5
        if base in ("uima.cas.Double", "uima.cas.Float"):
            return {"f": rng.choice(FLOAT_TOK)}
        if base == "uima.cas.Byte":
            return rng.randint(-128, 127)
        if base == "uima.cas.Short":
            return rng.choice([0, 1, -1, 32767, -32768])
        if base == "uima.cas.Integer":
            return rng.choice([0, 1, -1, 2 ** 31 - 1, -2 ** 31, 7])
        return rng.choice(INT_EDGE)

    def elem_values(self, ek, n):
        rng = self.rng
        if ek == "int":
            return {"is": [rng.choice(INT_EDGE[:6] + [5, 9]) for _ in range(n)]}
        if ek == "byte":
            return {"is": [rng.randint(0, 255) for _ in range(n)]}
        if ek == "float":
            return {"fs": [rng.choice(FLOAT_TOK) for _ in range(n)]}
        if ek == "bool":
            return {"bs": [rng.random() < 0.5 for _ in range(n)]}
        return {"ss": [rng.choice(STRINGS) for _ in range(n)]}

    def new_prim_array(self, r, ek):
        n = self.rng.choice([0, 1, 2, 4])
        ev = self.elem_values(ek, n)
        l = self.sb.fs_new(self.ts, r, {"elements": ev})
        self.fs[l] = {"type": r, "array": ev, "aux": True}
        return l

    def new_fs_array(self, targets):
        l = self.sb.fs_new(self.ts, "uima.cas.FSArray", {"elements": {"rs": targets}})
        self.fs[l] = {"type": "uima.cas.FSArray", "array": {"rs": targets}, "aux": True}
        return l

    def new_list(self, kind, values):
        """kind: fs | int | float | str ; values: labels / prims"""
        names = {"fs": "FS", "int": "Integer", "float": "Float", "str": "String"}[kind]
        cur = self.sb.fs_new(self.ts, "uima.cas.Empty%sList" % names, {})
        self.fs[cur] = {"type": "uima.cas.Empty%sList" % names, "aux": True}
        for v in reversed(values):
            hv = v if kind != "fs" else (None if v is None else {"r": v})
            node = self.sb.fs_new(self.ts, "uima.cas.NonEmpty%sList" % names, {"head": hv, "tail": {"r": cur}})
            self.fs[node] = {"type": "uima.cas.NonEmpty%sList" % names, "aux": True}
            cur = node
        return cur

    # ---------- CAS ----------
    def build(self):
        rng = self.rng
        struct = self.make_types()
        t0 = rng.choice(TEXTS)
        if rng.random() < 0.25:
            # the text is replaced before anything is added: the offset mapping must follow the current text
            h0 = self.sb.cas_new(self.ts, lenient=self.lenient, text=TEXTS[1])
            self.sb.op(op="cas.sofa_set", h=h0, field="string", v=[ord(c) for c in t0])
        else:
            h0 = self.sb.cas_new(self.ts, lenient=self.lenient, text=t0)
        self.views["_InitialView"] = h0
        self.view_text["_InitialView"] = t0
        for k in range(rng.randint(0, self.max_views - 1)):
            name = "view%d" % (k + 2)
            h = self.sb.create_view(h0, name)
            t = rng.choice(TEXTS)
            if rng.random() < 0.25:
                self.sb.op(op="cas.sofa_set", h=h, field="string", v=[ord(c) for c in TEXTS[1]])
            self.sb.op(op="cas.sofa_set", h=h, field="string", v=[ord(c) for c in t])
            self.sb.op(op="cas.sofa_set", h=h, field="mime", v="text/plain")
            self.views[name] = h
            self.view_text[name] = t
        # main structures
        mains = []
        for i in range(self.n_fs):
            t = rng.choice(struct)
            vname = rng.choice(list(self.views))
            feats = {}
            if self.is_annotation(t):
                L = len(self.view_text[vname])
                b = rng.randint(0, L)
                e = rng.randint(b, L)
                feats["begin"], feats["end"] = b, e
                be = (b, e)
            else:
                be = (None, None)
            for pn, spec in self.eff_feats(t).items():
                if spec.get("span"):
                    feats[pn] = rng.randint(0, 12)
                elif spec["kind"] == "prim" and rng.random() < 0.8:
                    feats[pn] = self.prim_value(spec["range"])
            l = self.sb.fs_new(self.ts, t, feats)
            self.fs[l] = {"type": t, "view": vname, "main": True, "b": be[0], "e": be[1]}
            mains.append(l)
        # references and collections
        shared_arrays = []
        for l in mains:
            t = self.fs[l]["type"]
            for pn, spec in self.eff_feats(t).items():
                k = spec["kind"]
                if k == "prim" or rng.random() < 0.25:
                    continue
                multi = bool(spec.get("multi"))
                if k == "ref" and spec.get("node"):
                    # a plain reference to a list node / array object: the target is a structure of its own
                    r = spec["range"]
                    if r == "uima.cas.ArrayBase":
                        tgt = self.new_fs_array([rng.choice(mains) for _ in range(rng.randint(0, 2))])
                    elif r == "uima.cas.EmptyFSList":
                        tgt = self.new_list("fs", [])
                    else:
                        tgt = self.new_list("fs", [rng.choice(mains) for _ in range(rng.randint(1, 2))])
                    self.sb.op(op="fs.set", fs=l, path=pn, v={"r": tgt})
                elif k == "ref":
                    cands = [m for m in mains if self.compatible(self.fs[m]["type"], spec["range"])]
                    if cands:
                        self.sb.op(op="fs.set", fs=l, path=pn, v={"r": rng.choice(cands)})
                elif k == "fsarray":
                    n = rng.choice([0, 1, 2, 3])
                    targets = [rng.choice(mains) for _ in range(n)]
                    if not self.xmi_safe and n and rng.random() < 0.3:
                        targets[rng.randrange(n)] = None
                    if multi and shared_arrays and rng.random() < 0.4:
                        arr = rng.choice(shared_arrays)
                    else:
                        arr = self.new_fs_array(targets)
                        if multi:
                            shared_arrays.append(arr)
                    self.sb.op(op="fs.set", fs=l, path=pn, v={"r": arr})
                elif k == "primarray":
                    arr = self.new_prim_array(spec["range"], spec["ek"])
                    self.sb.op(op="fs.set", fs=l, path=pn, v={"r": arr})
                elif k == "fslist":
                    n = rng.choice([0, 1, 2, 3])
                    lst = self.new_list("fs", [rng.choice(mains) for _ in range(n)])
                    self.sb.op(op="fs.set", fs=l, path=pn, v={"r": lst})
                elif k == "primlist":
                    n = rng.choice([0, 1, 2, 3])
                    if self.xmi_safe and not multi and n == 0 and spec["ek"] == "str":
                        n = 1   # an empty inline StringList cannot be expressed in XMI (finding X5)
                    vals = [self.scalar(spec["ek"]) for _ in range(n)]
                    lst = self.new_list(spec["ek"], vals)
                    self.sb.op(op="fs.set", fs=l, path=pn, v={"r": lst})
        # index some, leave the others to be reached by reference; annotations always carry their sofa
        indexed = []
        keys = set()
        for l in mains:
            vname = self.fs[l]["view"]
            # no two indexed structures of one type in one view share their index key: the order in which the
            # library visits them (and hands out ids) would otherwise hinge on id() ties (cf. C14's precondition)
            key = (vname, self.fs[l]["type"], self.fs[l].get("b"), self.fs[l].get("e"))
            if key in keys:
                tie = True
            else:
                tie = False
            if (rng.random() < 0.6 or not indexed) and not tie:
                keys.add(key)
                self.sb.op(op="cas.add", h=self.views[vname], fs=l)
                self.fs[l]["indexed"] = True
                indexed.append(l)
                others = [v for v in self.views if v != vname]
                if others and rng.random() < 0.15:
                    v2 = rng.choice(others)
                    key2 = (v2, self.fs[l]["type"], self.fs[l].get("b"), self.fs[l].get("e"))
                    L2 = len(self.view_text[v2])
                    if key2 not in keys and (self.fs[l].get("e") is None or self.fs[l]["e"] <= L2):
                        # indexed in two views: an annotation then carries the sofa of the view it was added to last
                        keys.add(key2)
                        self.sb.op(op="cas.add", h=self.views[v2], fs=l)
                        self.fs[l]["view2"] = v2
            elif self.is_annotation(self.fs[l]["type"]):
                self.sb.op(op="fs.set", fs=l, path="sofa", v={"sofa": [0, vname]})
        self.mains = mains
        return self

    def tsinfo(self):
        """type -> {"super", "feats": {python name: spec with "xml" name}} for the independent readers"""
        info = {
            "uima.cas.TOP": {"super": None, "feats": {}},
            "uima.cas.AnnotationBase": {"super": "uima.cas.TOP", "feats": {"sofa": {"xml": "sofa", "kind": "sofa"}}},
            "uima.tcas.Annotation": {"super": "uima.cas.AnnotationBase", "feats": {
                "begin": {"xml": "begin", "kind": "prim", "range": "uima.cas.Integer"},
                "end": {"xml": "end", "kind": "prim", "range": "uima.cas.Integer"}}},
            "uima.tcas.DocumentAnnotation": {"super": "uima.tcas.Annotation", "feats": {
                "language": {"xml": "language", "kind": "prim", "range": "uima.cas.String"}}},
        }
        for kind, pr in (("FS", None), ("Integer", "uima.cas.Integer"), ("Float", "uima.cas.Float"), ("String", "uima.cas.String")):
            info["uima.cas.%sList" % kind] = {"super": "uima.cas.TOP", "feats": {}}
            info["uima.cas.Empty%sList" % kind] = {"super": "uima.cas.%sList" % kind, "feats": {}}
            head = {"xml": "head", "kind": "ref", "range": "uima.cas.TOP"} if pr is None else {"xml": "head", "kind": "prim", "range": pr}
            info["uima.cas.NonEmpty%sList" % kind] = {"super": "uima.cas.%sList" % kind, "feats": {
                "head": head, "tail": {"xml": "tail", "kind": "ref", "range": "uima.cas.%sList" % kind}}}
        for n in self.order:
            feats = {}
            for pn, sp in self.types[n]["feats"].items():
                d = dict(sp)
                d["xml"] = sp["name"]
                if d["kind"] == "prim" and d["range"] == "x.Str":
                    d["range"] = "uima.cas.String"
                feats[pn] = d
            info[n] = {"super": self.types[n]["super"], "feats": feats}
        return info

    def scalar(self, ek):
        rng = self.rng
        if ek == "int":
            return rng.choice([0, 5, -7, 2 ** 31 - 1])
        if ek == "float":
            return {"f": rng.choice(FLOAT_TOK)}
        return rng.choice([s for s in STRINGS if s])   # heads of string lists: "" is the allowed equivalence, kept apart

    def compatible(self, t, r):
        if r == "uima.cas.TOP":
            return True
        if r == "uima.tcas.Annotation":
            return self.is_annotation(t)
        while t in self.types:
            if t == r:
                return True
            t = self.types[t]["super"]
        return t == r


def add_late_extension(g, rng, early_ops):
    """A type system that grows while instances exist: a fresh type (unique name per scenario: `Type.__eq__` is structural across
    type systems, so equally named types of other scenarios run by the same worker could answer for it in a per-type cache) with
    one instance, then `early_ops(h0)` (serialisations / typecheck whose results are not looked at), then new primitive, reference
    and FSArray features on that type, used by a second instance; the first instance never got those slots."""
    h0 = g.views["_InitialView"]
    late = "x.Late%d" % rng.randrange(10 ** 9)
    g.sb.create_type(g.ts, late, "uima.cas.TOP")
    g.sb.create_feature(g.ts, late, "v", "uima.cas.Integer")
    f0 = g.sb.fs_new(g.ts, late, {"v": 1})
    g.sb.op(op="cas.add", h=h0, fs=f0)
    for o in early_ops(h0):
        g.sb.op(**o)
    late_range = rng.choice(["uima.cas.String", "uima.cas.Integer"])
    late_elem = rng.choice([None, late, "uima.tcas.Annotation"])
    g.sb.create_feature(g.ts, late, "late", late_range)
    g.sb.create_feature(g.ts, late, "lateRef", late)
    g.sb.create_feature(g.ts, late, "lateArr", "uima.cas.FSArray", elem=late_elem)
    feats = {"v": 2, "lateRef": {"r": f0}}
    f1 = g.sb.fs_new(g.ts, late, feats)
    g.sb.op(op="cas.add", h=h0, fs=f1)
    # the independent readers take the feature table from the generator
    g.types[late] = {"super": "uima.cas.TOP", "feats": {
        "v": {"name": "v", "py": "v", "kind": "prim", "range": "uima.cas.Integer"},
        "late": {"name": "late", "py": "late", "kind": "prim", "range": late_range},
        "lateRef": {"name": "lateRef", "py": "lateRef", "kind": "ref", "range": late},
        "lateArr": {"name": "lateArr", "py": "lateArr", "kind": "fsarray", "range": "uima.cas.FSArray", "multi": None, "elem": late_elem}}}
    g.order.append(late)
    return late, f0, f1
