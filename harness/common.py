"""Shared machinery of the checks: Lean build + axiom audit (proof gate), driver client, evidence,
known findings, verdicts."""
import hashlib
import json
import os
import random
import re
import subprocess
import sys
import time

HERE = os.path.dirname(os.path.abspath(__file__))
VERIF = os.path.dirname(HERE)
LEAN = os.path.join(VERIF, "lean")
REPO = os.environ.get("CASSIS_REPO", "/repo")
PY = sys.executable
DRIVER = os.path.join(LEAN, ".lake", "build", "bin", "cassis_driver")
STD_AXIOMS = {"propext", "Classical.choice", "Quot.sound"}
FORBIDDEN = re.compile(r"\bsorry\b|\badmit\b|^\s*axiom\s|native_decide|bv_decide|implemented_by|\bunsafe\s|maxHeartbeats\s+0\b", re.M)

TRUSTED_BASE = [
    "Lean 4.33.0 kernel (leanchecker re-check in the thorough tier)",
    "axioms: subset of {propext, Classical.choice, Quot.sound} as printed by #print axioms (listed under 'axioms')",
    "harness/extract_builtins.py: runtime introspection of cassis.typesystem -> Gen/Builtins.lean",
    "correspondence check (harness + lean/Driver.lean JSON glue): differential testing, agreement on the scenarios run only",
    "modelled, not verified: sortedcontainers.SortedKeyList, toposort, lxml/json text layer, attrs slots classes, CPython int/str/float conversions, dict insertion order, id() uniqueness",
]


def log(*a):
    print(*a, file=sys.stderr, flush=True)


def rng_for(seed, prop, shard=0):
    return random.Random(f"{seed}/{prop}/{shard}")


# --------------------------------------------------------------------------------------------
# Lean side
# --------------------------------------------------------------------------------------------


def regenerate_builtins():
    r = subprocess.run(
        [PY, os.path.join(HERE, "extract_builtins.py")],
        capture_output=True,
        text=True,
        env=dict(os.environ, CASSIS_REPO=REPO),
    )
    return r.returncode == 0, (r.stdout + r.stderr).strip()


def lake_build(targets, timeout=3000):
    t0 = time.time()
    try:
        r = subprocess.run(["lake", "build"] + list(targets), cwd=LEAN, capture_output=True, text=True, timeout=timeout)
    except subprocess.TimeoutExpired:
        return False, "lake build timed out", time.time() - t0
    out = r.stdout + r.stderr
    return r.returncode == 0, out, time.time() - t0


def strip_comments(src):
    # remove /- ... -/ (nested not handled beyond one level, good enough for a grep) and -- comments
    out = []
    i, n, depth = 0, len(src), 0
    while i < n:
        if src.startswith("/-", i):
            depth += 1
            i += 2
            continue
        if depth and src.startswith("-/", i):
            depth -= 1
            i += 2
            continue
        if depth:
            i += 1
            continue
        if src.startswith("--", i):
            j = src.find("\n", i)
            i = n if j < 0 else j
            continue
        out.append(src[i])
        i += 1
    return "".join(out)


def import_closure(modules):
    """source files (relative to lean/) in the transitive import closure of the given modules"""
    seen, todo = set(), list(modules)
    while todo:
        m = todo.pop()
        if m in seen or not m.startswith("CassisModel"):
            continue
        path = os.path.join(LEAN, *m.split(".")) + ".lean"
        if not os.path.exists(path):
            continue
        seen.add(m)
        for line in open(path, encoding="utf-8"):
            mm = re.match(r"\s*import\s+(\S+)", line)
            if mm:
                todo.append(mm.group(1))
    return sorted(seen)


def source_scan(modules):
    """forbidden tokens in the Lean sources the property's modules depend on, comments stripped"""
    hits = []
    for m in import_closure(modules):
        p = os.path.join(LEAN, *m.split(".")) + ".lean"
        src = strip_comments(open(p, encoding="utf-8").read())
        for mt in FORBIDDEN.finditer(src):
            hits.append(f"{os.path.relpath(p, LEAN)}: {mt.group(0).strip()}")
    return hits


def audit_axioms(prop, modules, theorems):
    """#print axioms for every obligation. Returns dict theorem -> list of axioms | None (missing)"""
    d = os.path.join(LEAN, ".lake", "audit")
    os.makedirs(d, exist_ok=True)
    path = os.path.join(d, f"Audit_{prop}.lean")
    with open(path, "w") as f:
        for m in modules:
            f.write(f"import {m}\n")
        for t in theorems:
            f.write(f"#print axioms {t}\n")
    r = subprocess.run(["lake", "env", "lean", path], cwd=LEAN, capture_output=True, text=True, timeout=1200)
    out = r.stdout + r.stderr
    res = {t: None for t in theorems}
    # messages may wrap over several lines: join continuation lines
    txt = re.sub(r"\n\s+", " ", out)
    for t in theorems:
        m = re.search(r"'" + re.escape(t) + r"' depends on axioms: \[([^\]]*)\]", txt)
        if m:
            res[t] = [a.strip() for a in m.group(1).split(",") if a.strip()]
            continue
        if re.search(r"'" + re.escape(t) + r"' does not depend on any axioms", txt):
            res[t] = []
    return res, out


def leanchecker(modules):
    r = subprocess.run(["lake", "env", "leanchecker"] + list(modules), cwd=LEAN, capture_output=True, text=True, timeout=3000)
    return r.returncode == 0, (r.stdout + r.stderr)[-2000:]


class ProofGate:
    def __init__(self, prop, modules, theorems, tier):
        self.prop, self.modules, self.theorems, self.tier = prop, modules, theorems, tier
        self.ok = False
        self.driver_ok = False
        self.details = []
        self.axioms = {}
        self.discharged = 0
        self.build_s = 0.0

    def run(self):
        ok, msg = regenerate_builtins()
        if not ok:
            self.details.append("extract_builtins failed: " + msg[-500:])
        bok, out, dt = lake_build(["cassis_driver"])
        self.build_s += dt
        self.driver_ok = bok and os.path.exists(DRIVER)
        if not self.driver_ok:
            self.details.append("driver build failed: " + out[-1500:])
        # the kernel-decided facts about the regenerated built-in table, evaluated first by compiled code:
        # deciding a *false* instance in the kernel can take unboundedly long, so it is not attempted
        table_dependent = any(m in ("CassisModel.Proofs.TypeSystem", "CassisModel.Proofs.Features")
                              for m in import_closure(self.modules))
        if table_dependent and self.driver_ok:
            try:
                sc = Driver().run([{"k": "selfcheck"}])[0].get("ok", {})
            except Exception as e:  # noqa: BLE001
                sc = {"selfcheck failed to run: " + repr(e)[:200]: False}
            bad = [k for k, v in sc.items() if not v]
            if bad:
                self.details.append("obligations about the regenerated built-in table are false (evaluated by the "
                                    "compiled model, kernel check not attempted): " + "; ".join(bad))
                self.failed_theorems = ["Cassis.TS.builtins_replay / consistent_builtins / featInv_builtins: " + b for b in bad]
                return self
        bok, out, dt = lake_build(self.modules, timeout=900)
        self.build_s += dt
        if not bok:
            self.details.append("lake build of " + " ".join(self.modules) + " failed: " + out[-3000:])
            self.failed_theorems = list(self.theorems)
            return self
        hits = source_scan(self.modules)
        if hits:
            self.details.append("forbidden tokens in Lean sources: " + "; ".join(hits[:10]))
        ax, out = audit_axioms(self.prop, self.modules, self.theorems)
        self.axioms = ax
        bad = []
        for t, a in ax.items():
            if a is None:
                bad.append(t + " (missing)")
            elif not set(a) <= STD_AXIOMS:
                bad.append(t + " (axioms " + ",".join(a) + ")")
            else:
                self.discharged += 1
        if bad:
            self.details.append("obligations not discharged: " + "; ".join(bad))
        self.failed_theorems = bad
        if self.tier == "thorough":
            cok, cout = leanchecker(self.modules)
            if not cok:
                self.details.append("leanchecker failed: " + cout)
                self.discharged = 0
        self.ok = bok and not hits and not bad and not [d for d in self.details if d.startswith("leanchecker")]
        return self

    def axiom_union(self):
        s = set()
        for a in self.axioms.values():
            if a:
                s |= set(a)
        return sorted(s)


class Driver:
    """Batch client of the compiled model driver."""

    def __init__(self):
        self.available = os.path.exists(DRIVER)

    def run(self, lines, timeout=600):
        if not self.available:
            return None
        data = "\n".join(json.dumps(x, separators=(",", ":"), ensure_ascii=True) for x in lines) + "\n"
        r = subprocess.run([DRIVER], input=data, capture_output=True, text=True, timeout=timeout)
        outs = [json.loads(l) for l in r.stdout.split("\n") if l.strip()]   # (not splitlines: U+0085, U+2028 inside strings are not line ends)
        if len(outs) != len(lines):
            raise RuntimeError(f"driver answered {len(outs)} lines for {len(lines)} (rc={r.returncode}): {r.stderr[-500:]}")
        return outs


# --------------------------------------------------------------------------------------------
# Findings, evidence, verdict
# --------------------------------------------------------------------------------------------


def load_findings(prop):
    p = os.path.join(VERIF, "known_findings.json")
    if not os.path.exists(p):
        return []
    data = json.load(open(p))
    return [f for f in data.get("findings", []) if f.get("property") == prop]


def write_replay(prop, payload):
    d = os.path.join(VERIF, "replays")
    os.makedirs(d, exist_ok=True)
    blob = json.dumps(payload, sort_keys=True, default=str)
    h = hashlib.sha256(blob.encode()).hexdigest()[:12]
    path = os.path.join(d, f"{prop}-{h}.json")
    with open(path, "w") as f:
        json.dump(payload, f, indent=1, sort_keys=True, default=str)
    return os.path.relpath(path, VERIF)


def write_evidence(prop, tier, seed, gate, outcome, wall_s, violations, assumptions, extra=None):
    d = os.path.join(VERIF, "evidence")
    os.makedirs(d, exist_ok=True)
    cov = {
        "obligations": len(gate.theorems),
        "discharged": gate.discharged,
        "checker_cmd": "cd lean && lake build " + " ".join(gate.modules) + " && lake env lean .lake/audit/Audit_%s.lean  (#print axioms per obligation)" % prop
        + ("; lake env leanchecker " + " ".join(gate.modules) if tier == "thorough" else ""),
        "trusted_base": TRUSTED_BASE,
        "axioms": gate.axiom_union(),
        "theorems": {t: gate.axioms.get(t) for t in gate.theorems},
        "proof_gate_ok": gate.ok,
        "proof_gate_details": gate.details,
        "lean_build_s": round(gate.build_s, 2),
        "evaluations": outcome.evaluations,
        "distinct_nontrivial": len(outcome.nontrivial),
        "rule": outcome.rule,
        "samples": outcome.samples[:6],
        "exhaustive": bool(outcome.exhaustive),
        "exhaustive_scope": outcome.exhaustive_scope,
        "correspondence_disagreements": len(outcome.disagreements),
        "oracle_failures": len(outcome.oracle_failures),
        "known_findings_reproduced": outcome.known_hits,
        "histograms": outcome.hist,
        "partial": outcome.partial,
    }
    if extra:
        cov.update(extra)
    ev = {
        "property_id": prop,
        "tier": tier,
        "seed": seed,
        "level": "proof",
        "coverage": cov,
        "assumptions": assumptions,
        "wall_s": round(wall_s, 2),
        "violations": violations,
    }
    with open(os.path.join(d, f"{prop}.json"), "w") as f:
        json.dump(ev, f, indent=1, default=str)


class Outcome:
    def __init__(self):
        self.evaluations = 0
        self.nontrivial = set()
        self.rule = ""
        self.samples = []
        self.exhaustive = False
        self.exhaustive_scope = ""
        self.disagreements = []  # correspondence: {"scenario":…, "impl":…, "model":…, "where":…}
        self.oracle_failures = []  # property: {"scenario":…, "what":…, …}
        self.known_hits = []
        self.hist = {}
        self.partial = []  # statements proved only partially / runtime parts outside the model

    def count(self, key, k=1):
        self.hist[key] = self.hist.get(key, 0) + k

    def nontriv(self, key):
        self.nontrivial.add(key if isinstance(key, (str, int, tuple)) else json.dumps(key, sort_keys=True))

    def sample(self, s):
        if len(self.samples) < 6:
            self.samples.append(s)


def canon(x):
    return json.dumps(x, sort_keys=True, separators=(",", ":"), default=str)


def bud(budget, quick, thorough):
    """scenario count for a tier; "search" (a gate broke in the quick tier: look harder for a failing input before
    reporting) uses a fifth of the thorough budget"""
    if budget == "quick":
        return quick
    if budget == "search":
        return max(quick, thorough // 5)
    return thorough
