"""Independent reader/writer for UIMA XMI documents (and, further down, JSON CAS documents) built on the
standard library only (xml.etree.ElementTree, json).  Shares no code with cassis.

Abstract XMI document = list of elements {"ty": full type name denoted by the tag, "attrs": [[name, value]…],
"kids": [[local name, text-or-None]…]} in document order — the same shape lean/Driver.lean uses.
"""
import json
import xml.etree.ElementTree as ET
from xml.sax.saxutils import escape, quoteattr

XMI_URI = "http://www.omg.org/XMI"


def tag_to_type(tag):
    if not tag.startswith("{"):
        return tag
    uri, local = tag[1:].split("}", 1)
    assert uri.startswith("http:///") and uri.endswith(".ecore"), uri
    pkg = uri[len("http:///"): -len(".ecore")].replace("/", ".")
    name = pkg + "." + local
    if name.startswith("uima.noNamespace."):
        name = name[len("uima.noNamespace."):]
    return name


def type_to_uri_local(name):
    if "." not in name:
        name = "uima.noNamespace." + name
    parts = name.split(".")
    return "http:///" + "/".join(parts[:-1]) + ".ecore", parts[-1]


def read_xmi(text):
    """bytes/str of an XMI document -> abstract document"""
    if isinstance(text, str):
        text = text.encode("utf-8")
    root = ET.fromstring(text)
    assert root.tag == "{%s}XMI" % XMI_URI, root.tag
    doc = []
    for el in root:
        attrs = []
        for k, v in el.attrib.items():
            if k == "{%s}id" % XMI_URI:
                k = "xmi:id"
            attrs.append([k, v])
        kids = [[c.tag, c.text] for c in el]
        doc.append({"ty": tag_to_type(el.tag), "attrs": attrs, "kids": kids})
    return doc


def canon_doc(doc):
    """attribute order is not part of the infoset"""
    return [{"ty": e["ty"], "attrs": sorted([list(a) for a in e["attrs"]]), "kids": [list(k) for k in e["kids"]]} for e in doc]


def write_xmi(doc, layout=None, rng=None):
    """abstract document -> XML text under a layout record:
       order: permutation of element indices (None = as given)
       prefixes: 'short' (last package segment, disambiguated) | 'numbered' (ns0, ns1, …)
       attr_order: 'given' | 'sorted' | 'reversed'
       pretty: bool
       drop_empty_views: omit View elements without members
    """
    layout = layout or {}
    els = list(doc)
    order = layout.get("order")
    if order is not None:
        els = [els[i] for i in order]
    if layout.get("drop_empty_views"):
        def empty_view(e):
            return e["ty"] == "uima.cas.View" and not dict((a[0], a[1]) for a in e["attrs"]).get("members", "").strip()
        els = [e for e in els if not empty_view(e)]
    uris = {}
    used = {"xmi"}
    for e in els:
        uri, _local = type_to_uri_local(e["ty"])
        if uri not in uris:
            if layout.get("prefixes") == "numbered":
                p = "ns%d" % len(uris)
            else:
                base = uri[len("http:///"): -len(".ecore")].split("/")[-1] or "ns"
                p, k = base, 0
                while p in used:
                    p = "%s%d" % (base, k)
                    k += 1
            used.add(p)
            uris[uri] = p
    nl = "\n" if layout.get("pretty") else ""
    ind = "  " if layout.get("pretty") else ""
    out = ['<?xml version="1.0" encoding="UTF-8"?>' + nl]
    decl = ' xmlns:xmi="%s"' % XMI_URI + "".join(' xmlns:%s="%s"' % (p, u) for u, p in uris.items())
    out.append("<xmi:XMI%s xmi:version=\"2.0\">%s" % (decl, nl))
    for e in els:
        uri, local = type_to_uri_local(e["ty"])
        attrs = [list(a) for a in e["attrs"]]
        ao = layout.get("attr_order", "given")
        if ao == "sorted":
            attrs.sort()
        elif ao == "reversed":
            attrs.reverse()
        s = ind + "<%s:%s" % (uris[uri], local)
        for k, v in attrs:
            s += " %s=%s" % (k, quoteattr(v))
        if e["kids"]:
            s += ">" + nl
            for k, t in e["kids"]:
                if t is None:
                    s += ind * 2 + "<%s/>" % k + nl
                else:
                    s += ind * 2 + "<%s>%s</%s>" % (k, escape(t), k) + nl
            s += ind + "</%s:%s>" % (uris[uri], local) + nl
        else:
            s += "/>" + nl
        out.append(s)
    out.append("</xmi:XMI>" + nl)
    return "".join(out)


def random_layout(rng, n_elements):
    return {
        "order": rng.sample(range(n_elements), n_elements) if rng.random() < 0.8 else None,
        "prefixes": rng.choice(["short", "numbered"]),
        "attr_order": rng.choice(["given", "sorted", "reversed"]),
        "pretty": rng.random() < 0.5,
        "drop_empty_views": rng.random() < 0.5,
    }
