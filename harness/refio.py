"""Independent reader/writer for UIMA XMI documents (and, further down, JSON CAS documents) built on the
standard library only (xml.etree.ElementTree, json).  Shares no code with cassis.

Abstract XMI document = list of elements {"ty": full type name denoted by the tag, "attrs": [[name, value]…],
"kids": [[local name, text-or-None]…]} in document order — the same shape lean/Driver.lean uses.
"""
import json
import xml.etree.ElementTree as ET
from xml.sax.saxutils import escape, quoteattr

XMI_URI = "http://www.omg.org/XMI"


def tag_to_type(tag):
    if not tag.startswith("{"):
        return tag
    uri, local = tag[1:].split("}", 1)
    assert uri.startswith("http:///") and uri.endswith(".ecore"), uri
    pkg = uri[len("http:///"): -len(".ecore")].replace("/", ".")
    name = pkg + "." + local
    if name.startswith("uima.noNamespace."):
        name = name[len("uima.noNamespace."):]
    return name


def type_to_uri_local(name):
    if "." not in name:
        name = "uima.noNamespace." + name
    parts = name.split(".")
    return "http:///" + "/".join(parts[:-1]) + ".ecore", parts[-1]


def read_xmi(text):
    """bytes/str of an XMI document -> abstract document"""
    if isinstance(text, str):
        text = text.encode("utf-8")
    root = ET.fromstring(text)
    assert root.tag == "{%s}XMI" % XMI_URI, root.tag
    doc = []
    for el in root:
        attrs = []
        for k, v in el.attrib.items():
            if k == "{%s}id" % XMI_URI:
                k = "xmi:id"
            attrs.append([k, v])
        kids = [[c.tag, c.text] for c in el]
        doc.append({"ty": tag_to_type(el.tag), "attrs": attrs, "kids": kids})
    return doc


def canon_doc(doc):
    """attribute order is not part of the infoset"""
    return [{"ty": e["ty"], "attrs": sorted([list(a) for a in e["attrs"]]), "kids": [list(k) for k in e["kids"]]} for e in doc]


def write_xmi(doc, layout=None, rng=None):
    """abstract document -> XML text under a layout record:
       order: permutation of element indices (None = as given)
       prefixes: 'short' (last package segment, disambiguated) | 'numbered' (ns0, ns1, …)
       attr_order: 'given' | 'sorted' | 'reversed'
       pretty: bool
       drop_empty_views: omit View elements without members
    """
    layout = layout or {}
    els = list(doc)
    order = layout.get("order")
    if order is not None:
        els = [els[i] for i in order]
    if layout.get("drop_empty_views"):
        def empty_view(e):
            return e["ty"] == "uima.cas.View" and not dict((a[0], a[1]) for a in e["attrs"]).get("members", "").strip()
        els = [e for e in els if not empty_view(e)]
    uris = {}
    used = {"xmi"}
    for e in els:
        uri, _local = type_to_uri_local(e["ty"])
        if uri not in uris:
            if layout.get("prefixes") == "numbered":
                p = "ns%d" % len(uris)
            else:
                base = uri[len("http:///"): -len(".ecore")].split("/")[-1] or "ns"
                p, k = base, 0
                while p in used:
                    p = "%s%d" % (base, k)
                    k += 1
            used.add(p)
            uris[uri] = p
    nl = "\n" if layout.get("pretty") else ""
    ind = "  " if layout.get("pretty") else ""
    out = ['<?xml version="1.0" encoding="UTF-8"?>' + nl]
    decl = ' xmlns:xmi="%s"' % XMI_URI + "".join(' xmlns:%s="%s"' % (p, u) for u, p in uris.items())
    out.append("<xmi:XMI%s xmi:version=\"2.0\">%s" % (decl, nl))
    for e in els:
        uri, local = type_to_uri_local(e["ty"])
        attrs = [list(a) for a in e["attrs"]]
        ao = layout.get("attr_order", "given")
        if ao == "sorted":
            attrs.sort()
        elif ao == "reversed":
            attrs.reverse()
        s = ind + "<%s:%s" % (uris[uri], local)
        for k, v in attrs:
            s += " %s=%s" % (k, quoteattr(v))
        if e["kids"]:
            s += ">" + nl
            for k, t in e["kids"]:
                if t is None:
                    s += ind * 2 + "<%s/>" % k + nl
                else:
                    s += ind * 2 + "<%s>%s</%s>" % (k, escape(t), k) + nl
            s += ind + "</%s:%s>" % (uris[uri], local) + nl
        else:
            s += "/>" + nl
        out.append(s)
    out.append("</xmi:XMI>" + nl)
    return "".join(out)


def random_layout(rng, n_elements):
    return {
        "order": rng.sample(range(n_elements), n_elements) if rng.random() < 0.8 else None,
        "prefixes": rng.choice(["short", "numbered"]),
        "attr_order": rng.choice(["given", "sorted", "reversed"]),
        "pretty": rng.random() < 0.5,
        "drop_empty_views": rng.random() < 0.5,
    }


# ------------------------------------------------------------------------------------------------
# JSON CAS 0.4.0
# ------------------------------------------------------------------------------------------------
import base64
import math

FLOAT_ARRAYS = ("uima.cas.FloatArray", "uima.cas.DoubleArray")


def _ftok(x):
    if math.isnan(x):
        return "NaN"
    if math.isinf(x):
        return "Infinity" if x > 0 else "-Infinity"
    return repr(float(x)).upper().replace("E+", "E")


def _jv(v):
    if isinstance(v, float):
        return {"f": _ftok(v)}
    return v


def _jv_back(v):
    if isinstance(v, dict) and "f" in v:
        return float(v["f"])
    return v


def read_json(text):
    """JSON CAS text -> abstract document"""
    data = json.loads(text)
    types = None
    if "%TYPES" in data and data["%TYPES"] is not None:
        types = []
        for name, jt in data["%TYPES"].items():
            # a type declaration is ONE object: the reserved keys and one member per feature, under whatever key - a feature
            # named like a reserved key takes its place (the abstract document keeps every member that holds a feature object)
            feats = []
            for k, jf in jt.items():
                if isinstance(jf, dict):
                    feats.append({"name": k, "range": jf.get("%RANGE"), "descr": jf.get("%DESCRIPTION"),
                                  "multi": jf.get("%MULTIPLE_REFERENCES_ALLOWED"), "elem": jf.get("%ELEMENT_TYPE")})
            sup = jt.get("%SUPER_TYPE")
            dd = jt.get("%DESCRIPTION")
            types.append({"name": name, "super": sup if isinstance(sup, str) else "", "descr": dd if isinstance(dd, str) else None, "feats": feats})
    fss = []
    raw = data.get("%FEATURE_STRUCTURES") or []
    items = [(None, f) for f in raw] if isinstance(raw, list) else [(int(k), f) for k, f in raw.items()]
    for key, f in items:
        ty = f.get("%TYPE")
        el = f.get("%ELEMENTS")
        if el is None:
            elements = None
        elif ty == "uima.cas.ByteArray":
            elements = {"k": "ints", "v": list(base64.b64decode(el))}
        elif ty in FLOAT_ARRAYS:
            elements = {"k": "flts", "v": [_jv(x) if not isinstance(x, int) or isinstance(x, bool) else {"f": _ftok(float(x))} for x in el]}
        elif ty == "uima.cas.FSArray":
            elements = {"k": "refs", "v": list(el)}
        elif all(isinstance(x, bool) for x in el) and el:
            elements = {"k": "bools", "v": list(el)}
        elif all(isinstance(x, int) for x in el) and el:
            elements = {"k": "ints", "v": list(el)}
        else:
            elements = {"k": "strs", "v": list(el)}
        feats = [[k, _jv(v)] for k, v in f.items() if not k.startswith("%")]
        fss.append({"id": f.get("%ID") if key is None else key, "ty": ty, "elements": elements, "feats": feats})
    views = []
    for name, jv in (data.get("%VIEWS") or {}).items():
        views.append({"name": name, "sofa": jv.get("%SOFA"), "members": list(jv.get("%MEMBERS") or [])})
    return {"types": types, "fss": fss, "views": views}


def canon_jdoc(doc):
    """member order inside JSON objects is not significant"""
    d = json.loads(json.dumps(doc))
    if d.get("types") is not None:
        d["types"] = sorted(d["types"], key=lambda t: t["name"])
        for t in d["types"]:
            t["feats"] = sorted(t["feats"], key=lambda f: f["name"])
    for f in d["fss"]:
        f["feats"] = sorted(f["feats"], key=lambda kv: kv[0])
    d["views"] = sorted(d["views"], key=lambda v: v["name"])
    return d


def write_json(doc, layout=None):
    """abstract document -> JSON text under a layout record:
       fs_order / type_order: permutations; dict_form: feature structures as an id-keyed object;
       pretty, ensure_ascii"""
    layout = layout or {}
    out = {}
    if doc.get("types") is not None:
        types = list(doc["types"])
        if layout.get("type_order") is not None:
            types = [types[i] for i in layout["type_order"]]
        td = {}
        for t in types:
            jt = {"%NAME": t["name"], "%SUPER_TYPE": t["super"]}
            if t.get("descr"):
                jt["%DESCRIPTION"] = t["descr"]
            for f in t["feats"]:
                jf = {"%NAME": f["name"], "%RANGE": f["range"]}
                if f.get("descr"):
                    jf["%DESCRIPTION"] = f["descr"]
                if f.get("multi") is not None:
                    jf["%MULTIPLE_REFERENCES_ALLOWED"] = f["multi"]
                if f.get("elem") is not None:
                    jf["%ELEMENT_TYPE"] = f["elem"]
                jt[f["name"]] = jf
            td[t["name"]] = jt
        out["%TYPES"] = td
    fss = list(doc["fss"])
    if layout.get("fs_order") is not None:
        fss = [fss[i] for i in layout["fs_order"]]
    rendered = []
    for f in fss:
        jf = {}
        if not layout.get("dict_form"):
            jf["%ID"] = f["id"]
        jf["%TYPE"] = f["ty"]
        el = f.get("elements")
        if el is not None:
            if f["ty"] == "uima.cas.ByteArray":
                jf["%ELEMENTS"] = base64.b64encode(bytes(el["v"])).decode("ascii")
            else:
                jf["%ELEMENTS"] = [_jv_back(x) for x in el["v"]]
        for k, v in f["feats"]:
            jf[k] = _jv_back(v)
        rendered.append((f["id"], jf))
    if layout.get("dict_form"):
        out["%FEATURE_STRUCTURES"] = {str(i): jf for i, jf in rendered}
    else:
        out["%FEATURE_STRUCTURES"] = [jf for _i, jf in rendered]
    views = list(doc["views"])
    if layout.get("view_order") is not None:
        views = [views[i] for i in layout["view_order"]]
    out["%VIEWS"] = {v["name"]: {"%SOFA": v["sofa"], "%MEMBERS": v["members"]} for v in views}
    if layout.get("views_first"):
        out = {"%VIEWS": out["%VIEWS"], **{k: v for k, v in out.items() if k != "%VIEWS"}}
    return json.dumps(out, indent=2 if layout.get("pretty") else None, ensure_ascii=bool(layout.get("ensure_ascii")))


# ------------------------------------------------------------------------------------------------
# Independent *reading* of documents into the canonical id-keyed dump (the Python twin of a spec reader).
# tsinfo: type name -> {"super": name or None, "feats": {python feature name: spec}} with
# spec = {"xml": name in documents, "kind": prim|ref|sofa|fsarray|primarray|fslist|primlist, "range": …, "multi": bool, "ek": int|float|str|bool|byte}
# ------------------------------------------------------------------------------------------------

def _u16_to_cp(text, off):
    """UTF-16 offset -> code point offset (offsets that are not on a boundary are passed through)"""
    n = 0
    for i, ch in enumerate(text):
        if n == off:
            return i
        n += 2 if ord(ch) > 0xFFFF else 1
    if n == off:
        return len(text)
    return off


def _eff(tsinfo, t):
    chain = []
    while t is not None and t in tsinfo:
        chain.append(t)
        t = tsinfo[t]["super"]
    out = {}
    for u in reversed(chain):
        out.update(tsinfo[u]["feats"])
    return out


def _is_ann(tsinfo, t):
    while t is not None and t in tsinfo:
        if t == "uima.tcas.Annotation":
            return True
        t = tsinfo[t]["super"]
    return False


def _prim(spec_range, s):
    base = spec_range
    if base in ("uima.cas.Integer", "uima.cas.Long", "uima.cas.Short", "uima.cas.Byte"):
        return int(s)
    if base in ("uima.cas.Float", "uima.cas.Double"):
        return {"f": _ftok(float(s))}
    if base == "uima.cas.Boolean":
        return {"true": True, "false": False}[s]
    return s


def _elems(ek, toks):
    if ek == "int":
        return [int(t) for t in toks]
    if ek == "float":
        return [{"f": _ftok(float(t))} for t in toks]
    if ek == "bool":
        return [{"true": True, "false": False}[t] for t in toks]
    return list(toks)


ARRAY_EK = {"uima.cas.IntegerArray": "int", "uima.cas.StringArray": "str", "uima.cas.BooleanArray": "bool",
            "uima.cas.DoubleArray": "float", "uima.cas.FloatArray": "float", "uima.cas.LongArray": "int",
            "uima.cas.ShortArray": "int", "uima.cas.ByteArray": "byte"}


def xmi_to_dump(doc, tsinfo, prim_base=None):
    """what an XMI document *says*, as the coarse id-keyed dump"""
    prim_base = prim_base or (lambda r: r)
    sofas, views, entries = {}, [], {}
    for e in doc:
        a = dict((k, v) for k, v in e["attrs"])
        if e["ty"] == "uima.cas.Sofa":
            sofas[int(a["xmi:id"])] = {"name": a["sofaID"], "num": int(a["sofaNum"]), "mime": a.get("mimeType"), "text": a.get("sofaString")}
    members = {}
    for e in doc:
        a = dict((k, v) for k, v in e["attrs"])
        if e["ty"] == "uima.cas.View":
            members[int(a["sofa"])] = sorted(int(x) for x in a.get("members", "").split())
    for sid, s in sofas.items():
        views.append({"name": s["name"], "id": sid, "num": s["num"], "mime": s["mime"], "uri": None,
                      "text": None if s["text"] is None else [ord(c) for c in s["text"]], "array": None,
                      "members": members.get(sid, [])})
    for e in doc:
        if e["ty"] in ("uima.cas.NULL", "uima.cas.Sofa", "uima.cas.View"):
            continue
        a = dict((k, v) for k, v in e["attrs"])
        kids = {}
        for k, t in e["kids"]:
            kids.setdefault(k, []).append(t)
        fid = int(a["xmi:id"])
        t = e["ty"]
        feats = {}
        if t in ARRAY_EK or t == "uima.cas.FSArray":
            if t == "uima.cas.StringArray":
                feats["elements"] = list(kids.get("elements", []))
            elif "elements" in a:
                v = a["elements"]
                if t == "uima.cas.FSArray":
                    feats["elements"] = [int(x) for x in v.split()]
                elif t == "uima.cas.ByteArray":
                    feats["elements"] = list(bytes.fromhex(v))
                else:
                    feats["elements"] = _elems(ARRAY_EK[t], v.split())
            entries[str(fid)] = {"type": t, "feats": feats}
            continue
        eff = _eff(tsinfo, t)
        by_xml = {sp["xml"]: (pn, sp) for pn, sp in eff.items()}
        text = None
        if _is_ann(tsinfo, t) and "sofa" in a:
            text = sofas[int(a["sofa"])]["text"]
        for xn, (pn, sp) in by_xml.items():
            k = sp["kind"]
            multi = bool(sp.get("multi"))
            if k == "sofa":
                if xn in a:
                    feats[pn] = {"sofa": sofas[int(a[xn])]["name"]}
            elif k == "prim":
                if xn in a:
                    v = _prim(prim_base(sp["range"]), a[xn])
                    if _is_ann(tsinfo, t) and xn in ("begin", "end") and text:
                        v = _u16_to_cp(text, v)
                    feats[pn] = v
            elif k == "ref" or (multi and k in ("fsarray", "primarray", "fslist", "primlist")):
                if xn in a:
                    feats[pn] = {"ref": int(a[xn])}
            elif k == "fsarray":
                if xn in a:
                    feats[pn] = {"arr": [int(x) for x in a[xn].split()]}
            elif k == "primarray":
                if sp["ek"] == "str":
                    if xn in kids:
                        feats[pn] = {"arr": list(kids[xn])}
                    elif xn in a:
                        feats[pn] = {"arr": []}
                elif xn in a:
                    if sp["ek"] == "byte":
                        feats[pn] = {"arr": list(bytes.fromhex(a[xn]))}
                    else:
                        feats[pn] = {"arr": _elems(sp["ek"], a[xn].split())}
            elif k == "fslist":
                if xn in a:
                    feats[pn] = {"list": [int(x) for x in a[xn].split()]}
            elif k == "primlist":
                if sp["ek"] == "str":
                    if xn in kids:
                        feats[pn] = {"list": list(kids[xn])}
                elif xn in a:
                    feats[pn] = {"list": _elems(sp["ek"], a[xn].split())}
        entries[str(fid)] = {"type": t, "feats": feats}
    keys = sorted(entries, key=int)
    return {"views": views, "fs": {k: entries[k] for k in keys}}


def doc_closed(doc):
    """ids pairwise distinct (sofas included) and every sofa reference / view member resolves; returns a
    description of the first problem or None.  (Feature references are checked by comparing the dumps.)"""
    ids = []
    for e in doc:
        a = dict((k, v) for k, v in e["attrs"])
        if "xmi:id" in a and e["ty"] != "uima.cas.NULL":
            ids.append(int(a["xmi:id"]))
    if len(set(ids)) != len(ids):
        return "two elements share an xmi:id: %r" % sorted(ids)
    idset = set(ids) | {0}
    for e in doc:
        a = dict((k, v) for k, v in e["attrs"])
        if e["ty"] == "uima.cas.View":
            if int(a["sofa"]) not in idset:
                return "view refers to a missing sofa"
            for m in a.get("members", "").split():
                if int(m) not in idset:
                    return "view member %s is not in the document" % m
        elif "sofa" in a and e["ty"] not in ("uima.cas.Sofa",):
            try:
                if int(a["sofa"]) not in idset:
                    return "sofa reference does not resolve"
            except ValueError:
                pass
    return None


def dump_refs_resolve(dump):
    ids = set(dump["fs"]) | {"0"}
    for k, e in dump["fs"].items():
        for n, v in e["feats"].items():
            vals = []
            if isinstance(v, dict) and "ref" in v:
                vals = [v["ref"]]
            elif isinstance(v, dict) and ("arr" in v or "list" in v):
                vals = [x for x in (v.get("arr") or v.get("list") or []) if isinstance(x, int) and not isinstance(x, bool)]
                # only reference-valued collections are ids; primitive ones are checked by equality of the dumps
                continue
            for r in vals:
                if str(r) not in ids and r != "noid":
                    return "reference %s.%s -> %r does not resolve" % (k, n, r)
    return None


def json_to_dump(doc, tsinfo):
    """what a JSON CAS document *says*, as the fine id-keyed dump (every collection object is an entry)"""
    sofas = {}
    for f in doc["fss"]:
        if f["ty"] == "uima.cas.Sofa":
            d = dict((k, v) for k, v in f["feats"])
            sofas[f["id"]] = d
    views = []
    for v in doc["views"]:
        s = sofas.get(v["sofa"], {})
        views.append({"name": v["name"], "id": v["sofa"], "num": s.get("sofaNum"), "mime": s.get("mimeType"), "uri": s.get("sofaURI"),
                      "text": None if s.get("sofaString") is None else [ord(c) for c in s["sofaString"]],
                      "array": s.get("@sofaArray"), "members": sorted(v["members"])})
    entries = {}
    for f in doc["fss"]:
        if f["ty"] == "uima.cas.Sofa":
            continue
        t = f["ty"]
        feats = {}
        if t in ARRAY_EK or t == "uima.cas.FSArray":
            el = f.get("elements")
            vals = [] if el is None else list(el["v"])
            if t in FLOAT_ARRAYS:
                spec = {"NaN": "NaN", "Infinity": "Infinity", "Inf": "Infinity", "-Infinity": "-Infinity", "-Inf": "-Infinity"}
                vals = [{"f": spec[x]} if isinstance(x, str) else x for x in vals]
            feats["elements"] = vals
            entries[str(f["id"])] = {"type": t, "feats": feats}
            continue
        eff = _eff(tsinfo, t)
        by_xml = {sp["xml"]: (pn, sp) for pn, sp in eff.items()}
        d = {}
        for k, v in f["feats"]:
            d[k] = v
        text = None
        if _is_ann(tsinfo, t) and d.get("@sofa") in sofas:
            text = sofas[d["@sofa"]].get("sofaString")
        for xn, (pn, sp) in by_xml.items():
            if sp["kind"] == "sofa":
                if "@" + xn in d:
                    feats[pn] = {"sofa": sofas[d["@" + xn]]["sofaID"]}
            elif sp["kind"] == "prim":
                if xn in d:
                    v = d[xn]
                    if _is_ann(tsinfo, t) and xn in ("begin", "end") and text:
                        v = _u16_to_cp(text, v)
                    if sp["range"] in ("uima.cas.Float", "uima.cas.Double") and isinstance(v, int) and not isinstance(v, bool):
                        v = {"f": _ftok(float(v))}
                    feats[pn] = v
                elif "#" + xn in d:
                    feats[pn] = {"f": {"NaN": "NaN", "Infinity": "Infinity", "Inf": "Infinity", "-Infinity": "-Infinity", "-Inf": "-Infinity"}[d["#" + xn]]}
            else:
                if "@" + xn in d and d["@" + xn] is not None:
                    feats[pn] = {"ref": d["@" + xn]}
        entries[str(f["id"])] = {"type": t, "feats": feats}
    keys = sorted(entries, key=lambda x: int(x))
    return {"views": views, "fs": {k: entries[k] for k in keys}}


# ------------------------------------------------------------------------------------------------
# Type system descriptors
# ------------------------------------------------------------------------------------------------
TS_NS = "http://uima.apache.org/resourceSpecifier"


def read_ts_xml(text):
    """descriptor text -> abstract descriptor (texts exactly as in the XML, not trimmed)"""
    if isinstance(text, str):
        text = text.encode("utf-8")
    root = ET.fromstring(text)
    q = lambda n: "{%s}%s" % (TS_NS, n)
    out = []
    types = root.find(q("types"))
    for td in ([] if types is None else types.findall(q("typeDescription"))):
        def txt(el, name):
            c = el.find(q(name))
            return None if c is None else c.text
        feats = []
        fs = td.find(q("features"))
        for fd in ([] if fs is None else fs.findall(q("featureDescription"))):
            m = txt(fd, "multipleReferencesAllowed")
            feats.append({"name": txt(fd, "name"), "descr": txt(fd, "description"), "range": txt(fd, "rangeTypeName"),
                          "multi": None if m is None else {"true": True, "false": False}[m], "elem": txt(fd, "elementType")})
        out.append({"name": txt(td, "name"), "descr": txt(td, "description"), "super": txt(td, "supertypeName"), "feats": feats})
    return out


def write_ts_xml(desc, layout=None):
    """abstract descriptor -> XML text; layout: order (permutation), pad (surround descriptions with blanks),
    pretty, empty_descr ('self-closing' | 'open-close' | 'omit')"""
    layout = layout or {}
    types = list(desc)
    if layout.get("order") is not None:
        types = [types[i] for i in layout["order"]]
    nl = "\n" if layout.get("pretty") else ""
    pad = "  " if layout.get("pad") else ""

    def el(name, text, always=True):
        if text is None:
            mode = layout.get("empty_descr", "self-closing")
            if not always or mode == "omit":
                return ""
            return "<%s/>" % name if mode == "self-closing" else "<%s></%s>" % (name, name)
        return "<%s>%s</%s>" % (name, escape(pad + text + pad if name == "description" else text), name)

    out = ['<?xml version="1.0" encoding="UTF-8"?>' + nl, '<typeSystemDescription xmlns="%s">' % TS_NS + nl, "<types>" + nl]
    for t in types:
        s = "<typeDescription>" + el("name", t["name"]) + el("description", t.get("descr")) + el("supertypeName", t["super"])
        if t["feats"]:
            s += "<features>"
            for f in t["feats"]:
                s += "<featureDescription>" + el("name", f["name"]) + el("description", f.get("descr")) + el("rangeTypeName", f["range"])
                if f.get("multi") is not None:
                    s += el("multipleReferencesAllowed", "true" if f["multi"] else "false")
                if f.get("elem") is not None:
                    s += el("elementType", f["elem"])
                s += "</featureDescription>"
            s += "</features>"
        s += "</typeDescription>" + nl
        out.append(s)
    out.append("</types>" + nl + "</typeSystemDescription>" + nl)
    return "".join(out)
