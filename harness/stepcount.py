"""Counts loop iterations of Cas._find_all_fs on the *unmodified* source through sys.monitoring LINE
events (Python 3.12): no hook in /repo is needed.

pops       = executions of the line containing `openlist.pop(`
pushes     = executions of lines containing `openlist.append(`
list_steps = executions of the line `v = v.tail` (one per iteration of the inline FSList walk)

If the source no longer contains such lines (a rewrite), the counters are None and the step-count
correspondence reports "unavailable" instead of a number.
"""
import inspect
import sys

from cassis.cas import Cas

_TOOL = 3  # a free tool id (0-5); 2 is the profiler, 1 coverage, 0 debugger


def _lines():
    fn = Cas._find_all_fs
    src, start = inspect.getsourcelines(fn)
    pops, pushes, steps = set(), set(), set()
    for i, line in enumerate(src):
        s = line.strip()
        if s.startswith("#"):
            continue
        if "openlist.pop(" in s or "openlist.popleft(" in s:
            pops.add(start + i)
        if "openlist.append(" in s:
            pushes.add(start + i)
        if s.replace(" ", "") == "v=v.tail":
            steps.add(start + i)
    return pops, pushes, steps


class Counter:
    def __init__(self):
        self.pops = None
        self.pushes = None
        self.list_steps = None
        self._active = False

    def __enter__(self):
        mon = getattr(sys, "monitoring", None)
        if mon is None:
            return self
        try:
            pops, pushes, steps = _lines()
        except (OSError, TypeError):
            return self
        if not pops:
            return self
        self._p, self._a, self._s = pops, pushes, steps
        self.pops, self.pushes = 0, 0
        self.list_steps = 0 if steps else None
        code = Cas._find_all_fs.__code__
        self._code = code
        try:
            mon.use_tool_id(_TOOL, "verif-stepcount")
        except ValueError:
            self.pops = self.pushes = self.list_steps = None
            return self

        def cb(c, line):
            if line in self._p:
                self.pops += 1
            elif line in self._a:
                self.pushes += 1
            elif line in self._s:
                self.list_steps += 1

        mon.register_callback(_TOOL, mon.events.LINE, cb)
        mon.set_local_events(_TOOL, code, mon.events.LINE)
        self._active = True
        return self

    def __exit__(self, *exc):
        if self._active:
            mon = sys.monitoring
            mon.set_local_events(_TOOL, self._code, 0)
            mon.register_callback(_TOOL, mon.events.LINE, None)
            mon.free_tool_id(_TOOL)
            self._active = False
        return False
