"""Type systems *derived* from one built through the API: loaded back from its XML descriptor, reconstructed from the type
system embedded in a JSON document, merged with itself / with an empty type system, and merged with a "flattened" copy in
which some types are declared below a more general ancestor (so that the merge has to re-parent them).  Every derivation
must yield the same declared tree and the same effective features as the original (C10, C11: "after XML loading, JSON loading
and merging")."""
KINDS = ["xml", "json", "merge-self", "merge-empty", "merge-reparent", "merge-extend", "merge-reparent-again"]


def derive(rng, sb, ts, sh, kind):
    """appends the derivation ops to sb (a sessions.SB); returns the index of the derived type system.
    `sh` is the tsgen.Shadow of type system `ts` (not modified)."""
    if kind == "xml":
        sb.ops.append({"op": "ts.reload_xml", "ts": ts})
        sb.n_ts += 1
        return sb.n_ts - 1
    if kind == "json":
        h = sb.cas_new(ts, text="abc")
        sb.ops.append({"op": "cas.reload", "h": h, "fmt": "json"})
        sb.n_h += 1
        sb.n_ts += 1
        return sb.n_ts - 1
    if kind == "merge-self":
        sb.ops.append({"op": "ts.merge", "inputs": [ts, ts]})
        sb.n_ts += 1
        return sb.n_ts - 1
    if kind == "merge-empty":
        e = sb.ts_new()
        sb.ops.append({"op": "ts.merge", "inputs": [e, ts] if rng.random() < 0.5 else [ts, e]})
        sb.n_ts += 1
        return sb.n_ts - 1
    if kind in ("merge-reparent", "merge-reparent-partial"):
        user = [n for n in sh.order if n not in sh.K["predefined"] and n != "uima.tcas.DocumentAnnotation"]
        flat = sb.ts_new()
        flattened = set()
        partial = kind == "merge-reparent-partial"
        for n in user:
            sup = sh.parent[n]
            anc = sh.ancestors(n)[1:]
            # re-parenting is only unambiguous when no ancestor of the type is re-parented itself (finding M6)
            if sup not in sh.K["predefined"] and not (set(anc) & flattened) and rng.random() < 0.4:
                roots = [a for a in anc if a in sh.K["predefined"]]
                sup = roots[0]
                flattened.add(n)
            elif partial and sup not in sh.K["predefined"]:
                continue      # the first input declares only the flattened types and the roots: the result lists them first
            sb.create_type(flat, n, sup)
        sb.ops.append({"op": "ts.merge", "inputs": [flat, ts]})
        sb.n_ts += 1
        return sb.n_ts - 1
    if kind == "merge-reparent-again":
        # a merge result (whose registry lists a re-parented type before its new supertype) merged once more
        r1 = derive(rng, sb, ts, sh, "merge-reparent-partial")
        # ... together with a type system that declares (again) the packaged types whose short name is the name of a type
        # without namespace - they are then merged before everything else
        e = sb.ts_new()
        user = [n for n in sh.order if n not in sh.K["predefined"] and n != "uima.tcas.DocumentAnnotation"]
        bare = {n for n in user if "." not in n}
        for n in user:
            if "." in n and n.rsplit(".", 1)[1] in bare and sh.parent[n] in sh.K["predefined"]:
                sb.create_type(e, n, sh.parent[n])
        sb.ops.append({"op": "ts.merge", "inputs": [r1, e] if rng.random() < 0.3 else [e, r1]})
        sb.n_ts += 1
        return sb.n_ts - 1
    if kind == "merge-extend":
        # an earlier input declares the same types without features: the features of `ts` are then merged into types that
        # already exist in the result (the branch that must copy the feature objects of its input)
        user = [n for n in sh.order if n not in sh.K["predefined"] and n != "uima.tcas.DocumentAnnotation"]
        base = sb.ts_new()
        for n in user:
            sb.create_type(base, n, sh.parent[n])
        sb.ops.append({"op": "ts.merge", "inputs": [base, ts]})
        sb.n_ts += 1
        return sb.n_ts - 1
    raise ValueError(kind)
