"""Runs sessions (JSON list of op lists on stdin) on the real library in *this* process and prints the
observations as JSON.  Started by the C14 check in fresh interpreters with different PYTHONHASHSEED values."""
import json
import sys


def main():
    sessions = json.load(sys.stdin)
    from harness import implrun

    outs = []
    for ops in sessions:
        out, _s = implrun.run_session(ops, op_timeout=30.0)
        outs.append(json.loads(json.dumps(out, default=str)))
    json.dump({"hashseed": __import__("os").environ.get("PYTHONHASHSEED"), "outs": outs}, sys.stdout)


if __name__ == "__main__":
    main()
