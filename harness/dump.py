"""Independent canonical dump of a real cassis Cas: the content a CAS *means*, keyed by xmi:id, in the
same JSON shape lean/Driver.lean produces for the model (`dumpCas`).

coarse (XMI) reading: collections held by features that do not allow multiple references are content
("arr"/"list"), everything else is an entry of its own.  fine (JSON) reading: every collection object is
an entry and features hold references.

Reachability is computed here, from the indexed structures, and not taken from Cas._find_all_fs (which is
only called first to let the library assign missing ids, exactly as the model does)."""
import math

from cassis.cas import Sofa
from cassis.typesystem import FeatureStructure

ARRAYS = {"uima.cas.FSArray", "uima.cas.BooleanArray", "uima.cas.ByteArray", "uima.cas.ShortArray", "uima.cas.IntegerArray",
          "uima.cas.LongArray", "uima.cas.FloatArray", "uima.cas.DoubleArray", "uima.cas.StringArray"}
LISTS = {"uima.cas.FSList", "uima.cas.IntegerList", "uima.cas.FloatList", "uima.cas.StringList"}


def float_token(x):
    """Java-style literal, written independently of cassis' own formatter"""
    if math.isnan(x):
        return "NaN"
    if math.isinf(x):
        return "Infinity" if x > 0 else "-Infinity"
    return repr(float(x)).upper().replace("E+", "E")


def jid(fs):
    return fs.xmiID if fs.xmiID is not None else "noid"


def jprim(v):
    if isinstance(v, float):
        return {"f": float_token(v)}
    return v


def jelems(elements):
    if elements is None:
        return None
    out = []
    for e in (list(elements) if not isinstance(elements, (bytes, bytearray)) else list(elements)):
        if e is None:
            out.append(None)
        elif isinstance(e, FeatureStructure):
            out.append(jid(e))
        else:
            out.append(jprim(e))
    return out


def list_heads(v):
    out, seen = [], 0
    while hasattr(v, "head") and seen < 1000000:
        h = v.head
        out.append(None if h is None else (jid(h) if isinstance(h, FeatureStructure) else jprim(h)))
        v = v.tail
        seen += 1
    return out


def dump_cas(cas, fine=False):
    ts = cas.typesystem
    list(cas._find_all_fs(include_inlinable_arrays_and_lists=fine))  # id assignment only
    entries = {}
    todo = []
    for view in cas.views:
        todo.extend(view.get_all_annotations())
    seen = set()

    def visit(fs):
        if fs is None or not isinstance(fs, FeatureStructure) or id(fs) in seen:
            return
        seen.add(id(fs))
        todo2.append(fs)

    todo2 = []
    for fs in todo:
        visit(fs)
    k = 0
    while k < len(todo2):
        fs = todo2[k]
        k += 1
        if fs.xmiID == 0:
            continue
        t = ts.get_type(fs.type.name)
        feats = {}
        for f in t.all_features:
            v = getattr(fs, f.name, None)
            if v is None:
                continue
            rn = f.rangeType.name
            inline = (not fine) and (not f.multipleReferencesAllowed) and (rn in ARRAYS or rn in LISTS)
            if f.name == "sofa" or isinstance(v, Sofa):
                feats[f.name] = {"sofa": v.sofaID}
            elif inline:
                if rn in ARRAYS:
                    els = v.elements
                    feats[f.name] = {"arr": jelems(els)}
                    for e in (els or []):
                        visit(e)
                else:
                    feats[f.name] = {"list": list_heads(v)}
                    w, n = v, 0
                    while hasattr(w, "head") and n < 1000000:
                        visit(w.head)
                        w = w.tail
                        n += 1
            elif isinstance(v, FeatureStructure):
                feats[f.name] = {"ref": jid(v)}
                visit(v)
            elif isinstance(v, (list, tuple, bytes, bytearray)):
                feats[f.name] = jelems(v)
                for e in v:
                    visit(e)
            else:
                feats[f.name] = jprim(v)
        entries[str(jid(fs))] = {"type": fs.type.name, "feats": feats}
    views = []
    for view in cas.views:
        s = view.sofa
        views.append({
            "name": s.sofaID, "id": s.xmiID, "num": s.sofaNum, "mime": s.mimeType, "uri": s.sofaURI,
            "text": None if s.sofaString is None else [ord(c) for c in s.sofaString],
            "array": None if s.sofaArray is None else jid(s.sofaArray),
            "members": sorted(x.xmiID for x in view.get_all_annotations()),
        })
    keys = sorted(entries, key=lambda x: (x == "noid", int(x) if x != "noid" else 0))
    return {"views": views, "fs": {k_: entries[k_] for k_ in keys}}
