"""Anchor fingerprints: a hash of the abstract syntax of the source files a property is anchored in.
A changed fingerprint is never reported; it only makes the quick tier spend the larger "search" budget on that
property for this run (DESIGN.md 3.6)."""
import ast
import hashlib
import json
import os

from harness import common

FILE = os.path.join(common.VERIF, "anchors.json")


def anchor_files(prop):
    for line in open(os.path.join(common.VERIF, "properties.jsonl")):
        d = json.loads(line)
        if d["id"] == prop:
            return sorted(d.get("anchors", {}).get("files", []))
    return []


def current(prop):
    h = hashlib.sha256()
    for f in anchor_files(prop):
        path = os.path.join(common.REPO, f)
        try:
            tree = ast.parse(open(path, encoding="utf-8").read())
            h.update(f.encode() + b"\0" + ast.dump(tree, include_attributes=False).encode())
        except (OSError, SyntaxError) as e:  # a file that does not parse is certainly a change
            h.update(f.encode() + b"\0unreadable:" + repr(e).encode())
    return h.hexdigest()


def recorded(prop):
    try:
        return json.load(open(FILE)).get(prop)
    except (OSError, ValueError):
        return None


def changed(prop):
    r = recorded(prop)
    return r is not None and r != current(prop)


if __name__ == "__main__":
    props = [json.loads(line)["id"] for line in open(os.path.join(common.VERIF, "properties.jsonl"))]
    json.dump({p: current(p) for p in props}, open(FILE, "w"), indent=1)
    print("recorded", len(props), "fingerprints in", FILE)
