import CassisModel.Model.Basic
import CassisModel.Model.Offsets
import CassisModel.Model.TypeSystem
import CassisModel.Gen.Builtins
import CassisModel.Model.Index
import CassisModel.Proofs.Index
import CassisModel.Properties.C07
