/-
JSON-lines driver for the executable model.  One scenario per input line, one answer per output line.
No Mathlib, no proof files: only `Model/*` and `Gen/Builtins`.
Unknown or ill-typed input is answered with `{"err":"bad-op"}`; the driver never defaults.
-/
import Lean.Data.Json
import CassisModel.Model.Basic
import CassisModel.Model.Offsets
import CassisModel.Model.TypeSystem
import CassisModel.Model.Index
import CassisModel.Model.Heap
import CassisModel.Model.Cas
import CassisModel.Model.Traverse
import CassisModel.Model.Merge
import CassisModel.Model.Xmi
import CassisModel.Model.Json
import CassisModel.Model.TsXml
import CassisModel.Model.Comparable
import CassisModel.Spec.RoundTripCheck
import CassisModel.Spec.RoundTripCollCheck
import CassisModel.Spec.RoundTripJsonCollCheck
import CassisModel.Gen.Builtins
import CassisModel.Spec.BuiltinChecks

open Lean Cassis

abbrev K := Cassis.Gen.consts

/-! ## JSON helpers -/

def jInt (i : Int) : Json := toJson i
def jNat (n : Nat) : Json := toJson n
def jStr (s : String) : Json := Json.str s
def jOk (v : Json) : Json := Json.mkObj [("ok", v)]
def jErr (e : String) : Json := Json.mkObj [("err", Json.str e)]
def jList {α} (f : α → Json) (l : List α) : Json := Json.arr (l.map f).toArray
def jOptStr : Option String → Json | some s => jStr s | none => Json.null
def jOptInt : Option Int → Json | some s => jInt s | none => Json.null

abbrev P := Except String

def fld (j : Json) (k : String) : P Json := j.getObjVal? k
def fldStr (j : Json) (k : String) : P String := do (← fld j k).getStr?
def fldInt (j : Json) (k : String) : P Int := do (← fld j k).getInt?
def fldNat (j : Json) (k : String) : P Nat := do (← fld j k).getNat?
def fldBool (j : Json) (k : String) : P Bool := do (← fld j k).getBool?
def fldArr (j : Json) (k : String) : P (List Json) := do pure (← (← fld j k).getArr?).toList
def optFld (j : Json) (k : String) : Option Json :=
  match j.getObjVal? k with
  | .ok Json.null => none
  | .ok v => some v
  | .error _ => none
def optStr (j : Json) (k : String) : P (Option String) :=
  match optFld j k with | none => pure none | some v => do pure (some (← v.getStr?))
def optInt (j : Json) (k : String) : P (Option Int) :=
  match optFld j k with | none => pure none | some v => do pure (some (← v.getInt?))
def optBool (j : Json) (k : String) : P (Option Bool) :=
  match optFld j k with | none => pure none | some v => do pure (some (← v.getBool?))
def boolD (j : Json) (k : String) (d : Bool) : P Bool :=
  match optFld j k with | none => pure d | some v => v.getBool?

def natList (j : Json) : P (List Nat) := do (← j.getArr?).toList.mapM (·.getNat?)
def optText (j : Json) (k : String) : P (Option (List Nat)) :=
  match optFld j k with | none => pure none | some v => do pure (some (← natList v))

/-! ## Values -/

def valOfJson (j : Json) : P Val :=
  match j with
  | Json.null => pure .none
  | Json.num _ => do pure (.int (← j.getInt?))
  | Json.bool b => pure (.bool b)
  | Json.str s => pure (.str s)
  | _ =>
    match optFld j "r", optFld j "f", optFld j "rs", optFld j "is", optFld j "fs", optFld j "bs", optFld j "ss",
          optFld j "sofa" with
    | some a, _, _, _, _, _, _, _ => do pure (.ref (← a.getNat?))
    | _, some t, _, _, _, _, _, _ => do pure (.float (← t.getStr?))
    | _, _, some l, _, _, _, _, _ => do
      let xs ← (← l.getArr?).toList.mapM (fun x => match x with
        | Json.null => pure (none : Option Nat)
        | x => do pure (some (← x.getNat?)))
      pure (.refs xs)
    | _, _, _, some l, _, _, _, _ => do pure (.ints (← (← l.getArr?).toList.mapM (·.getInt?)))
    | _, _, _, _, some l, _, _, _ => do pure (.floats (← (← l.getArr?).toList.mapM (·.getStr?)))
    | _, _, _, _, _, some l, _, _ => do pure (.bools (← (← l.getArr?).toList.mapM (·.getBool?)))
    | _, _, _, _, _, _, some l, _ => do
      let xs ← (← l.getArr?).toList.mapM (fun x => match x with
        | Json.null => pure (none : Option String)
        | x => do pure (some (← x.getStr?)))
      pure (.strs xs)
    | _, _, _, _, _, _, _, some l => do
      match (← l.getArr?).toList with
      | [c, v] => pure (.sofa (← c.getNat?) (← v.getStr?))
      | _ => throw "bad sofa"
    | _, _, _, _, _, _, _, _ => throw "bad value"

def jsonOfVal : Val → Json
  | .none => Json.null
  | .int i => jInt i
  | .str s => jStr s
  | .bool b => Json.bool b
  | .float t => Json.mkObj [("f", jStr t)]
  | .ref a => Json.mkObj [("r", jNat a)]
  | .sofa c v => Json.mkObj [("sofa", Json.arr #[jNat c, jStr v])]
  | .refs l => Json.mkObj [("rs", jList (fun x => match x with | some a => jNat a | none => Json.null) l)]
  | .ints l => Json.mkObj [("is", jList jInt l)]
  | .floats l => Json.mkObj [("fs", jList jStr l)]
  | .bools l => Json.mkObj [("bs", jList Json.bool l)]
  | .strs l => Json.mkObj [("ss", jList jOptStr l)]
  | .attr t => Json.mkObj [("attr", jStr t)]

/-! ## World -/

structure World where
  tss : Array TS.TypeSystem := #[]
  heap : Heap := []
  cass : Array Cas := #[]
  casTs : Array Nat := #[]
  handles : Array (Nat × Handle) := #[]
deriving Inhabited

abbrev M := StateT World (Except String)

def getTs (i : Nat) : M TS.TypeSystem := do
  match (← get).tss[i]? with
  | some t => pure t
  | none => throw "bad-op"

def setTs (i : Nat) (t : TS.TypeSystem) : M Unit := modify fun w => { w with tss := w.tss.set! i t }

def getHandle (i : Nat) : M (Nat × Handle) := do
  match (← get).handles[i]? with
  | some t => pure t
  | none => throw "bad-op"

def getCas (i : Nat) : M Cas := do
  match (← get).cass[i]? with
  | some t => pure t
  | none => throw "bad-op"

def setCas (i : Nat) (c : Cas) : M Unit := modify fun w => { w with cass := w.cass.set! i c }

def casTsOf (ci : Nat) : M (Nat × TS.TypeSystem) := do
  match (← get).casTs[ci]? with
  | some ti => pure (ti, ← getTs ti)
  | none => throw "bad-op"

def liftP {α} (p : P α) : M α := match p with | .ok a => pure a | .error _ => throw "bad-op"

def jEntry (e : Index.Entry) : Json :=
  if e.b = Index.NONE_KEY then Json.arr #[Json.null, Json.null, jNat e.oid]
  else Json.arr #[jInt e.b, jInt e.e, jNat e.oid]

def res {α} (r : Except Err α) (f : α → M Json) : M Json :=
  match r with
  | .ok a => f a
  | .error e => pure (jErr e.toString)

def jFeature (f : TS.Feature) : Json :=
  Json.mkObj [("name", jStr f.name), ("domain", jStr f.domain), ("range", jStr f.range),
    ("elem", jOptStr f.elem), ("descr", jOptStr f.descr),
    ("multi", match f.multi with | some b => Json.bool b | none => Json.null),
    ("reserved", Json.bool f.reserved)]

/-- attribute access on values that are not feature structures (only what the harness exercises) -/
def extAttr (w : World) (v : Val) (name : String) : Val :=
  match v with
  | .sofa ci vn =>
    match w.cass[ci]? with
    | some c =>
      match Cas.getViewRec c vn with
      | some view =>
        if name == "sofaID" then .str view.sofa.sofaID
        else if name == "sofaNum" then .int view.sofa.sofaNum
        else if name == "xmiID" then .int view.sofa.xid
        else if name == "mimeType" then (match view.sofa.mime with | some m => .str m | none => .none)
        else if name == "sofaURI" then (match view.sofa.uri with | some m => .str m | none => .none)
        else if name == "sofaArray" then view.sofa.arr
        else if name == "sofaString" then (match view.sofa.text with | some _ => .attr "text" | none => .none)
        else .none
      | none => .none
    | none => .none
  | .none => .none
  | .ref _ => .none
  -- every Python object answers `__class__` (ints, strings, lists, bound methods, …)
  | _ => if name == "__class__" then .attr "class" else .none

def reservedAttrs : List String := Cassis.Gen.reservedAttrs

def newFs (ts : TS.TypeSystem) (ti : Nat) (tyName : String) (xid : Option Int) (feats : List (String × Val)) :
    M (Except Err Nat) := do
  match TS.getType ts tyName with
  | .error e => pure (.error e)
  | .ok t =>
    match construct t ti xid feats with
    | .error e => pure (.error e)
    | .ok o =>
      let w ← get
      set { w with heap := w.heap ++ [o] }
      pure (.ok w.heap.length)

def docAnnotation (ci : Nat) (h : Handle) : M (Except Err Nat) := do
  let (ti, ts) ← casTsOf ci
  let c ← getCas ci
  let w ← get
  match Cas.getDocumentAnnotation ts ti ci c w.heap h with
  | .error e => pure (.error e)
  | .ok (c', hp', a) =>
    set { w with heap := hp' }
    setCas ci c'
    pure (.ok a)




/-! ## Type-system descriptors -/

def jOfDesc (d : TsXml.Descriptor) : Json :=
  jList (fun (t : TsXml.TDesc) => Json.mkObj [("name", jStr t.name), ("descr", jOptStr t.descr), ("super", jStr t.super),
    ("feats", jList (fun (f : TsXml.FDesc) => Json.mkObj [("name", jStr f.name), ("descr", jOptStr f.descr), ("range", jStr f.range),
      ("multi", match f.multi with | some b => Json.bool b | none => Json.null), ("elem", jOptStr f.elem)]) t.feats)]) d

def descOfJson (j : Json) : P TsXml.Descriptor := do
  (← j.getArr?).toList.mapM (fun t => do
    let feats ← (← fldArr t "feats").mapM (fun f => do
      pure ({ name := ← fldStr f "name", descr := ← optStrKeep f "descr", range := ← fldStr f "range",
              multi := ← optBool f "multi", elem := ← optStr f "elem" } : TsXml.FDesc))
    pure ({ name := ← fldStr t "name", descr := ← optStrKeep t "descr", super := ← fldStr t "super", feats := feats } : TsXml.TDesc))
where
  optStrKeep (j : Json) (k : String) : P (Option String) :=
    match j.getObjVal? k with
    | .ok Json.null => pure none
    | .ok v => do pure (some (← v.getStr?))
    | .error _ => pure none

/-! ## JSON CAS documents -/

def jOfJV : Json.JV → Json
  | .null => Json.null
  | .int i => jInt i
  | .flt t => Json.mkObj [("f", jStr t)]
  | .bool b => Json.bool b
  | .str s => jStr s
  | .ints l => jList jInt l
  | .flts l => jList (fun x => match x with
      | .flt t => Json.mkObj [("f", jStr t)]
      | .str s => jStr s
      | .int i => jInt i
      | _ => Json.null) l
  | .bools l => jList Json.bool l
  | .strs l => jList jOptStr l
  | .refs l => jList jOptInt l

def jElements (e : Option Json.JV) : Json :=
  match e with
  | none => Json.null
  | some v =>
    let k := match v with
      | .ints _ => "ints" | .flts _ => "flts" | .bools _ => "bools" | .strs _ => "strs" | .refs _ => "refs" | _ => "?"
    Json.mkObj [("k", jStr k), ("v", jOfJV v)]

def jOfJDoc (d : Json.JDoc) : Json :=
  Json.mkObj [
    ("types", match d.types with
      | none => Json.null
      | some ts => jList (fun (t : Json.JType) => Json.mkObj [("name", jStr t.name), ("super", jStr t.super), ("descr", jOptStr t.descr),
          ("feats", jList (fun (f : Json.JFeat) => Json.mkObj [("name", jStr f.name), ("range", jStr f.range), ("descr", jOptStr f.descr),
            ("multi", match f.multi with | some b => Json.bool b | none => Json.null), ("elem", jOptStr f.elem)]) t.feats)]) ts),
    ("fss", jList (fun (f : Json.JFs) => Json.mkObj [("id", jOptInt f.id), ("ty", jStr f.ty), ("elements", jElements f.elements),
        ("feats", Json.arr (f.feats.map (fun p => Json.arr #[jStr p.1, jOfJV p.2])).toArray)]) d.fss),
    ("views", jList (fun (v : Json.JView) => Json.mkObj [("name", jStr v.name), ("sofa", jOptInt v.sofa), ("members", jList jInt v.members)]) d.views)]

def jvOfJson (j : Json) : P Json.JV :=
  match j with
  | Json.null => pure .null
  | Json.bool b => pure (.bool b)
  | Json.str s => pure (.str s)
  | Json.num _ => do pure (.int (← j.getInt?))
  | _ => match optFld j "f" with
    | some t => do pure (.flt (← t.getStr?))
    | none => throw "bad jv"

def elementsOfJson (j : Json) : P (Option Json.JV) :=
  match j with
  | Json.null => pure none
  | _ => do
    let k ← fldStr j "k"
    let v ← fldArr j "v"
    match k with
    | "ints" => do pure (some (.ints (← v.mapM (·.getInt?))))
    | "bools" => do pure (some (.bools (← v.mapM (·.getBool?))))
    | "strs" => do pure (some (.strs (← v.mapM (fun x => match x with | Json.null => pure none | x => do pure (some (← x.getStr?))))))
    | "refs" => do pure (some (.refs (← v.mapM (fun x => match x with | Json.null => pure none | x => do pure (some (← x.getInt?))))))
    | "flts" => do pure (some (.flts (← v.mapM jvOfJson)))
    | _ => throw "bad elements"

def jdocOfJson (j : Json) : P Json.JDoc := do
  let types ← match optFld j "types" with
    | none => pure none
    | some tj => do
      let ts ← (← tj.getArr?).toList.mapM (fun t => do
        let feats ← (← fldArr t "feats").mapM (fun f => do
          pure ({ name := ← fldStr f "name", range := ← fldStr f "range", descr := ← optStr f "descr",
                  multi := ← optBool f "multi", elem := ← optStr f "elem" } : Json.JFeat))
        pure ({ name := ← fldStr t "name", super := ← fldStr t "super", descr := ← optStr t "descr", feats := feats } : Json.JType))
      pure (some ts)
  let fss ← (← fldArr j "fss").mapM (fun f => do
    let feats ← (← fldArr f "feats").mapM (fun a => do
      match (← a.getArr?).toList with
      | [k, v] => pure ((← k.getStr?), (← jvOfJson v))
      | _ => throw "bad feat")
    let el ← match f.getObjVal? "elements" with
      | .ok e => elementsOfJson e
      | .error _ => pure none
    pure ({ id := ← optInt f "id", ty := ← fldStr f "ty", elements := el, feats := feats } : Json.JFs))
  let views ← (← fldArr j "views").mapM (fun v => do
    pure ({ name := ← fldStr v "name", sofa := ← optInt v "sofa", members := ← (← fldArr v "members").mapM (·.getInt?) } : Json.JView))
  pure { types := types, fss := fss, views := views }

/-! ## XMI documents and canonical CAS dumps -/

def jXElem (e : Xmi.XElem) : Json :=
  Json.mkObj [("ty", jStr e.ty),
    ("attrs", Json.arr (e.attrs.map (fun p => Json.arr #[jStr p.1, jStr p.2])).toArray),
    ("kids", Json.arr (e.kids.map (fun p => Json.arr #[jStr p.1, jOptStr p.2])).toArray)]

def xElemOfJson (j : Json) : P Xmi.XElem := do
  let ty ← fldStr j "ty"
  let attrs ← (← fldArr j "attrs").mapM (fun a => do
    match (← a.getArr?).toList with
    | [k, v] => pure ((← k.getStr?), (← v.getStr?))
    | _ => throw "bad attr")
  let kids ← (← fldArr j "kids").mapM (fun a => do
    match (← a.getArr?).toList with
    | [k, Json.null] => pure ((← k.getStr?), (none : Option String))
    | [k, v] => pure ((← k.getStr?), some (← v.getStr?))
    | _ => throw "bad kid")
  pure { ty := ty, attrs := attrs, kids := kids }

/-- id of the structure at `a`, `null` for none, 0 for the cas:NULL object -/
def jIdOf (hp : Heap) (a : Nat) : Json :=
  match (hp[a]?).bind (·.xid) with
  | some x => jInt x
  | none => Json.str "noid"

def jElemVals (hp : Heap) (v : Val) : Json :=
  match v with
  | .none => Json.null
  | .refs l => Json.arr (l.map (fun r => match r with | some a => jIdOf hp a | none => Json.null)).toArray
  | .ints l => jList jInt l
  | .floats l => jList (fun t => Json.mkObj [("f", jStr t)]) l
  | .bools l => jList Json.bool l
  | .strs l => jList jOptStr l
  | _ => Json.str "?"

partial def jListHeads (hp : Heap) (fuel : Nat) (v : Val) : List Json :=
  match fuel, v with
  | 0, _ => []
  | f+1, .ref a =>
    match Traverse.slot hp a "head" with
    | none => []
    | some hd =>
      let h := match hd with
        | .ref t => jIdOf hp t
        | .none => Json.null
        | other => jsonOfVal other
      h :: jListHeads hp f ((Traverse.slot hp a "tail").getD .none)
  | _, _ => []

/-- canonical value of one feature in the coarse (XMI) or fine (JSON) reading -/
def dumpFeature (w : World) (ts : TS.TypeSystem) (fine : Bool) (a : Nat) (f : TS.Feature) : Option (String × Json) :=
  let hp := w.heap
  match Traverse.slot hp a f.name with
  | none | some .none => none
  | some v =>
    let multi := f.multi.getD false
    let inlineColl := !fine && !multi && (TS.isArray K f.range || TS.isList K f.range)
    if inlineColl then
      if TS.isArray K f.range then
        match v with
        | .ref arr => some (f.name, Json.mkObj [("arr", jElemVals hp ((Traverse.slot hp arr "elements").getD .none))])
        | _ => some (f.name, Json.str "?")
      else some (f.name, Json.mkObj [("list", Json.arr (jListHeads hp (hp.length + 1) v).toArray)])
    else
      match v with
      | .ref t => some (f.name, Json.mkObj [("ref", jIdOf hp t)])
      | .sofa _ vn => some (f.name, Json.mkObj [("sofa", jStr vn)])
      | .int _ | .str _ | .bool _ | .float _ => some (f.name, jsonOfVal v)
      | other => some (f.name, jElemVals hp other)

def dumpCas (ci : Nat) (fine : Bool) : M Json := do
  let c ← getCas ci
  let (_, ts) ← casTsOf ci
  let w ← get
  match Traverse.findAllFs K ts { includeInlinable := fine } w.heap c.nextXid (Traverse.defaultSeeds c) with
  | .error e => pure (jErr e.toString)
  | .ok st =>
    set { w with heap := st.heap }
    setCas ci { c with nextXid := st.nextXid }
    let w ← get
    let views := c.views.map (fun p =>
      let ids := (Index.all p.2.idx).filterMap (fun e => (st.heap[e.oid]?).bind (·.xid))
      Json.mkObj [("name", jStr p.1), ("id", jInt p.2.sofa.xid), ("num", jInt p.2.sofa.sofaNum),
        ("mime", jOptStr p.2.sofa.mime), ("uri", jOptStr p.2.sofa.uri),
        ("text", match p.2.sofa.text with | some t => jList jNat t | none => Json.null),
        ("array", match p.2.sofa.arr with | .ref a => jIdOf st.heap a | _ => Json.null),
        ("members", jList jInt (Xmi.sortInts ids))])
    let fss := (Xmi.sortById st.allFs).map (fun (p : Int × Nat) =>
      match st.heap[p.2]? with
      | none => (toString p.1, Json.null)
      | some o =>
        let feats := match TS.getType ts o.ty with
          | .ok t => (TS.allFeatures t).filterMap (dumpFeature w ts fine p.2)
          | .error _ => []
        (toString p.1, Json.mkObj [("type", jStr o.ty), ("feats", Json.mkObj feats)]))
    pure (jOk (Json.mkObj [("views", Json.arr views.toArray), ("fs", Json.mkObj fss)]))

partial def jCell : Comparable.Cell → Json
  | .none => Json.null
  | .int i => jInt i
  | .float t => Json.mkObj [("f", jStr t)]
  | .bool b => Json.bool b
  | .str s => jStr s
  | .text t => Json.mkObj [("t", jList jNat t)]
  | .list l => Json.arr (l.map jCell).toArray

def splitPath (p : String) : List String := p.splitOn "."

def runOp (j : Json) : M Json := do
  let op ← liftP (fldStr j "op")
  match op with
  | "ts.new" =>
    let doc ← liftP (boolD j "doc" true)
    let w ← get
    set { w with tss := w.tss.push (if doc then Gen.builtinTS else Gen.builtinTSNoDoc) }
    pure (jOk (jNat w.tss.size))
  | "ts.to_xml" =>
    let ti ← liftP (fldNat j "ts")
    let ts ← getTs ti
    res (TsXml.toDescriptor K ts) fun d => pure (jOk (jOfDesc d))
  | "ts.load_xml" =>
    let d ← liftP (do descOfJson (← fld j "desc"))
    res (TsXml.load K d) fun ts' => do
      let w ← get
      set { w with tss := w.tss.push ts' }
      pure (jOk (jNat w.tss.size))
  | "ts.reload_xml" =>
    -- load_typesystem(ts.to_xml())
    let ti ← liftP (fldNat j "ts")
    let ts ← getTs ti
    res (do let d ← TsXml.toDescriptor K ts; TsXml.load K d) fun ts' => do
      let w ← get
      set { w with tss := w.tss.push ts' }
      pure (jOk (jNat w.tss.size))
  | "ts.merge" =>
    let idxs ← liftP (do natList (← fld j "inputs"))
    let inputs ← idxs.mapM getTs
    res (TS.merge K Gen.builtinTS inputs) fun ts' => do
      let w ← get
      set { w with tss := w.tss.push ts' }
      pure (jOk (jNat w.tss.size))
  | "ts.create_type" =>
    let ti ← liftP (fldNat j "ts")
    let ts ← getTs ti
    let name ← liftP (fldStr j "name")
    let sup ← liftP (optStr j "super")
    let descr ← liftP (optStr j "descr")
    res (TS.createType K ts name (sup.getD TS.ANNOTATION) descr) fun ts' => do
      setTs ti ts'; pure (jOk Json.null)
  | "ts.create_feature" =>
    let ti ← liftP (fldNat j "ts")
    let ts ← getTs ti
    let domain ← liftP (fldStr j "domain")
    let name ← liftP (fldStr j "name")
    let range ← liftP (fldStr j "range")
    let elem ← liftP (optStr j "elem")
    let descr ← liftP (optStr j "descr")
    let multi ← liftP (optBool j "multi")
    res (TS.createFeature ts domain name range elem descr multi) fun ts' => do
      setTs ti ts'; pure (jOk Json.null)
  | "ts.query" =>
    let ti ← liftP (fldNat j "ts")
    let ts ← getTs ti
    let kind ← liftP (fldStr j "kind")
    match kind with
    | "get_type" =>
      let n ← liftP (fldStr j "name")
      res (TS.getType ts n) fun t => pure (jOk (jStr t.name))
    | "contains" =>
      let n ← liftP (fldStr j "name")
      let exact ← liftP (boolD j "exact" false)
      pure (jOk (Json.bool (TS.containsType ts n exact)))
    | "subsumes" =>
      let a ← liftP (fldStr j "a"); let b ← liftP (fldStr j "b")
      res (do let ta ← TS.getType ts a; let tb ← TS.getType ts b; pure (TS.subsumes ts ta.name tb.name))
        fun r => pure (jOk (Json.bool r))
    | "is_instance_of" =>
      let a ← liftP (fldStr j "a"); let b ← liftP (fldStr j "b")
      res (do let ta ← TS.getType ts a; let tb ← TS.getType ts b; pure (TS.isInstanceOf ts ta.name tb.name))
        fun r => pure (jOk (Json.bool r))
    | "supertype" =>
      let n ← liftP (fldStr j "name")
      res (TS.getType ts n) fun t => pure (jOk (jOptStr t.super))
    | "children" =>
      let n ← liftP (fldStr j "name")
      res (TS.getType ts n) fun t => pure (jOk (jList jStr t.children))
    | "descendants" =>
      let n ← liftP (fldStr j "name")
      res (TS.getType ts n) fun t => pure (jOk (jList jStr (TS.descendantsOf ts t.name)))
    | "features" =>
      let n ← liftP (fldStr j "name")
      res (TS.getType ts n) fun t => pure (jOk (jList jFeature t.own))
    | "all_features" =>
      let n ← liftP (fldStr j "name")
      res (TS.getType ts n) fun t => pure (jOk (jList jFeature (TS.allFeatures t)))
    | "get_feature" =>
      let n ← liftP (fldStr j "name"); let f ← liftP (fldStr j "feature")
      res (TS.getType ts n) fun t => pure (jOk (match TS.getFeature t f with | some f => jFeature f | none => Json.null))
    | "is_primitive" =>
      let n ← liftP (fldStr j "name")
      res (TS.getType ts n) fun t => pure (jOk (Json.bool (TS.isPrimitive K ts t.name)))
    | "dump" =>
      -- name-keyed canonical content of the type system (registry order is not part of it)
      let recs := ts.types.map (fun t =>
        (t.name, Json.mkObj [
          ("super", jOptStr t.super),
          ("children", jList jStr (t.children.toArray.qsort (· < ·)).toList),
          ("own", jList jFeature t.own),
          ("eff", jList (fun f : TS.Feature => Json.arr #[jStr f.name, jStr f.range, jOptStr f.elem])
                    ((TS.allFeatures t).toArray.qsort (fun a b => a.name < b.name)).toList),
          ("descr", jOptStr t.descr)]))
      pure (jOk (Json.mkObj recs))
    | "identity" => pure (jOk (Json.bool true))   -- types are names in the model: holds by construction
    | "disjoint" => pure (jOk (Json.bool true))   -- values are immutable in the model: holds by construction
    | "types" =>
      let b ← liftP (boolD j "built_in" false)
      pure (jOk (jList (fun t => jStr t.name) (TS.getTypes K ts b)))
    | _ => throw "bad-op"
  | "fs.new" =>
    let ti ← liftP (fldNat j "ts")
    let ts ← getTs ti
    let ty ← liftP (fldStr j "type")
    let xid ← liftP (optInt j "xid")
    let featsJ ← liftP (do (← fld j "feats").getObj?)
    let feats ← liftP (featsJ.toList.mapM (fun (k, v) => do pure (k, ← valOfJson v)))
    match ← newFs ts ti ty xid feats with
    | .ok a => pure (jOk (jNat a))
    | .error e => pure (jErr e.toString)
  | "fs.get" =>
    let a ← liftP (fldNat j "fs")
    let path ← liftP (fldStr j "path")
    let w ← get
    pure (jOk (jsonOfVal (Heap.getPath reservedAttrs (extAttr w) w.heap a (splitPath path))))
  | "fs.set" =>
    let a ← liftP (fldNat j "fs")
    let path ← liftP (fldStr j "path")
    let v ← liftP (do valOfJson (← fld j "v"))
    let w ← get
    res (Heap.setPath reservedAttrs (extAttr w) w.heap a (splitPath path) v) fun hp => do
      set { w with heap := hp }; pure (jOk Json.null)
  | "fs.slots" =>
    let a ← liftP (fldNat j "fs")
    let w ← get
    match w.heap[a]? with
    | some o => pure (jOk (Json.mkObj ([("%type", jStr o.ty), ("%xid", jOptInt o.xid)] ++ o.slots.map (fun p => (p.1, jsonOfVal p.2)))))
    | none => throw "bad-op"
  | "fs.covered_text" =>
    let a ← liftP (fldNat j "fs")
    let w ← get
    res (Cas.coveredText w.cass.toList w.heap a) fun t =>
      pure (jOk (match t with | some l => jList jNat l | none => Json.null))
  | "xmi.save" =>
    let (ci, _) ← getHandle (← liftP (fldNat j "h"))
    let (_, ts) ← casTsOf ci
    let w ← get
    res (Xmi.saveXmi K ts w.cass.toList ci w.heap) fun (doc, st) => do
      set { w with heap := st.heap }
      let c ← getCas ci
      setCas ci { c with nextXid := st.nextXid }
      pure (jOk (jList jXElem doc))
  | "xmi.load" =>
    let ti ← liftP (fldNat j "ts")
    let ts ← getTs ti
    let lenient ← liftP (boolD j "lenient" false)
    let doc ← liftP (do (← fldArr j "doc").mapM xElemOfJson)
    let w ← get
    let ci := w.cass.size
    res (Xmi.loadXmi K ts ti ci lenient w.heap doc) fun ld => do
      let h : Handle := { view := Cas.INITIAL_VIEW, lenient := lenient }
      set { w with heap := ld.heap, cass := w.cass.push ld.cas, casTs := w.casTs.push ti, handles := w.handles.push (ci, h) }
      pure (jOk (jNat w.handles.size))
  | "cas.dump" =>
    let (ci, _) ← getHandle (← liftP (fldNat j "h"))
    let fine ← liftP (boolD j "fine" false)
    dumpCas ci fine
  | "json.save" =>
    let (ci, _) ← getHandle (← liftP (fldNat j "h"))
    let (_, ts) ← casTsOf ci
    let modeS ← liftP (optStr j "mode")
    let mode := match modeS with | some "minimal" => Json.Mode.minimal | some "none" => Json.Mode.none | _ => Json.Mode.full
    let w ← get
    res (Json.saveJson K ts w.cass.toList ci w.heap mode) fun (doc, st) => do
      set { w with heap := st.heap }
      let c ← getCas ci
      setCas ci { c with nextXid := st.nextXid }
      pure (jOk (jOfJDoc doc))
  | "json.load" =>
    let tsArg ← match optFld j "ts" with
      | some t => do let ti ← liftP t.getNat?; getTs ti
      | none => pure Gen.builtinTS
    let lenient ← liftP (boolD j "lenient" false)
    let mergeTs ← liftP (boolD j "merge" true)
    let doc ← liftP (do jdocOfJson (← fld j "doc"))
    let w ← get
    let ci := w.cass.size
    let ti := w.tss.size
    res (Json.loadJson K tsArg ti ci lenient mergeTs w.heap doc) fun ld => do
      let h : Handle := { view := Cas.INITIAL_VIEW, lenient := lenient }
      set { w with heap := ld.heap, tss := w.tss.push ld.ts, cass := w.cass.push ld.cas, casTs := w.casTs.push ti,
                   handles := w.handles.push (ci, h) }
      pure (jOk (jNat w.handles.size))
  | "conv.chain" =>
    -- XMI -> CAS -> JSON -> CAS ("xmi-json") or JSON -> CAS -> XMI -> CAS ("json-xmi"); returns the coarse
    -- dumps of the CAS loaded first and of the CAS at the end of the chain
    let (ci, _) ← getHandle (← liftP (fldNat j "h"))
    let (ti, ts) ← casTsOf ci
    let kind ← liftP (fldStr j "kind")
    let embedded ← liftP (boolD j "embedded" false)
    let w ← get
    let step1 : Except Err (Nat × Nat × World) :=
      if kind == "xmi-json" then do
        let (doc, st) ← Xmi.saveXmi K ts w.cass.toList ci w.heap
        let c0 := (w.cass[ci]?).getD default
        let w1 := { w with heap := st.heap, cass := w.cass.set! ci { c0 with nextXid := st.nextXid } }
        let c1i := w1.cass.size
        let ld ← Xmi.loadXmi K ts ti c1i false w1.heap doc
        let w2 := { w1 with heap := ld.heap, cass := w1.cass.push ld.cas, casTs := w1.casTs.push ti }
        let (jdoc, st2) ← Json.saveJson K ts w2.cass.toList c1i w2.heap .full
        let w3 := { w2 with heap := st2.heap, cass := w2.cass.set! c1i { ld.cas with nextXid := st2.nextXid } }
        let c2i := w3.cass.size
        let t2i := w3.tss.size
        let ld2 ← Json.loadJson K (if embedded then Gen.builtinTS else ts) t2i c2i false true w3.heap jdoc
        pure (c1i, c2i, { w3 with heap := ld2.heap, tss := w3.tss.push ld2.ts, cass := w3.cass.push ld2.cas, casTs := w3.casTs.push t2i })
      else do
        let (jdoc, st) ← Json.saveJson K ts w.cass.toList ci w.heap .full
        let c0 := (w.cass[ci]?).getD default
        let w1 := { w with heap := st.heap, cass := w.cass.set! ci { c0 with nextXid := st.nextXid } }
        let c1i := w1.cass.size
        let t1i := w1.tss.size
        let ld ← Json.loadJson K (if embedded then Gen.builtinTS else ts) t1i c1i false true w1.heap jdoc
        let w2 := { w1 with heap := ld.heap, tss := w1.tss.push ld.ts, cass := w1.cass.push ld.cas, casTs := w1.casTs.push t1i }
        let (xdoc, st2) ← Xmi.saveXmi K ld.ts w2.cass.toList c1i w2.heap
        let w3 := { w2 with heap := st2.heap, cass := w2.cass.set! c1i { ld.cas with nextXid := st2.nextXid } }
        let c2i := w3.cass.size
        let ld2 ← Xmi.loadXmi K ld.ts t1i c2i false w3.heap xdoc
        pure (c1i, c2i, { w3 with heap := ld2.heap, cass := w3.cass.push ld2.cas, casTs := w3.casTs.push t1i })
    match step1 with
    | .error e => pure (jErr e.toString)
    | .ok (c1i, c2i, w') =>
      set w'
      let d1 ← dumpCas c1i false
      let d2 ← dumpCas c2i false
      pure (jOk (Json.arr #[d1, d2]))
  | "cas.reload" =>
    -- load(save(cas)) through one of the formats, with the CAS's own type system; allocates a handle
    let (ci, h0) ← getHandle (← liftP (fldNat j "h"))
    let (ti, ts) ← casTsOf ci
    let fmt ← liftP (fldStr j "fmt")
    let w ← get
    let r : Except Err World :=
      if fmt == "xmi" then do
        let (doc, st) ← Xmi.saveXmi K ts w.cass.toList ci w.heap
        let c0 := (w.cass[ci]?).getD default
        let w1 := { w with heap := st.heap, cass := w.cass.set! ci { c0 with nextXid := st.nextXid } }
        let c1i := w1.cass.size
        let ld ← Xmi.loadXmi K ts ti c1i h0.lenient w1.heap doc
        pure { w1 with heap := ld.heap, cass := w1.cass.push ld.cas, casTs := w1.casTs.push ti,
                       handles := w1.handles.push (c1i, { view := Cas.INITIAL_VIEW, lenient := h0.lenient }) }
      else do
        let (jdoc, st) ← Json.saveJson K ts w.cass.toList ci w.heap .full
        let c0 := (w.cass[ci]?).getD default
        let w1 := { w with heap := st.heap, cass := w.cass.set! ci { c0 with nextXid := st.nextXid } }
        let c1i := w1.cass.size
        let t1i := w1.tss.size
        let ld ← Json.loadJson K ts t1i c1i h0.lenient true w1.heap jdoc
        pure { w1 with heap := ld.heap, tss := w1.tss.push ld.ts, cass := w1.cass.push ld.cas, casTs := w1.casTs.push t1i,
                       handles := w1.handles.push (c1i, { view := Cas.INITIAL_VIEW, lenient := h0.lenient }) }
    match r with
    | .error e => pure (jErr e.toString)
    | .ok w' =>
      set w'
      pure (jOk (jNat w.handles.size))
  | "rt.applies" =>
    -- does the round-trip theorem (C01RoundTrip / C01Applies: `rtAppliesB_sound`) apply to this CAS?
    let (ci, _) ← getHandle (← liftP (fldNat j "h"))
    let (_, ts) ← casTsOf ci
    let w ← get
    -- "coll": the theorem for the whole format (C01RoundTripColl / C01AppliesColl: `collAppliesB_sound`)
    pure (jOk (Json.mkObj [("flat", Json.bool (Xmi.rtAppliesB K ts w.cass.toList ci w.heap)),
                           ("coll", Json.bool (Xmi.collAppliesB K ts w.cass.toList ci w.heap)),
                           ("jcoll", Json.bool (Json.jcollAppliesB K ts w.cass.toList ci w.heap))]))
  | "rt.why" =>
    -- diagnostics: which hypothesis of the round-trip theorems fails for this CAS
    let (ci, _) ← getHandle (← liftP (fldNat j "h"))
    let (_, ts) ← casTsOf ci
    let w ← get
    let cass := w.cass.toList
    match cass[ci]? with
    | none => pure (jErr "KeyError")
    | some c =>
      let xs := match Xmi.saveXmi K ts cass ci w.heap with
        | .error e => [("saveXmi", Json.str e.toString)]
        | .ok (_, st) => [("rtWf", Json.bool (Xmi.rtWfB c w.heap)), ("nullOk", Json.bool (Xmi.nullOkB ts)),
            ("collFsBad", jList jStr ((st.allFs.filter (fun q => !(Xmi.collFsB K ts c ci st.heap q.2))).map (fun q => (Comparable.tyOf st.heap q.2)))),
            ("featBad", jList jStr ((st.allFs.filter (fun q => !(Xmi.collFsB K ts c ci st.heap q.2))).flatMap (fun q =>
              match st.heap[q.2]? with
              | none => []
              | some o => match TS.find? ts o.ty with
                | none => ["<type>"]
                | some t => ((TS.allFeatures t).filter (fun f => !(Xmi.collFeatB K ts c ci st.heap (TS.isInstanceOf ts o.ty TS.ANNOTATION) o f))).map
                    (fun f => f.name ++ ":" ++ f.range ++ (match f.multi with | some true => "+" | _ => ""))))),
            ("disjoint", Json.bool (Xmi.disjointB st.allFs c)), ("memSofa", Json.bool (Xmi.memSofaB c st.heap)),
            ("membersOk", Json.bool (Xmi.membersOkB c st.heap))]
      let js := match Json.saveJson K ts cass ci w.heap .none with
        | .error e => [("saveJson", Json.str e.toString)]
        | .ok (_, st) => [("jcollFsBad", jList jStr ((st.allFs.filter (fun q => !(Json.jcollFsB K ts c ci st.heap q.2))).map (fun q => (Comparable.tyOf st.heap q.2)))),
            ("memberIds", Json.bool (Json.memberIdsB c w.heap)), ("jmembersOk", Json.bool (Xmi.membersOkB c st.heap))]
      pure (jOk (Json.mkObj (xs ++ js)))
  | "cas.new" =>
    let ti ← liftP (fldNat j "ts")
    let _ ← getTs ti
    let lenient ← liftP (boolD j "lenient" false)
    let text ← liftP (optText j "text")
    let mime ← liftP (optStr j "mime")
    let w ← get
    let c := Cas.new text mime
    let h : Handle := { view := Cas.INITIAL_VIEW, lenient := lenient }
    set { w with cass := w.cass.push c, casTs := w.casTs.push ti, handles := w.handles.push (w.cass.size, h) }
    pure (jOk (jNat w.handles.size))
  | "cas.create_view" =>
    let (ci, h) ← getHandle (← liftP (fldNat j "h"))
    let name ← liftP (fldStr j "name")
    let c ← getCas ci
    res (Cas.createView c h name) fun (c', h') => do
      setCas ci c'
      let w ← get
      set { w with handles := w.handles.push (ci, h') }
      pure (jOk (jNat w.handles.size))
  | "cas.get_view" =>
    let (ci, h) ← getHandle (← liftP (fldNat j "h"))
    let name ← liftP (fldStr j "name")
    let c ← getCas ci
    res (Cas.getView c h name) fun h' => do
      let w ← get
      set { w with handles := w.handles.push (ci, h') }
      pure (jOk (jNat w.handles.size))
  | "cas.add" =>
    let (ci, h) ← getHandle (← liftP (fldNat j "h"))
    let a ← liftP (fldNat j "fs")
    let keep ← liftP (boolD j "keep_id" true)
    let c ← getCas ci
    let (_, ts) ← casTsOf ci
    let w ← get
    res (Cas.add ts ci c w.heap h a keep) fun (c', hp') => do
      set { w with heap := hp' }
      setCas ci c'
      pure (jOk Json.null)
  | "cas.remove" =>
    let (ci, h) ← getHandle (← liftP (fldNat j "h"))
    let a ← liftP (fldNat j "fs")
    let c ← getCas ci
    let w ← get
    res (Cas.remove c w.heap h a) fun c' => do setCas ci c'; pure (jOk Json.null)
  | "cas.select" =>
    let (ci, h) ← getHandle (← liftP (fldNat j "h"))
    let ty ← liftP (fldStr j "type")
    let c ← getCas ci
    let (_, ts) ← casTsOf ci
    res (Cas.select ts c h ty) fun l => pure (jOk (jList jEntry l))
  | "cas.select_all" =>
    let (ci, h) ← getHandle (← liftP (fldNat j "h"))
    let c ← getCas ci
    res (Cas.selectAll c h) fun l => pure (jOk (jList jEntry l))
  | "cas.select_covered" =>
    let (ci, h) ← getHandle (← liftP (fldNat j "h"))
    let ty ← liftP (fldStr j "type")
    let b ← liftP (fldInt j "b"); let e ← liftP (fldInt j "e")
    let c ← getCas ci
    let (_, ts) ← casTsOf ci
    res (Cas.selectCovered ts c h ty b e) fun l => pure (jOk (jList jEntry l))
  | "cas.select_covering" =>
    let (ci, h) ← getHandle (← liftP (fldNat j "h"))
    let ty ← liftP (fldStr j "type")
    let b ← liftP (fldInt j "b"); let e ← liftP (fldInt j "e")
    let c ← getCas ci
    let (_, ts) ← casTsOf ci
    res (Cas.selectCovering ts c h ty b e) fun l => pure (jOk (jList jEntry l))
  | "cas.sofa_set" =>
    let (ci, h) ← getHandle (← liftP (fldNat j "h"))
    let field ← liftP (fldStr j "field")
    let c ← getCas ci
    let r ← match field with
      | "string" => do pure (Cas.setSofaString c h (← liftP (optText j "v")))
      | "mime" => do pure (Cas.setSofaMime c h (← liftP (optStr j "v")))
      | "uri" => do pure (Cas.setSofaUri c h (← liftP (optStr j "v")))
      | "array" => do pure (Cas.setSofaArray c h (← liftP (do valOfJson (← fld j "v"))))
      | _ => throw "bad-op"
    res r fun c' => do setCas ci c'; pure (jOk Json.null)
  | "cas.sofa_get" =>
    let (ci, h) ← getHandle (← liftP (fldNat j "h"))
    let field ← liftP (fldStr j "field")
    let c ← getCas ci
    res (Cas.cur c h) fun v =>
      match field with
      | "string" => pure (jOk (match v.sofa.text with | some l => jList jNat l | none => Json.null))
      | "mime" => pure (jOk (jOptStr v.sofa.mime))
      | "uri" => pure (jOk (jOptStr v.sofa.uri))
      | "array" => pure (jOk (jsonOfVal v.sofa.arr))
      | "id" => pure (jOk (jInt v.sofa.xid))
      | "num" => pure (jOk (jInt v.sofa.sofaNum))
      | "name" => pure (jOk (jStr v.sofa.sofaID))
      | _ => throw "bad-op"
  | "cas.views" =>
    let (ci, _) ← getHandle (← liftP (fldNat j "h"))
    let c ← getCas ci
    pure (jOk (jList (fun p => jStr p.1) c.views))
  | "cas.doc_ann" =>
    let (ci, h) ← getHandle (← liftP (fldNat j "h"))
    match ← docAnnotation ci h with
    | .ok a => pure (jOk (jNat a))
    | .error e => pure (jErr e.toString)
  | "cas.lang_set" =>
    let (ci, h) ← getHandle (← liftP (fldNat j "h"))
    let v ← liftP (do valOfJson (← fld j "v"))
    match ← docAnnotation ci h with
    | .error e => pure (jErr e.toString)
    | .ok a =>
      let w ← get
      res (Heap.setPath reservedAttrs (extAttr w) w.heap a ["language"] v) fun hp => do
        set { w with heap := hp }; pure (jOk Json.null)
  | "cas.lang_get" =>
    let (ci, h) ← getHandle (← liftP (fldNat j "h"))
    match ← docAnnotation ci h with
    | .error e => pure (jErr e.toString)
    | .ok a =>
      let w ← get
      pure (jOk (jsonOfVal (Heap.getPath reservedAttrs (extAttr w) w.heap a ["language"])))
  | "cas.is_lenient" =>
    let (_, h) ← getHandle (← liftP (fldNat j "h"))
    pure (jOk (Json.bool h.lenient))
  | "cas.typecheck" =>
    let (ci, _) ← getHandle (← liftP (fldNat j "h"))
    let c ← getCas ci
    let (_, ts) ← casTsOf ci
    let w ← get
    res (Traverse.typecheckCas K ts c w.heap) fun (s, errs) => do
      set { w with heap := s.heap }
      setCas ci { c with nextXid := s.nextXid }
      pure (jOk (jList jOptInt errs))
  | "cas.find_all_fs" =>
    let (ci, _) ← getHandle (← liftP (fldNat j "h"))
    let inl ← liftP (boolD j "inlinable" false)
    let gen ← liftP (boolD j "generate_ids" true)
    let c ← getCas ci
    let (_, ts) ← casTsOf ci
    let w ← get
    let seeds ← match optFld j "seeds" with
      | some s => liftP (natList s)
      | none => pure (Traverse.defaultSeeds c)
    res (Traverse.findAllFs K ts { generateIds := gen, includeInlinable := inl } w.heap c.nextXid seeds) fun s => do
      set { w with heap := s.heap }
      setCas ci { c with nextXid := s.nextXid }
      pure (jOk (Json.mkObj [
        ("fs", jList (fun (p : Int × Nat) => Json.arr #[jInt p.1, jNat p.2]) s.allFs),
        ("pops", jNat s.pops), ("pushes", jNat s.pushes), ("list_steps", jNat s.listSteps),
        ("bound", jNat (seeds.length + Traverse.totalOut K ts { generateIds := gen, includeInlinable := inl } w.heap (w.heap.length + 1)))]))
  | "cas.comparable" =>
    let (ci, _) ← getHandle (← liftP (fldNat j "h"))
    let mark ← liftP (boolD j "mark_indexed" true)
    let cov ← liftP (boolD j "covered_text" true)
    let excl ← match optFld j "exclude" with
      | some a => liftP (do (← a.getArr?).toList.mapM (·.getStr?))
      | none => pure []
    let c ← getCas ci
    let (_, ts) ← casTsOf ci
    let w ← get
    let seeds ← match optFld j "seeds" with
      | some s => do pure (some (← liftP (natList s)))
      | none => pure none
    res (Comparable.render K ts w.cass.toList ci w.heap { markIndexed := mark, coveredText := cov, exclude := excl }
          (fun _ => 0) seeds) fun (secs, s) => do
      set { w with heap := s.heap }
      setCas ci { c with nextXid := s.nextXid }
      pure (jOk (jList (fun (sec : Comparable.Section) => Json.mkObj [
        ("type", jStr sec.tyName), ("header", jList jStr sec.header),
        ("rows", jList (fun r => jList jCell r) sec.rows)]) secs))
  | _ => throw "bad-op"

def runSession (ops : List Json) : List Json :=
  let rec go (w : World) : List Json → List Json
    | [] => []
    | o :: os =>
      match (runOp o).run w with
      | .ok (r, w') => r :: go w' os
      | .error e => jErr e :: go w os
  go {} ops

def runOffsets (j : Json) : P Json := do
  let texts ← fldArr j "texts"
  let texts ← texts.mapM (fun t => match t with
    | Json.null => pure (none : Option (List Nat))
    | t => do pure (some (← natList t)))
  let st := texts.foldl Offsets.SofaText.set Offsets.SofaText.init
  let qs ← fldArr j "q"
  let out ← qs.mapM (fun q => do
    match (← q.getArr?).toList with
    | [d, i] =>
      let d ← d.getStr?
      let i ← i.getInt?
      if i < 0 then pure (jInt i)      -- a negative int is never a key: passed through
      else if d == "p2e" then pure (jNat (Offsets.pythonToExternal st.conv i.toNat))
      else if d == "e2p" then pure (jNat (Offsets.externalToPython st.conv i.toNat))
      else throw "bad q"
    | _ => throw "bad q")
  let spec ← match optFld j "spec" with
    | some s => do
      let cps ← natList s
      pure [("utf16", jList jNat (Offsets.utf16Encode cps)), ("table", jList jNat (Offsets.table cps))]
    | none => pure []
  pure (Json.mkObj ([("ok", Json.arr out.toArray)] ++ spec))

/-- per-type list operations of `Model/Index` in isolation (C07 exhaustive scopes) -/
def runCovered (j : Json) : P Json := do
  let l ← fldArr j "l"
  let es ← l.mapM (fun e => do
    match (← e.getArr?).toList with
    | [b, e, o] => pure ({ b := ← b.getInt?, e := ← e.getInt?, oid := ← o.getNat? } : Index.Entry)
    | _ => throw "bad entry")
  let idx := es.foldl (fun acc e => Index.insert e acc) []
  let qs ← fldArr j "q"
  let out ← qs.mapM (fun q => do
    match (← q.getArr?).toList with
    | [b, e] =>
      let b ← b.getInt?; let e ← e.getInt?
      pure (Json.mkObj [
        ("covered", jList jEntry (Index.selectCovered1 idx b e)),
        ("covering", jList jEntry (Index.selectCovering1 idx b e)),
        ("spec_covered", jList jEntry (idx.filter (fun a => decide (b ≤ a.b) && decide (a.e ≤ e)))),
        ("spec_covering", jList jEntry (idx.filter (fun a => decide (a.b ≤ b) && decide (e ≤ a.e))))])
    | _ => throw "bad q")
  pure (Json.mkObj [("ok", Json.arr out.toArray), ("index", jList jEntry idx)])

def handleLine (line : String) : String :=
  match Json.parse line with
  | .error _ => (jErr "bad-op").compress
  | .ok j =>
    match fldStr j "k" with
    | .error _ => (jErr "bad-op").compress
    | .ok "session" =>
      match fldArr j "ops" with
      | .ok ops => (Json.mkObj [("res", Json.arr (runSession ops).toArray)]).compress
      | .error _ => (jErr "bad-op").compress
    | .ok "selfcheck" =>
      (Json.mkObj [("ok", Json.mkObj (Gen.builtinSelfCheck.map (fun p => (p.1, Json.bool p.2))))]).compress
    | .ok "offsets" => (match runOffsets j with | .ok r => r | .error _ => jErr "bad-op").compress
    | .ok "covered" => (match runCovered j with | .ok r => r | .error _ => jErr "bad-op").compress
    | .ok _ => (jErr "bad-op").compress

partial def loop (h : IO.FS.Stream) (out : IO.FS.Stream) : IO Unit := do
  let line ← h.getLine
  if line.isEmpty then return ()
  let t := line.trimAscii.toString
  if !t.isEmpty then
    out.putStrLn (handleLine t)
  loop h out

def main : IO Unit := do
  let stdin ← IO.getStdin
  let stdout ← IO.getStdout
  loop stdin stdout
  stdout.flush
