/-
Specification-side definitions for the MINIMAL embedded type system of C02 (`TypeSystem.transitive_closure`).
-/
import CassisModel.Model.Json

namespace Cassis.TS

/-- a name is either in the set, predefined, or not registered at all -/
def Covered (K : Consts) (ts : TypeSystem) (names : List String) (n : String) : Prop :=
  n ∈ names ∨ K.predefined.contains n = true ∨ find? ts n = none

/-- the set declares everything its members refer to: supertypes, feature ranges, element types -/
def ClosedUnder (K : Consts) (ts : TypeSystem) (names : List String) : Prop :=
  ∀ n ∈ names, ∀ t : TypeRec, find? ts n = some t →
    (∀ s, t.super = some s → Covered K ts names s) ∧
    (∀ f ∈ allFeatures t, Covered K ts names f.range ∧ (∀ e, f.elem = some e → Covered K ts names e))

/-- the fuel `saveJson` gives the closure computation -/
def closureFuel (ts : TypeSystem) (seeds : List String) : Nat :=
  seeds.length + ((ts.types.map (fun t => 2 + 2 * (allFeatures t).length)).sum) + 1

end Cassis.TS
