/-
Specification-side definitions for CAS histories: the operations a client interleaves on one CAS
through any number of view handles, and the invariants that every reachable state satisfies.
-/
import CassisModel.Model.Traverse
import CassisModel.Gen.Builtins

namespace Cassis.Cas

/-- one client operation; `h` is an index into the list of handles obtained so far -/
inductive COp where
  | createView (h : Nat) (name : String)
  | getView (h : Nat) (name : String)
  | newFs (ty : String) (feats : List (String × Val))      -- `T(**feats)`, no xmi:id given
  | add (h : Nat) (addr : Nat) (keepId : Bool)
  | remove (h : Nat) (addr : Nat)
  | setSofaString (h : Nat) (t : Option (List Nat))
  | setSofaMime (h : Nat) (m : Option String)
  | setSofaUri (h : Nat) (u : Option String)
  | setSofaArray (h : Nat) (v : Val)
  | docAnn (h : Nat)
  | assignIds (h : Nat)                                    -- what `to_xmi`/`to_json`/`typecheck` do to the state
deriving Repr

structure CState where
  cas : Cas
  heap : Heap
  handles : List Handle
deriving Repr, Inhabited

/-- `Cas(typesystem, lenient)` and its root handle -/
def init (lenient : Bool) : CState :=
  { cas := Cas.empty, heap := [], handles := [{ view := INITIAL_VIEW, lenient := lenient }] }

/-- one operation; a call that raises leaves the state as it was -/
def cstep (K : TS.Consts) (ts : TS.TypeSystem) (s : CState) : COp → CState
  | .createView h name =>
    match s.handles[h]? with
    | none => s
    | some hd => match createView s.cas hd name with
      | .ok (c', h') => { s with cas := c', handles := s.handles ++ [h'] }
      | .error _ => s
  | .getView h name =>
    match s.handles[h]? with
    | none => s
    | some hd => match getView s.cas hd name with
      | .ok h' => { s with handles := s.handles ++ [h'] }
      | .error _ => s
  | .newFs ty feats =>
    match TS.getType ts ty with
    | .error _ => s
    | .ok t => match construct t 0 none feats with
      | .ok o => { s with heap := s.heap ++ [o] }
      | .error _ => s
  | .add h addr keep =>
    match s.handles[h]? with
    | none => s
    | some hd => match add ts 0 s.cas s.heap hd addr keep with
      | .ok (c', hp') => { s with cas := c', heap := hp' }
      | .error _ => s
  | .remove h addr =>
    match s.handles[h]? with
    | none => s
    | some hd => match remove s.cas s.heap hd addr with
      | .ok c' => { s with cas := c' }
      | .error _ => s
  | .setSofaString h t =>
    match s.handles[h]? with
    | none => s
    | some hd => match setSofaString s.cas hd t with
      | .ok c' => { s with cas := c' }
      | .error _ => s
  | .setSofaMime h m =>
    match s.handles[h]? with
    | none => s
    | some hd => match setSofaMime s.cas hd m with
      | .ok c' => { s with cas := c' }
      | .error _ => s
  | .setSofaUri h u =>
    match s.handles[h]? with
    | none => s
    | some hd => match setSofaUri s.cas hd u with
      | .ok c' => { s with cas := c' }
      | .error _ => s
  | .setSofaArray h v =>
    match s.handles[h]? with
    | none => s
    | some hd => match setSofaArray s.cas hd v with
      | .ok c' => { s with cas := c' }
      | .error _ => s
  | .docAnn h =>
    match s.handles[h]? with
    | none => s
    | some hd => match getDocumentAnnotation ts 0 0 s.cas s.heap hd with
      | .ok (c', hp', _) => { s with cas := c', heap := hp' }
      | .error _ => s
  | .assignIds _ =>
    match Traverse.findAllFs K ts {} s.heap s.cas.nextXid (Traverse.defaultSeeds s.cas) with
    | .ok st => { s with cas := { s.cas with nextXid := st.nextXid }, heap := st.heap }
    | .error _ => s

def sofaIds (c : Cas) : List Int := c.views.map (fun p => p.2.sofa.xid)
def sofaNums (c : Cas) : List Int := c.views.map (fun p => p.2.sofa.sofaNum)
def fsIds (hp : Heap) : List Int := hp.filterMap (·.xid)

/-- every id in use lies below the generators' next values -/
def Bounded (s : CState) : Prop :=
  (∀ x ∈ sofaIds s.cas, x < s.cas.nextXid) ∧ (∀ n ∈ sofaNums s.cas, n < s.cas.nextSofaNum) ∧
  (∀ x ∈ fsIds s.heap, x < s.cas.nextXid)

/-- no two sofas / feature structures share an xmi:id, no two sofas a sofaNum -/
def UniqueIds (s : CState) : Prop :=
  (sofaIds s.cas ++ fsIds s.heap).Nodup ∧ (sofaNums s.cas).Nodup

/-- every handle points to an existing view and carries the root's leniency -/
def HandlesOk (lenient : Bool) (s : CState) : Prop :=
  ∀ hd ∈ s.handles, hd.lenient = lenient ∧ (getViewRec s.cas hd.view).isSome = true

/-- view names are unique and each view's sofa carries the view's name -/
def ViewsOk (s : CState) : Prop :=
  (s.cas.views.map (·.1)).Nodup ∧ ∀ p ∈ s.cas.views, p.2.sofa.sofaID = p.1

end Cassis.Cas
