/-
A computable test "the XMI round-trip theorem (`Properties/C01RoundTrip.lean`, `xmi_roundtrip_flat`) applies to this
CAS": one Boolean function per hypothesis of the theorem (`Spec/RoundTrip.lean`) and their conjunction `rtAppliesB`.
The functions are proved sound in `Proofs/RoundTripCheck.lean`; `Properties/C01Applies.lean` derives the conclusion
of the theorem from `rtAppliesB … = true`.

This file imports specification files only (the compiled driver imports it).
-/
import CassisModel.Spec.RoundTrip

namespace Cassis.Xmi
open Cassis.TS Cassis.Traverse

/-! ### `FlatFeat` / `FlatFs` (the same functions as in `Proofs/RoundTripDemo.lean`) -/

def sofaOkB (c : Cas) (ci : Nat) (isAnn : Bool) : Val → Bool
  | .sofa ci' vn => decide (ci' = ci) && (Cas.getViewRec c vn).isSome
  | .none => !isAnn
  | _ => false

def primOkB (range : String) : Val → Bool
  | .none => true
  | .int _ => isIntRange range
  | .str _ => decide (range = "uima.cas.String")
  | .bool _ => decide (range = "uima.cas.Boolean")
  | .float _ => decide (range = "uima.cas.Float") || decide (range = "uima.cas.Double")
  | _ => false

def refOkB (hp : Heap) : Val → Bool
  | .none => true
  | .ref b => (xidOf hp b).isSome && decide (xidOf hp b ≠ some 0)
  | _ => false

def flatFeatB (K : Consts) (ts : TypeSystem) (c : Cas) (ci : Nat) (hp : Heap) (isAnn : Bool) (o : Obj) (f : Feature) : Bool :=
  decide (ResOk f) && decide (f.name ≠ "xmiID") && decide (f.name ≠ "type") && decide (f.name ≠ "self") &&
  decide (f.name ≠ ID) &&
  decide (isPrimitiveArray K f.range = false) && decide (isPrimitiveList K f.range = false) &&
  decide (f.range ≠ FS_ARRAY) && decide (f.range ≠ FS_LIST) &&
  decide (isInstanceOf ts f.range STRING_ARRAY = false) && decide (isInstanceOf ts f.range STRING_LIST = false) &&
  match alistGet? o.slots f.name with
  | none => false
  | some v =>
    (decide (f.name = "sofa") && sofaOkB c ci isAnn v) ||
    (decide (f.name ≠ "sofa") && isPrimitive K ts f.range && primOkB f.range v) ||
    (decide (f.name ≠ "sofa") && !isPrimitive K ts f.range && !isArray K f.range && !isList K f.range &&
      decide (f.range ≠ "uima.cas.Boolean") && decide (f.range ≠ "uima.cas.Double") && decide (f.range ≠ "uima.cas.Float") &&
      refOkB hp v)

def annOkB (c : Cas) (ci : Nat) (o : Obj) : Bool :=
  match alistGet? o.slots "sofa", alistGet? o.slots "begin", alistGet? o.slots "end" with
  | some (.sofa ci' vn), some (.int b), some (.int e) =>
    decide (ci' = ci) &&
    match Cas.getViewRec c vn with
    | some v =>
      match v.sofa.text with
      | some text => decide (0 ≤ b) && decide (0 ≤ e) && decide (b.toNat ≤ text.length) && decide (e.toNat ≤ text.length)
      | none => false
    | none => false
  | _, _, _ => false

/-- `FlatFs K ts c ci hp a` -/
def flatFsB (K : Consts) (ts : TypeSystem) (c : Cas) (ci : Nat) (hp : Heap) (a : Nat) : Bool :=
  match hp[a]? with
  | none => false
  | some o =>
    match find? ts o.ty with
    | none => false
    | some t =>
      decide (t.name = o.ty) && decide (isArray K o.ty = false) && decide (isList K o.ty = false) &&
      decide (t.super ≠ some ARRAY_BASE) && decide (isPrimitiveArray K o.ty = false) && decide (o.ty ≠ FS_ARRAY) &&
      decide (isInstanceOf ts o.ty STRING_ARRAY = false) && decide (o.ty ≠ SOFA) && decide (o.ty ≠ VIEW_T) &&
      decide ((ctorFields t).Nodup) && decide (o.slots.map (·.1) = (ctorFields t).eraseDups) &&
      (allFeatures t).all (fun f => flatFeatB K ts c ci hp (isInstanceOf ts o.ty ANNOTATION) o f) &&
      (!isInstanceOf ts o.ty ANNOTATION || annOkB c ci o)

/-! ### `RTWf` -/

/-- `Offsets.IsScalar cp` -/
def isScalarB (cp : Nat) : Bool := decide (cp < 0xD800) || (decide (0xE000 ≤ cp) && decide (cp < 0x110000))

/-- the fields of `RTWf` that speak about one view: `names`, `text_sofa`, `conv`, `conv_none`, `scalar`, `sofa_ids` -/
def viewWfB (nx : Int) (nv : String × View) : Bool :=
  decide (nv.2.sofa.sofaID = nv.1) &&
  decide (nv.2.sofa.arr = .none) && decide (nv.2.sofa.uri = none) &&
  (match nv.2.sofa.text with
   | some t => decide (nv.2.sofa.conv = some (Offsets.table t)) && t.all isScalarB
   | none => decide (nv.2.sofa.conv = none)) &&
  decide (0 < nv.2.sofa.xid) && decide (nv.2.sofa.xid < nx)

/-- `ids_below` and `ids_pos`: every id in the heap is positive and below the generator -/
def idsOkB (hp : Heap) (nx : Int) : Bool :=
  hp.all (fun o => match o.xid with
    | some x => decide (0 < x) && decide (x < nx)
    | none => true)

/-- `RTWf c hp` -/
def rtWfB (c : Cas) (hp : Heap) : Bool :=
  decide ((c.views.head?).map (·.1) = some Cas.INITIAL_VIEW) &&
  decide ((c.views.map (·.1)).Nodup) &&
  decide ((c.views.map (·.2.sofa.xid)).Nodup) &&
  decide (0 < c.nextXid) &&
  c.views.all (viewWfB c.nextXid) &&
  idsOkB hp c.nextXid

/-! ### `NullOk`, `MembersOk`, and the two inline hypotheses -/

/-- `NullOk ts` -/
def nullOkB (ts : TypeSystem) : Bool :=
  match find? ts NULL_T with
  | some t0 => (allFeatures t0).isEmpty
  | none => false

/-- the sort key of the structure `e` refers to exists -/
def entryOkB (hp : Heap) (e : Index.Entry) : Bool :=
  match hp[e.oid]? with
  | some o =>
    match Cas.entryOf o e.oid with
    | .ok _ => true
    | .error _ => false
  | none => false

/-- type and "has `None` offsets" of the structure `e` refers to -/
def entryKind (hp : Heap) (e : Index.Entry) : Option (String × Bool) :=
  match hp[e.oid]? with
  | some o =>
    match Cas.entryOf o e.oid with
    | .ok k => some (o.ty, decide (k.b = Index.NONE_KEY))
    | .error _ => none
  | none => none

def viewMembersOkB (hp : Heap) (nv : String × View) : Bool :=
  (Index.all nv.2.idx).all (entryOkB hp) &&
  (let ks := (Index.all nv.2.idx).filterMap (entryKind hp)
   ks.all (fun p => ks.all (fun q => !(p.1 == q.1) || p.2 == q.2)))

/-- `MembersOk c hp` -/
def membersOkB (c : Cas) (hp : Heap) : Bool := c.views.all (viewMembersOkB hp)

/-- hypothesis `hmem` of `xmi_roundtrip_flat`: no indexed structure has `sofa = None` -/
def memSofaB (c : Cas) (hp : Heap) : Bool :=
  c.views.all (fun nv => (Index.all nv.2.idx).all (fun e => decide (slot hp e.oid "sofa" ≠ some .none)))

/-- hypothesis `hdis` of `xmi_roundtrip_flat`: structure ids differ from sofa ids -/
def disjointB (allFs : List (Int × Nat)) (c : Cas) : Bool :=
  allFs.all (fun q => c.views.all (fun nv => decide (q.1 ≠ nv.2.sofa.xid)))

/-! ### The test -/

/-- every hypothesis of `xmi_roundtrip_flat` holds for the CAS `cass[ci]` over the heap `hp` -/
def rtAppliesB (K : Consts) (ts : TypeSystem) (cass : List Cas) (ci : Nat) (hp : Heap) : Bool :=
  match cass[ci]? with
  | none => false
  | some c =>
    match saveXmi K ts cass ci hp with
    | .error _ => false
    | .ok (_, st) =>
      rtWfB c hp && nullOkB ts && st.allFs.all (fun q => flatFsB K ts c ci st.heap q.2) && disjointB st.allFs c &&
      memSofaB c st.heap && membersOkB c st.heap

end Cassis.Xmi
