/-
Specification-side definitions for the document-level part of C09 (`Properties/C09Write.lean`):
what "the ids of all elements of a written document" are, and when a structure can be visited by the
traversal without any exception other than the duplicate-id report.
-/
import CassisModel.Spec.Reach
import CassisModel.Spec.Cas
import CassisModel.Model.Xmi
import CassisModel.Model.Json

namespace Cassis.Traverse
open Cassis.TS

/-- the structure at `a` exists, its type is registered and its references can be enumerated (no dangling address,
    no non-structure value in a reference feature, no cyclic list spine) — or it is the NULL object, which the
    traversal skips.  On such a structure an iteration of `_find_all_fs` can only raise the two `ValueError`s. -/
def Expandable (K : Consts) (ts : TypeSystem) (o : Opts) (hp : Heap) (lf : Nat) (a : Nat) : Prop :=
  ∃ ob : Obj, hp[a]? = some ob ∧
    (ob.xid = some 0 ∨ ∃ t r, getType ts ob.ty = .ok t ∧ nodeSuccs K ts o hp [] lf a t = .ok r)

/-- two different reachable structures, neither of them the NULL object, carry one id -/
def ReachableDuplicate (K : Consts) (ts : TypeSystem) (o : Opts) (hp : Heap) (seeds : List Nat) : Prop :=
  ∃ (a b : Nat) (x : Int), a ≠ b ∧ x ≠ 0 ∧
    Reach K ts o hp (hp.length + 1) seeds a ∧ Reach K ts o hp (hp.length + 1) seeds b ∧
    xidOf hp a = some x ∧ xidOf hp b = some x

end Cassis.Traverse

namespace Cassis.Xmi

/-- the `xmi:id` attributes of all elements of the document, in document order (`cas:NULL`, structures, sofas;
    view elements carry none) -/
def docIds (doc : XDoc) : List String := doc.filterMap (fun e => attr e ID)

/-- the sofa elements `saveXmi` writes -/
def sofaElems (c : Cas) : List XElem := c.views.map (fun p => renderSofa p.2.sofa)

end Cassis.Xmi

namespace Cassis.Json

/-- the `%ID` members of all entries of `%FEATURE_STRUCTURES`, in document order (`none` = `null`) -/
def docIds (doc : JDoc) : List (Option Int) := doc.fss.map (·.id)

/-- the ids under which `saveJson` writes the sofas and, before each, the sofa's byte array if it has one
    (rendered before the traversal: with the id the array has at that moment, possibly none) -/
def sofaPartIds (hp : Heap) (c : Cas) : List (Option Int) :=
  c.views.flatMap (fun p => (match p.2.sofa.arr with | .ref a => [idOf hp a] | _ => []) ++ [some p.2.sofa.xid])

/-- no sofa of the CAS carries a byte array -/
def NoSofaArray (c : Cas) : Prop := ∀ p ∈ c.views, ∀ a, p.2.sofa.arr ≠ .ref a

/-- the `sofaNum` members of the sofa entries -/
def sofaNumOf (e : JFs) : Option JV := alistGet? e.feats "sofaNum"

end Cassis.Json
