/-
Specification-side definitions for C20 across the XMI round trip on the whole format (`Properties/C20IsoColl.lean`): the
hypotheses `render_xmi_roundtrip_coll` needs beyond those of `xmi_roundtrip_coll` (fragment `CollFs`) and `Distinct`.

`cas_to_comparable_text` looks at three things the fragment `CollFs` (`Spec/RoundTripCollFrag.lean`) does not speak about,
because the XMI round trip does not depend on them:

* the *elements of string arrays*: XMI reads `<sa></sa>` and `<sa/>` alike, so an element `""` comes back as null and is
  shown as `<NULL>` (`NoEmptyStr`);
* the *type of an inlined array object*: `_render_feature_value` shows a reference to an object of an array type by its
  elements and every other reference by the anchor of its target; the reader makes the inlined array an object of the
  range type of the feature, whatever the written object was (`InlOk.arr`);
* the *id of the first node of an inlined list*: such a node is not collected, so it has no anchor — unless it carries
  the id of a collected structure (because it is also reachable as a structure of its own, or carries a stale id); the
  reader makes new nodes without id (`InlOk.list`).

Each is forced by a counterexample evaluated on the model (`Spec/ComparableIsoCollCheck.lean`).
-/
import CassisModel.Spec.ComparableIso
import CassisModel.Spec.RoundTripCollFrag

namespace Cassis.Comparable
open Cassis.TS Cassis.Traverse

/-- no element of a string list value is the empty string -/
def NoEmptyStr : Val → Prop
  | .strs l => some "" ∉ l
  | _ => True

instance (v : Val) : Decidable (NoEmptyStr v) := by
  unfold NoEmptyStr; split <;> exact inferInstance

/-- the types of the list nodes the XMI reader makes for inlined lists -/
def listNodeTypes : List String :=
  [ "uima.cas.EmptyFSList", "uima.cas.NonEmptyFSList", "uima.cas.EmptyIntegerList", "uima.cas.NonEmptyIntegerList",
    "uima.cas.EmptyFloatList", "uima.cas.NonEmptyFloatList", "uima.cas.EmptyStringList", "uima.cas.NonEmptyStringList" ]

/-- the constants do not classify a list-node type as an array type (`K` is an arbitrary record in the theorems; true
    for the generated constants) -/
def NodeTysNotArr (K : Consts) : Prop := ∀ n ∈ listNodeTypes, isArray K n = false

instance (K : Consts) : Decidable (NodeTysNotArr K) := by unfold NodeTysNotArr; exact inferInstance

/-- what `cas_to_comparable_text` needs of the collected structure at `a` beyond `CollFs`; `addrs` are the collected
    structures -/
structure InlOk (K : Consts) (ts : TypeSystem) (H : Heap) (addrs : List Nat) (a : Nat) : Prop where
  /-- a string array object holds no empty string -/
  strs : ∀ ev : Val, Traverse.slot H a "elements" = some ev → NoEmptyStr ev
  /-- an inlined array is an object of an array type, and holds no empty string if it is a string array -/
  arr : ∀ (o : Obj) (t : TypeRec) (f : Feature) (cc : Nat), H[a]? = some o → find? ts o.ty = some t →
    f ∈ allFeatures t → Xmi.isInline K f = true → isArray K f.range = true →
    alistGet? o.slots f.name = some (.ref cc) →
    isArrayFs K H cc = true ∧ ∀ ev : Val, Traverse.slot H cc "elements" = some ev → NoEmptyStr ev
  /-- the first node of an inlined list is not an object of an array type and does not carry the id of a collected
      structure -/
  list : ∀ (o : Obj) (t : TypeRec) (f : Feature) (cc : Nat), H[a]? = some o → find? ts o.ty = some t →
    f ∈ allFeatures t → Xmi.isInline K f = true → isArray K f.range = false →
    alistGet? o.slots f.name = some (.ref cc) →
    isArrayFs K H cc = false ∧ ∀ b ∈ addrs, xidOf H b ≠ xidOf H cc

end Cassis.Comparable
