/-
Specification-side definitions for the XMI round trip on the *whole* format: structures whose features may also be
arrays and lists, inlined (`multipleReferencesAllowed` false or unset) or shared (written as structures of their own).

What a feature *means* is now compared deeply: an inlined array or list is its sequence of elements (XMI does not keep
the identity of the collection object), with the one equivalence the format forces: inside string arrays and lists a null
element and the empty string are the same.  A shared collection is a reference to the collection object (by its xmi:id),
and the collection object is a structure of its own whose `elements` / `head` / `tail` are compared like any feature.
-/
import CassisModel.Spec.RoundTrip

namespace Cassis.Xmi
open Cassis.TS Cassis.Traverse

/-- the meaning of a feature value, deep for inlined collections -/
inductive CVal where
  | none
  | int (i : Int)
  | str (s : String)
  | bool (b : Bool)
  | float (t : String)
  | ref (id : Option Int)
  | sofa (view : String)
  | elems (l : List CVal)
  | other
deriving Repr, Inhabited

/-- the elements of an array value (`fs.elements`): references by the id of their target; null and `""` coincide in
    string arrays; an empty list has no element kind -/
def elemVals (hp : Heap) : Val → List CVal
  | .ints l => l.map .int
  | .bools l => l.map .bool
  | .floats l => l.map .float
  | .strs l => l.map (fun s => match s with
      | some s => if s == "" then .none else .str s
      | none => .none)
  | .refs l => l.map (fun r => match r with
      | some b => .ref (xidOf hp b)
      | none => .none)
  | _ => []

/-- one element of a list (`head`) -/
def headVal (hp : Heap) (isStr : Bool) : Val → CVal
  | .none => .none
  | .int i => .int i
  | .str s => if isStr && s == "" then .none else .str s
  | .bool b => .bool b
  | .float t => .float t
  | .ref b => .ref (xidOf hp b)
  | _ => .other

/-- the heads along the `tail` chain of a list (fuel = spine budget) -/
def listVals (hp : Heap) (isStr : Bool) : Nat → Val → List CVal
  | 0, _ => []
  | f+1, .ref a =>
    match slot hp a "head" with
    | none => []
    | some hd => headVal hp isStr hd :: listVals hp isStr f ((slot hp a "tail").getD .none)
  | _, _ => []

/-- a plain value: references (also to shared collection objects) by the id of their target; raw element lists (the
    `elements` slot of an array object) by their elements -/
def cvalOf (hp : Heap) : Val → CVal
  | .none => .none
  | .int i => .int i
  | .str s => .str s
  | .bool b => .bool b
  | .float t => .float t
  | .ref a => .ref (xidOf hp a)
  | .sofa _ vn => .sofa vn
  | .attr _ => .other
  | v => .elems (elemVals hp v)

/-- is the feature written inline? (`multipleReferencesAllowed` false or unset, range an array or list type) -/
def isInline (K : Consts) (f : Feature) : Bool := !(f.multi.getD false) && (isArray K f.range || isList K f.range)

/-- the content of feature `f` of the structure at `a` -/
def featContentC (K : Consts) (hp : Heap) (a : Nat) (f : Feature) : CVal :=
  let v := (slot hp a f.name).getD .none
  if isInline K f then
    match v with
    | .ref c =>
      if isArray K f.range then .elems (elemVals hp ((slot hp c "elements").getD .none))
      else .elems (listVals hp (f.range == STRING_LIST) (hp.length + 1) v)
    | w => cvalOf hp w
  else cvalOf hp v

end Cassis.Xmi
