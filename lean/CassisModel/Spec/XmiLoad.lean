/-
Specification-side definitions for the end-to-end statement of C17 (lenient vs strict loading).
-/
import CassisModel.Model.Xmi

namespace Cassis.Xmi
open Cassis.TS Cassis.Lex

/-- a view without the given member ids -/
def dropMembersPV (L : List Int) (v : PView) : PView :=
  { v with members := v.members.filter (fun m => !(L.contains m)) }

/-- the first-pass result one would get had the dropped structures never been mentioned -/
def dropMembers (L : List Int) (p : Pass1) : Pass1 :=
  { p with lenientIds := [], views := p.views.map (fun q => (q.1, dropMembersPV L q.2)) }

/-- the same at the level of the document: the `members` attribute of a view element without the given ids -/
def dropMembersElem (L : List Int) (e : XElem) : XElem :=
  if e.ty == VIEW_T then
    { e with attrs := e.attrs.map (fun kv =>
        if kv.1 == "members" then
          (kv.1, joinSp ((splitWs kv.2).filter (fun t => match parseInt t with
            | some i => !(L.contains i)
            | none => true)))
        else kv) }
  else e

end Cassis.Xmi
