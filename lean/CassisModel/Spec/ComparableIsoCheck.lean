/-
Evaluated tests and counterexamples for `Properties/C20Iso.lean`.

* `isoB`: a Boolean rendering of `Iso` (`Spec/ComparableIso.lean`) for experiments (not used by any proof);
* `xmiRun` / `jsonRun`: the save/load round trip of the models followed by the two renderings, with `isoB` for the
  id-induced address map — the candidate statements `renderFrom_iso`, `render_xmi_roundtrip_flat`,
  `render_json_roundtrip_flat` evaluated on instances before they were proved;
* the counterexamples that justify the shape of `Iso` (`cx_key`, `cx_stale_id`; `cx_depth` recorded an artefact of the model's former recursion budget and is now a positive test) and the one that shows why the
  round-trip corollaries of `Properties/C20Iso.lean` stop at the flat fragment (`cx_strarray_empty`; the whole format:
  `Properties/C20IsoColl.lean`, `Spec/ComparableIsoCollCheck.lean`).  The corollaries `render_xmi_roundtrip_flat` /
  `render_json_roundtrip_flat` have no hypothesis beyond those of `xmi_roundtrip_flat` / `json_roundtrip_flat` and
  `Distinct` (the XMI one even drops `hdis`), so there is no further hypothesis to justify.

The evaluated results are quoted in the comments next to each `#eval`.
-/
import CassisModel.Spec.ComparableIso
import CassisModel.Spec.RoundTripCollCheck
import CassisModel.Spec.RoundTripJson
import CassisModel.Model.Json

namespace Cassis.Comparable
open Cassis.TS Cassis.Traverse

/-! ### Boolean versions -/

def Cell.beq : Cell → Cell → Bool
  | .none, .none => true
  | .int i, .int j => i == j
  | .float s, .float t => s == t
  | .bool a, .bool b => a == b
  | .str s, .str t => s == t
  | .text s, .text t => s == t
  | .list l, .list m => go l m
  | _, _ => false
where
  go : List Cell → List Cell → Bool
    | [], [] => true
    | a :: l, b :: m => Cell.beq a b && go l m
    | _, _ => false

def rowsBeq : List (List Cell) → List (List Cell) → Bool
  | [], [] => true
  | r :: rs, u :: us => Cell.beq (.list r) (.list u) && rowsBeq rs us
  | _, _ => false

def secsBeq : List Section → List Section → Bool
  | [], [] => true
  | s :: ss, t :: ts => s.tyName == t.tyName && s.header == t.header && rowsBeq s.rows t.rows && secsBeq ss ts
  | _, _ => false

def exBeq {α β} (eq : α → β → Bool) : Except Err α → Except Err β → Bool
  | .ok a, .ok b => eq a b
  | .error e, .error e' => e == e'
  | _, _ => false

def sameCellB (v v' : Val) : Bool :=
  match plainCell v, plainCell v' with
  | some c, some c' => Cell.beq c c'
  | _, _ => false

def emptyListB (v : Val) : Bool :=
  v == .refs [] || v == .ints [] || v == .floats [] || v == .bools [] || v == .strs []

def sameKeyB (hp hp' : Heap) (addrs : List Nat) (φ : Nat → Nat) (a a' : Nat) : Bool :=
  addrs.all (fun b => decide (xidOf hp b = xidOf hp a) == decide (xidOf hp' (φ b) = xidOf hp' a'))

def refsRelB (R : Nat → Nat → Bool) : List (Option Nat) → List (Option Nat) → Bool
  | [], [] => true
  | none :: l, none :: l' => refsRelB R l l'
  | some a :: l, some a' :: l' => R a a' && refsRelB R l l'
  | _, _ => false

def elemRelB (S : Val → Val → Bool) (s s' : Option Val) : Bool :=
  match s, s' with
  | none, none => true
  | some v, some v' => if v == .none || v' == .none then v == .none && v' == .none else S v v'
  | _, _ => false

def valRelB (K : Consts) (hp hp' : Heap) (R : Nat → Nat → Bool) : Nat → Val → Val → Bool
  | 0, v, v' => sameCellB v v'
  | d+1, v, v' =>
    sameCellB v v' || (emptyListB v && emptyListB v') ||
    match v, v' with
    | .ref a, .ref a' =>
      if isArrayFs K hp a then
        isArrayFs K hp' a' && elemRelB (valRelB K hp hp' R d) (slot hp a "elements") (slot hp' a' "elements")
      else !isArrayFs K hp' a' && R a a'
    | .refs l, .refs l' => refsRelB (fun a a' => valRelB K hp hp' R d (.ref a) (.ref a')) l l'
    | _, _ => false

def slotNames (hp : Heap) (a : Nat) : List String := match hp[a]? with | some o => o.slots.map (·.1) | none => []

/-- a depth that covers every acyclic nesting of arrays in either heap (`Iso.slots` asks for *some* depth) -/
def checkDepth (hp hp' : Heap) : Nat := 2 * max hp.length hp'.length + 2

/-- `Iso`, conjunct by conjunct (the list of the conjuncts that fail; `[]` = isomorphic) -/
def isoFails (K : Consts) (cass cass' : List Cas) (hp hp' : Heap) (indexed indexed' addrs addrs' : List Nat)
    (φ : Nat → Nat) : List String :=
  (if (addrs.map φ).isPerm addrs' then [] else ["bij"]) ++
  (if addrs'.eraseDups.length == addrs'.length then [] else ["nodup"]) ++
  (if addrs.all (fun a => indexed.contains a == indexed'.contains (φ a)) then [] else ["idx"]) ++
  (if addrs.all (fun a => tyOf hp' (φ a) == tyOf hp a) then [] else ["ty"]) ++
  (if addrs.all (fun a => sameKeyB hp hp' addrs φ a (φ a)) then [] else ["key"]) ++
  (if addrs.all (fun a => exBeq (· == ·) (viewTag cass' hp' (φ a)) (viewTag cass hp a)) then [] else ["view"]) ++
  (if addrs.all (fun a => !isAnnot hp a ||
      exBeq (· == ·) (Cas.coveredText cass' hp' (φ a)) (Cas.coveredText cass hp a)) then [] else ["covered"]) ++
  (if addrs.all (fun a => ((slotNames hp a ++ slotNames hp' (φ a)).filter (· != "sofa")).all (fun n =>
      valRelB K hp hp' (sameKeyB hp hp' addrs φ) (checkDepth hp hp')
        ((slot hp a n).getD .none) ((slot hp' (φ a) n).getD .none))) then [] else ["slots"]) ++
  (if addrs.all (fun a => !isArrayFs K hp a ||
      (slot hp' (φ a) "elements").isSome == (slot hp a "elements").isSome) then [] else ["elems"])

def distinctB (hp : Heap) (addrs : List Nat) : Bool :=
  addrs.all (fun a => addrs.all (fun b => a == b || tyOf hp a != tyOf hp b ||
    (isAnnot hp a && isAnnot hp b && (beginOf hp a != beginOf hp b || endOf hp a != endOf hp b))))

/-- the address map induced by the ids: the collected structure of `hp'` that carries the id `a` carries in `hp`
    (`hp`: the heap the *writer* has assigned ids in) -/
def phiById (hp hp' : Heap) (addrs' : List Nat) (a : Nat) : Nat :=
  (addrs'.find? (fun a' => xidOf hp' a' == xidOf hp a)).getD 0

/-! ### the round trips, evaluated -/

structure Run where
  distinct : Bool
  isoFails : List String
  sameFrom : Bool          -- the two `renderFrom` results agree
  same : Bool              -- the two `render` results agree (same table or same exception)
  ok : Bool                -- … and are tables
deriving Repr

def mkRun (K : Consts) (ts : TypeSystem) (c c' : Cas) (hp hid hpL : Heap) : Except Err Run := do
  let st ← findAllFs K ts {} hp c.nextXid (defaultSeeds c)
  let st' ← findAllFs K ts {} hpL c'.nextXid (defaultSeeds c')
  let addrs := st.allFs.map (·.2)
  let addrs' := st'.allFs.map (·.2)
  let φ := phiById hid st'.heap addrs'
  let r := render K ts [c] 0 hp {} (fun _ => 0) none
  let r' := render K ts [c, c'] 1 hpL {} (fun _ => 0) none
  pure { distinct := distinctB st.heap addrs,
         isoFails := isoFails K [c] [c, c'] st.heap st'.heap (defaultSeeds c) (defaultSeeds c') addrs addrs' φ,
         sameFrom := exBeq secsBeq
           (renderFrom K ts [c] st.heap {} (fun _ => 0) (defaultSeeds c) addrs)
           (renderFrom K ts [c, c'] st'.heap {} (fun a => a) (defaultSeeds c') addrs'),
         same := exBeq (fun a b => secsBeq a.1 b.1) r r',
         ok := match r with | .ok _ => true | .error _ => false }

/-- `load_cas_from_xmi(cas.to_xmi())`, then both renderings -/
def xmiRun (K : Consts) (ts : TypeSystem) (c : Cas) (hp : Heap) : Except Err Run := do
  let (doc, st) ← Xmi.saveXmi K ts [c] 0 hp
  let ld ← Xmi.loadXmi K ts 0 1 false st.heap doc
  mkRun K ts c ld.cas hp st.heap ld.heap

/-- `load_cas_from_json(cas.to_json())` (no embedded type system), then both renderings -/
def jsonRun (K : Consts) (ts : TypeSystem) (c : Cas) (hp : Heap) : Except Err Run := do
  let (doc, st) ← Json.saveJson K ts [c] 0 hp .none
  let ld ← Json.loadJson K ts 0 1 false false st.heap doc
  mkRun K ts c ld.cas hp st.heap ld.heap

/-- the first differing cells of two tables (for the reports) -/
def diffSecs (a b : List Section) : List String :=
  if a.length != b.length then ["#sections"] else
  (a.zip b).flatMap fun (s, t) =>
    if s.tyName != t.tyName || s.header != t.header then [s!"header {s.tyName}"] else
    if s.rows.length != t.rows.length then [s!"#rows {s.tyName}"] else
    (s.rows.zip t.rows).flatMap fun (r, u) =>
      ((s.header.zip (r.zip u)).filter (fun (_, c, d) => !Cell.beq c d)).map
        (fun (h, c, d) => s!"{s.tyName}.{h}: {reprStr c} / {reprStr d}")

end Cassis.Comparable

/-! ## Evaluated instances and counterexamples -/

namespace Cassis.Comparable.IsoCheck
open Cassis.TS Cassis.Traverse Cassis.Xmi Cassis.Xmi.CollDemo

/-! ### the candidate statements on instances (evaluated before the proofs were written)

`ResDemo.flatTs/flatCas/flatHp`: the flat instance of `Spec/RoundTripCollCheck.lean` (two `x.F` annotations over `a😀b`
referring to each other, one indexed).  `CollDemo`: the instance with every collection kind. -/

-- flat, XMI and JSON: isomorphic, same table — `{ distinct := true, isoFails := [], sameFrom := true, same := true, ok := true }`
#eval xmiRun K ResDemo.flatTs ResDemo.flatCas ResDemo.flatHp
#eval jsonRun K ResDemo.flatTs ResDemo.flatCas ResDemo.flatHp
-- the table of the flat instance (both sides):
-- x.F | <ANCHOR> <COVERED_TEXT> begin end self_ type_
--     | F[0-2]*@_InitialView  "a😀"  0 2 7      F[2-3]@_InitialView
--     | F[2-3]@_InitialView   "b"    2 3 <NULL> F[0-2]*@_InitialView
#eval (render K ResDemo.flatTs [ResDemo.flatCas] 0 ResDemo.flatHp {} (fun _ => 0) none).map (·.1)

/-- **`cx_strarray_empty`** — the instance with collections: the XMI round trip is *not* an isomorphism and the table
    changes, in exactly one cell: the inlined StringArray `sa = ['a b', '', None, 'c']` comes back as
    `['a b', None, None, 'c']` (`''` and null are the same in XMI: `<sa></sa>` = `<sa/>`), rendered
    `['a b', '<NULL>', '<NULL>', 'c']` instead of `['a b', '', '<NULL>', 'c']`.
    Replayed on `/repo`: `cas_to_comparable_text` differs across `load_cas_from_xmi(cas.to_xmi())` —
    ```
    ts = TypeSystem(); T = ts.create_type("x.Doc", "uima.tcas.Annotation")
    ts.create_feature(T, "sa", "uima.cas.StringArray"); SA = ts.get_type("uima.cas.StringArray")
    cas = Cas(ts, sofa_string="abc"); cas.add(T(begin=0, end=1, sa=SA(elements=["a b", "", None, "c"])))
    cas_to_comparable_text(cas) == cas_to_comparable_text(load_cas_from_xmi(cas.to_xmi(), typesystem=ts))   # False
    ```
    (`"['a b', '', '<NULL>', 'c']"` against `"['a b', '<NULL>', '<NULL>', 'c']"`; the JSON round trip keeps the text). -/
def cx_strarray_empty := xmiRun K ts cas hp
-- `{ distinct := true, isoFails := ["slots"], sameFrom := false, same := false, ok := true }`
#eval cx_strarray_empty
/-- … and without the empty string element everything agrees (all collection kinds, inlined and shared; the inlined
    arrays of the loaded CAS are new objects without ids: compared by content) -/
def ok_coll := xmiRun K ts cas (hp.set 9 (arr "uima.cas.StringArray" (.strs [some "a b", none, some "c"])))
-- `{ distinct := true, isoFails := [], sameFrom := true, same := true, ok := true }`
#eval ok_coll
/-- the JSON round trip of the instance (JSON keeps `''` and null apart) -/
def ok_coll_json := jsonRun K ts cas hp
-- `{ distinct := true, isoFails := [], sameFrom := true, same := true, ok := true }`
#eval ok_coll_json

/-! ### why `Iso` asks what it asks -/

def fObj (xid : Option Int) (self : Val) (peer : Val) (b e : Int) : Obj :=
  { ty := "x.F", ts := 0, xid := xid, slots := [("self_", self), ("type_", peer)] ++ tailSlots b e }

/-- both sides of an experiment with the identity as address map: (failing conjuncts of `Iso`, tables equal?) -/
def pair (ts : TypeSystem) (h h' : Heap) (addrs : List Nat) : List String × Bool :=
  (isoFails K [ResDemo.flatCas] [ResDemo.flatCas] h h' [0] [0] addrs addrs id,
   exBeq secsBeq (renderFrom K ts [ResDemo.flatCas] h {} (fun _ => 0) [0] addrs)
     (renderFrom K ts [ResDemo.flatCas] h' {} (fun _ => 0) [0] addrs))

/-- **`cx_key`** — ids need not be preserved, but their coincidences must: two collected structures with different ids
    on one side, with the same id on the other.  The anchor map is keyed by id, the second structure overwrites the
    anchor of the first: every lookup of either gives `F[2-3]…`.  (`["key", "slots"], false`: the references between the
    two are unrelated as well) -/
def cx_key := pair ResDemo.flatTs
  [fObj (some 2) (.int 7) (.ref 1) 0 2, fObj (some 3) .none (.ref 0) 2 3]
  [fObj (some 5) (.int 7) (.ref 1) 0 2, fObj (some 5) .none (.ref 0) 2 3] [0, 1]
#eval cx_key
/-- … whereas a renumbering that keeps the coincidences is fine, whatever the ids (`[], true`) -/
def ok_key := pair ResDemo.flatTs
  [fObj (some 2) (.int 7) (.ref 1) 0 2, fObj (some 3) .none (.ref 0) 2 3]
  [fObj (some 9) (.int 7) (.ref 1) 0 2, fObj none .none (.ref 0) 2 3] [0, 1]
#eval ok_key

/-- **`cx_stale_id`** — a reference to a structure that is *not* collected (possible only when seeds are given) is
    rendered as `None`, unless the target carries the id of a collected structure: then it is rendered as that
    structure's anchor.  So such references are related by `SameKey` as well, not ignored.  (`["slots"], false`) -/
def cx_stale_id := pair ResDemo.flatTs
  [fObj (some 2) (.int 7) (.ref 1) 0 2, fObj (some 3) .none .none 2 3]
  [fObj (some 2) (.int 7) (.ref 1) 0 2, fObj (some 2) .none .none 2 3] [0]
#eval cx_stale_id
/-- both targets uncollected with ids that no collected structure carries: related (`sameKey_fresh`) (`[], true`) -/
def ok_fresh := pair ResDemo.flatTs
  [fObj (some 2) (.int 7) (.ref 1) 0 2, fObj (some 3) .none .none 2 3]
  [fObj (some 2) (.int 7) (.ref 1) 0 2, fObj none .none .none 2 3] [0]
#eval ok_fresh

def docObj (fsa : Val) : Obj :=
  { ty := "x.Doc", ts := 0, xid := some 2, slots := [("n", .none), ("next", .none)] ++
      (noColl.map (fun p => if p.1 == "fsa" then (p.1, fsa) else p)) ++ tailSlots 0 2 }

def nested : Heap :=
  [ docObj (.ref 1), arr "uima.cas.FSArray" (.refs [some 2]), arr "uima.cas.FSArray" (.refs [some 3]),
    arr "uima.cas.FSArray" (.refs []) ]

/-- **`cx_depth`** (repaired, now a positive test) — the budget of the model's `renderVal` used to be `|heap| + 1` while
    every level of array nesting costs two units: `x.Doc.fsa = [[[]]]` in a heap of four objects exhausted it
    (`RuntimeError`), the same content in a heap with three more (unrelated) objects did not — the two sides of an
    isomorphism differed.  The model's budget is now `2 * |heap| + 2`, enough for every acyclic nesting, as in the
    implementation (whose only limit is the interpreter's recursion limit): both sides render `[[[]]]`, and the two heaps
    are isomorphic (`Iso.slots` asks for some nesting depth, no longer for one bounded by the heap sizes).  (`([], true), true, true`) -/
def cx_depth := (pair ts nested (nested ++ [arr "uima.cas.IntegerArray" .none, arr "uima.cas.IntegerArray" .none,
    arr "uima.cas.IntegerArray" .none]) [0],
  (renderFrom K ts [ResDemo.flatCas] nested {} (fun _ => 0) [0] [0]).toOption.isSome,
  (renderFrom K ts [ResDemo.flatCas] (nested ++ [arr "uima.cas.IntegerArray" .none, arr "uima.cas.IntegerArray" .none,
    arr "uima.cas.IntegerArray" .none]) {} (fun _ => 0) [0] [0]).toOption.isSome)
#eval cx_depth
#guard cx_depth.1.1.isEmpty && cx_depth.1.2 && cx_depth.2.1 && cx_depth.2.2
/-- a cycle of arrays still exhausts the budget, on both sides alike (Python: `RecursionError` on both) -/
def cyc_depth :=
  let cyc := nested.set 3 (arr "uima.cas.FSArray" (.refs [some 1]))
  ((renderFrom K ts [ResDemo.flatCas] cyc {} (fun _ => 0) [0] [0]).toOption.isSome,
   (renderFrom K ts [ResDemo.flatCas] (cyc ++ [arr "uima.cas.IntegerArray" .none]) {} (fun _ => 0) [0] [0]).toOption.isSome)
#guard cyc_depth == (false, false)

/-- all of the above at once -/
def allRuns : List (String × String) :=
  [ ("cx_strarray_empty", reprStr cx_strarray_empty), ("ok_coll", reprStr ok_coll), ("ok_coll_json", reprStr ok_coll_json),
    ("cx_key", reprStr cx_key), ("ok_key", reprStr ok_key), ("cx_stale_id", reprStr cx_stale_id),
    ("ok_fresh", reprStr ok_fresh), ("cx_depth", reprStr cx_depth) ]

end Cassis.Comparable.IsoCheck
