/-
Specification-side definitions for "the JSON reader depends on the type system only through what it consults" (C02,
embedded type systems).

The reader (`parseFs`, `addJMembers` of `Model/Json.lean`) asks the type system three questions:
* `get_type(name)` for the `%TYPE` of every feature structure of the document — of the answer it uses the *name* and the
  *set of feature names* (the constructor fields); ranges, element types, `multipleReferencesAllowed`, domains and
  descriptions of the features are never looked at: the document itself says through the key prefixes `@` / `#` what is
  a reference and what a special float;
* `is_instance_of(type, uima.tcas.Annotation)` — are the offsets to be converted;
* `contains_type(type)` when a structure is indexed (`Cas.add`, unless the CAS is lenient).
Two type systems that answer alike on the type names of a document (`TypeAgree`) load it alike.

"Alike" for the loaded heap: the model keeps the slots of an instance as a list in the order of `all_features`, and two type
systems that declare the same may order the (inherited) features differently (a feature added to a supertype after
the subtype got its own: the original keeps the creation order, a type system rebuilt from declarations lists the
inherited ones supertype-first).  Python instances have no slot order (`getattr`), so the loaded heaps are compared
up to the order of the slots of each object (`HeapSim`).
-/
import CassisModel.Model.Json
import CassisModel.Spec.MergeSelf
import CassisModel.Spec.TypeSystem

namespace Cassis.Json
open Cassis.TS

/-- the same object up to the order of its slots: same type, owner, id, the same slots as a multiset, and the same
    value under every name -/
def ObjSim (o o' : Obj) : Prop :=
  o'.ty = o.ty ∧ o'.ts = o.ts ∧ o'.xid = o.xid ∧ o'.slots.Perm o.slots ∧
  ∀ n, alistGet? o'.slots n = alistGet? o.slots n

/-- the same heap up to the order of the slots of each object -/
def HeapSim (hp hp' : Heap) : Prop :=
  hp'.length = hp.length ∧ ∀ (a : Nat) (o o' : Obj), hp[a]? = some o → hp'[a]? = some o' → ObjSim o o'

/-- the name under which the reader looks up the type of a feature structure of the document -/
def fsTypeName (j : JFs) : String := if j.ty.endsWith "[]" then arrayTypeNameFor j.ty else j.ty

/-- the two type systems answer the reader's questions about the name `n` alike: both fail in the same way, or both
    find a type of the same name with the same set of feature names that is an annotation type in both or in neither -/
def TypeAgree (ts ts' : TypeSystem) (n : String) : Prop :=
  match getType ts n, getType ts' n with
  | .ok t, .ok t' =>
    t'.name = t.name ∧ (∀ x, x ∈ ctorFields t' ↔ x ∈ ctorFields t) ∧
    isInstanceOf ts' t.name ANNOTATION = isInstanceOf ts t.name ANNOTATION
  | .error e, .error e' => e' = e
  | _, _ => False

/-- outcome of two runs of the reader: the same exception, or the same CAS (views, sofas, indexes, generators) and the
    same heap up to slot order -/
def LoadSim : Except Err Loaded → Except Err Loaded → Prop
  | .ok ld, .ok ld' => ld'.cas = ld.cas ∧ HeapSim ld.heap ld'.heap
  | .error e, .error e' => e' = e
  | _, _ => False

end Cassis.Json
