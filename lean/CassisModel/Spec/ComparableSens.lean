/-
Specification-side definitions for the sensitivity half of C20 and for the totality of `renderFrom`
(`Properties/C20Sens.lean`).

"Two CASes differ only in X" is formalised as a *point update*: the second heap is the first one after one
`setattr` (`Heap.setSlot`, the model of `fs.f = v`), or the second indexed list differs from the first in the
membership of one structure; everything else (type system, views, collected set up to order, content hash) is the
same or irrelevant.
-/
import CassisModel.Spec.Comparable

namespace Cassis.Comparable
open Cassis.TS Cassis.Traverse

/-- the string does not end in `)`.  The disambiguation counter `(n)` is appended to an anchor text without any
    separator, so a text that itself ends in `)` (a view called `V(1)`, a type called `x.T(1)`) can be read as a
    shorter text plus a counter. -/
def NoParenEnd (s : String) : Prop := s.toList.getLast? ≠ some ')'

instance (s : String) : Decidable (NoParenEnd s) := by unfold NoParenEnd; exact inferInstance

/-- the anchor text `_generate_anchor` computes for the structure (type short name, offsets, index mark, view) does
    not end in `)` -/
def AnchorPlain (cass : List Cas) (hp : Heap) (indexed : List Nat) (o : Opts) (a : Nat) : Prop :=
  ∀ s, anchorOf cass hp indexed o a = .ok s → NoParenEnd s

/-- the collected structures carry pairwise different xmi:ids (`_find_all_fs` guarantees it: it collects into a
    dictionary keyed by id and raises on a duplicate — `xidInj_of_findAllFs`) -/
def XidInj (hp : Heap) (addrs : List Nat) : Prop :=
  ∀ a ∈ addrs, ∀ b ∈ addrs, xidOf hp a = xidOf hp b → a = b

/-- two primitive feature values the table tells apart: two different values of one Python type, or `None` against a
    value that is not the string `<NULL>` (`None` is written as `<NULL>`).  Values of different Python types are left
    out on purpose: the model's cells differ, but `csv.writer` writes `1` for both `1` and `"1"`. -/
def PrimDiffer : Val → Val → Prop
  | .int i, .int j => i ≠ j
  | .str s, .str t => s ≠ t
  | .bool b, .bool c => b ≠ c
  | .float s, .float t => s ≠ t
  | .none, .int _ => True
  | .int _, .none => True
  | .none, .bool _ => True
  | .bool _, .none => True
  | .none, .float _ => True
  | .float _, .none => True
  | .none, .str s => s ≠ NULL_VALUE
  | .str s, .none => s ≠ NULL_VALUE
  | _, _ => False

instance (p p' : Val) : Decidable (PrimDiffer p p') := by
  unfold PrimDiffer; split <;> exact inferInstance

/-- two `elements` values of a primitive array the table tells apart: lists of one element type that differ (for
    string arrays: after `None` has been replaced by `<NULL>`) -/
def PrimArrDiffer : Val → Val → Prop
  | .ints l, .ints l' => l ≠ l'
  | .floats l, .floats l' => l ≠ l'
  | .bools l, .bools l' => l ≠ l'
  | .strs l, .strs l' => l.map (fun s => s.getD NULL_VALUE) ≠ l'.map (fun s => s.getD NULL_VALUE)
  | _, _ => False

instance (v v' : Val) : Decidable (PrimArrDiffer v v') := by
  unfold PrimArrDiffer; split <;> exact inferInstance

/-! ### well-formedness for totality -/

/-- `F` levels of recursion of `_render_feature_value` are enough for the value, when `need x` levels are enough for a
    reference to `x` -/
def FuelOk (need : Nat → Nat) (v : Val) (F : Nat) : Prop :=
  match v with
  | .ref x => need x ≤ F
  | .refs l => 1 ≤ F ∧ ∀ e, some e ∈ l → need e + 1 ≤ F
  | _ => True

/-- `need` is a certificate that arrays are nested in arrays without a cycle (and every array object has its
    `elements` slot): a reference needs at least one level, a reference to an array one more than its `elements` value -/
def WellNested (K : Consts) (hp : Heap) (need : Nat → Nat) : Prop :=
  ∀ x, 1 ≤ need x ∧
    (isArrayFs K hp x = true → ∃ v, slot hp x "elements" = some v ∧ FuelOk need v (need x - 1))

/-- the `sofa` slot of the structure, if it has one, holds the sofa of an existing view -/
def SofaOk (cass : List Cas) (hp : Heap) (a : Nat) : Prop :=
  match slot hp a "sofa" with
  | none => True
  | some (.sofa ci vn) => ∃ c v, cass[ci]? = some c ∧ Cas.getViewRec c vn = some v
  | some _ => False

/-- what `renderFrom` needs of one collected structure in order not to raise -/
structure RowOk (K : Consts) (ts : TypeSystem) (cass : List Cas) (hp : Heap) (o : Opts) (need : Nat → Nat) (a : Nat) :
    Prop where
  /-- its type is registered -/
  ty : ∃ t, getType ts (tyOf hp a) = .ok t
  /-- its `sofa` slot is absent or points to an existing view -/
  sofa : SofaOk cass hp a
  /-- where `get_covered_text()` is called (the section shows covered text and the structure has offsets) the structure
      has a sofa and its offsets are not negative (negative slice indices are outside the model) -/
  cov : ∀ t, getType ts (tyOf hp a) = .ok t → (o.coveredText && subsumes ts ANNOTATION t.name) = true →
    isAnnot hp a = true →
    (∃ ci vn, slot hp a "sofa" = some (.sofa ci vn)) ∧ 0 ≤ beginOf hp a ∧ 0 ≤ endOf hp a
  /-- an array object has its `elements` slot, and the recursion budget of the model suffices for it -/
  arr : isArrayFs K hp a = true → ∃ v, slot hp a "elements" = some v ∧ FuelOk need v (2 * hp.length + 2)
  /-- the recursion budget of the model suffices for every feature value -/
  cols : isArrayFs K hp a = false → ∀ n, FuelOk need ((slot hp a n).getD .none) (2 * hp.length + 2)

/-! ### Boolean checkers for the well-formedness predicates (sound: `Proofs/ComparableSensChk.lean`) -/

def fuelOkB (need : Nat → Nat) (v : Val) (F : Nat) : Bool :=
  match v with
  | .ref x => decide (need x ≤ F)
  | .refs l => decide (1 ≤ F) && l.all (fun e => match e with | some e => decide (need e + 1 ≤ F) | none => true)
  | _ => true

/-- `WellNested` on the addresses of the heap (outside the heap nothing is an array) -/
def wellNestedB (K : Consts) (hp : Heap) (need : Nat → Nat) : Bool :=
  (List.range hp.length).all (fun x =>
    !(isArrayFs K hp x) ||
      match slot hp x "elements" with
      | some v => fuelOkB need v (need x - 1)
      | none => false)

def sofaOkB (cass : List Cas) (hp : Heap) (a : Nat) : Bool :=
  match slot hp a "sofa" with
  | none => true
  | some (.sofa ci vn) =>
    match cass[ci]? with
    | some c => (Cas.getViewRec c vn).isSome
    | none => false
  | some _ => false

def rowOkB (K : Consts) (ts : TypeSystem) (cass : List Cas) (hp : Heap) (o : Opts) (need : Nat → Nat) (a : Nat) : Bool :=
  match getType ts (tyOf hp a) with
  | .error _ => false
  | .ok t =>
    sofaOkB cass hp a &&
    (!((o.coveredText && subsumes ts ANNOTATION t.name) && isAnnot hp a) ||
      ((match slot hp a "sofa" with | some (.sofa _ _) => true | _ => false) &&
        decide (0 ≤ beginOf hp a) && decide (0 ≤ endOf hp a))) &&
    (if isArrayFs K hp a then
        match slot hp a "elements" with
        | some v => fuelOkB need v (2 * hp.length + 2)
        | none => false
      else
        match hp[a]? with
        | some ob => ob.slots.all (fun p => fuelOkB need p.2 (2 * hp.length + 2))
        | none => true)

end Cassis.Comparable
