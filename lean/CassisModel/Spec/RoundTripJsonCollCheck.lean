/-
A computable test "the JSON round-trip theorem with collections (`Properties/C02RoundTripColl.lean`,
`json_roundtrip_coll`) applies to this CAS": Boolean checkers for the fragment `JCollFs`
(`Spec/RoundTripJsonCollFrag.lean`) and the conjunction `jcollAppliesB` of the checkers of all hypotheses (the others are
those of `Spec/RoundTripCheck.lean`).  Soundness: `Proofs/RoundTripJsonCollCheck.lean`; `Properties/C02AppliesColl.lean`
derives the conclusion of the theorem from `jcollAppliesB … = true`.

The second half of the file evaluates the round trip on the instance `CollDemo` of `Spec/RoundTripCollCheck.lean` (every
collection kind, inlined and shared) and on variations of it: the counterexamples for the side conditions (J1), (J2) of
the fragment and the cases JSON admits beyond the XMI fragment.

This file imports specification files only (the compiled driver imports it).
-/
import CassisModel.Spec.RoundTripJsonCollFrag
import CassisModel.Spec.RoundTripCollCheck

namespace Cassis.Json
open Cassis.TS Cassis.Traverse Cassis.Xmi

/-! ### Checkers for the parts of `JCollFs` -/

/-- `JsonFs ts hp a` -/
def jsonOkB (ts : TypeSystem) (hp : Heap) (a : Nat) : Bool :=
  match hp[a]? with
  | none => true
  | some o =>
    match find? ts o.ty with
    | none => true
    | some t =>
      !(o.ty.endsWith "[]") &&
      (allFeatures t).all (fun f =>
        !(f.name.startsWith "@") && !(f.name.startsWith "#") && !(f.name.startsWith "%") &&
        (if f.name = "begin" ∨ f.name = "end" then (f.domain == ANNOTATION) == isInstanceOf ts o.ty ANNOTATION else true))

/-- `SpineEnds hp b` -/
def spineEndsB (hp : Heap) (b : Nat) : Bool :=
  match collectList hp (hp.length + 1) (.ref b) with
  | .ok _ => true
  | .error _ => false

/-- the value of a reference feature -/
def jrefOkB (K : Consts) (hp : Heap) (f : Feature) : Val → Bool
  | .none => true
  | .ref b => !(isInline K f) || isArray K f.range || spineEndsB hp b
  | _ => false

/-- `JFeatOk K ts c ci hp isAnn o f` -/
def jfeatOkB (K : Consts) (ts : TypeSystem) (c : Cas) (ci : Nat) (hp : Heap) (isAnn : Bool) (o : Obj) (f : Feature) :
    Bool :=
  decide (ResOk f) && decide (f.name ≠ "xmiID") && decide (f.name ≠ "type") && decide (f.name ≠ "self") &&
  decide (f.name ≠ ID) &&
  match alistGet? o.slots f.name with
  | none => false
  | some v =>
    (decide (f.name = "sofa") && sofaOkB c ci isAnn v) ||
    (decide (f.name ≠ "sofa") && isPrimitive K ts f.range && primOkB f.range v) ||
    (decide (f.name ≠ "sofa") && !isPrimitive K ts f.range &&
      decide (f.range ≠ "uima.cas.Boolean") && decide (f.range ≠ "uima.cas.Double") && decide (f.range ≠ "uima.cas.Float") &&
      jrefOkB K hp f v)

/-- `JGenFs K ts c ci hp a` -/
def jgenFsB (K : Consts) (ts : TypeSystem) (c : Cas) (ci : Nat) (hp : Heap) (a : Nat) : Bool :=
  match hp[a]? with
  | none => false
  | some o =>
    match find? ts o.ty with
    | none => false
    | some t =>
      decide (t.name = o.ty) && decide (isArray K o.ty = false) && decide (isList K o.ty = false) &&
      decide (t.super ≠ some ARRAY_BASE) && decide (isPrimitiveArray K o.ty = false) && decide (o.ty ≠ FS_ARRAY) &&
      decide (isInstanceOf ts o.ty STRING_ARRAY = false) && decide (o.ty ≠ SOFA) && decide (o.ty ≠ VIEW_T) &&
      decide ((ctorFields t).Nodup) && decide (o.slots.map (·.1) = (ctorFields t).eraseDups) &&
      (allFeatures t).all (fun f => jfeatOkB K ts c ci hp (isInstanceOf ts o.ty ANNOTATION) o f) &&
      (!isInstanceOf ts o.ty ANNOTATION || annOkB c ci o)

/-- `JPrimElems ty ev` -/
def jprimElemsB (ty : String) : Val → Bool
  | .refs l => l.isEmpty
  | .ints _ => decide (ty = "uima.cas.ByteArray") || !floatArrTyB ty
  | .floats _ => floatArrTyB ty
  | .bools _ => decide (ty ≠ "uima.cas.ByteArray") && !floatArrTyB ty
  | .strs _ => decide (ty ≠ "uima.cas.ByteArray") && !floatArrTyB ty
  | _ => false

def isRefsV : Val → Bool
  | .refs _ => true
  | _ => false

/-- `JArrFs K ts hp a` -/
def jarrFsB (K : Consts) (ts : TypeSystem) (hp : Heap) (a : Nat) : Bool :=
  match hp[a]? with
  | none => false
  | some o =>
    match find? ts o.ty with
    | none => false
    | some t =>
      match allFeatures t, o.slots with
      | [f], [(n, ev)] =>
        decide (t.name = o.ty) && decide (t.super = some ARRAY_BASE) && decide (f.name = "elements") &&
        decide (f.reserved = false) && decide (n = "elements") &&
        decide (isInstanceOf ts o.ty ANNOTATION = false) && decide (o.ty ≠ SOFA) &&
        ( (decide (o.ty = FS_ARRAY) && decide (isPrimitiveArray K FS_ARRAY = false) && isRefsV ev)
        || (decide (o.ty ≠ FS_ARRAY) && decide (isPrimitiveArray K o.ty = true) && jprimElemsB o.ty ev) )
      | _, _ => false

/-- `JCollFs K ts c ci hp a` -/
def jcollFsB (K : Consts) (ts : TypeSystem) (c : Cas) (ci : Nat) (hp : Heap) (a : Nat) : Bool :=
  (jgenFsB K ts c ci hp a || jarrFsB K ts hp a) && jsonOkB ts hp a

/-- hypothesis `hids` of `json_roundtrip_coll`: every indexed structure carries an id in the heap handed to the writer -/
def memberIdsB (c : Cas) (hp : Heap) : Bool :=
  c.views.all (fun nv => (Index.all nv.2.idx).all (fun e => (xidOf hp e.oid).isSome))

/-! ### The test -/

/-- every hypothesis of `json_roundtrip_coll` holds for the CAS `cass[ci]` over the heap `hp` -/
def jcollAppliesB (K : Consts) (ts : TypeSystem) (cass : List Cas) (ci : Nat) (hp : Heap) : Bool :=
  match cass[ci]? with
  | none => false
  | some c =>
    match saveJson K ts cass ci hp .none with
    | .error _ => false
    | .ok (_, st) =>
      rtWfB c hp && st.allFs.all (fun q => jcollFsB K ts c ci st.heap q.2) && memberIdsB c hp &&
      disjointB st.allFs c && memSofaB c st.heap && membersOkB c st.heap

/-! ### The conclusion of the theorem as a computable test (for experiments and the counterexamples) -/

/-- the features of the collected structures whose content differs after `saveJson … .none` / `loadJson … false false`
    (`none`: the structure is missing or of another type; `(0, "views")`: the views differ); `.error`: writer or reader
    raised.  The id map of the reader is recomputed with the reader's first two passes. -/
def roundTripDiffsJ (K : Consts) (ts : TypeSystem) (cass : List Cas) (ci : Nat) (hp : Heap) (tsIdx ci' : Nat) :
    Except Err (List (Int × Option String)) := do
  let (doc, st) ← saveJson K ts cass ci hp .none
  let s1 ← sofaPass K ts tsIdx ci' doc.fss doc.fss { cas := Cas.empty, heap := st.heap }
  let s ← fsPass K ts tsIdx doc.fss s1
  let ld ← loadJson K ts tsIdx ci' false false st.heap doc
  let c ← match cass[ci]? with | some c => pure c | none => throw .keyError
  let viewsOk := decide (ld.cas.views.map (viewContent ld.heap) = c.views.map (viewContent st.heap))
  let ds := st.allFs.flatMap (fun q =>
    match lookup s.fss q.1, st.heap[q.2]? with
    | some (.ref a'), some o =>
      match ld.heap[a']?, find? ts o.ty with
      | some o', some t =>
        if o'.ty == o.ty && o'.xid == some q.1 then
          (allFeatures t).filterMap (fun f =>
            if CVal.beq (featContentC K ld.heap a' f) (featContentC K st.heap q.2 f) then none else some (q.1, some f.name))
        else [(q.1, none)]
      | _, _ => [(q.1, none)]
    | _, _ => [(q.1, none)])
  pure (if viewsOk then ds else (0, some "views") :: ds)

/-! ## The instance `CollDemo` and its variations -/

namespace JCollDemo
open Cassis.Xmi.CollDemo

/-- `run h` = (`jcollAppliesB`, `collAppliesB` (the XMI test, for comparison), `roundTripDiffsJ`) on the demo CAS over the
    heap `h`; every heap below is the demo heap with one object replaced.  The evaluated results are in the comments
    (`#eval allRuns` at the end re-evaluates them); every `okj_…` run evaluates to `(true, _, ok [])` — the JSON test
    accepts and nothing differs — with the XMI test answering `false` except for `okj_cyclic_shared`,
    `okj_inline_shared_twice`, `okj_inline_and_shared`. -/
def run (h : Heap) : Bool × Bool × Except Err (List (Int × Option String)) :=
  (jcollAppliesB K ts [cas] 0 h, collAppliesB K ts [cas] 0 h, roundTripDiffsJ K ts [cas] 0 h 0 1)

/-- the instance itself -/
def cxj_demo := run hp                                                       -- (true, true, ok [])
/-- (J1) an array object with `elements = None` comes back with `elements = []`: shared IntegerArray / FSArray (both
    admitted by the XMI fragment), an inlined IntegerArray, a StringArray object -/
def cxj_obj_elements_none := run (hp.set 24 (arr "uima.cas.IntegerArray" .none))       -- (false, true, ok [(19, "elements")])
def cxj_obj_elements_none_fs := run (hp.set 23 (arr "uima.cas.FSArray" .none))         -- (false, true, ok [(18, "elements")])
def cxj_inline_elements_none := run (hp.set 2 (arr "uima.cas.IntegerArray" .none))     -- (false, false, ok [(4, "elements")])
def cxj_strarray_obj_none := run (hp.set 25 (arr "uima.cas.StringArray" .none))        -- (false, false, ok [(20, "elements")])
/-- (J2) a cyclic spine of an inlined list: written and read, the unrolled content differs in length -/
def cxj_cyclic_spine := run (hp.set 14 (node "uima.cas.NonEmptyFSList" (.ref 0) (.ref 13)))   -- (false, false, ok [(2, "fsl")])
/-- … whereas a cyclic *shared* list is no problem (compared node by node) -/
def okj_cyclic_shared := run (hp.set 27 (node "uima.cas.NonEmptyFSList" (.ref 1) (.ref 27)))  -- (true, true, ok [])
/-- admitted beyond the XMI fragment: null elements of FSArrays (inlined / shared) -/
def okj_fsarray_null := run (hp.set 11 (arr "uima.cas.FSArray" (.refs [some 1, none])))
def okj_fsarray_null_shared := run (hp.set 23 (arr "uima.cas.FSArray" (.refs [none, some 1, none])))
/-- … an empty inlined StringList -/
def okj_inline_strlist_empty := run (setSlot0 hp "sl" (.ref 20))
/-- … float tokens with blanks / empty, special values -/
def okj_float_token_blank := run (hp.set 7 (arr "uima.cas.FloatArray" (.floats ["1.5 2.5", "", "NaN", "-Infinity"])))
def okj_float_list_token_empty := run (hp.set 18 (node "uima.cas.NonEmptyFloatList" (.float "") (.ref 19)))
/-- … bytes outside `0 … 255` (the document level carries the integers) -/
def okj_byte_range := run (hp.set 5 (arr "uima.cas.ByteArray" (.ints [256, -1])))
/-- … null heads of inlined lists -/
def okj_fslist_null_head := run (hp.set 14 (node "uima.cas.NonEmptyFSList" .none (.ref 12)))
def okj_intlist_null_head := run (hp.set 17 (node "uima.cas.NonEmptyIntegerList" .none (.ref 15)))
/-- … an element kind that does not fit the array type -/
def okj_int_array_of_strings := run (hp.set 2 (arr "uima.cas.IntegerArray" (.strs [some "a", none])))
/-- rejected by the writer: a non-empty list of references / of floats in an integer array -/
def cxj_int_array_of_refs := run (hp.set 2 (arr "uima.cas.IntegerArray" (.refs [some 1])))    -- (false, false, error TypeError)
def cxj_int_array_of_floats := run (hp.set 2 (arr "uima.cas.IntegerArray" (.floats ["1.5"])))  -- (false, false, error TypeError)
def cxj_float_array_of_ints := run (hp.set 7 (arr "uima.cas.FloatArray" (.ints [1])))         -- (false, false, error TypeError)
/-- no condition: an inlined array shared by two features, or inlined and referenced as a shared one as well -/
def okj_inline_shared_twice := run (setSlot0 hp "sha" (.ref 2))
def okj_inline_and_shared := run (setSlot0 hp "mia" (.ref 2))
/-- an inlined array feature that refers to something that is not an array -/
def okj_inline_not_array := run (setSlot0 hp "ia" (.ref 1))

def allRuns : List (String × Bool × Bool × String) :=
  [ ("cxj_demo", cxj_demo), ("cxj_obj_elements_none", cxj_obj_elements_none),
    ("cxj_obj_elements_none_fs", cxj_obj_elements_none_fs), ("cxj_inline_elements_none", cxj_inline_elements_none),
    ("cxj_strarray_obj_none", cxj_strarray_obj_none), ("cxj_cyclic_spine", cxj_cyclic_spine),
    ("okj_cyclic_shared", okj_cyclic_shared),
    ("okj_fsarray_null", okj_fsarray_null), ("okj_fsarray_null_shared", okj_fsarray_null_shared),
    ("okj_inline_strlist_empty", okj_inline_strlist_empty), ("okj_float_token_blank", okj_float_token_blank),
    ("okj_float_list_token_empty", okj_float_list_token_empty), ("okj_byte_range", okj_byte_range),
    ("okj_fslist_null_head", okj_fslist_null_head), ("okj_intlist_null_head", okj_intlist_null_head),
    ("okj_int_array_of_strings", okj_int_array_of_strings), ("cxj_int_array_of_refs", cxj_int_array_of_refs),
    ("cxj_int_array_of_floats", cxj_int_array_of_floats), ("cxj_float_array_of_ints", cxj_float_array_of_ints),
    ("okj_inline_shared_twice", okj_inline_shared_twice), ("okj_inline_and_shared", okj_inline_and_shared),
    ("okj_inline_not_array", okj_inline_not_array) ].map
  (fun (n, r) => (n, r.1, r.2.1, match r.2.2 with
    | .ok l => s!"ok {l.map (fun (d : Int × Option String) => (d.1, d.2.getD "?"))}"
    | .error e => s!"error {e}"))

#eval allRuns

end JCollDemo

/-! ## Reserved names

The JSON counterpart of the section "Reserved names" of `Spec/RoundTripCollCheck.lean`: every feature of `x.Doc` in
turn as the reserved feature `self_` / `type_` (written under the key `self` / `type`, `@self` / `@type` for
references), and the type system made with `createFeature`.  Every run evaluates to `(true, ok [])`. -/

namespace JResDemo
open Cassis.Xmi.CollDemo Cassis.Xmi.ResDemo

def run (n stored : String) : Bool × Except Err (List (Int × Option String)) :=
  (jcollAppliesB K (resTs n stored) [cas] 0 (resHp n stored), roundTripDiffsJ K (resTs n stored) [cas] 0 (resHp n stored) 0 1)

def allRuns : List (String × String × Bool × String) :=
  (docRec.own.map (·.name)).flatMap (fun n =>
    ["self_", "type_"].map (fun stored => (n, stored, (run n stored).1, showDiffs (run n stored).2)))

/-- (test, differences, the keys of the first structure of the type `x.R`) -/
def viaCreate : Bool × Except Err (List (Int × Option String)) × Option (List String) :=
  (jcollAppliesB K tsC [casC] 0 hpC, roundTripDiffsJ K tsC [casC] 0 hpC 0 1,
   match saveJson K tsC [casC] 0 hpC .none with
   | .ok (doc, _) => (doc.fss.find? (fun j => j.ty == "x.R")).map (fun j => j.feats.map (·.1))
   | .error _ => none)

-- 44 runs, each `(feature, stored name, true, "ok []")`:
#eval allRuns
#eval allRuns.all (fun r => r.2.2.1 && r.2.2.2 == "ok []")          -- true
-- (true, ok [], keys self, @type, @peer, begin, end, @sofa):
#eval (viaCreate.1, showDiffs viaCreate.2.1, viaCreate.2.2)
-- the flat instance: (true, "ok []")
#eval (jcollAppliesB K flatTs [flatCas] 0 flatHp, showDiffs (roundTripDiffsJ K flatTs [flatCas] 0 flatHp 0 1))

end JResDemo

end Cassis.Json
