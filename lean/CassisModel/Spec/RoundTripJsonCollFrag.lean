/-
The fragment of `json_roundtrip_coll` (`Properties/C02RoundTripColl.lean`): what a collected structure must look like for
the JSON round trip theorem with collections to apply.

JSON writes *every* collection object (array object, list node) as a structure of its own — the traversal runs with
`include_inlinable_arrays_and_lists=True` — and a collection feature, inlined or shared, is written like any reference
(`"@name": id`).  Hence the format does not distinguish the feature kinds of the XMI fragment
(`Spec/RoundTripCollFrag.lean`): a structure is either
* a *general structure* (`JGenFs`): as `FlatFs` / `GenFs`, each feature (`JFeatOk`) being the sofa reference, a primitive,
  or a *reference* — to a structure, a shared collection or an inlined collection alike (the range is any non-primitive
  type).  List nodes are general structures;
* an *array object* (`JArrFs`): a structure of an array type (child of `uima.cas.ArrayBase`) whose only slot is
  `elements`.
and the names of its type and features can be carried by the format (`JsonFs`, `Spec/RoundTripJson.lean`).

Compared with the XMI fragment `CollFs` the JSON fragment admits more:
* null elements of an FSArray (written as `null`) — XMI (S1) is not needed;
* the bytes of a ByteArray are arbitrary integers, float tokens arbitrary strings (the document level carries them as
  they are; base64 / number syntax are below the level of the model) — XMI (S5), (S6) are not needed;
* string arrays keep the difference between a null element and `""` (JSON has `null`);
* an inlined StringList may be empty, the heads of inlined lists are arbitrary feature values (the nodes are ordinary
  structures) — XMI (S4) and the kind part of (S7) are not needed;
* the element kind of a primitive array (other than ByteArray, FloatArray, DoubleArray) is not tied to the type name:
  the writer passes integers, Booleans and strings through, the reader takes them as they come;
* an inlined array feature may have any value that is a reference (XMI (S2) speaks about the array *object*, see (J1)).

and needs two conditions — each documented with a counterexample evaluated on the model at the end of
`Spec/RoundTripJsonCollCheck.lean` (section "counterexamples"):

(J1) an array *object* has `elements ≠ None` — an array without elements is written without `%ELEMENTS`, and the reader
     makes `elements = []` of that (`cxj_obj_elements_none`, `cxj_obj_elements_none_fs`,
     `cxj_inline_elements_none`): the content of the `elements` feature of the object changes from `None` to the empty
     list.  The XMI fragment admits `None` for array objects of a non-string type that are written as elements of their
     own (`ok_obj_elements_none` there), so this is an *extra* hypothesis of `jcollFs_of_collFs`
     (`ArrElemsSome`).  (For an *inlined* array XMI demands it as well (S2), for a StringArray object too (S3).)
(J2) the spine of an *inlined list* ends (`collectList` with the budget `|heap| + 1` succeeds, exactly the termination
     half of XMI's (S7)).  JSON writes and reads a cyclic list without complaint and restores it faithfully, but the
     content function `featContentC` unrolls an inlined list with the budget `|heap| + 1`, and the heap of the reader
     is longer — on a cyclic spine the two unrollings have different lengths (`cxj_cyclic_spine`).
`RefOk` of the XMI fragment is not required (the traversal has given every reachable structure an id).

No condition speaks about the output of the reader.
-/
import CassisModel.Spec.RoundTripJson
import CassisModel.Spec.RoundTripCollFrag

namespace Cassis.Json
open Cassis.TS Cassis.Traverse Cassis.Xmi

/-- the spine of the list starting at `b` ends within the budget the content function uses (J2) -/
def SpineEnds (hp : Heap) (b : Nat) : Prop := ∃ hs : List Val, collectList hp (hp.length + 1) (.ref b) = .ok hs

/-- one feature of a general structure: the sofa reference, a primitive, or a reference (to a structure or to a
    collection, shared or inlined).  The feature may be one of the reserved features `self_` / `type_` (declared as
    `self` / `type`, written under the keys `self` / `type`, `@self` / `@type`): `ResOk`, `Spec/RoundTrip.lean`;
    evaluated in `Spec/RoundTripJsonCollCheck.lean`, section "Reserved names". -/
def JFeatOk (K : Consts) (ts : TypeSystem) (c : Cas) (ci : Nat) (hp : Heap) (isAnn : Bool) (o : Obj) (f : Feature) : Prop :=
  ResOk f ∧ f.name ≠ "xmiID" ∧ f.name ≠ "type" ∧ f.name ≠ "self" ∧ f.name ≠ ID ∧
  ∃ v : Val, alistGet? o.slots f.name = some v ∧
    ( -- the sofa reference: a view of this CAS (a structure that is not an annotation may have none)
      (f.name = "sofa" ∧ ((∃ vn, v = .sofa ci vn ∧ (Cas.getViewRec c vn).isSome = true) ∨ (v = .none ∧ isAnn = false)))
    ∨ -- primitive features
      (f.name ≠ "sofa" ∧ isPrimitive K ts f.range = true ∧
        ( v = .none
        ∨ (isIntRange f.range = true ∧ ∃ i : Int, v = .int i)
        ∨ (f.range = "uima.cas.String" ∧ ∃ s : String, v = .str s)
        ∨ (f.range = "uima.cas.Boolean" ∧ ∃ b : Bool, v = .bool b)
        ∨ ((f.range = "uima.cas.Float" ∨ f.range = "uima.cas.Double") ∧ ∃ t : String, v = .float t)))
    ∨ -- references: plain, to a shared collection, to an inlined collection
      (f.name ≠ "sofa" ∧ isPrimitive K ts f.range = false ∧
        f.range ≠ "uima.cas.Boolean" ∧ f.range ≠ "uima.cas.Double" ∧ f.range ≠ "uima.cas.Float" ∧
        (v = .none ∨ ∃ b : Nat, v = .ref b ∧
          -- (J2): where the content function unrolls a list, the spine ends
          (isInline K f = true → isArray K f.range = false → SpineEnds hp b))))

/-- a general structure: exactly `FlatFs` / `GenFs` with `JFeatOk` as the condition on the features -/
def JGenFs (K : Consts) (ts : TypeSystem) (c : Cas) (ci : Nat) (hp : Heap) (a : Nat) : Prop :=
  ∃ (o : Obj) (t : TypeRec), hp[a]? = some o ∧ find? ts o.ty = some t ∧ t.name = o.ty ∧
    isArray K o.ty = false ∧ isList K o.ty = false ∧ t.super ≠ some ARRAY_BASE ∧
    isPrimitiveArray K o.ty = false ∧ o.ty ≠ FS_ARRAY ∧ isInstanceOf ts o.ty STRING_ARRAY = false ∧
    o.ty ≠ SOFA ∧ o.ty ≠ VIEW_T ∧
    (ctorFields t).Nodup ∧
    o.slots.map (·.1) = (ctorFields t).eraseDups ∧
    (∀ f ∈ allFeatures t, JFeatOk K ts c ci hp (isInstanceOf ts o.ty ANNOTATION) o f) ∧
    (isInstanceOf ts o.ty ANNOTATION = true →
      ∃ (vn : String) (v : View) (text : List Nat) (b e : Nat),
        alistGet? o.slots "sofa" = some (.sofa ci vn) ∧ Cas.getViewRec c vn = some v ∧ v.sofa.text = some text ∧
        alistGet? o.slots "begin" = some (.int b) ∧ alistGet? o.slots "end" = some (.int e) ∧
        b ≤ text.length ∧ e ≤ text.length)

/-- the `elements` of a primitive array of type `ty` as JSON carries them: the empty list; integers for a ByteArray;
    float tokens for a FloatArray / DoubleArray; integers, Booleans or strings (null elements included) for the others.
    Never `None` (J1). -/
def JPrimElems (ty : String) (ev : Val) : Prop :=
  ev = .refs [] ∨
  (ty = "uima.cas.ByteArray" ∧ ∃ l : List Int, ev = .ints l) ∨
  (FloatArrTy ty ∧ ∃ l : List String, ev = .floats l) ∨
  (ty ≠ "uima.cas.ByteArray" ∧ ¬ FloatArrTy ty ∧
    ((∃ l : List Int, ev = .ints l) ∨ (∃ l : List Bool, ev = .bools l) ∨ (∃ l : List (Option String), ev = .strs l)))

/-- an array object: a structure of an array type (a child of `uima.cas.ArrayBase`), its only feature and slot is
    `elements`, holding a list — of references or nulls for an FSArray — and not `None` (J1) -/
def JArrFs (K : Consts) (ts : TypeSystem) (hp : Heap) (a : Nat) : Prop :=
  ∃ (o : Obj) (t : TypeRec) (f : Feature) (ev : Val), hp[a]? = some o ∧ find? ts o.ty = some t ∧ t.name = o.ty ∧
    t.super = some ARRAY_BASE ∧ allFeatures t = [f] ∧ f.name = "elements" ∧ f.reserved = false ∧
    o.slots = [("elements", ev)] ∧ isInstanceOf ts o.ty ANNOTATION = false ∧ o.ty ≠ SOFA ∧
    ( (o.ty = FS_ARRAY ∧ isPrimitiveArray K FS_ARRAY = false ∧ ∃ l : List (Option Nat), ev = .refs l)
    ∨ (o.ty ≠ FS_ARRAY ∧ isPrimitiveArray K o.ty = true ∧ JPrimElems o.ty ev) )

/-- **the JSON fragment with collections** -/
def JCollFs (K : Consts) (ts : TypeSystem) (c : Cas) (ci : Nat) (hp : Heap) (a : Nat) : Prop :=
  (JGenFs K ts c ci hp a ∨ JArrFs K ts hp a) ∧ JsonFs ts hp a

/-- (J1) as a condition on a structure of the XMI fragment: if it is an array object, its `elements` are not `None` -/
def ArrElemsSome (hp : Heap) (a : Nat) : Prop :=
  ∀ o : Obj, hp[a]? = some o → o.slots ≠ [("elements", Val.none)]

end Cassis.Json
