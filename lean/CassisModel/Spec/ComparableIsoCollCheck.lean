/-
Evaluated tests and counterexamples for `Properties/C20IsoColl.lean`, and a computable test for its hypotheses.

* `inlOkB`, `nodeTysNotArrB`, `renderCollAppliesB`: Boolean versions of the hypotheses of `render_xmi_roundtrip_coll`
  (sound: `Proofs/ComparableIsoCollChk.lean`);
* the candidate statement evaluated on the instance `CollDemo` (every collection kind, inlined and shared) without the
  empty string element (`good`): the XMI round trip keeps the comparable text;
* one counterexample per hypothesis beyond those of `xmi_roundtrip_coll` and `Distinct`: in each, every *other*
  hypothesis holds (`collAppliesB`, `Distinct` and the remaining tests answer `true`), save and load succeed, and the
  comparable text changes.  `xmiRun` is the experiment of `Spec/ComparableIsoCheck.lean`.

The evaluated results are quoted next to each `#eval` and fixed by `#guard`.
-/
import CassisModel.Spec.ComparableIsoColl
import CassisModel.Spec.ComparableIsoCheck

namespace Cassis.Comparable
open Cassis.TS Cassis.Traverse

/-! ### Boolean versions of the hypotheses -/

def noEmptyAt (H : Heap) (a : Nat) : Bool :=
  match Traverse.slot H a "elements" with
  | some ev => decide (NoEmptyStr ev)
  | none => true

/-- `InlOk K ts H addrs a` -/
def inlOkB (K : Consts) (ts : TypeSystem) (H : Heap) (addrs : List Nat) (a : Nat) : Bool :=
  noEmptyAt H a &&
  match H[a]? with
  | none => true
  | some o =>
    match find? ts o.ty with
    | none => true
    | some t =>
      (allFeatures t).all (fun f =>
        !(Xmi.isInline K f) ||
        match alistGet? o.slots f.name with
        | some (.ref cc) =>
          if isArray K f.range then isArrayFs K H cc && noEmptyAt H cc
          else !(isArrayFs K H cc) && addrs.all (fun b => decide (xidOf H b ≠ xidOf H cc))
        | _ => true)

def nodeTysNotArrB (K : Consts) : Bool := listNodeTypes.all (fun n => !(isArray K n))

/-- the hypotheses of `render_xmi_roundtrip_coll` beyond those of `xmi_roundtrip_coll`, on the heap after the writer's
    traversal -/
def renderCollExtraB (K : Consts) (ts : TypeSystem) (cass : List Cas) (ci : Nat) (hp : Heap) : Bool :=
  match Xmi.saveXmi K ts cass ci hp with
  | .error _ => false
  | .ok (_, st) =>
    distinctB st.heap (st.allFs.map (·.2)) && nodeTysNotArrB K &&
    st.allFs.all (fun q => inlOkB K ts st.heap (st.allFs.map (·.2)) q.2)

/-- every hypothesis of `render_xmi_roundtrip_coll` holds for the CAS `cass[ci]` over the heap `hp` -/
def renderCollAppliesB (K : Consts) (ts : TypeSystem) (cass : List Cas) (ci : Nat) (hp : Heap) : Bool :=
  Xmi.collAppliesB K ts cass ci hp && renderCollExtraB K ts cass ci hp

end Cassis.Comparable

/-! ## Evaluated instances and counterexamples -/

namespace Cassis.Comparable.IsoCollCheck
open Cassis.TS Cassis.Traverse Cassis.Xmi Cassis.Xmi.CollDemo

/-- the demo heap of `Spec/RoundTripCollCheck.lean` without the empty string element of the inlined StringArray `sa` -/
def good : Heap := hp.set 9 (arr "uima.cas.StringArray" (.strs [some "a b", none, some "c"]))

structure Outcome where
  collApplies : Bool        -- the hypotheses of `xmi_roundtrip_coll`
  distinct : Bool           -- `Distinct`
  nodes : Bool              -- `NodeTysNotArr`
  inlFails : List Int       -- ids of the collected structures for which `InlOk` fails
  same : Bool               -- the two comparable texts agree (same table or same exception)
  ok : Bool                 -- … and are tables
  diff : List String        -- the cells that differ (written / loaded)
deriving Repr, BEq

def outcome (K : Consts) (h : Heap) : Except Err Outcome := do
  let (doc, st) ← saveXmi K ts [cas] 0 h
  let ld ← loadXmi K ts 0 1 false st.heap doc
  let addrs := st.allFs.map (·.2)
  let r : Except Err (List Section) := (render K ts [cas] 0 h {} (fun _ => 0) none).map (·.1)
  let r' : Except Err (List Section) := (render K ts [cas, ld.cas] 1 ld.heap {} (fun a => a) none).map (·.1)
  pure { collApplies := collAppliesB K ts [cas] 0 h,
         distinct := distinctB st.heap addrs,
         nodes := nodeTysNotArrB K,
         inlFails := (st.allFs.filter (fun q => !inlOkB K ts st.heap addrs q.2)).map (·.1),
         same := exBeq secsBeq r r',
         ok := match r, r' with | .ok _, .ok _ => true | _, _ => false,
         diff := match r, r' with
           | .ok a, .ok b => diffSecs a b
           | .error e, .ok _ => ["written: " ++ reprStr e]
           | .ok _, .error e => ["loaded: " ++ reprStr e]
           | .error e, .error e' => if e == e' then [] else ["written: " ++ reprStr e ++ " / loaded: " ++ reprStr e'] }

def isOk (r : Except Err Outcome) (o : Outcome) : Bool := match r with | .ok x => x == o | .error _ => false

/-! ### the statement on the instance -/

/-- every collection kind, inlined and shared: all hypotheses hold, same text.  The inlined arrays and list nodes of
    the loaded CAS are new objects without ids (compared by content, resp. shown as `None` on both sides) -/
def ok_good := outcome K good
#eval ok_good
#guard isOk ok_good
  { collApplies := true, distinct := true, nodes := true, inlFails := [], same := true, ok := true, diff := [] }
#guard renderCollAppliesB K ts [cas] 0 good

/-- a cyclic nesting of arrays (the shared FSArray contains itself) is within the hypotheses: both sides exhaust the
    recursion budget (`RuntimeError`; Python: `RecursionError` on both sides) — the theorem covers it (equal exceptions) -/
def ok_cyclic := outcome K (good.set 23 (arr "uima.cas.FSArray" (.refs [some 0, some 23])))
#eval ok_cyclic
#guard isOk ok_cyclic
  { collApplies := true, distinct := true, nodes := true, inlFails := [], same := true, ok := false, diff := [] }

/-- an inlined array that is an object of *another* array type than the range of the feature: no restriction -/
def ok_other_array_type := outcome K (good.set 2 (arr "uima.cas.LongArray" (.ints [1, -2, 30])))
#guard isOk ok_other_array_type
  { collApplies := true, distinct := true, nodes := true, inlFails := [], same := true, ok := true, diff := [] }

/-! ### why the hypotheses are needed -/

/-- **`cx_strarray_empty`** (`InlOk.arr`, second part): `""` in an inlined StringArray comes back as null -/
def cx_strarray_empty := outcome K hp
#eval cx_strarray_empty
-- `x.Doc.sa`: `['a b', '', '<NULL>', 'c']` / `['a b', '<NULL>', '<NULL>', 'c']`

/-- **`cx_strarray_obj_empty`** (`InlOk.strs`): `""` in a StringArray *object* (shared, a structure of its own) too -/
def cx_strarray_obj_empty := outcome K (good.set 25 (arr "uima.cas.StringArray" (.strs [some "p", some ""])))
#eval cx_strarray_obj_empty

/-- **`cx_inl_not_array`** (`InlOk.arr`, first part): the object inlined in the IntegerArray feature `ia` is not of an
    array type (`CollFs` looks at its `elements` only).  Written side: a reference to a structure that is not collected,
    shown as `None`; loaded side: an IntegerArray, shown as `[1, -2, 30]` -/
def cx_inl_not_array := outcome K
  (good.set 2 { ty := "uima.cas.EmptyFSList", ts := 0, xid := none, slots := [("elements", .ints [1, -2, 30])] })
#eval cx_inl_not_array

/-- **`cx_list_shared`** (`InlOk.list`, second part): the first node of the inlined FloatList `fl` is also reachable as
    a structure of its own (through the shared feature `mil`), so it is collected and has an anchor; the reader makes a
    new node for `fl`.  Written side: `fl` is shown as `NonEmptyFloatList`, loaded side: as `None` -/
def cx_list_shared := outcome K (setSlot0 good "mil" (.ref 18))
#eval cx_list_shared

/-- **`cx_list_stale_id`** (`InlOk.list`, second part): the first node of the inlined FSList carries the id of a
    collected structure (it is not collected itself): shown as that structure's anchor on the written side -/
def cx_list_stale_id := outcome K
  (good.set 13 { (node "uima.cas.NonEmptyFSList" (.ref 1) (.ref 14)) with xid := some 2 })
#eval cx_list_stale_id

/-- **`cx_node_array`** (`NodeTysNotArr`, and `InlOk.list`, first part, holds): constants that classify
    `uima.cas.NonEmptyFloatList` as an array type, the written first node of `fl` being of another type.  Written side
    `None`; the loaded node is of the type the reader uses, an "array" without `elements`: `AttributeError`.
    (`K` is an arbitrary record in the theorem; not reachable in Python.) -/
def K' : Consts := { K with arrays := K.arrays ++ ["uima.cas.NonEmptyFloatList"] }
def cx_node_array := outcome K' (good.set 18 (node "uima.cas.NonEmptyIntegerList" (.float "0.25") (.ref 19)))
#eval cx_node_array

/-- **`cx_list_node_array`** (`InlOk.list`, first part): the first node of the inlined FloatList is an object of an array
    type (with `head`/`tail` slots; `CollFs` looks at the spine only): `AttributeError` on the written side (an array
    without `elements`), `None` on the loaded side -/
def cx_list_node_array := outcome K
  (good.set 18 { ty := "uima.cas.IntegerArray", ts := 0, xid := none, slots := [("head", .float "0.25"), ("tail", .ref 19)] })
#eval cx_list_node_array

def cxShape (r : Except Err Outcome) (nodes : Bool) (inl : List Int) : Bool :=
  match r with
  | .ok x => x.collApplies && x.distinct && x.nodes == nodes && x.inlFails == inl && !x.same
  | .error _ => false

#guard cxShape cx_strarray_empty true [2]
#guard cxShape cx_strarray_obj_empty true [6]
#guard cxShape cx_inl_not_array true [2]
#guard cxShape cx_list_shared true [2]
#guard cxShape cx_list_stale_id true [2]
#guard cxShape cx_list_node_array true [2]
#guard cxShape cx_node_array false []

end Cassis.Comparable.IsoCollCheck

/-! ### the JSON round trip on the same instances (evaluated, not proved)

`jsonRun` (`Spec/ComparableIsoCheck.lean`) on the instances above: the JSON round trip keeps the comparable text in every
case in which the XMI round trip does not — JSON keeps `""` apart from null, writes every collection object as a
structure of its own with its type, and both references to a list node that is inlined *and* shared lead to the same
loaded node.  So `render_json_roundtrip_coll` should need none of `InlOk` / `NodeTysNotArr`; what its proof needs beyond
the XMI one is a comparison of two traversals of the *written* side (`render` traverses `hp` with the default options,
the JSON writer with `include_inlinable_arrays_and_lists=True`, assigning other ids) — open. -/

namespace Cassis.Comparable.IsoCollCheck
open Cassis.TS Cassis.Traverse Cassis.Xmi Cassis.Xmi.CollDemo Cassis.Comparable.IsoCheck

def jsonSame (K : Consts) (h : Heap) : Bool :=
  match jsonRun K ts cas h with
  | .ok r => r.distinct && r.same && r.ok
  | .error _ => false

#guard jsonSame K hp                                                                            -- `cx_strarray_empty`
#guard jsonSame K good
#guard jsonSame K (good.set 25 (arr "uima.cas.StringArray" (.strs [some "p", some ""])))        -- `cx_strarray_obj_empty`
#guard jsonSame K (good.set 2 { ty := "uima.cas.EmptyFSList", ts := 0, xid := none, slots := [("elements", .ints [1, -2, 30])] })
#guard jsonSame K (setSlot0 good "mil" (.ref 18))                                               -- `cx_list_shared`
#guard jsonSame K' (good.set 18 (node "uima.cas.NonEmptyIntegerList" (.float "0.25") (.ref 19))) -- `cx_node_array`

end Cassis.Comparable.IsoCollCheck
