/-
Specification-side definitions for C20 across two heaps (`Properties/C20Iso.lean`): what it means that the structures
collected in one CAS (`cass`, `hp`, `indexed`, `addrs`) and those collected in another (`cass'`, `hp'`, `indexed'`,
`addrs'`) are *isomorphic* through an address map `φ`, as far as `cas_to_comparable_text` can see.

Nothing here mentions an xmi:id except `SameKey`: ids are used by `renderFrom` only as keys of the anchor map.
-/
import CassisModel.Spec.Comparable

namespace Cassis.Comparable
open Cassis.TS Cassis.Traverse

/-- the `@view` suffix of an anchor (the `match` on the `sofa` slot inside `anchorOf`, `Model/Comparable.lean`):
    empty when the structure has no `sofa` slot, `@` + the sofa id of the view the slot names otherwise -/
def viewTag (cass : List Cas) (hp : Heap) (a : Nat) : Except Err String :=
  match slot hp a "sofa" with
  | none => pure ""
  | some (.sofa ci vn) =>
    match cass[ci]? with
    | some c => match Cas.getViewRec c vn with
      | some v => pure ("@" ++ v.sofa.sofaID)
      | none => throw .keyError
    | none => throw .keyError
  | some _ => throw .attributeError

/-- the cell of a value that is not a reference: what `_render_feature_value` writes for it whatever the heap, the
    anchors and the recursion budget (the first eleven cases of `renderVal`) -/
def plainCell : Val → Option Cell
  | .none => some .null
  | .int i => some (.int i)
  | .str s => some (.str s)
  | .bool b => some (.bool b)
  | .float t => some (.float t)
  | .ints l => some (.list (l.map .int))
  | .floats l => some (.list (l.map .float))
  | .bools l => some (.list (l.map .bool))
  | .strs l => some (.list (l.map (fun s => match s with | some s => .str s | none => .null)))
  | .sofa _ _ => some .none
  | .attr _ => some .none
  | .ref _ => none
  | .refs _ => none

/-- two values that are not references and give the same cell -/
def SameCell (v v' : Val) : Prop := ∃ c : Cell, plainCell v = some c ∧ plainCell v' = some c

/-- an empty Python list, whatever its (invisible) element kind: `[]` is rendered as `[]` -/
def EmptyList (v : Val) : Prop := v = .refs [] ∨ v = .ints [] ∨ v = .floats [] ∨ v = .bools [] ∨ v = .strs []

/-- **same anchor key.**  `a` (in `hp`) and `a'` (in `hp'`) carry "the same" xmi:id as far as the collected structures
    are concerned: `a` shares its id with exactly those collected structures whose images share their id with `a'`.
    * for a collected `a` and `a' = φ a` this is the condition on ids of an isomorphism (`Iso.key`); when the collected
      ids are pairwise distinct on both sides it holds for every `a` (`sameKey_of_ids_distinct`);
    * for a structure that is *not* collected and whose id is not the id of any collected structure — on both sides — it
      holds trivially (`sameKey_fresh`): both render as `None`. -/
def SameKey (hp hp' : Heap) (addrs : List Nat) (φ : Nat → Nat) (a a' : Nat) : Prop :=
  ∀ b ∈ addrs, (xidOf hp b = xidOf hp a ↔ xidOf hp' (φ b) = xidOf hp' a')

/-- elementwise relation of two `FSArray` element lists: null with null, a reference with a related reference -/
def RefsRel (R : Nat → Nat → Prop) : List (Option Nat) → List (Option Nat) → Prop
  | [], [] => True
  | none :: l, none :: l' => RefsRel R l l'
  | some a :: l, some a' :: l' => R a a' ∧ RefsRel R l l'
  | _, _ => False

/-- the `elements` slot of two array objects reached through a reference: both lack the slot, both hold `None`
    (rendered as `None`, not as `<NULL>`), or both hold related values -/
def ElemRel (S : Val → Val → Prop) (s s' : Option Val) : Prop :=
  (s = none ∧ s' = none) ∨ (s = some .none ∧ s' = some .none) ∨
  (∃ v v', s = some v ∧ s' = some v' ∧ v ≠ .none ∧ v' ≠ .none ∧ S v v')

/-- **related slot values**, to nesting depth `d` (one unit per step of `_render_feature_value`'s recursion: a reference
    to an array object costs one, the element list of an `FSArray` another one).

    * values that are not references: the same cell (`SameCell`) — equal primitives, equal primitive arrays;
    * a reference to a structure that is not an array object: the targets have the same anchor key (`SameKey`);
    * a reference to an array object (collected or not — after a load an inlined array is a *new* object without id):
      the target is an array object as well and the `elements` are related (`ElemRel`): arrays are compared by content;
    * `FSArray` element lists: elementwise (`RefsRel`);
    * two empty lists. -/
def ValRel (K : Consts) (hp hp' : Heap) (R : Nat → Nat → Prop) : Nat → Val → Val → Prop
  | 0, v, v' => SameCell v v'
  | d+1, v, v' =>
    SameCell v v' ∨
    (∃ a a', v = .ref a ∧ v' = .ref a' ∧ isArrayFs K hp a = false ∧ isArrayFs K hp' a' = false ∧ R a a') ∨
    (∃ a a', v = .ref a ∧ v' = .ref a' ∧ isArrayFs K hp a = true ∧ isArrayFs K hp' a' = true ∧
      ElemRel (ValRel K hp hp' R d) (slot hp a "elements") (slot hp' a' "elements")) ∨
    (∃ l l', v = .refs l ∧ v' = .refs l' ∧ RefsRel (fun a a' => ValRel K hp hp' R d (.ref a) (.ref a')) l l') ∨
    (EmptyList v ∧ EmptyList v')

/-- **isomorphism of the collected parts of two CASes**, as far as the comparable text can tell.
    `φ` sends the structures collected in `hp` (`addrs`, what `_find_all_fs` returned) to those collected in `hp'`. -/
structure Iso (K : Consts) (cass cass' : List Cas) (hp hp' : Heap) (indexed indexed' addrs addrs' : List Nat)
    (φ : Nat → Nat) : Prop where
  /-- `φ` is a bijection from `addrs` onto `addrs'` (the order of the two lists is irrelevant) -/
  bij : (addrs.map φ).Perm addrs'
  nodup : addrs'.Nodup
  /-- indexed structures correspond to indexed structures -/
  idx : ∀ a ∈ addrs, (a ∈ indexed ↔ φ a ∈ indexed')
  /-- same type name -/
  ty : ∀ a ∈ addrs, tyOf hp' (φ a) = tyOf hp a
  /-- ids need not be preserved, only their coincidences: two collected structures carry the same xmi:id iff their
      images do -/
  key : ∀ a ∈ addrs, SameKey hp hp' addrs φ a (φ a)
  /-- the `sofa` slots name views with the same sofa id (or both structures have no such slot, or both fail alike) -/
  view : ∀ a ∈ addrs, viewTag cass' hp' (φ a) = viewTag cass hp a
  /-- structures with offsets cover the same text -/
  covered : ∀ a ∈ addrs, isAnnot hp a = true → Cas.coveredText cass' hp' (φ a) = Cas.coveredText cass hp a
  /-- every slot but `sofa` holds related values, to some nesting depth (an absent slot counts as `None`, as for
      `fs[name]`).  The depth is arbitrary: the recursion budget of the model, `2 * |heap| + 2`, is as good as any larger
      one (`renderVal_saturated`, `Proofs/ComparableFuel.lean`) -/
  slots : ∀ a ∈ addrs, ∀ n : String, n ≠ "sofa" →
    ∃ d : Nat, ValRel K hp hp' (SameKey hp hp' addrs φ) d
      ((slot hp a n).getD .none) ((slot hp' (φ a) n).getD .none)
  /-- a collected array object has its `elements` slot on both sides or on neither -/
  elems : ∀ a ∈ addrs, isArrayFs K hp a = true →
    (slot hp' (φ a) "elements").isSome = (slot hp a "elements").isSome

/-- two computations agree: both fail with the same exception, or both succeed with related results -/
def ExRel {α β : Type} (P : α → β → Prop) : Except Err α → Except Err β → Prop
  | .ok x, .ok y => P x y
  | .error e, .error e' => e = e'
  | _, _ => False

end Cassis.Comparable
