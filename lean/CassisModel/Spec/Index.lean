/-
Specification-side definitions for the annotation indexes: the abstract state (a bag of
`(type name, entry)` pairs per view) and histories of index operations.
-/
import CassisModel.Model.Index

namespace Cassis.Index

/-- no type name is bound twice in a view's index dictionary -/
def KeysNodup (idx : Idx) : Prop := (idx.map (·.1)).Nodup

/-- the list is sorted by key `(b, e, oid)` -/
def Sorted (l : List Entry) : Prop := l.Pairwise (fun x y => keyLe x y = true)

/-- weaker: sorted by `(b, e)` only (what `select` promises per concrete type) -/
def beLeE (x y : Entry) : Bool := x.b < y.b || (x.b == y.b && x.e ≤ y.e)
def SortedBE (l : List Entry) : Prop := l.Pairwise (fun x y => beLeE x y = true)

def AllSorted (idx : Idx) : Prop := ∀ n, Sorted (get idx n)

/-- index operations of a history (the part of `Cas.add` / `Cas.remove` / `create_view` that touches
    the indexes); `v` is the view name -/
inductive IOp where
  | add (v ty : String) (x : Entry)
  | remove (v ty : String) (x : Entry)
  | createView (v : String)
deriving Repr

abbrev Views := List (String × Idx)

def viewIdx (s : Views) (v : String) : Option Idx := alistGet? s v

/-- concrete step: an operation on a missing view, or a `remove` of something not indexed, raises and
    changes nothing -/
def istep (s : Views) : IOp → Views
  | .add v ty x => match viewIdx s v with
    | some idx => alistSet s v (add idx ty x)
    | none => s
  | .remove v ty x => match viewIdx s v with
    | some idx => match rem idx ty x with
      | some idx' => alistSet s v idx'
      | none => s
    | none => s
  | .createView v => match viewIdx s v with
    | some _ => s
    | none => alistSet s v []

/-- abstract state: per view, the bag of indexed `(type name, entry)` pairs -/
abbrev SpecViews := List (String × List (String × Entry))

def specView (s : SpecViews) (v : String) : Option (List (String × Entry)) := alistGet? s v

def sstep (s : SpecViews) : IOp → SpecViews
  | .add v ty x => match specView s v with
    | some bag => alistSet s v ((ty, x) :: bag)
    | none => s
  | .remove v ty x => match specView s v with
    | some bag => if bag.contains (ty, x) then alistSet s v (bag.erase (ty, x)) else s
    | none => s
  | .createView v => match specView s v with
    | some _ => s
    | none => alistSet s v []

/-- a CAS starts with the initial view -/
def initViews : Views := [("_InitialView", [])]
def initSpec : SpecViews := [("_InitialView", [])]

end Cassis.Index
