/-
Specification-side definitions for "merging with itself or with an empty type system changes nothing" (C13).
-/
import CassisModel.Model.Merge
import CassisModel.Spec.TypeSystem

namespace Cassis.TS

/-- histories that leave the built-in types alone: features are declared on user types only (UIMA does not allow extending
    built-in types; `merge_typesystems`, like `to_xml`, enumerates user types only) -/
def UserOnly (K : Consts) : List TsOp → Prop
  | [] => True
  | .createType _ _ _ :: rest => UserOnly K rest
  | .createFeature dom _ _ _ _ _ :: rest => K.predefined.contains dom = false ∧ dom.contains '.' = true ∧ UserOnly K rest

/-- exactly what `Feature.__eq__` (`featureEq`) compares: name, description, range name, element type name (absent = TOP) -/
def featKey (f : Feature) : String × Option String × String × String :=
  (f.name, f.descr, f.range, f.elem.getD TOP)

/-- two records declare the same: supertype, description, children and *effective* features (as sets: which of two
    identical definitions on one chain counts as the own one may depend on the order in which they were made).
    The effective features are compared up to `Feature.__eq__` (`featKey`): when a type and one of its ancestors both
    declare the same feature, the original exposes whichever definition was made first while the merge always exposes the
    ancestor's, and the two records differ in `domain` (and possibly `multi` / `reserved`), which `Feature.__eq__`
    ignores.  Counterexample to the strict version: `createType x.A; createType x.B < x.A; createFeature x.B f Integer;
    createFeature x.A f Integer` — the original's effective `f` on `x.B` has domain `x.B`, the merged one's `x.A`. -/
def SameDecl (t t' : TypeRec) : Prop :=
  t'.name = t.name ∧ t'.super = t.super ∧ t'.descr = t.descr ∧ t'.children.Perm t.children ∧
  ((allFeatures t').map featKey).Perm ((allFeatures t).map featKey)

/-- name-keyed equivalence of two type systems -/
def SameTs (ts ts' : TypeSystem) : Prop :=
  ∀ n, match find? ts n, find? ts' n with
    | some t, some t' => SameDecl t t'
    | none, none => True
    | _, _ => False

end Cassis.TS
