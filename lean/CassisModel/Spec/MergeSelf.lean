/-
Specification-side definitions for "merging with itself or with an empty type system changes nothing" (C13).
-/
import CassisModel.Model.Merge
import CassisModel.Spec.TypeSystem

namespace Cassis.TS

/-- histories that leave the built-in types alone: features are declared on user types only (UIMA does not allow extending
    built-in types; `merge_typesystems`, like `to_xml`, enumerates user types only) -/
def UserOnly (K : Consts) : List TsOp → Prop
  | [] => True
  | .createType _ _ _ :: rest => UserOnly K rest
  | .createFeature dom _ _ _ _ _ :: rest => K.predefined.contains dom = false ∧ dom.contains '.' = true ∧ UserOnly K rest

/-- two records declare the same: supertype, description, children and *effective* features (as sets: which of two
    identical definitions on one chain counts as the own one may depend on the order in which they were made) -/
def SameDecl (t t' : TypeRec) : Prop :=
  t'.name = t.name ∧ t'.super = t.super ∧ t'.descr = t.descr ∧ t'.children.Perm t.children ∧
  (allFeatures t').Perm (allFeatures t)

/-- name-keyed equivalence of two type systems -/
def SameTs (ts ts' : TypeSystem) : Prop :=
  ∀ n, match find? ts n, find? ts' n with
    | some t, some t' => SameDecl t t'
    | none, none => True
    | _, _ => False

end Cassis.TS
