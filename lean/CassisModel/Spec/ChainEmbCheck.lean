/-
C16 with an *embedded* type system: the conversion chains evaluated on the model.

* `chainDiffsXJEmb`: XMI → CAS (original type system) → JSON written with mode `m` (FULL / MINIMAL) → CAS loaded with NO
  type system supplied (`loadJson K Gen.builtinTS … true …`).
* `chainDiffsJXEmb`: JSON (mode `m`) → CAS loaded with no type system (its type system `ts'` is rebuilt from the `%TYPES`
  section) → XMI written and read back with the REBUILT type system `ts'` → CAS.

Both report the features of the structures collected by the first writer whose content differs at the end of the chain
(the counterparts of `chainDiffsXJ` / `chainDiffsJX` of `Spec/ChainCollCheck.lean`).

This file imports specification files only.
-/
import CassisModel.Spec.ChainCollCheck
import CassisModel.Spec.EmbeddedTs
import CassisModel.Spec.ChainEmb

namespace Cassis.Json
open Cassis.TS Cassis.Traverse Cassis.Xmi

/-- XMI → CAS → JSON (mode `m`) → CAS without a type system -/
def chainDiffsXJEmb (K : Consts) (ts : TypeSystem) (cass : List Cas) (ci : Nat) (hp : Heap) (tsIdx : Nat) (m : Mode) :
    Except Err (List (Int × Option String)) := do
  let (doc, st) ← saveXmi K ts cass ci hp
  let ld1 ← loadXmi K ts tsIdx cass.length false st.heap doc
  let (docj, st2) ← saveJson K ts (cass ++ [ld1.cas]) cass.length ld1.heap m
  let ts' ← loadTs K Gen.builtinTS true docj
  let s1 ← sofaPass K ts' tsIdx (cass.length + 1) docj.fss docj.fss { cas := Cas.empty, heap := st2.heap }
  let s ← fsPass K ts' tsIdx docj.fss s1
  let ld ← loadJson K Gen.builtinTS tsIdx (cass.length + 1) false true st2.heap docj
  let c ← match cass[ci]? with | some c => pure c | none => throw .keyError
  let viewsOk := decide (ld.cas.views.map (viewContent ld.heap) = c.views.map (viewContent st.heap))
  let ds := st.allFs.flatMap (fun q =>
    match lookup s.fss q.1, st.heap[q.2]? with
    | some (.ref a'), some o =>
      match ld.heap[a']?, find? ts o.ty with
      | some o', some t =>
        if o'.ty == o.ty && o'.xid == some q.1 then
          (allFeatures t).filterMap (fun f =>
            if CVal.beq (featContentC K ld.heap a' f) (featContentC K st.heap q.2 f) then none else some (q.1, some f.name))
        else [(q.1, none)]
      | _, _ => [(q.1, none)]
    | _, _ => [(q.1, none)])
  pure (if viewsOk then ds else (0, some "views") :: ds)

/-- JSON (mode `m`) → CAS without a type system → XMI under the rebuilt type system → CAS; the structures compared are
    those the XMI writer collects from the CAS written first under the type system `tsx` (`tsx = ts`: the original,
    `tsx = none`: the rebuilt one); the numbers: structures of the JSON document, of `stx`, of the XMI document -/
def chainDiffsJXEmb (K : Consts) (ts : TypeSystem) (cass : List Cas) (ci : Nat) (hp : Heap) (tsIdx : Nat) (m : Mode)
    (useRebuilt : Bool) : Except Err (List (Int × Option String) × Nat × Nat × Nat) := do
  let (docj, st) ← saveJson K ts cass ci hp m
  let ld1 ← loadJson K Gen.builtinTS tsIdx cass.length false true st.heap docj
  let ts' := ld1.ts
  let (docx, st2) ← saveXmi K ts' (cass ++ [ld1.cas]) cass.length ld1.heap
  let p2 ← pass1 K ts' tsIdx false docx { heap := st2.heap }
  let ld ← loadXmi K ts' tsIdx (cass.length + 1) false st2.heap docx
  let c ← match cass[ci]? with | some c => pure c | none => throw .keyError
  let stx ← findAllFs K (if useRebuilt then ts' else ts) {} st.heap c.nextXid (defaultSeeds c)
  let viewsOk := decide (ld.cas.views.map (viewContent ld.heap) = c.views.map (viewContent st.heap))
  let ds := stx.allFs.flatMap (fun q =>
    match lookupFs p2.fss q.1, st.heap[q.2]? with
    | .ok a', some o =>
      match ld.heap[a']?, find? ts o.ty with
      | some o', some t =>
        if o'.ty == o.ty && o'.xid == some q.1 then
          (allFeatures t).filterMap (fun f =>
            if CVal.beq (featContentC K ld.heap a' f) (featContentC K st.heap q.2 f) then none else some (q.1, some f.name))
        else [(q.1, none)]
      | _, _ => [(q.1, none)]
    | _, _ => [(q.1, none)])
  pure (if viewsOk then ds else (0, some "views") :: ds, st.allFs.length, stx.allFs.length, st2.allFs.length)

def showDiffsN (r : Except Err (List (Int × Option String) × Nat × Nat × Nat)) : String :=
  match r with
  | .ok (l, a, b, c) => s!"ok {l.map (fun (d : Int × Option String) => (d.1, d.2.getD "?"))} json={a} stx={b} xmi={c}"
  | .error e => s!"error {e}"


/-- the type system rebuilt from the `%TYPES` section of the FULL document of the CAS `cass[ci]` -/
def rebuiltTs (K : Consts) (ts : TypeSystem) (cass : List Cas) (ci : Nat) (hp : Heap) : Except Err TypeSystem := do
  let (d, _) ← saveJson K ts cass ci hp .full
  loadTs K Gen.builtinTS true d

/-! ## The counterexample `RedefDemo`: a feature declared on a type AND on one of its ancestors, with different
`multipleReferencesAllowed`

`Feature.__eq__` compares `multipleReferencesAllowed` of `self` with itself (`typesystem.py`, `self_multiref` /
`other_multiref` are both computed from `self`), so `create_feature` accepts the redefinition `x.A.f` of `x.B.f` below.
In the original type system `x.B` exposes its OWN definition (`all_features` lists own features first:
`multipleReferencesAllowed = True`, the FSArray is a structure of its own in XMI); the type system rebuilt from the
`%TYPES` section creates the features supertypes first, the definition on `x.B` is then "already there" and dropped, and
`x.B` exposes the ANCESTOR's definition (`multipleReferencesAllowed = None`: the FSArray is inlined in XMI).  Every
hypothesis of `chain_json_xmi_coll` and of `json_full_ts_same` holds; the chain JSON (FULL) → CAS without a type system →
XMI under the rebuilt type system → CAS loses the array object with id 4 as a structure, and the two `x.B` that shared
it end with one array each.  Reproduced on the implementation (see `Properties/C16ChainEmbedded.lean`). -/
namespace RedefDemo

def ops : List TsOp :=
  [ .createType "x.A" "uima.tcas.Annotation" none,
    .createType "x.B" "x.A" none,
    .createFeature "x.B" "f" "uima.cas.FSArray" none none (some true),
    .createFeature "x.A" "f" "uima.cas.FSArray" none none none ]

def ts : TypeSystem := ops.foldl (applyOp Gen.consts) Gen.builtinTS

def tailSlots (b e : Int) : List (String × Val) := [("begin", .int b), ("end", .int e), ("sofa", .sofa 0 "_InitialView")]

/-- two indexed `x.B` that share one FSArray holding both -/
def hp : Heap :=
  [ { ty := "x.B", ts := 0, xid := some 2, slots := [("f", .ref 2)] ++ tailSlots 0 1 },
    { ty := "x.B", ts := 0, xid := some 3, slots := [("f", .ref 2)] ++ tailSlots 1 2 },
    { ty := "uima.cas.FSArray", ts := 0, xid := none, slots := [("elements", .refs [some 0, some 1])] } ]

def cas : Cas :=
  { views := [("_InitialView",
      { sofa := { sofaID := "_InitialView", sofaNum := 1, xid := 1, text := some [97, 98, 99],
                  mime := some "text/plain", uri := none, arr := .none, conv := some [0, 1, 2, 3] },
        idx := [("x.B", [{ b := 0, e := 1, oid := 0 }, { b := 1, e := 2, oid := 1 }])] })],
    nextXid := 4, nextSofaNum := 2 }

/-- the effective feature `f` of `x.B`: (domain, `multipleReferencesAllowed`) -/
def fOfB (t : TypeSystem) : Option (String × Option Bool) :=
  (find? t "x.B").bind (fun r => ((allFeatures r).find? (·.name == "f")).map (fun f => (f.domain, f.multi)))

-- the original exposes the definition on `x.B`, the rebuilt type system the one on `x.A`
#guard fOfB ts == some ("x.B", some true)
#guard (match rebuiltTs Gen.consts ts [cas] 0 hp with | .ok t => fOfB t | .error _ => none) == some ("x.A", none)
-- the hypotheses: those of `chain_json_xmi_coll` (and of `chain_xmi_json_coll`), `Writable`, `NoPercentNames`
#guard chainJXAppliesB Gen.consts ts [cas] 0 hp
#guard chainCollAppliesB Gen.consts ts [cas] 0 hp
#guard decide (Writable Gen.consts ts) && decide (NoPercentNames ts)
-- with the original type system supplied both chains preserve the CAS (3 structures in JSON, 3 in XMI)
#guard Cassis.Xmi.ResDemo.showDiffs (chainDiffsXJ Gen.consts ts [cas] 0 hp 0) == "ok []"
#guard (match chainDiffsJX Gen.consts ts [cas] 0 hp 0 with | .ok (l, a, b) => l.isEmpty && a == 3 && b == 3 | .error _ => false)
-- XMI → CAS → JSON (FULL) → CAS without a type system: preserved
#guard Cassis.Xmi.ResDemo.showDiffs (chainDiffsXJEmb Gen.consts ts [cas] 0 hp 0 .full) == "ok []"
-- JSON (FULL) → CAS without a type system → XMI under the rebuilt type system → CAS: the XMI document has 2 structures,
-- the array (id 4) is gone, `f` of both `x.B` (ids 2, 3) no longer refers to a structure with an id
#guard showDiffsN (chainDiffsJXEmb Gen.consts ts [cas] 0 hp 0 .full false) ==
  "ok [(2, f), (3, f), (4, ?)] json=3 stx=3 xmi=2"
-- the same with mode MINIMAL
#guard showDiffsN (chainDiffsJXEmb Gen.consts ts [cas] 0 hp 0 .minimal false) ==
  "ok [(2, f), (3, f), (4, ?)] json=3 stx=3 xmi=2"
#guard Cassis.Xmi.ResDemo.showDiffs (chainDiffsXJEmb Gen.consts ts [cas] 0 hp 0 .minimal) == "ok []"
-- `MultiResAgree` fails between the original and the rebuilt type system
#guard (match rebuiltTs Gen.consts ts [cas] 0 hp with
  | .ok t => decide (Cassis.ChainE.MultiResAgree Gen.consts ts t) | .error _ => true) == false

/-- the converse redefinition (own definition without the flag, the ancestor's with it): `MultiResAgree` fails as well,
    but the chain preserves the contents (the array becomes a structure of its own: 3 structures in XMI, 2 in `stx`) -/
def ops' : List TsOp :=
  [ .createType "x.A" "uima.tcas.Annotation" none,
    .createType "x.B" "x.A" none,
    .createFeature "x.B" "f" "uima.cas.FSArray" none none none,
    .createFeature "x.A" "f" "uima.cas.FSArray" none none (some true) ]
def ts' : TypeSystem := ops'.foldl (applyOp Gen.consts) Gen.builtinTS
#guard chainJXAppliesB Gen.consts ts' [cas] 0 hp
#guard showDiffsN (chainDiffsJXEmb Gen.consts ts' [cas] 0 hp 0 .full false) == "ok [] json=3 stx=2 xmi=3"

end RedefDemo

end Cassis.Json
