/-
C16 with collections: the condition on the type system that the conversion chains need beyond the hypotheses of the two
round-trip theorems.

The XMI reader makes the objects of *inlined* collections itself: an array object of the type named by the range of
the feature, list nodes of the types `uima.cas.NonEmpty…List` / `uima.cas.Empty…List` — by name, without consulting the
type system (`buildPrimList`, `buildFsList`, `postFeature` in `Model/Xmi.lean`; `_parse_primitive_list` etc. in
`cassis/xmi.py` look the types up in the type system, where they always exist).  In the CAS that is written first these
objects are not structures of their own (XMI writes an inlined collection inside its owner), so no hypothesis of
`xmi_roundtrip_coll` speaks about their types.  The JSON writer writes every collection object as a structure of its own
and looks up its type.  The model's `TypeSystem` and `Consts` are arbitrary records; `CollTypesOk K ts` says that the
built-in collection types are declared the way `TypeSystem()` declares them, as far as the JSON codec looks:

* the nine array types are children of `uima.cas.ArrayBase` with the single feature `elements`;
* the four empty-list node types have no features, the four non-empty ones exactly `head` and `tail`, `head` of the
  primitive kind of the list (a reference for `FSList`), `tail` a reference;
* none of the node types is classified as an array, list or annotation type.

True for `Gen.builtinTS` and every type system obtained from it with `createType` / `createFeature` (the built-in types
are final or cannot be redeclared); `collTypesOkB` is a computable test (soundness: `Proofs/ChainCollCheck.lean`).
Counterexample without it (`Spec/ChainCollCheck.lean`, `cx_missing_node_type`): the demo type system without
`uima.cas.NonEmptyIntegerList` — every hypothesis of both round-trip theorems holds, `saveXmi` / `loadXmi` succeed (no
list node is written or looked up), and `saveJson` on the loaded CAS raises `TypeNotFoundError`.
-/
import CassisModel.Spec.RoundTripJsonCollFrag

namespace Cassis.Json
open Cassis.TS Cassis.Traverse Cassis.Xmi

/-- the range of a feature that holds a reference -/
def RefRange (K : Consts) (ts : TypeSystem) (f : Feature) : Prop :=
  isPrimitive K ts f.range = false ∧ f.range ≠ "uima.cas.Boolean" ∧ f.range ≠ "uima.cas.Double" ∧
  f.range ≠ "uima.cas.Float"

/-- the array type `n`: a child of `uima.cas.ArrayBase` whose only feature is `elements` -/
def ArrTyOk (ts : TypeSystem) (n : String) : Prop :=
  ∃ (t : TypeRec) (f : Feature), find? ts n = some t ∧ t.name = n ∧ t.super = some ARRAY_BASE ∧ allFeatures t = [f] ∧
    f.name = "elements" ∧ f.reserved = false ∧ isInstanceOf ts n ANNOTATION = false

/-- the list-node type `n` with the features `fs`: registered, and not an array, list or annotation type -/
def NodeTyOk (K : Consts) (ts : TypeSystem) (n : String) (fs : List Feature) : Prop :=
  ∃ t : TypeRec, find? ts n = some t ∧ t.name = n ∧ allFeatures t = fs ∧
    isArray K n = false ∧ isList K n = false ∧ t.super ≠ some ARRAY_BASE ∧ isPrimitiveArray K n = false ∧
    isInstanceOf ts n STRING_ARRAY = false ∧ isInstanceOf ts n ANNOTATION = false

/-- a non-empty-list node type: features `head` (of the kind `Ph`) and `tail` (a reference) -/
def NeNodeOk (K : Consts) (ts : TypeSystem) (n : String) (Ph : Feature → Prop) : Prop :=
  ∃ fh ft : Feature, NodeTyOk K ts n [fh, ft] ∧ fh.name = "head" ∧ ft.name = "tail" ∧ fh.reserved = false ∧
    ft.reserved = false ∧ Ph fh ∧ RefRange K ts ft

/-- **the built-in collection types are declared as in `TypeSystem()`** -/
structure CollTypesOk (K : Consts) (ts : TypeSystem) : Prop where
  arr : ∀ n : String, (PrimArrTy n ∨ n = STRING_ARRAY ∨ n = FS_ARRAY) → ArrTyOk ts n
  emptyFs : NodeTyOk K ts "uima.cas.EmptyFSList" []
  emptyInt : NodeTyOk K ts "uima.cas.EmptyIntegerList" []
  emptyFlt : NodeTyOk K ts "uima.cas.EmptyFloatList" []
  emptyStr : NodeTyOk K ts "uima.cas.EmptyStringList" []
  neFs : NeNodeOk K ts "uima.cas.NonEmptyFSList" (fun f => RefRange K ts f ∧ isInline K f = false)
  neInt : NeNodeOk K ts "uima.cas.NonEmptyIntegerList"
    (fun f => isPrimitive K ts f.range = true ∧ isIntRange f.range = true)
  neFlt : NeNodeOk K ts "uima.cas.NonEmptyFloatList"
    (fun f => isPrimitive K ts f.range = true ∧ (f.range = "uima.cas.Float" ∨ f.range = "uima.cas.Double"))
  neStr : NeNodeOk K ts "uima.cas.NonEmptyStringList"
    (fun f => isPrimitive K ts f.range = true ∧ f.range = "uima.cas.String")

/-! ### a computable test -/

def refRangeB (K : Consts) (ts : TypeSystem) (f : Feature) : Bool :=
  !isPrimitive K ts f.range && decide (f.range ≠ "uima.cas.Boolean") && decide (f.range ≠ "uima.cas.Double") &&
  decide (f.range ≠ "uima.cas.Float")

def arrTyOkB (ts : TypeSystem) (n : String) : Bool :=
  match find? ts n with
  | none => false
  | some t =>
    match allFeatures t with
    | [f] => decide (t.name = n) && decide (t.super = some ARRAY_BASE) && decide (f.name = "elements") &&
        decide (f.reserved = false) && !isInstanceOf ts n ANNOTATION
    | _ => false

def nodeStaticB (K : Consts) (ts : TypeSystem) (n : String) (t : TypeRec) : Bool :=
  decide (t.name = n) && !isArray K n && !isList K n && decide (t.super ≠ some ARRAY_BASE) && !isPrimitiveArray K n &&
  !isInstanceOf ts n STRING_ARRAY && !isInstanceOf ts n ANNOTATION

def emptyNodeOkB (K : Consts) (ts : TypeSystem) (n : String) : Bool :=
  match find? ts n with
  | none => false
  | some t => (allFeatures t).isEmpty && nodeStaticB K ts n t

def neNodeOkB (K : Consts) (ts : TypeSystem) (n : String) (ph : Feature → Bool) : Bool :=
  match find? ts n with
  | none => false
  | some t =>
    match allFeatures t with
    | [fh, ft] => nodeStaticB K ts n t && decide (fh.name = "head") && decide (ft.name = "tail") &&
        decide (fh.reserved = false) && decide (ft.reserved = false) && ph fh && refRangeB K ts ft
    | _ => false

def arrTypeNames : List String :=
  ["uima.cas.IntegerArray", "uima.cas.ShortArray", "uima.cas.LongArray", "uima.cas.ByteArray", "uima.cas.BooleanArray",
   "uima.cas.FloatArray", "uima.cas.DoubleArray", STRING_ARRAY, FS_ARRAY]

/-- `CollTypesOk K ts` -/
def collTypesOkB (K : Consts) (ts : TypeSystem) : Bool :=
  arrTypeNames.all (arrTyOkB ts) &&
  emptyNodeOkB K ts "uima.cas.EmptyFSList" && emptyNodeOkB K ts "uima.cas.EmptyIntegerList" &&
  emptyNodeOkB K ts "uima.cas.EmptyFloatList" && emptyNodeOkB K ts "uima.cas.EmptyStringList" &&
  neNodeOkB K ts "uima.cas.NonEmptyFSList" (fun f => refRangeB K ts f && !isInline K f) &&
  neNodeOkB K ts "uima.cas.NonEmptyIntegerList" (fun f => isPrimitive K ts f.range && isIntRange f.range) &&
  neNodeOkB K ts "uima.cas.NonEmptyFloatList"
    (fun f => isPrimitive K ts f.range && (decide (f.range = "uima.cas.Float") || decide (f.range = "uima.cas.Double"))) &&
  neNodeOkB K ts "uima.cas.NonEmptyStringList" (fun f => isPrimitive K ts f.range && decide (f.range = "uima.cas.String"))

end Cassis.Json
