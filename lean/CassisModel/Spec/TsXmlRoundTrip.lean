/-
Specification-side definitions for the end-to-end descriptor round trip (C12).
-/
import CassisModel.Model.TsXml
import CassisModel.Spec.MergeSelf

namespace Cassis.TsXml
open Cassis.TS

/-- histories that leave the built-in types alone (`UserOnly`) and also DocumentAnnotation (the implicit
    DocumentAnnotation is not written by `to_xml`; features added to it through the API are observation D1,
    outside the property) -/
def UserOnlyNoDoc (K : Consts) (ops : List TsOp) : Prop :=
  UserOnly K ops ∧ ∀ op ∈ ops, match op with
    | .createFeature dom _ _ _ _ _ => dom ≠ DOCUMENT_ANNOTATION
    | .createType _ _ _ => True

/-- no type carries an own feature under a name it also inherits.  (Reachable through the API only by declaring a feature
    on a subtype first and then identically on an ancestor; the loader, which creates supertypes first, keeps only the
    ancestor's definition — recorded as finding X12 in `known_findings.json`.) -/
def NoShadow (ts : TypeSystem) : Prop :=
  ∀ t ∈ ts.types, ∀ f ∈ t.own, ∀ g ∈ t.inh, g.name ≠ f.name

/-- the names the API was given carry no surrounding whitespace: every user type name, and the name of every own
    feature of a user type as `to_xml` writes it (`renderFeat`: without the underscore appended to `self`/`type`).
    Supertype, range and element type names need no mention: the API resolves them, so they are names of registered
    types.  (`create_type(" x.A ")` is accepted and `to_xml` writes `<name> x.A </name>`, but the reader strips every text
    it reads: the reloaded type system declares `x.A`, not `" x.A "` — evaluated in `Spec/TsXmlRoundTripCheck.lean`,
    `counterPadType`, `counterPadFeat`.) -/
def StrippedNames (K : Consts) (ts : TypeSystem) : Prop :=
  ∀ t ∈ ts.types, K.predefined.contains t.name = false → t.name ≠ DOCUMENT_ANNOTATION →
    strip t.name = t.name ∧ ∀ f ∈ t.own, strip (renderFeat f).name = (renderFeat f).name

instance (K : Consts) (ts : TypeSystem) : Decidable (StrippedNames K ts) := by
  unfold StrippedNames; infer_instance

/-- what the reader does to a description (`_get_elem_as_str` strips) followed by what XML can express
    (an empty text is no text) -/
def trimD (d : Option String) : Option String := noEmpty (normDescr d)
def trimF (f : FDesc) : FDesc := { f with descr := trimD f.descr }
def trimT (t : TDesc) : TDesc := { t with descr := trimD t.descr, feats := t.feats.map trimF }

/-- `ts'` declares what `ts` declares, descriptions trimmed: under every name the same supertype, the same rendered
    declaration (name, description, and the own features in order with range, element type, multiple-references flag and
    description), the same children, and the same effective features -/
def SameXml (ts ts' : TypeSystem) : Prop :=
  ∀ n, match find? ts n, find? ts' n with
    | some t, some t' =>
        t'.super = t.super ∧ renderType t' = trimT (renderType t) ∧ t'.children.Perm t.children ∧
        ((allFeatures t').map renderFeat).Perm ((allFeatures t).map (fun f => trimF (renderFeat f)))
    | none, none => True
    | _, _ => False

end Cassis.TsXml
