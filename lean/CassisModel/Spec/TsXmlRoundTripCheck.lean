/-
Executable checks of the C12 round-trip statements (`Properties/C12RoundTrip.lean`) on concrete histories, and the
recorded counterexamples that force the hypotheses `NoShadow` and `StrippedNames`; descriptors with padded names on
which the reader's whitespace stripping decides the outcome.
-/
import CassisModel.Spec.TsXmlRoundTrip

namespace Cassis.TsXml.Check
open Cassis.TS Cassis.TsXml

def sameAtB (ts ts' : TypeSystem) (n : String) : Bool :=
  match find? ts n, find? ts' n with
  | some t, some t' =>
      t'.super == t.super && renderType t' == trimT (renderType t) && t'.children.isPerm t.children &&
      ((allFeatures t').map renderFeat).isPerm ((allFeatures t).map (fun f => trimF (renderFeat f)))
  | none, none => true
  | _, _ => false

/-- Boolean `SameXml` over all names of both type systems -/
def sameXmlB (ts ts' : TypeSystem) : Bool :=
  (ts.types.map (·.name) ++ ts'.types.map (·.name)).all (sameAtB ts ts')

def noShadowB (ts : TypeSystem) : Bool :=
  ts.types.all (fun t => t.own.all (fun f => t.inh.all (fun g => g.name != f.name)))

def userOnlyNoDocB (K : Consts) : List TsOp → Bool
  | [] => true
  | .createType _ _ _ :: rest => userOnlyNoDocB K rest
  | .createFeature dom _ _ _ _ _ :: rest =>
      !(K.predefined.contains dom) && dom.contains '.' && dom != DOCUMENT_ANNOTATION && userOnlyNoDocB K rest

def run (ops : List TsOp) : TypeSystem := ops.foldl (applyOp Gen.consts) Gen.builtinTS

def builtinEntry (n : String) : Option TDesc := (find? Gen.builtinTSNoDoc n).map renderType

/-- DocumentAnnotation as the library defines it (`docEntry` of the proofs) -/
def docE : TDesc :=
  { name := DOCUMENT_ANNOTATION, super := ANNOTATION, feats := [{ name := "language", range := "uima.cas.String" }] }

/-- the redeclaration of a name: a built-in entry, or DocumentAnnotation -/
def preEntry (n : String) : Option TDesc := if n == DOCUMENT_ANNOTATION then some docE else builtinEntry n

/-- the conclusion of `tsxml_roundtrip` for one permutation `d'` (given by a function on the emitted descriptor) -/
def checkPerm (ops : List TsOp) (perm : Descriptor → Descriptor) : Bool :=
  match toDescriptor Gen.consts (run ops) with
  | .error _ => true
  | .ok d =>
    match load Gen.consts (perm d) with
    | .error _ => false
    | .ok ts' => sameXmlB (run ops) ts' &&
        (match toDescriptor Gen.consts ts' with | .ok out => out == d.map trimT | .error _ => false)

def rot {α} (k : Nat) (l : List α) : List α := l.drop (k % (l.length + 1)) ++ l.take (k % (l.length + 1))
def swapPairs {α} : List α → List α
  | a :: b :: r => b :: a :: swapPairs r
  | l => l

def perms : List (Descriptor → Descriptor) :=
  [id, List.reverse, rot 1, rot 2, rot 3, swapPairs, fun l => (rot 1 l).reverse, fun l => swapPairs l.reverse]

/-- Boolean `StrippedNames` (evaluated by the compiler; for the kernel see `noPad` in `Proofs/TsXmlStrip.lean`) -/
def strippedNamesB (ts : TypeSystem) : Bool := decide (StrippedNames Gen.consts ts)

def hyps (ops : List TsOp) : Bool := userOnlyNoDocB Gen.consts ops && noShadowB (run ops) && strippedNamesB (run ops)

/-- all permutations above -/
def check (ops : List TsOp) : Bool := perms.all (checkPerm ops)

/-- the conclusion of `tsxml_roundtrip_redeclared` -/
def checkPre (ops : List TsOp) (preNames : List String) (mix : Descriptor → Descriptor → Descriptor) : Bool :=
  let pre := preNames.filterMap preEntry
  match toDescriptor Gen.consts (run ops) with
  | .error _ => true
  | .ok d =>
    match load Gen.consts (mix pre d) with
    | .error _ => false
    | .ok ts' =>
      sameXmlB (run ops) ts' &&
      match toDescriptor Gen.consts ts' with
      | .error _ => false
      | .ok out =>
        let k := out.length - d.length
        out.drop k == d.map trimT &&
        (out.take k).map (·.name) == sortStrs (pre.map (·.name)).eraseDups &&
        (out.take k).all (fun e => builtinEntry e.name == some e || e == docE)

def mixes : List (Descriptor → Descriptor → Descriptor) :=
  [(· ++ ·), fun p d => d ++ p, fun p d => (p ++ d).reverse, fun p d => rot 2 (p ++ d), fun p d => swapPairs (d.reverse ++ p),
   fun p d => p ++ d ++ p]  -- the last one is NOT a permutation of `pre ++ d` unless `pre` is listed twice; see `checkPre2`

def checkPreAll (ops : List TsOp) (preNames : List String) : Bool :=
  (mixes.take 5).all (checkPre ops preNames)

/-! ### histories -/

def hChain : List TsOp :=
  [.createType "x.A" ANNOTATION (some "  padded  "), .createType "x.B" "x.A" (some ""), .createType "x.C" "x.B" (some " "),
   .createType "x.D" "x.C" none,
   .createFeature "x.A" "fa" "uima.cas.Integer" none (some " a ") none,
   .createFeature "x.C" "fc" "x.D" none (some "") (some true),
   .createFeature "x.B" "fb" "uima.cas.FSArray" (some "x.D") (some " ") (some false),
   .createFeature "x.D" "self" "x.A" none none none,
   .createFeature "x.D" "type" "uima.cas.String" none (some "t") none,
   .createFeature "x.A" "under_" "uima.cas.String" none none none]

def hFan : List TsOp :=
  [.createType "y.R" TOP none, .createType "y.K1" "y.R" none, .createType "y.K2" "y.R" (some "k2"),
   .createType "y.K3" "y.R" none, .createType "a.Z" "y.K2" none, .createType "a.A" "y.K2" none,
   .createFeature "y.K1" "r" "a.Z" none none none,
   .createFeature "y.R" "all" "uima.cas.FSList" (some "a.A") none (some true),
   .createFeature "a.A" "q" "uima.cas.StringArray" none none (some false),
   .createFeature "y.K2" "z" "y.K3" none none none]

def hString : List TsOp :=
  [.createType "s.Enum" "uima.cas.String" (some "enum"), .createType "s.T" ANNOTATION none,
   .createFeature "s.T" "e" "s.Enum" none none none,
   .createFeature "s.T" "arr" "uima.cas.FSArray" (some "s.Enum") none none,
   .createFeature "s.Enum" "weird" "uima.cas.Integer" none none none]

/-- types without namespace; short-name resolution of ranges and supertypes -/
def hNoNs : List TsOp :=
  [.createType "Plain" ANNOTATION none, .createType "Sub" "Plain" none, .createType "n.Q" "Sub" none,
   .createFeature "n.Q" "p" "Plain" none none none, .createFeature "n.Q" "i" "Integer" none none none,
   .createType "q.Plain2" "Annotation" none, .createFeature "q.Plain2" "x" "Sub" (some "Q") none none]

/-- a dot-less type whose short name collides with the short name of a built-in / another user type -/
def hNoNs2 : List TsOp :=
  [.createType "Annotation" TOP none, .createType "m.Annotation" ANNOTATION none, .createType "m.X" "Annotation" none,
   .createType "m.Y" "m.Annotation" none,
   .createFeature "m.X" "f" "Annotation" none none none, .createFeature "m.Y" "g" "m.X" none none none]

def hNoNs3 : List TsOp :=
  [.createType "T" TOP none, .createType "a.T" "T" none, .createType "b.U" "a.T" none,
   .createFeature "a.T" "f" "T" none none none, .createFeature "b.U" "g" "T" (some "T") none none,
   .createType "c.T" "T" none, .createFeature "b.U" "h" "T" none none none]

/-- same feature declared on siblings, then identical redefinitions that are no-ops, failing calls -/
def hDup : List TsOp :=
  [.createType "d.A" ANNOTATION none, .createType "d.B" "d.A" none, .createType "d.C" "d.A" none,
   .createFeature "d.B" "f" "uima.cas.Integer" none none none,
   .createFeature "d.C" "f" "uima.cas.String" none none none,
   .createFeature "d.A" "f" "uima.cas.Integer" none none none,      -- fails: d.C defines it differently
   .createFeature "d.A" "g" "uima.cas.Integer" none none none,
   .createFeature "d.B" "g" "uima.cas.Integer" none none none,      -- same: no-op
   .createFeature "d.B" "g" "uima.cas.Float" none none none,        -- conflict: fails
   .createType "d.A" ANNOTATION none,                               -- exists: ignored
   .createType "d.E" "d.Missing" none,                              -- fails
   .createFeature "d.B" "begin" "uima.cas.Integer" none none none,  -- inherited from Annotation, same → no-op
   .createFeature "d.B" "end" "uima.cas.Float" none none none,      -- conflict
   .createFeature "d.C" "sofa" "uima.cas.Sofa" none none none]

/-- feature inherited identically but with a different `multi` (featureEq ignores it) -/
def hMulti : List TsOp :=
  [.createType "e.A" ANNOTATION none, .createType "e.B" "e.A" none,
   .createFeature "e.A" "f" "uima.cas.FSArray" (some "e.B") none (some true),
   .createFeature "e.B" "f" "uima.cas.FSArray" (some "e.B") none (some false),
   .createFeature "e.B" "g" "uima.cas.FSArray" (some TOP) none none,
   .createFeature "e.B" "h" "uima.cas.FSArray" none none none]

/-- features named `self`/`type` and real names `self_`/`type_` on one type and along a chain -/
def hReserved : List TsOp :=
  [.createType "r.A" ANNOTATION none, .createType "r.B" "r.A" none,
   .createFeature "r.A" "self" "uima.cas.Integer" none none none,
   .createFeature "r.A" "self_" "uima.cas.Integer" none none none,
   .createFeature "r.B" "type_" "uima.cas.Integer" none none none,
   .createFeature "r.B" "type" "uima.cas.Integer" none none none,
   .createFeature "r.B" "self_" "uima.cas.Integer" none none none,
   .createFeature "r.B" "x_" "uima.cas.Integer" none (some "  ") none]

/-- the user declares features on types whose names sort before/after, description-only differences -/
def hDescr : List TsOp :=
  [.createType "z.A" ANNOTATION (some "\n\t x \n"), .createType "b.B" "z.A" (some "x"),
   .createFeature "z.A" "f" "uima.cas.Integer" none (some " d ") none,
   .createFeature "b.B" "f" "uima.cas.Integer" none (some "d") none,    -- conflict (descr differs) → fails
   .createFeature "b.B" "g" "b.B" none (some "") none,
   .createType "b.C" "b.B" none,
   .createFeature "b.C" "g" "b.B" none none none]                       -- differs from inherited g (descr "" vs none): fails

/-- sibling declares a feature whose trimmed description equals an ancestor's later feature … -/
def hDescr2 : List TsOp :=
  [.createType "t.A" ANNOTATION none, .createType "t.B" "t.A" none, .createType "t.C" "t.B" none,
   .createFeature "t.C" "f" "uima.cas.Integer" none (some " d") none,
   .createFeature "t.A" "f" "uima.cas.Integer" none (some "d") none]    -- fails: descendant conflict

/-- subtype of DocumentAnnotation and features ranging over it -/
def hDoc : List TsOp :=
  [.createType "u.Doc" DOCUMENT_ANNOTATION none, .createFeature "u.Doc" "title" "uima.cas.String" none none none,
   .createType "u.X" ANNOTATION none, .createFeature "u.X" "doc" DOCUMENT_ANNOTATION none none none,
   .createFeature "u.X" "lang" "u.Doc" none none none, .createFeature "u.Doc" "language" "uima.cas.String" none none none]

def hEmpty : List TsOp := []

/-- the recorded counterexample that forces `NoShadow` (finding X12) -/
def hShadow : List TsOp :=
  [.createType "x.A" ANNOTATION none, .createType "x.B" "x.A" none,
   .createFeature "x.B" "f" "uima.cas.Integer" none none none,
   .createFeature "x.A" "f" "uima.cas.Integer" none none none]

def all : List (List TsOp) :=
  [hChain, hFan, hString, hNoNs, hNoNs2, hNoNs3, hDup, hMulti, hReserved, hDescr, hDescr2, hDoc, hEmpty]

/-! ### results (all `true` unless said otherwise) -/

#eval all.map hyps
#eval all.map check
#eval all.map (fun h => checkPreAll h ["uima.tcas.Annotation"])
#eval all.map (fun h => checkPreAll h ["uima.cas.FSArray", "uima.cas.ArrayBase"])
#eval all.map (fun h => checkPreAll h ["uima.cas.Sofa", "uima.cas.String", "uima.cas.NonEmptyFSList"])
#eval all.map (fun h => checkPreAll h [DOCUMENT_ANNOTATION])
#eval all.map (fun h => checkPreAll h ["uima.cas.Sofa", DOCUMENT_ANNOTATION, "uima.tcas.Annotation"])
-- every predefined name except TOP can be redeclared alone
#eval Gen.consts.predefined.filter (fun n => !(checkPreAll hChain [n]))      -- ["uima.cas.TOP"]

/-! ### recorded counterexamples -/

/-- forces `NoShadow` (finding X12): all other hypotheses hold, the conclusion fails already for `d' = d`:
    the loader keeps only `x.A`'s `f` -/
def counterShadow : Bool × Bool × Bool := (userOnlyNoDocB Gen.consts hShadow, noShadowB (run hShadow), checkPerm hShadow id)
#eval counterShadow     -- (true, false, false)
def ownNames (ts : TypeSystem) (n : String) : Option (List String) :=
  match find? ts n with
  | some t => some (t.own.map (fun f => f.name))
  | none => none
#eval ownNames (run hShadow) "x.B"      -- some ["f"]
#eval match toDescriptor Gen.consts (run hShadow) with
  | .ok d => (match load Gen.consts d with
    | .ok ts' => ownNames ts' "x.B"      -- some []
    | .error _ => none)
  | .error _ => none

/-- forces `hnt` of `tsxml_roundtrip_redeclared`: the built-in entry of `uima.cas.TOP` has the supertype `""` -/
def counterTop : Except Err TypeSystem := load Gen.consts (["uima.cas.TOP"].filterMap builtinEntry)
#eval ["uima.cas.TOP"].filterMap builtinEntry
#eval match counterTop with | .ok _ => "ok" | .error e => toString e      -- "KeyError"
#guard (match counterTop with | .ok _ => none | .error e => some e) == some Err.keyError
-- (checked by the kernel in `Proofs/TsXmlRoundTripDemo.lean`, `counterTop_keyError`: the reader's `strip` does not
-- reduce in the kernel and has to be rewritten away first)

/-- forces `hnd`: a redeclaration with features given twice accumulates its features -/
def counterDup : Except Err TypeSystem :=
  load Gen.consts (["uima.cas.ArrayBase", "uima.cas.ArrayBase"].filterMap builtinEntry)
#eval match counterDup with | .ok _ => "ok" | .error e => toString e      -- "ValueError"
#eval all.map (fun h => checkPreAll h ["uima.cas.Sofa", "uima.cas.Sofa"])   -- all false
-- … whereas a featureless entry may be repeated
#eval all.map (fun h => checkPreAll h ["uima.cas.String", "uima.cas.String"])

/-! ### `StrippedNames` (the reader strips every text; the API and the writer do not)

`create_type(" x.A ")` is accepted and `to_xml` writes `<name> x.A </name>`; the reader strips it and the reloaded type
system declares `x.A`.  Python agrees with every line (replay in the report: `TypeSystem().create_type(" x.A ")`,
`load_typesystem(ts.to_xml())`).  A padded *range*, *element type* or *supertype* is reachable only as the name of a
padded type (`hPadRef`): the API resolves these names. -/

def hPadType : List TsOp := [.createType " x.A " ANNOTATION none]
def hPadFeat : List TsOp :=
  [.createType "x.B" ANNOTATION none, .createFeature "x.B" " f " "uima.cas.String" none none none,
   .createFeature "x.B" " self" "uima.cas.String" none none none]
def hPadRef : List TsOp :=
  [.createType " x.P\n" ANNOTATION none, .createType "x.B" " x.P\n" none,
   .createFeature "x.B" "f" " x.P\n" none none none,
   .createFeature "x.B" "g" "uima.cas.FSArray" (some " x.P\n") none none]

/-- (UserOnlyNoDoc, NoShadow, StrippedNames, conclusion for `d' = d`) -/
def counterPad (ops : List TsOp) : Bool × Bool × Bool × Bool :=
  (userOnlyNoDocB Gen.consts ops, noShadowB (run ops), strippedNamesB (run ops), checkPerm ops id)
#guard counterPad hPadType == (true, true, false, false)
#guard counterPad hPadFeat == (true, true, false, false)
#guard counterPad hPadRef == (true, true, false, false)
def counterPadType := counterPad hPadType
def counterPadFeat := counterPad hPadFeat

/-- the user types (except DocumentAnnotation) with supertype and own features (stored name, range, element type) -/
def userDecls (ts : TypeSystem) : List (String × String × List (String × String × Option String)) :=
  ((Json.sortByName (getTypes Gen.consts ts false)).filter (fun t => t.name != DOCUMENT_ANNOTATION)).map (fun t =>
    (t.name, t.super.getD "", t.own.map (fun f => (f.name, f.range, f.elem))))
def reloaded (ops : List TsOp) : Option (List (String × String × List (String × String × Option String))) :=
  match toDescriptor Gen.consts (run ops) with
  | .ok d => (match load Gen.consts d with | .ok ts' => some (userDecls ts') | .error _ => none)
  | .error _ => none

#guard userDecls (run hPadType) == [(" x.A ", "uima.tcas.Annotation", [])]
#guard reloaded hPadType == some [("x.A", "uima.tcas.Annotation", [])]
#guard userDecls (run hPadFeat) ==
  [("x.B", "uima.tcas.Annotation", [(" f ", "uima.cas.String", none), (" self", "uima.cas.String", none)])]
#guard reloaded hPadFeat ==
  some [("x.B", "uima.tcas.Annotation", [("f", "uima.cas.String", none), ("self_", "uima.cas.String", none)])]
#guard userDecls (run hPadRef) ==
  [(" x.P\n", "uima.tcas.Annotation", []),
   ("x.B", " x.P\n", [("f", " x.P\n", none), ("g", "uima.cas.FSArray", some " x.P\n")])]
#guard reloaded hPadRef ==
  some [("x.B", "x.P", [("f", "x.P", none), ("g", "uima.cas.FSArray", some "x.P")]), ("x.P", "uima.tcas.Annotation", [])]
-- the histories of `all` have no padded names: `all.map hyps` above

/-! ### descriptors with padded names

On each of these the model before the repair (which stripped descriptions only) disagreed with the code
(`KeyError` on all but `padTwice`, where it kept two types `"x.A"` and `" x.A "`); the results below are what
`load_typesystem` produces (Python literals in the report). -/


/-- what a load produced: the user types except DocumentAnnotation by name with supertype, description and own features
    (stored name, range, element type, reserved flag), and the names remembered as redeclared -/
def summary (r : Except Err TypeSystem) :
    Option (List (String × String × Option String × List (String × String × Option String × Bool)) × List String) :=
  match r with
  | .error _ => none
  | .ok ts => some
    (((Json.sortByName (getTypes Gen.consts ts false)).filter (fun t => t.name != DOCUMENT_ANNOTATION)).map (fun t =>
        (t.name, t.super.getD "", t.descr, t.own.map (fun f => (f.name, f.range, f.elem, f.reserved)))),
     sortStrs ts.redeclared)

/-- DKPro style (`cassis/resources/dkpro-core-types.xml`): an element type followed by a line break -/
def padElem : Descriptor :=
  [{ name := "x.A", super := ANNOTATION, feats := [{ name := "f", range := "uima.cas.FSArray", elem := some "x.A\n" }] }]
/-- a padded supertype name -/
def padSuper : Descriptor := [{ name := "x.A", super := ANNOTATION }, { name := "x.B", super := " x.A\n" }]
/-- a padded feature name that is a reserved name, and a padded range -/
def padSelf : Descriptor :=
  [{ name := "x.A", super := ANNOTATION, feats := [{ name := " self ", range := " uima.cas.String " }] }]
/-- two declarations of one type that differ only in padding: the later one wins, the features accumulate -/
def padTwice : Descriptor :=
  [{ name := "x.A", descr := some "one", super := ANNOTATION, feats := [{ name := "f", range := "uima.cas.String" }] },
   { name := " x.A ", descr := some "two", super := TOP, feats := [{ name := "g", range := "uima.cas.Integer" }] }]
/-- a padded redeclaration of a built-in type and of DocumentAnnotation -/
def padPredef : Descriptor :=
  [{ name := " uima.cas.String ", super := " uima.cas.TOP " },
   { name := "\tuima.tcas.DocumentAnnotation\n", super := ANNOTATION,
     feats := [{ name := "language ", range := "uima.cas.String" }] }]
/-- a padded range that names a type declared with another padding -/
def padRange : Descriptor :=
  [{ name := "x.A", super := ANNOTATION, feats := [{ name := "f", range := " x.B " }] }, { name := " x.B", super := ANNOTATION }]

/-- padding that only `str.strip()` knows: no-break space, em space, ideographic space, NEL -/
def padUnicode : Descriptor :=
  [{ name := "x.A\u00a0", descr := some "\u3000d\u0085", super := ANNOTATION }, { name := "x.B", super := "\u2003x.A" }]

-- `strip` is `str.strip()`
#guard strip " \t\r\n\x0b\x0c\x1c\x1d\x1e\x1f\u0085\u00a0\u1680\u2000\u200a\u2028\u2029\u202f\u205f\u3000x. A\u3000\n" == "x. A"
#guard strip "\u200bx\u180e" == "\u200bx\u180e"      -- zero-width space, Mongolian vowel separator: not `isspace`
#guard strip "  \n" == "" && strip "" == "" && strip "a" == "a"

#guard summary (load Gen.consts padUnicode) ==
  some ([("x.A", "uima.tcas.Annotation", some "d", []), ("x.B", "x.A", none, [])], [])
#guard summary (load Gen.consts padElem) ==
  some ([("x.A", "uima.tcas.Annotation", none, [("f", "uima.cas.FSArray", some "x.A", false)])], [])
#guard summary (load Gen.consts padSuper) ==
  some ([("x.A", "uima.tcas.Annotation", none, []), ("x.B", "x.A", none, [])], [])
#guard summary (load Gen.consts padSelf) ==
  some ([("x.A", "uima.tcas.Annotation", none, [("self_", "uima.cas.String", none, true)])], [])
#guard summary (load Gen.consts padTwice) ==
  some ([("x.A", "uima.cas.TOP", some "two",
         [("f", "uima.cas.String", none, false), ("g", "uima.cas.Integer", none, false)])], [])
#guard summary (load Gen.consts padPredef) == some ([], ["uima.cas.String", "uima.tcas.DocumentAnnotation"])
#guard summary (load Gen.consts padRange) ==
  some ([("x.A", "uima.tcas.Annotation", none, [("f", "x.B", none, false)]), ("x.B", "uima.tcas.Annotation", none, [])], [])
-- the order of operations: strip, then key by name (`padTwice`), then the reserved-name treatment (`padSelf`)
#guard (normalize padTwice).map (·.name) == ["x.A"]
#guard normalize padSelf ==
  [{ name := "x.A", super := ANNOTATION, feats := [{ name := "self", range := "uima.cas.String" }] }]

end Cassis.TsXml.Check
