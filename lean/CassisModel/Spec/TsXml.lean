/-
Specification-side definitions for the type-system descriptor codec (C12): the name under which a feature
is stored, what the writer emits for a declared feature, and the entries the loader works on.
-/
import CassisModel.Model.TsXml

namespace Cassis.TsXml
open Cassis.TS

/-- the name under which `create_feature` stores a feature -/
def isReservedName (n : String) : Bool := n == "self" || n == "type"
def storedName (n : String) : String := if isReservedName n then n ++ "_" else n

/-- what a descriptor says about one feature, as the writer emits it again -/
def emitted (f : FDesc) : FDesc := { f with descr := noEmpty f.descr }

/-- the entries the loader works on: the normalised descriptor plus the implicit DocumentAnnotation -/
def effective (d0 : Descriptor) : Descriptor :=
  let d1 := normalize d0
  if (d1.map (·.name)).contains DOCUMENT_ANNOTATION then d1
  else d1 ++ [{ name := DOCUMENT_ANNOTATION, super := ANNOTATION,
                feats := [{ name := "language", range := "uima.cas.String" }] }]

end Cassis.TsXml
