/-
Evaluated instances for `Properties/C20Sens.lean` (`#guard`: evaluated by the compiler at build time; the anchors go
through `String.splitOn`, which the kernel does not reduce).

A. tests of the six sensitivity statements on a small CAS (the tables differ);
B. counterexamples that force the hypotheses which are not in the property text (the tables are EQUAL although the
   content differs);
C. a discrepancy between model and code found on the way (recursion budget of `renderVal`) — since repaired in the model; the instance is now a positive test.

**B1, B2 and B7 are reachable through the public API on CASes that satisfy the side condition of C20, and were replayed
on the Python code (`/venv/bin/python`, `PYTHONPATH=/repo`): `cas_to_comparable_text` returns the same text for two CASes
that differ in the view of a structure (B1) resp. in the target of a reference (B2, B7).**

```python
from cassis import Cas, TypeSystem
from cassis.util import cas_to_comparable_text

def build_view(view_of_y):                       # B1
    ts = TypeSystem(); A = ts.create_type("a.T"); B = ts.create_type("b.T")
    cas = Cas(typesystem=ts)
    v = cas.create_view("V"); v.sofa_string = "abcd"
    w = cas.create_view("V(1)"); w.sofa_string = "abcd"
    v.add(A(begin=0, end=1)); (v if view_of_y == "V" else w).add(B(begin=0, end=1))
    return cas
assert cas_to_comparable_text(build_view("V")) == cas_to_comparable_text(build_view("V(1)"))
#   "a.T" … "T[0-1]*@V","a","0","1"   "b.T" … "T[0-1]*@V(1)","a","0","1"      (both)

def build_ref(target):                           # B2
    ts = TypeSystem()
    A = ts.create_type("a.T"); B = ts.create_type("b.T"); C = ts.create_type("c.T")
    H = ts.create_type("d.H"); ts.create_feature(H, "r", "uima.tcas.Annotation")
    cas = Cas(typesystem=ts)
    v = cas.create_view("V"); v.sofa_string = "abcd"
    w = cas.create_view("V(1)"); w.sofa_string = "abcd"
    x = A(begin=0, end=1); v.add(x); y = B(begin=0, end=1); v.add(y); z = C(begin=0, end=1); w.add(z)
    v.add(H(begin=2, end=3, r={"y": y, "z": z}[target]))
    return cas
assert cas_to_comparable_text(build_ref("y")) == cas_to_comparable_text(build_ref("z"))
#   … "d.H" … "H[2-3]*@V","c","2","3","T[0-1]*@V(1)"                           (both)

def build_arr(target):                           # B7: a reference to an array is shown as the array's elements
    ts = TypeSystem(); H = ts.create_type("d.H"); ts.create_feature(H, "t", "uima.cas.TOP")
    IA = ts.get_type("uima.cas.IntegerArray"); LA = ts.get_type("uima.cas.LongArray")
    cas = Cas(typesystem=ts); cas.sofa_string = "abcd"
    ia = IA(elements=[1, 2]); la = LA(elements=[1, 2]); cas.add(ia); cas.add(la)
    cas.add(H(begin=2, end=3, t={"ia": ia, "la": la}[target]))
    return cas
assert cas_to_comparable_text(build_arr("ia")) == cas_to_comparable_text(build_arr("la"))
#   "d.H" … "H[2-3]*@_InitialView","c","2","3","[1, 2]"   "uima.cas.IntegerArray" … "IntegerArray*","[1, 2]"
#   "uima.cas.LongArray" … "LongArray*","[1, 2]"                                (both)
```

Not a counterexample on well-typed CASes, but the reason `PrimDiffer` compares values of one Python type only: an
Integer feature holding `1` and the same feature holding the string `"1"` (cassis does not check assignments) are
both written `"1"` by `csv.writer` (replayed as well).
-/
import CassisModel.Spec.ComparableSens
import CassisModel.Gen.Builtins

namespace Cassis.Comparable.SensCheck
open Cassis Cassis.TS Cassis.Traverse Cassis.Comparable

def K : Consts := Gen.consts

def tsC : TypeSystem :=
  match (do
    let ts ← createType K Gen.builtinTS "a.T" ANNOTATION none
    let ts ← createType K ts "b.T" ANNOTATION none
    let ts ← createType K ts "c.T" ANNOTATION none
    let ts ← createType K ts "d.H" ANNOTATION none
    let ts ← createFeature ts "d.H" "r" ANNOTATION
    let ts ← createFeature ts "d.H" "n" "uima.cas.Integer"
    let ts ← createFeature ts "d.H" "s" "uima.cas.String"
    let ts ← createFeature ts "d.H" "t" TOP
    let ts ← createFeature ts "d.H" "arr" FS_ARRAY
    createFeature ts "d.H" "ia" "uima.cas.IntegerArray") with
  | .ok ts => ts
  | .error _ => Gen.builtinTS

def mkView (id : String) (num xid : Int) : String × View :=
  (id, { sofa := { sofaID := id, sofaNum := num, xid := xid, text := some [97, 98, 99, 100] }, idx := [] })

def casC : Cas := { views := [mkView "V" 1 1, mkView "V(1)" 2 2, mkView "W" 3 3], nextXid := 10, nextSofaNum := 4 }

def ann (ty : String) (x b e : Int) (v : String) (extra : List (String × Val) := []) : Obj :=
  { ty := ty, ts := 0, xid := some x, slots := extra ++ [("begin", .int b), ("end", .int e), ("sofa", .sofa 0 v)] }

def holder (x : Int) (r n s t arr ia : Val) : Obj :=
  ann "d.H" x 2 3 "V" [("arr", arr), ("ia", ia), ("n", n), ("r", r), ("s", s), ("t", t)]

def arrObj (ty : String) (x : Int) (v : Val) : Obj := { ty := ty, ts := 0, xid := some x, slots := [("elements", v)] }

def sameTable (a b : Except Err (List Section)) : Bool := toString (repr a) == toString (repr b)
def isOk (a : Except Err (List Section)) : Bool := match a with | .ok _ => true | .error _ => false

def run (hp : Heap) (idx addrs : List Nat) (o : Opts := {}) : Except Err (List Section) :=
  renderFrom K tsC [casC] hp o (fun _ => 0) idx addrs

def upd (hp : Heap) (a : Nat) (f : String) (v : Val) : Heap :=
  match Heap.setSlot hp a f v with | .ok h => h | .error _ => hp

/-! ### A. the statements on a small instance

0 `a.T[0-1]@V`, 1 `a.T[1-2]@V`, 2 `b.T[0-1]@W`, 3 the holder `d.H[2-3]@V` (`r → 0`, `n = 1`, `s = "x"`, `arr → 4`, `ia → 5`),
4 an FSArray `[0, 1]`, 5 an IntegerArray `[1, 2]` (4 and 5 inlined, not collected) -/

def hpA : Heap :=
  [ ann "a.T" 3 0 1 "V", ann "a.T" 4 1 2 "V", ann "b.T" 5 0 1 "W",
    holder 6 (.ref 0) (.int 1) (.str "x") .none (.ref 4) (.ref 5),
    arrObj FS_ARRAY 7 (.refs [some 0, some 1]), arrObj "uima.cas.IntegerArray" 8 (.ints [1, 2]) ]
def addrsA : List Nat := [0, 1, 2, 3]
def idxA : List Nat := [0, 1, 2, 3]

#guard isOk (run hpA idxA addrsA)
-- 1 primitive value (int, string, None against a string)
#guard !sameTable (run hpA idxA addrsA) (run (upd hpA 3 "n" (.int 2)) idxA addrsA)
#guard !sameTable (run hpA idxA addrsA) (run (upd hpA 3 "s" (.str "y")) idxA addrsA)
#guard !sameTable (run hpA idxA addrsA) (run (upd hpA 3 "s" .none) idxA addrsA)
-- 2 offset (the row of 0 moves behind 1)
#guard !sameTable (run hpA idxA addrsA) (run (upd hpA 0 "begin" (.int 1)) idxA addrsA)
#guard !sameTable (run hpA idxA addrsA) (run (upd hpA 0 "end" (.int 3)) idxA addrsA)
-- 3 reference target (same type; another type with the same short name and the same offsets)
#guard !sameTable (run hpA idxA addrsA) (run (upd hpA 3 "r" (.ref 1)) idxA addrsA)
#guard !sameTable (run hpA idxA addrsA) (run (upd hpA 3 "r" (.ref 2)) idxA addrsA)
-- 4 array elements
#guard !sameTable (run hpA idxA addrsA) (run (upd hpA 4 "elements" (.refs [some 2, some 1])) idxA addrsA)
#guard !sameTable (run hpA idxA addrsA) (run (upd hpA 5 "elements" (.ints [1, 3])) idxA addrsA)
#guard !sameTable (run hpA idxA addrsA) (run (upd hpA 5 "elements" (.ints [1, 2, 3])) idxA addrsA)
-- 5 view
#guard !sameTable (run hpA idxA addrsA) (run (upd hpA 1 "sofa" (.sofa 0 "W")) idxA addrsA)
-- 6 indexed status
#guard !sameTable (run hpA idxA addrsA) (run hpA [0, 2, 3] addrsA)
-- short-name collision at the same offsets in the same view: `a.T[0-1]@V` and `b.T[0-1]@V` are told apart by the counter
def hpA' : Heap := upd hpA 2 "sofa" (.sofa 0 "V")
#guard !sameTable (run (upd hpA' 3 "r" (.ref 0)) idxA addrsA) (run (upd hpA' 3 "r" (.ref 2)) idxA addrsA)

/-! ### B. counterexamples behind the added hypotheses (equal tables) -/

/-- B1 (`NoParenEnd` in clause 5): `b.T[0-1]` second of its anchor text in view `V` — or alone in view `V(1)` -/
def hpB1 : Heap := [ann "a.T" 3 0 1 "V", ann "b.T" 4 0 1 "V"]
def cex_view : Bool := sameTable (run hpB1 [0, 1] [0, 1]) (run (upd hpB1 1 "sofa" (.sofa 0 "V(1)")) [0, 1] [0, 1])
#guard cex_view
#guard isOk (run hpB1 [0, 1] [0, 1])

/-- B2 (`AnchorPlain` in clause 3): the reference goes to `b.T[0-1]@V` (anchor `T[0-1]*@V(1)`, counter 1) or to
    `c.T[0-1]@V(1)` (anchor `T[0-1]*@V(1)`, no counter) -/
def hpB2 : Heap :=
  [ ann "a.T" 3 0 1 "V", ann "b.T" 4 0 1 "V", ann "c.T" 5 0 1 "V(1)", holder 6 (.ref 1) .none .none .none .none .none ]
def cex_ref : Bool :=
  sameTable (run hpB2 [0, 1, 2, 3] [0, 1, 2, 3]) (run (upd hpB2 3 "r" (.ref 2)) [0, 1, 2, 3] [0, 1, 2, 3])
#guard cex_ref
#guard isOk (run hpB2 [0, 1, 2, 3] [0, 1, 2, 3])

/-- B2' (`AnchorPlain` in clause 4): the same two structures as elements of an FSArray -/
def hpB2' : Heap :=
  [ ann "a.T" 3 0 1 "V", ann "b.T" 4 0 1 "V", ann "c.T" 5 0 1 "V(1)", holder 6 .none .none .none .none (.ref 4) .none,
    arrObj FS_ARRAY 7 (.refs [some 1]) ]
def cex_fsarray : Bool :=
  sameTable (run hpB2' [0, 1, 2, 3] [0, 1, 2, 3])
    (run (upd hpB2' 4 "elements" (.refs ([some 1].set 0 (some 2)))) [0, 1, 2, 3] [0, 1, 2, 3])
#guard cex_fsarray

/-- B3 (type not excluded): a change inside an excluded type is invisible -/
def cex_excluded : Bool :=
  sameTable (run hpA idxA addrsA { exclude := ["d.H"] }) (run (upd hpA 3 "n" (.int 2)) idxA addrsA { exclude := ["d.H"] })
#guard cex_excluded

/-- B4 (`XidInj`): two collected structures with the same id share one entry of the anchor map (the later one wins), so
    the index mark of the earlier one is not shown anywhere -/
def hpB4 : Heap := [ann "a.T" 3 0 1 "V", ann "b.T" 3 5 6 "V"]
def cex_xid : Bool := sameTable (run hpB4 [0, 1] [0, 1]) (run hpB4 [1] [0, 1])
#guard cex_xid

/-- B5 (`PrimDiffer`): `None` and the string `<NULL>` (documented in the code) -/
def cex_null : Bool := sameTable (run (upd hpA 3 "s" .none) idxA addrsA) (run (upd hpA 3 "s" (.str "<NULL>")) idxA addrsA)
#guard cex_null

/-- B6 (targets are collected): references to two different structures that were not collected are both shown as `None`
    (cannot happen in `cas_to_comparable_text`, whose traversal collects every referenced structure) -/
def cex_uncollected : Bool := sameTable (run hpA idxA [2, 3]) (run (upd hpA 3 "r" (.ref 1)) idxA [2, 3])
#guard cex_uncollected

/-- B7 (targets are not arrays): a reference to an array is shown as the array's elements, so two collected arrays of
    different types with equal elements look alike as targets -/
def hpB7 : Heap :=
  [ holder 6 .none .none .none (.ref 1) .none .none,
    arrObj "uima.cas.IntegerArray" 7 (.ints [1, 2]), arrObj "uima.cas.LongArray" 8 (.ints [1, 2]) ]
def cex_array_target : Bool := sameTable (run hpB7 [0] [0, 1, 2]) (run (upd hpB7 0 "t" (.ref 2)) [0] [0, 1, 2])
#guard cex_array_target

/-! ### C. model against code: recursion budget (repaired)

`renderCols`/`renderRow` used to call `renderVal` with `hp.length + 1` levels, but one level of array nesting takes two
(`.ref arr` → `.refs l` → `.ref e`): three FSArrays nested in each other in a heap of four objects exhausted it (the model
answered `RuntimeError`, the code prints `[[[]]]` — checked:
`H(begin=0, end=1, arr=FSA(elements=[FSA(elements=[FSA(elements=[])])]))`).  The budget of the model is now
`2 * hp.length + 2`, which covers every acyclic nesting (`renderFrom_total`: `FuelOk … (2 * hp.length + 2)`); a cyclic
nesting still runs out (`RuntimeError`, Python: `RecursionError`). -/

def hpC3 : Heap :=
  [ holder 6 .none .none .none .none (.ref 1) .none,
    arrObj FS_ARRAY 7 (.refs [some 2]), arrObj FS_ARRAY 8 (.refs [some 3]), arrObj FS_ARRAY 9 (.refs []) ]
/-- the `arr` cell of the first row of the first section (columns: anchor, covered text, `arr`, …) -/
def arrCell (r : Except Err (List Section)) : String :=
  match r with
  | .ok (s :: _) => match s.rows with
    | (_ :: _ :: c :: _) :: _ => toString (repr c)
    | _ => "?"
  | .ok [] => "?"
  | .error e => "error " ++ toString (repr e)
/-- the former artefact, now a positive test: the model renders `[[[]]]` -/
def model_fuel : Bool :=
  arrCell (run hpC3 [0] [0]) == toString (repr (Cell.list [Cell.list [Cell.list []]]))
#guard model_fuel
#guard isOk (run hpC3 [0] [0])
#guard isOk (run (hpC3.take 3 |>.set 2 (arrObj FS_ARRAY 8 (.refs []))) [0] [0])
/-- the longest acyclic chain a heap of four objects can hold (every object but the holder an array in the next) uses
    `2 * 3 + 1` levels — within `2 * 4 + 2`; a cycle of arrays still exhausts the budget -/
def model_fuel_cycle : Bool :=
  match run (hpC3.set 3 (arrObj FS_ARRAY 9 (.refs [some 1]))) [0] [0] with | .error .runtimeError => true | _ => false
#guard model_fuel_cycle

end Cassis.Comparable.SensCheck
