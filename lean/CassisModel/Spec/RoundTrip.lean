/-
Specification-side definitions for the end-to-end XMI round trip (C01) on the *flat fragment*:
feature structures whose features are primitives (integers, strings, booleans, float tokens), plain references to
other feature structures, and the sofa reference; any number of views with text sofas; any reference graph (cycles,
sharing, structures that are only referenced); annotations with offsets into astral text.
Arrays and lists (inlined or not) are outside the fragment.
-/
import CassisModel.Spec.Determinism

namespace Cassis.Xmi
open Cassis.TS Cassis.Traverse

/-- what a slot value *means*, independently of heap addresses: references are named by the xmi:id of their target,
    sofa references by the view name -/
inductive DVal where
  | none
  | int (i : Int)
  | str (s : String)
  | bool (b : Bool)
  | float (t : String)
  | ref (id : Option Int)
  | sofa (view : String)
  | other
deriving Repr, DecidableEq, Inhabited

def dvalOf (hp : Heap) : Val → DVal
  | .none => .none
  | .int i => .int i
  | .str s => .str s
  | .bool b => .bool b
  | .float t => .float t
  | .ref a => .ref (xidOf hp a)
  | .sofa _ vn => .sofa vn
  | _ => .other

/-- the content of the feature `n` of the structure at `a` -/
def featContent (hp : Heap) (a : Nat) (n : String) : DVal := dvalOf hp ((slot hp a n).getD .none)

/-- the content of a view: sofa data and the ids of the indexed structures (in ascending order) -/
structure ViewContent where
  name : String
  xid : Int
  num : Int
  text : Option (List Nat)
  mime : Option String
  members : List Int
deriving Repr, DecidableEq, Inhabited

def viewContent (hp : Heap) (nv : String × View) : ViewContent :=
  { name := nv.1, xid := nv.2.sofa.xid, num := nv.2.sofa.sofaNum, text := nv.2.sofa.text, mime := nv.2.sofa.mime,
    members := sortInts ((Index.all nv.2.idx).filterMap (fun e => xidOf hp e.oid)) }

def isIntRange (r : String) : Bool :=
  r == "uima.cas.Integer" || r == "uima.cas.Short" || r == "uima.cas.Long" || r == "uima.cas.Byte"

/-- the reserved names.  A feature declared as `self` / `type` is stored under the Python name `self_` / `type_` with
    `reserved = true` (`createFeature`); the writers strip the underscore (`renderFeature`: the name written is the
    stored name without its last character), the readers add it again to the attributes / keys / child elements `self`
    and `type`.  So either the feature is not reserved, or it is one of the two features `createFeature` marks as
    reserved.  (Evaluated on the model for every range kind, XMI and JSON: `Spec/RoundTripCollCheck.lean`, section
    "reserved names", and `Spec/RoundTripJsonCollCheck.lean`.)

    Together with the conditions `f.name ≠ "type"`, `f.name ≠ "self"`, … that accompany it in `FlatFeat`, `NameOk`,
    `JFeatOk` this says: EITHER `f.reserved = false` and the stored name is none of the strings the codecs treat
    specially, OR `f.reserved = true` and the stored name is `self_` or `type_` (which are none of these strings).
    A feature that is not reserved must not be named `self` / `type` (impossible through `createFeature`): the readers
    would rename it. -/
def ResOk (f : Feature) : Prop :=
  f.reserved = false ∨ (f.reserved = true ∧ (f.name = "self_" ∨ f.name = "type_"))

instance (f : Feature) : Decidable (ResOk f) := by unfold ResOk; infer_instance

/-- one feature of a flat structure -/
def FlatFeat (K : Consts) (ts : TypeSystem) (c : Cas) (ci : Nat) (hp : Heap) (isAnn : Bool) (o : Obj) (f : Feature) : Prop :=
  ResOk f ∧ f.name ≠ "xmiID" ∧ f.name ≠ "type" ∧ f.name ≠ "self" ∧ f.name ≠ ID ∧
  -- the range is not a collection in any of the senses the codec tests (automatic for the generated constants `K`
  -- and a consistent type system; needed because `K` and `ts` are arbitrary here)
  isPrimitiveArray K f.range = false ∧ isPrimitiveList K f.range = false ∧ f.range ≠ FS_ARRAY ∧ f.range ≠ FS_LIST ∧
  isInstanceOf ts f.range STRING_ARRAY = false ∧ isInstanceOf ts f.range STRING_LIST = false ∧
  ∃ v : Val, alistGet? o.slots f.name = some v ∧
    ( -- the sofa reference: a view of this CAS (a structure that is not an annotation may have none)
      (f.name = "sofa" ∧ ((∃ vn, v = .sofa ci vn ∧ (Cas.getViewRec c vn).isSome = true) ∨ (v = .none ∧ isAnn = false)))
    ∨ -- primitive features
      (f.name ≠ "sofa" ∧ isPrimitive K ts f.range = true ∧
        ( v = .none
        ∨ (isIntRange f.range = true ∧ ∃ i : Int, v = .int i)
        ∨ (f.range = "uima.cas.String" ∧ ∃ s : String, v = .str s)
        ∨ (f.range = "uima.cas.Boolean" ∧ ∃ b : Bool, v = .bool b)
        ∨ ((f.range = "uima.cas.Float" ∨ f.range = "uima.cas.Double") ∧ ∃ t : String, v = .float t)))
    ∨ -- plain references
      (f.name ≠ "sofa" ∧ isPrimitive K ts f.range = false ∧ isArray K f.range = false ∧ isList K f.range = false ∧
        f.range ≠ "uima.cas.Boolean" ∧ f.range ≠ "uima.cas.Double" ∧ f.range ≠ "uima.cas.Float" ∧
        (v = .none ∨ ∃ b : Nat, v = .ref b ∧ (xidOf hp b).isSome = true ∧ xidOf hp b ≠ some 0)))

/-- a flat structure: registered non-collection type (not the sofa or view pseudo-types), feature names pairwise
    distinct, one slot per constructor field, every feature flat; an annotation has integer offsets inside the text
    of its sofa -/
def FlatFs (K : Consts) (ts : TypeSystem) (c : Cas) (ci : Nat) (hp : Heap) (a : Nat) : Prop :=
  ∃ (o : Obj) (t : TypeRec), hp[a]? = some o ∧ find? ts o.ty = some t ∧ t.name = o.ty ∧
    isArray K o.ty = false ∧ isList K o.ty = false ∧ t.super ≠ some ARRAY_BASE ∧
    isPrimitiveArray K o.ty = false ∧ o.ty ≠ FS_ARRAY ∧ isInstanceOf ts o.ty STRING_ARRAY = false ∧
    o.ty ≠ SOFA ∧ o.ty ≠ VIEW_T ∧
    (ctorFields t).Nodup ∧
    o.slots.map (·.1) = (ctorFields t).eraseDups ∧
    (∀ f ∈ allFeatures t, FlatFeat K ts c ci hp (isInstanceOf ts o.ty ANNOTATION) o f) ∧
    (isInstanceOf ts o.ty ANNOTATION = true →
      ∃ (vn : String) (v : View) (text : List Nat) (b e : Nat),
        alistGet? o.slots "sofa" = some (.sofa ci vn) ∧ Cas.getViewRec c vn = some v ∧ v.sofa.text = some text ∧
        alistGet? o.slots "begin" = some (.int b) ∧ alistGet? o.slots "end" = some (.int e) ∧
        b ≤ text.length ∧ e ≤ text.length)

/-- the indexed structures can be indexed again: the sort key of each exists (`begin`/`end` are both integers, both
    `None`, or absent), and within one view the structures of one type agree on having `None` offsets (Python
    cannot order `None` against an integer: `Cas.add` raises `TypeError`) -/
def MembersOk (c : Cas) (hp : Heap) : Prop :=
  ∀ nv ∈ c.views,
    (∀ e ∈ Index.all nv.2.idx, ∃ (o : Obj) (k : Index.Entry), hp[e.oid]? = some o ∧ Cas.entryOf o e.oid = .ok k) ∧
    (∀ e1 ∈ Index.all nv.2.idx, ∀ e2 ∈ Index.all nv.2.idx, ∀ (o1 o2 : Obj) (k1 k2 : Index.Entry),
      hp[e1.oid]? = some o1 → hp[e2.oid]? = some o2 → o1.ty = o2.ty →
      Cas.entryOf o1 e1.oid = .ok k1 → Cas.entryOf o2 e2.oid = .ok k2 →
      (k1.b = Index.NONE_KEY ↔ k2.b = Index.NONE_KEY))

/-- the `cas:NULL` type (the type of the first element of every document) is registered and has no features -/
def NullOk (ts : TypeSystem) : Prop := ∃ t0 : TypeRec, find? ts NULL_T = some t0 ∧ allFeatures t0 = []

/-- well-formedness of the CAS that is written: what `Cas(...)`/`create_view`/the sofa setter establish -/
structure RTWf (c : Cas) (hp : Heap) : Prop where
  /-- the first view is the initial view -/
  init_first : (c.views.head?).map (·.1) = some Cas.INITIAL_VIEW
  /-- view names are the keys and the sofa ids, pairwise distinct -/
  names : ∀ nv ∈ c.views, nv.2.sofa.sofaID = nv.1
  names_nodup : (c.views.map (·.1)).Nodup
  /-- sofa ids are distinct from each other and positive -/
  sofa_ids_nodup : (c.views.map (·.2.sofa.xid)).Nodup
  /-- text sofas only; the converter is the one the setter builds for the text; texts are Unicode scalar values -/
  text_sofa : ∀ nv ∈ c.views, nv.2.sofa.arr = .none ∧ nv.2.sofa.uri = none
  conv : ∀ nv ∈ c.views, ∀ t, nv.2.sofa.text = some t → nv.2.sofa.conv = some (Offsets.table t)
  conv_none : ∀ nv ∈ c.views, nv.2.sofa.text = none → nv.2.sofa.conv = none
  scalar : ∀ nv ∈ c.views, ∀ t, nv.2.sofa.text = some t → ∀ cp ∈ t, Offsets.IsScalar cp
  /-- generators are above every id in use (C09) -/
  next_pos : 0 < c.nextXid
  ids_below : Traverse.IdsBelow hp c.nextXid
  sofa_ids : ∀ nv ∈ c.views, 0 < nv.2.sofa.xid ∧ nv.2.sofa.xid < c.nextXid
  /-- ids in use are positive (the generator starts at 1; id 0 is the `cas:NULL` element of a document) -/
  ids_pos : ∀ (a : Nat) (ob : Obj) (x : Int), hp[a]? = some ob → ob.xid = some x → 0 < x

end Cassis.Xmi
