/-
Finding L1 (the loaders resolved the type an element names with `get_type(name)` — short-name matching — instead of
`get_type(name, match_exactly=True)`), as an evaluated instance of the repaired model.

Type system: the built-in types plus `b.type.Token` only.  Document: a sofa, a view with the members `2 3`, an element
of type `b.type.Token` (id 2) and an element of type `Token` — a type without namespace the type system does not
define — (id 3).

* strict load: `.error .typeNotFound`                       (before the repair: loaded, id 3 as a `b.type.Token`);
* lenient load: the `Token` element is dropped, its id is remembered and skipped in the member list, the
  `b.type.Token` element is loaded                              (before the repair: both loaded as `b.type.Token`);
* the JSON reader (no lenient dropping of structures there): `.error .typeNotFound` on a structure with `%TYPE` `Token`.

`getType` (`match_exactly=False`, still what the type-system API and the writers use) does resolve `Token`.
-/
import CassisModel.Model.Xmi
import CassisModel.Model.Json
import CassisModel.Gen.Builtins

namespace Cassis.ExactTypeCheck
open Cassis Cassis.TS Cassis.Xmi

def K : Consts := Gen.consts

def ts : TypeSystem :=
  match createType K Gen.builtinTS "b.type.Token" ANNOTATION none with
  | .ok ts => ts
  | .error _ => Gen.builtinTS

def sofaE : XElem :=
  { ty := SOFA, attrs := [(ID, "1"), ("sofaNum", "1"), ("sofaID", "_InitialView"), ("mimeType", "text/plain"),
      ("sofaString", "ab")] }
def tokFull : XElem := { ty := "b.type.Token", attrs := [(ID, "2"), ("sofa", "1"), ("begin", "0"), ("end", "1")] }
def tokBare : XElem := { ty := "Token", attrs := [(ID, "3"), ("sofa", "1"), ("begin", "1"), ("end", "2")] }
def viewE : XElem := { ty := VIEW_T, attrs := [("sofa", "1"), ("members", "2 3")] }

def doc : XDoc := [sofaE, tokFull, tokBare, viewE]

/-- what a load returns, in short: per view the ids and types of the indexed structures -/
def summary (r : Except Err Xmi.Loaded) : Except Err (List (String × List (Option Int × String))) :=
  r.map (fun ld => ld.cas.views.map (fun nv =>
    (nv.1, (Index.all nv.2.idx).filterMap (fun x => (ld.heap[x.oid]?).map (fun o => (o.xid, o.ty))))))

/-- the two lookups on the bare name (`getType` tests for a dot with `String.contains`, which the kernel does not
    evaluate: `#eval`) -/
def isTnf {α} : Except Err α → Bool
  | .error .typeNotFound => true
  | _ => false

#eval (getType ts "Token").toOption.map (·.name)          -- some "b.type.Token"
example : isTnf (getTypeExact ts "Token") = true := by decide +kernel
example : (getTypeExact ts "b.type.Token").toOption.map (·.name) = some "b.type.Token" := by decide +kernel

/-- strict: type-not-found (first pass, hence the whole load) -/
example : isTnf (pass1 K ts 0 false doc { heap := [] }) = true := by decide +kernel
example : isTnf (loadXmi K ts 0 0 false [] doc) = true := by decide +kernel

/-- lenient: the first pass remembers id 3 and registers id 2 only -/
example : (pass1 K ts 0 true doc { heap := [] }).toOption.map (fun p => (p.lenientIds, p.fss.map (·.1))) = some ([3], [2]) := by
  decide +kernel

#eval summary (loadXmi K ts 0 0 false [] doc)
#eval summary (loadXmi K ts 0 0 true [] doc)

/-- lenient load: one view, indexing the `b.type.Token` with id 2 only -/
example : (summary (loadXmi K ts 0 0 true [] doc)).toOption =
    some [("_InitialView", [(some 2, "b.type.Token")])] := by decide +kernel

/-! JSON -/

def jdoc : Json.JDoc :=
  { types := none,
    fss := [ { id := some 1, ty := SOFA, feats := [("sofaNum", .int 1), ("sofaID", .str "_InitialView"),
                ("mimeType", .str "text/plain"), ("sofaString", .str "ab")] },
             { id := some 2, ty := "b.type.Token", feats := [("@sofa", .int 1), ("begin", .int 0), ("end", .int 1)] },
             { id := some 3, ty := "Token", feats := [("@sofa", .int 1), ("begin", .int 1), ("end", .int 2)] } ],
    views := [ { name := "_InitialView", sofa := some 1, members := [2, 3] } ] }

def jsummary (r : Except Err Json.Loaded) : Except Err (List (String × List (Option Int × String))) :=
  r.map (fun ld => ld.cas.views.map (fun nv =>
    (nv.1, (Index.all nv.2.idx).filterMap (fun x => (ld.heap[x.oid]?).map (fun o => (o.xid, o.ty))))))

example : isTnf (Json.loadJson K ts 0 0 false false [] jdoc) = true := by decide +kernel
example : isTnf (Json.loadJson K ts 0 0 true false [] jdoc) = true := by decide +kernel

#eval jsummary (Json.loadJson K ts 0 0 false false [] jdoc)
#eval jsummary (Json.loadJson K ts 0 0 true false [] jdoc)
#eval jsummary (Json.loadJson K ts 0 0 false false [] { jdoc with fss := jdoc.fss.take 2, views := [ { name := "_InitialView", sofa := some 1, members := [2] } ] })

end Cassis.ExactTypeCheck
