/-
Definitions used by the document-level statements about the XMI codec (`Properties/C03Doc.lean`,
`Properties/C09Doc.lean`).
-/
import CassisModel.Model.Xmi

namespace Cassis.Xmi
open Cassis.TS

/-- how the writer renders a sofa text and how the reader sees it -/
def docText (t : List Nat) : String := String.ofList (t.map Char.ofNat)

/-- invariant of the first pass -/
def P1Bounded (p : Pass1) : Prop :=
  (∀ q ∈ p.sofas, q.2.xid ≤ p.maxId ∧ q.2.num ≤ p.maxNum) ∧ (∀ q ∈ p.fss, q.1 ≤ p.maxId)

end Cassis.Xmi
