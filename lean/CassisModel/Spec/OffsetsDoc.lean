/-
Definitions used by the document-level statements of C03 about what the writers put into a document
(`Properties/C03DocJson.lean`, `Properties/C03DocWrite.lean`).
-/
import CassisModel.Model.Json
import CassisModel.Spec.RoundTrip

namespace Cassis.OffsetsDoc
open Cassis.Offsets Cassis.TS

/-- **the oracle**: what a document carries for the in-memory (code-point) offset `i` of an annotation over the
    text `t`: the number of UTF-16 code units of the prefix of `i` code points when `i` lies inside the text; an offset
    that is negative or beyond the end of the text is carried as it is (the converter's `KeyError` branch) -/
def extOffset (t : List Nat) (i : Int) : Int :=
  if 0 ≤ i ∧ i.toNat ≤ t.length then Int.ofNat (utf16Encode (t.take i.toNat)).length else i

/-- the converter of a sofa belongs to its *current* text: it is the table the setter builds for that text
    (`Sofa.sofaString = t`, `Cas.setSofaString`; what the JSON reader does), or the sofa has the empty text and no
    converter (what the XMI reader installs for `sofaString=""`, `Xmi.convOfText`).  Nothing is required of a sofa
    without text (a stale converter may be left over there: `createMapping _ none` keeps the old table). -/
def SofaConvOk (s : Sofa) : Prop :=
  ∀ t, s.text = some t → s.conv = some (table t) ∨ (t = [] ∧ s.conv = none)

def ConvOk (c : Cas) : Prop := ∀ nv ∈ c.views, SofaConvOk nv.2.sofa

/-- the strict form: the converter of a sofa with text is the table of that text (what the setter leaves behind) -/
def SofaConvIs (s : Sofa) : Prop := ∀ t, s.text = some t → s.conv = some (table t)

def ConvIs (c : Cas) : Prop := ∀ nv ∈ c.views, SofaConvIs nv.2.sofa

/-- an integer feature in the sense of the XMI writer, which tests the range of a feature for the collection kinds
    before it looks at the value: not reserved, an integer range that is primitive and none of the collection kinds.
    Holds for every feature whose range is one of the four built-in integer types declared directly under TOP
    (`intFeat_builtin`), for the generated constants -/
def IntFeat (K : Consts) (ts : TypeSystem) (f : Feature) : Prop :=
  f.reserved = false ∧ Xmi.isIntRange f.range = true ∧ isPrimitive K ts f.range = true ∧
  isPrimitiveArray K f.range = false ∧ isPrimitiveList K f.range = false ∧
  isInstanceOf ts f.range STRING_ARRAY = false ∧ isInstanceOf ts f.range STRING_LIST = false

end Cassis.OffsetsDoc
