/-
Specification-side definitions for features: the invariant "effective features = own + ancestors'".
-/
import CassisModel.Spec.TypeSystem

namespace Cassis.TS

def fnames (l : List Feature) : List String := l.map (·.name)

/-- the feature bookkeeping invariant of a type system -/
structure FeatInv (ts : TypeSystem) : Prop where
  ownNodup : ∀ t ∈ ts.types, (fnames t.own).Nodup
  inhNodup : ∀ t ∈ ts.types, (fnames t.inh).Nodup
  /-- an own feature that also arrives by inheritance is an identical redefinition -/
  compat : ∀ t ∈ ts.types, ∀ f ∈ t.own, ∀ g ∈ t.inh, f.name = g.name → featureEq f g = true
  /-- the inherited features are, by name, exactly the effective features of the supertype … -/
  inherit : ∀ t ∈ ts.types, ∀ s ps, t.super = some s → find? ts s = some ps →
      ∀ n, n ∈ fnames t.inh ↔ n ∈ fnames (allFeatures ps)
  /-- … with the same definition -/
  inheritEq : ∀ t ∈ ts.types, ∀ s ps, t.super = some s → find? ts s = some ps →
      ∀ g ∈ t.inh, ∀ f ∈ allFeatures ps, f.name = g.name → featureEq f g = true
  rootInh : ∀ t ∈ ts.types, t.super = none → t.inh = []

end Cassis.TS
