/-
Specification-side definition of reachability in the feature-structure graph, as the serialisers see it.
-/
import CassisModel.Model.Traverse

namespace Cassis.Traverse
open Cassis.TS

/-- the structures the one at `a` refers to — directly, through the elements of its arrays or the heads of
    its inlined lists — computed against an empty visited map -/
def succsOf (K : Consts) (ts : TypeSystem) (o : Opts) (hp : Heap) (lf : Nat) (a : Nat) : List Nat :=
  match hp[a]? with
  | none => []
  | some ob =>
    match getType ts ob.ty with
    | .error _ => []
    | .ok t =>
      match nodeSuccs K ts o hp [] lf a t with
      | .ok (ps, _) => ps
      | .error _ => []

/-- reachable from the seeds; the `cas:NULL` object (id 0) is never expanded -/
inductive Reach (K : Consts) (ts : TypeSystem) (o : Opts) (hp : Heap) (lf : Nat) (seeds : List Nat) : Nat → Prop where
  | seed (a : Nat) : a ∈ seeds → Reach K ts o hp lf seeds a
  | step (a b : Nat) : Reach K ts o hp lf seeds a → xidOf hp a ≠ some 0 → b ∈ succsOf K ts o hp lf a →
      Reach K ts o hp lf seeds b

end Cassis.Traverse
