/-
Specification-side definitions for the extension of C13 (order independence of `merge_typesystems`) to names with
competing supertypes that have declared subtypes — the re-parenting of a whole subtree (`Properties/C13PermSub.lean`).
-/
import CassisModel.Spec.MergePermCompete

namespace Cassis.TS

/-- `DeclAnc decls a b`: `a` is `b`, or is reached from `b` by following declared supertypes upwards (any declaration of a
    name counts, so for a name declared with several supertypes all of them — and their declared ancestors — count) -/
inductive DeclAnc (decls : List Decl) : String → String → Prop where
  | refl (a : String) : DeclAnc decls a a
  | step (a : String) (d : Decl) : d ∈ decls → DeclAnc decls a d.super → DeclAnc decls a d.name

/-- every competing supertype of a name, and every declared ancestor of it, is declared with one supertype throughout.
    The name with competing supertypes itself may have declared subtypes (a whole subtree is re-parented); what is
    excluded is that comparing two competing supertypes hinges on another pending re-parenting.  (Finding M6: `x.A` is
    declared below `x.B` and below `uima.tcas.Annotation`; `x.C`, the declared supertype of `x.B`, is itself declared
    below `uima.cas.TOP` and below `uima.tcas.Annotation`.) -/
def StableCompete (decls : List Decl) : Prop :=
  ∀ d ∈ decls, Competing decls d.name → ∀ a, DeclAnc decls a d.super → ¬ Competing decls a

/-- Boolean versions, for tests: the declared ancestors of `b` (fuel = number of declarations) -/
def declAncs (decls : List Decl) : Nat → String → List String
  | 0, b => [b]
  | k+1, b => b :: (decls.filter (·.name == b)).flatMap (fun d => declAncs decls k d.super)

def competingB (decls : List Decl) (n : String) : Bool :=
  decls.any (fun d => decls.any (fun d' => d.name == n && d'.name == n && d.super != d'.super))

def stableCompeteB (decls : List Decl) : Bool :=
  decls.all (fun d => !(competingB decls d.name) ||
    (declAncs decls decls.length d.super).all (fun a => !(competingB decls a)))

end Cassis.TS
