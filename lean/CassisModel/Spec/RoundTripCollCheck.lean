/-
A computable test "the XMI round-trip theorem with collections (`Properties/C01RoundTripColl.lean`,
`xmi_roundtrip_coll`) applies to this CAS": Boolean checkers for the fragment `CollFs`
(`Spec/RoundTripCollFrag.lean`) and the conjunction `collAppliesB` of the checkers of all hypotheses (the others are those
of `Spec/RoundTripCheck.lean`).  Soundness: `Proofs/RoundTripCollCheck.lean`; `Properties/C01AppliesColl.lean` derives
the conclusion of the theorem from `collAppliesB … = true`.

The second half of the file holds a hand-built instance with every collection kind (`CollDemo`), the evaluated round
trip on it, and the evaluated counterexamples for the side conditions (S1)–(S7) of the fragment.

This file imports specification files only (the compiled driver imports it).
-/
import CassisModel.Spec.RoundTripCollFrag
import CassisModel.Spec.RoundTripCheck
import CassisModel.Gen.Builtins

namespace Cassis.Xmi
open Cassis.TS Cassis.Traverse

/-! ### Checkers for the parts of `CollFeat` -/

def tokOkB (t : String) : Bool := !t.toList.isEmpty && t.toList.all (fun c => !Lex.isWs c)

def rangeKindB (K : Consts) (ts : TypeSystem) (r : String) (pa pl ar li sa sl : Bool) : Bool :=
  (isPrimitiveArray K r == pa) && (isPrimitiveList K r == pl) && (isArray K r == ar) && (isList K r == li) &&
  (isInstanceOf ts r STRING_ARRAY == sa) && (isInstanceOf ts r STRING_LIST == sl) && !isPrimitive K ts r

def intArrTyB (r : String) : Bool :=
  decide (r = "uima.cas.IntegerArray") || decide (r = "uima.cas.ShortArray") || decide (r = "uima.cas.LongArray")
def floatArrTyB (r : String) : Bool := decide (r = "uima.cas.FloatArray") || decide (r = "uima.cas.DoubleArray")
def primArrTyB (r : String) : Bool :=
  intArrTyB r || decide (r = "uima.cas.ByteArray") || decide (r = "uima.cas.BooleanArray") || floatArrTyB r

def primElemsB (r : String) : Val → Bool
  | .refs l => l.isEmpty
  | .ints l => intArrTyB r || (decide (r = "uima.cas.ByteArray") && l.all (fun b => decide (0 ≤ b) && decide (b < 256)))
  | .bools _ => decide (r = "uima.cas.BooleanArray")
  | .floats l => floatArrTyB r && l.all tokOkB
  | _ => false

def strElemsB : Val → Bool
  | .refs l => l.isEmpty
  | .strs _ => true
  | _ => false

def refOkB' (hp : Heap) (b : Nat) : Bool := (xidOf hp b).isSome && decide (xidOf hp b ≠ some 0)

def fsElemsB (hp : Heap) : Val → Bool
  | .refs l => l.all (fun r => match r with
      | some b => refOkB' hp b
      | none => false)
  | _ => false

def sharedFeatB (K : Consts) (ts : TypeSystem) (hp : Heap) (o : Obj) (f : Feature) : Bool :=
  decide (f.multi = some true) && (isArray K f.range || isList K f.range) && !isPrimitive K ts f.range &&
  decide (f.range ≠ "uima.cas.Boolean") && decide (f.range ≠ "uima.cas.Double") && decide (f.range ≠ "uima.cas.Float") &&
  match alistGet? o.slots f.name with
  | some .none => true
  | some (.ref b) => refOkB' hp b
  | _ => false

def inlArrB (hp : Heap) (P : Val → Bool) : Val → Bool
  | .none => true
  | .ref arr => match slot hp arr "elements" with
    | some ev => P ev
    | none => false
  | _ => false

def inlListB (hp : Heap) (P : List Val → Bool) : Val → Bool
  | .none => true
  | .ref a => match collectList hp (hp.length + 1) (.ref a) with
    | .ok hs => P hs
    | .error _ => false
  | _ => false

def isIntV : Val → Bool | .int _ => true | _ => false
def isFloatTokV : Val → Bool | .float t => tokOkB t | _ => false
def isStrOrNoneV : Val → Bool | .none => true | .str _ => true | _ => false
def isRefOkV (hp : Heap) : Val → Bool | .ref b => refOkB' hp b | _ => false

def inlineFeatB (K : Consts) (ts : TypeSystem) (hp : Heap) (o : Obj) (f : Feature) : Bool :=
  (f.multi.getD false == false) &&
  match alistGet? o.slots f.name with
  | none => false
  | some v =>
    (primArrTyB f.range && rangeKindB K ts f.range true false true false false false &&
        inlArrB hp (primElemsB f.range) v) ||
    (decide (f.range = STRING_ARRAY) && rangeKindB K ts f.range true false true false true false &&
        inlArrB hp strElemsB v) ||
    (decide (f.range = FS_ARRAY) && rangeKindB K ts f.range false false true false false false &&
        inlArrB hp (fsElemsB hp) v) ||
    (decide (f.range = INTEGER_LIST) && rangeKindB K ts f.range false true false true false false &&
        inlListB hp (fun hs => hs.all isIntV) v) ||
    (decide (f.range = FLOAT_LIST) && rangeKindB K ts f.range false true false true false false &&
        inlListB hp (fun hs => hs.all isFloatTokV) v) ||
    (decide (f.range = STRING_LIST) && rangeKindB K ts f.range false true false true false true &&
        inlListB hp (fun hs => !hs.isEmpty && hs.all isStrOrNoneV) v) ||
    (decide (f.range = FS_LIST) && rangeKindB K ts f.range false false false true false false &&
        inlListB hp (fun hs => hs.all (isRefOkV hp)) v)

def nameOkB (f : Feature) : Bool :=
  decide (ResOk f) && decide (f.name ≠ "xmiID") && decide (f.name ≠ "type") && decide (f.name ≠ "self") &&
  decide (f.name ≠ ID) && decide (f.name ≠ "sofa")

def collFeatB (K : Consts) (ts : TypeSystem) (c : Cas) (ci : Nat) (hp : Heap) (isAnn : Bool) (o : Obj) (f : Feature) :
    Bool :=
  flatFeatB K ts c ci hp isAnn o f || (nameOkB f && (sharedFeatB K ts hp o f || inlineFeatB K ts hp o f))

/-- `GenFs K ts c ci hp a` -/
def genFsB (K : Consts) (ts : TypeSystem) (c : Cas) (ci : Nat) (hp : Heap) (a : Nat) : Bool :=
  match hp[a]? with
  | none => false
  | some o =>
    match find? ts o.ty with
    | none => false
    | some t =>
      decide (t.name = o.ty) && decide (isArray K o.ty = false) && decide (isList K o.ty = false) &&
      decide (t.super ≠ some ARRAY_BASE) && decide (isPrimitiveArray K o.ty = false) && decide (o.ty ≠ FS_ARRAY) &&
      decide (isInstanceOf ts o.ty STRING_ARRAY = false) && decide (o.ty ≠ SOFA) && decide (o.ty ≠ VIEW_T) &&
      decide ((ctorFields t).Nodup) && decide (o.slots.map (·.1) = (ctorFields t).eraseDups) &&
      (allFeatures t).all (fun f => collFeatB K ts c ci hp (isInstanceOf ts o.ty ANNOTATION) o f) &&
      (!isInstanceOf ts o.ty ANNOTATION || annOkB c ci o)

/-- `ArrFs K ts hp a` -/
def arrFsB (K : Consts) (ts : TypeSystem) (hp : Heap) (a : Nat) : Bool :=
  match hp[a]? with
  | none => false
  | some o =>
    match find? ts o.ty with
    | none => false
    | some t =>
      match allFeatures t, o.slots with
      | [f], [(n, ev)] =>
        decide (t.name = o.ty) && decide (t.super = some ARRAY_BASE) && decide (f.name = "elements") &&
        decide (f.range = TOP) && decide (f.reserved = false) && decide (n = "elements") &&
        decide (isInstanceOf ts o.ty ANNOTATION = false) &&
        ( (decide (o.ty = FS_ARRAY) && decide (isPrimitiveArray K FS_ARRAY = false) &&
            decide (isInstanceOf ts FS_ARRAY STRING_ARRAY = false) && (decide (ev = .none) || fsElemsB hp ev))
        || (decide (o.ty = STRING_ARRAY) && decide (isPrimitiveArray K STRING_ARRAY = true) && strElemsB ev)
        || (primArrTyB o.ty && decide (isPrimitiveArray K o.ty = true) &&
            decide (isInstanceOf ts o.ty STRING_ARRAY = false) && (decide (ev = .none) || primElemsB o.ty ev)) )
      | _, _ => false

/-- `CollFs K ts c ci hp a` -/
def collFsB (K : Consts) (ts : TypeSystem) (c : Cas) (ci : Nat) (hp : Heap) (a : Nat) : Bool :=
  genFsB K ts c ci hp a || arrFsB K ts hp a

/-! ### The test -/

/-- every hypothesis of `xmi_roundtrip_coll` holds for the CAS `cass[ci]` over the heap `hp` -/
def collAppliesB (K : Consts) (ts : TypeSystem) (cass : List Cas) (ci : Nat) (hp : Heap) : Bool :=
  match cass[ci]? with
  | none => false
  | some c =>
    match saveXmi K ts cass ci hp with
    | .error _ => false
    | .ok (_, st) =>
      rtWfB c hp && nullOkB ts && st.allFs.all (fun q => collFsB K ts c ci st.heap q.2) && disjointB st.allFs c &&
      memSofaB c st.heap && membersOkB c st.heap

/-! ### The conclusion of the theorem as a computable test (for experiments and the counterexamples) -/

def CVal.beq : CVal → CVal → Bool
  | .none, .none => true
  | .int i, .int j => i == j
  | .str s, .str t => s == t
  | .bool a, .bool b => a == b
  | .float s, .float t => s == t
  | .ref a, .ref b => a == b
  | .sofa a, .sofa b => a == b
  | .elems l, .elems m => go l m
  | .other, .other => true
  | _, _ => false
where
  go : List CVal → List CVal → Bool
    | [], [] => true
    | a :: l, b :: m => CVal.beq a b && go l m
    | _, _ => false

/-- the features of the collected structures whose content differs after `saveXmi` / `loadXmi`
    (`none`: the structure is missing or of another type); `.error`: writer or reader raised -/
def roundTripDiffs (K : Consts) (ts : TypeSystem) (cass : List Cas) (ci : Nat) (hp : Heap) (tsIdx ci' : Nat) :
    Except Err (List (Int × Option String)) := do
  let (doc, st) ← saveXmi K ts cass ci hp
  let p ← pass1 K ts tsIdx false doc { heap := st.heap }
  let ld ← loadXmi K ts tsIdx ci' false st.heap doc
  let c ← match cass[ci]? with | some c => pure c | none => throw .keyError
  let viewsOk := decide (ld.cas.views.map (viewContent ld.heap) = c.views.map (viewContent st.heap))
  let ds := st.allFs.flatMap (fun q =>
    match lookupFs p.fss q.1, st.heap[q.2]? with
    | .ok a', some o =>
      match ld.heap[a']?, find? ts o.ty with
      | some o', some t =>
        if o'.ty == o.ty && o'.xid == some q.1 then
          (allFeatures t).filterMap (fun f =>
            if CVal.beq (featContentC K ld.heap a' f) (featContentC K st.heap q.2 f) then none else some (q.1, some f.name))
        else [(q.1, none)]
      | _, _ => [(q.1, none)]
    | _, _ => [(q.1, none)])
  pure (if viewsOk then ds else (0, some "views") :: ds)

/-! ## A hand-built instance with every collection kind -/

namespace CollDemo

def K : Consts := Gen.consts

def feat (n r : String) (multi : Option Bool := none) : Feature :=
  { name := n, domain := "x.Doc", range := r, multi := multi }

/-- `x.Doc`, an annotation type with one feature per collection kind, inlined and shared -/
def docRec : TypeRec :=
  { name := "x.Doc", super := some ANNOTATION,
    own := [ feat "n" "uima.cas.Integer", feat "next" "x.Doc",
             feat "ia" "uima.cas.IntegerArray", feat "sha" "uima.cas.ShortArray", feat "la" "uima.cas.LongArray",
             feat "ba" "uima.cas.ByteArray", feat "boa" "uima.cas.BooleanArray",
             feat "fa" "uima.cas.FloatArray", feat "da" "uima.cas.DoubleArray",
             feat "sa" "uima.cas.StringArray", feat "se" "uima.cas.StringArray",
             feat "fsa" "uima.cas.FSArray", feat "fsl" "uima.cas.FSList",
             feat "il" "uima.cas.IntegerList", feat "fl" "uima.cas.FloatList", feat "sl" "uima.cas.StringList",
             feat "mfa" "uima.cas.FSArray" (some true), feat "mia" "uima.cas.IntegerArray" (some true),
             feat "msa" "uima.cas.StringArray" (some true), feat "mfl" "uima.cas.FSList" (some true),
             feat "mil" "uima.cas.IntegerList" (some true), feat "msl" "uima.cas.StringList" (some true) ],
    inh := [ { name := "begin", domain := "uima.tcas.Annotation", range := "uima.cas.Integer" },
             { name := "end", domain := "uima.tcas.Annotation", range := "uima.cas.Integer" },
             { name := "sofa", domain := "uima.cas.AnnotationBase", range := "uima.cas.Sofa" } ] }

def ts : TypeSystem := { Gen.builtinTS with types := Gen.builtinTS.types ++ [docRec] }

def arr (ty : String) (ev : Val) : Obj := { ty := ty, ts := 0, xid := none, slots := [("elements", ev)] }
def node (ty : String) (hd tl : Val) : Obj := { ty := ty, ts := 0, xid := none, slots := [("head", hd), ("tail", tl)] }
def enode (ty : String) : Obj := { ty := ty, ts := 0, xid := none, slots := [] }

def noColl : List (String × Val) :=
  [ ("ia", .none), ("sha", .none), ("la", .none), ("ba", .none), ("boa", .none), ("fa", .none), ("da", .none),
    ("sa", .none), ("se", .none), ("fsa", .none), ("fsl", .none), ("il", .none), ("fl", .none), ("sl", .none),
    ("mfa", .none), ("mia", .none), ("msa", .none), ("mfl", .none), ("mil", .none), ("msl", .none) ]

def tailSlots (b e : Int) : List (String × Val) :=
  [("begin", .int b), ("end", .int e), ("sofa", .sofa 0 "_InitialView")]

/-- the heap: two `x.Doc` structures (the first indexed, the second only referenced), then the collection objects -/
def hp : Heap :=
  [ /- 0 -/ { ty := "x.Doc", ts := 0, xid := some 2, slots :=
      [ ("n", .int 7), ("next", .ref 1),
        ("ia", .ref 2), ("sha", .ref 3), ("la", .ref 4), ("ba", .ref 5), ("boa", .ref 6), ("fa", .ref 7), ("da", .ref 8),
        ("sa", .ref 9), ("se", .ref 10), ("fsa", .ref 11), ("fsl", .ref 13), ("il", .ref 16), ("fl", .ref 18),
        ("sl", .ref 21),
        ("mfa", .ref 23), ("mia", .ref 24), ("msa", .ref 25), ("mfl", .ref 27), ("mil", .ref 29), ("msl", .ref 31) ]
      ++ tailSlots 0 2 },
    /- 1 -/ { ty := "x.Doc", ts := 0, xid := none, slots := [("n", .none), ("next", .ref 0)] ++ noColl ++ tailSlots 2 3 },
    /- 2 -/ arr "uima.cas.IntegerArray" (.ints [1, -2, 30]),
    /- 3 -/ arr "uima.cas.ShortArray" (.ints []),
    /- 4 -/ arr "uima.cas.LongArray" (.refs []),
    /- 5 -/ arr "uima.cas.ByteArray" (.ints [0, 255, 16]),
    /- 6 -/ arr "uima.cas.BooleanArray" (.bools [true, false]),
    /- 7 -/ arr "uima.cas.FloatArray" (.floats ["1.5", "-2.0"]),
    /- 8 -/ arr "uima.cas.DoubleArray" (.floats ["1e-05"]),
    /- 9 -/ arr "uima.cas.StringArray" (.strs [some "a b", some "", none, some "c"]),
    /- 10 -/ arr "uima.cas.StringArray" (.strs []),
    /- 11 -/ arr "uima.cas.FSArray" (.refs [some 1, some 0, some 1]),
    /- 12 -/ enode "uima.cas.EmptyFSList",
    /- 13 -/ node "uima.cas.NonEmptyFSList" (.ref 1) (.ref 14),
    /- 14 -/ node "uima.cas.NonEmptyFSList" (.ref 0) (.ref 12),
    /- 15 -/ enode "uima.cas.EmptyIntegerList",
    /- 16 -/ node "uima.cas.NonEmptyIntegerList" (.int 5) (.ref 17),
    /- 17 -/ node "uima.cas.NonEmptyIntegerList" (.int (-6)) (.ref 15),
    /- 18 -/ node "uima.cas.NonEmptyFloatList" (.float "0.25") (.ref 19),
    /- 19 -/ enode "uima.cas.EmptyFloatList",
    /- 20 -/ enode "uima.cas.EmptyStringList",
    /- 21 -/ node "uima.cas.NonEmptyStringList" (.str "x y") (.ref 22),
    /- 22 -/ node "uima.cas.NonEmptyStringList" (.str "") (.ref 20),
    /- 23 -/ arr "uima.cas.FSArray" (.refs [some 0, some 1]),
    /- 24 -/ arr "uima.cas.IntegerArray" (.ints [4, 5]),
    /- 25 -/ arr "uima.cas.StringArray" (.strs [some "p", none]),
    /- 26 -/ enode "uima.cas.EmptyFSList",
    /- 27 -/ node "uima.cas.NonEmptyFSList" (.ref 1) (.ref 26),
    /- 28 -/ enode "uima.cas.EmptyIntegerList",
    /- 29 -/ node "uima.cas.NonEmptyIntegerList" (.int 9) (.ref 28),
    /- 30 -/ enode "uima.cas.EmptyStringList",
    /- 31 -/ node "uima.cas.NonEmptyStringList" (.str "q") (.ref 30) ]

def cas : Cas :=
  { views := [("_InitialView",
      { sofa := { sofaID := "_InitialView", sofaNum := 1, xid := 1, text := some [97, 128512, 98],
                  mime := some "text/plain", uri := none, arr := .none, conv := some [0, 1, 3, 4] },
        idx := [("x.Doc", [{ b := 0, e := 2, oid := 0 }])] })],
    nextXid := 3, nextSofaNum := 2 }

/-! ### counterexamples for the side conditions of `CollFs` (`Spec/RoundTripCollFrag.lean`)

`run h` = (`collAppliesB`, `roundTripDiffs`) on the demo CAS over the heap `h`; every heap below is the demo heap with
one object replaced.  The evaluated results are in the comments (re-evaluate by uncommenting the `#eval`). -/

/-- the demo heap with slot `n` of the first structure set to `v` -/
def setSlot0 (h : Heap) (n : String) (v : Val) : Heap :=
  match h with
  | o :: rest => { o with slots := alistSet o.slots n v } :: rest
  | [] => []

def run (h : Heap) : Bool × Except Err (List (Int × Option String)) :=
  (collAppliesB K ts [cas] 0 h, roundTripDiffs K ts [cas] 0 h 0 1)

/-- the instance itself: the test answers `true`, nothing differs -/
def cx_demo := run hp                                                        -- (true, ok [])
/-- (S1) an FSArray with a null element, inlined / shared: the writer raises -/
def cx_fsarray_null := run (hp.set 11 (arr "uima.cas.FSArray" (.refs [some 1, none])))        -- (false, error AttributeError)
def cx_fsarray_null_shared := run (hp.set 23 (arr "uima.cas.FSArray" (.refs [some 1, none]))) -- (false, error AttributeError)
/-- (S2) an inlined array with `elements = None` comes back as `None` -/
def cx_inline_elements_none := run (hp.set 2 (arr "uima.cas.IntegerArray" .none))            -- (false, ok [(2, "ia")])
def cx_inline_elements_none_fs := run (hp.set 11 (arr "uima.cas.FSArray" .none))             -- (false, ok [(2, "fsa")])
def cx_inline_elements_none_str := run (hp.set 9 (arr "uima.cas.StringArray" .none))         -- (false, ok [(2, "sa")])
/-- … whereas an array *object* of a non-string type may have `elements = None` -/
def ok_obj_elements_none := run (hp.set 24 (arr "uima.cas.IntegerArray" .none))              -- (true, ok [])
def ok_obj_elements_none_fs := run (hp.set 23 (arr "uima.cas.FSArray" .none))                -- (true, ok [])
/-- (S3) a StringArray object with `elements = None` comes back with `elements = []` -/
def cx_strarray_obj_none := run (hp.set 25 (arr "uima.cas.StringArray" .none))               -- (false, ok [(6, "elements")])
/-- (S4) an empty inlined StringList comes back as `None` (the other inlined lists may be empty) -/
def cx_inline_strlist_empty :=
  run (setSlot0 hp "sl" (.ref 20))              -- (false, ok [(2, "sl")])
def ok_inline_lists_empty :=
  run (setSlot0 (setSlot0 (setSlot0 hp "il" (.ref 15)) "fsl" (.ref 12)) "fl" (.ref 19))   -- (true, ok [])
/-- (S5) float tokens with a blank / empty -/
def cx_float_token_blank := run (hp.set 7 (arr "uima.cas.FloatArray" (.floats ["1.5 2.5"]))) -- (false, ok [(2, "fa")])
def cx_float_token_empty := run (hp.set 7 (arr "uima.cas.FloatArray" (.floats [""])))        -- (false, ok [(2, "fa")])
def cx_float_list_token_empty :=
  run (hp.set 18 (node "uima.cas.NonEmptyFloatList" (.float "") (.ref 19)))                  -- (false, ok [(2, "fl")])
/-- (S6) bytes outside `0 … 255` -/
def cx_byte_range := run (hp.set 5 (arr "uima.cas.ByteArray" (.ints [256])))                 -- (false, error ValueError)
def cx_byte_negative := run (hp.set 5 (arr "uima.cas.ByteArray" (.ints [-1])))               -- (false, ok [(2, "ba")])
/-- (S7) a null head in an inlined FSList / IntegerList: the writer raises; a cyclic spine -/
def cx_fslist_null_head := run (hp.set 14 (node "uima.cas.NonEmptyFSList" .none (.ref 12)))  -- (false, error AttributeError)
def cx_intlist_null_head :=
  run (hp.set 17 (node "uima.cas.NonEmptyIntegerList" .none (.ref 15)))                      -- (false, error TypeError)
def cx_cyclic_spine := run (hp.set 14 (node "uima.cas.NonEmptyFSList" (.ref 0) (.ref 13)))   -- (false, error OutOfFuel)
/-- no condition: an inlined array shared by two features, or inlined and referenced as a shared one as well -/
def ok_inline_shared_twice :=
  run (setSlot0 hp "sha" (.ref 2))              -- (true, ok [])
def ok_inline_and_shared :=
  run (setSlot0 hp "mia" (.ref 2))              -- (true, ok [])

/-- all of the above at once -/
def allRuns : List (String × Bool × String) :=
  [ ("cx_demo", cx_demo), ("cx_fsarray_null", cx_fsarray_null), ("cx_fsarray_null_shared", cx_fsarray_null_shared),
    ("cx_inline_elements_none", cx_inline_elements_none), ("cx_inline_elements_none_fs", cx_inline_elements_none_fs),
    ("cx_inline_elements_none_str", cx_inline_elements_none_str), ("ok_obj_elements_none", ok_obj_elements_none),
    ("ok_obj_elements_none_fs", ok_obj_elements_none_fs), ("cx_strarray_obj_none", cx_strarray_obj_none),
    ("cx_inline_strlist_empty", cx_inline_strlist_empty), ("ok_inline_lists_empty", ok_inline_lists_empty),
    ("cx_float_token_blank", cx_float_token_blank), ("cx_float_token_empty", cx_float_token_empty),
    ("cx_float_list_token_empty", cx_float_list_token_empty), ("cx_byte_range", cx_byte_range),
    ("cx_byte_negative", cx_byte_negative), ("cx_fslist_null_head", cx_fslist_null_head),
    ("cx_intlist_null_head", cx_intlist_null_head), ("cx_cyclic_spine", cx_cyclic_spine),
    ("ok_inline_shared_twice", ok_inline_shared_twice), ("ok_inline_and_shared", ok_inline_and_shared) ].map
  (fun (n, r) => (n, r.1, match r.2 with
    | .ok l => s!"ok {l.map (fun (d : Int × Option String) => (d.1, d.2.getD "?"))}"
    | .error e => s!"error {e}"))

-- the results quoted in the comments above:
#eval allRuns

end CollDemo

/-! ## Reserved names

A feature declared as `self` / `type` is stored as `self_` / `type_` with `reserved = true` (`createFeature`); the writer
emits it as the attribute / child element `self` / `type`, the reader renames it back.  `ResOk` (`Spec/RoundTrip.lean`)
admits such features in the fragment; here the round trip is evaluated on the model for every kind of range: each of
the 22 features of the demo type `x.Doc` (primitive, reference, the inlined and the shared collections — the two
StringArray features `sa` / `msa` and the StringList `sl` are written as child elements) in turn takes the place of the
reserved feature `self_`, then of `type_`.  Every run evaluates to `(true, ok [])`: the test accepts, nothing differs.
A type system made with `createFeature … "self" …` / `… "type" …` is evaluated as well (`viaCreate`). -/

namespace ResDemo
open CollDemo

/-- `x.Doc` with the feature `n` stored as `createFeature` stores a feature declared as `self` / `type`:
    under the name `stored` (`self_` / `type_`), `reserved = true` -/
def resRec (n stored : String) : TypeRec :=
  { docRec with own := docRec.own.map (fun f => if f.name == n then { f with name := stored, reserved := true } else f) }

def resTs (n stored : String) : TypeSystem :=
  { Gen.builtinTS with types := Gen.builtinTS.types ++ [resRec n stored] }

/-- the demo heap with the slot `n` of the `x.Doc` structures under the stored name -/
def resHp (n stored : String) : Heap :=
  hp.map (fun o =>
    if o.ty == "x.Doc" then { o with slots := o.slots.map (fun p => if p.1 == n then (stored, p.2) else p) } else o)

def run (n stored : String) : Bool × Except Err (List (Int × Option String)) :=
  (collAppliesB K (resTs n stored) [cas] 0 (resHp n stored), roundTripDiffs K (resTs n stored) [cas] 0 (resHp n stored) 0 1)

/-- a type system made with `createFeature`: `self` an integer, `type` a StringArray (child elements `type`), `peer` a
    reference; `createFeature` stores `self_` / `type_` with `reserved = true` (third component) -/
def tsC : TypeSystem :=
  match (do
    let ts ← createType K Gen.builtinTS "x.R" ANNOTATION none
    let ts ← createFeature ts "x.R" "self" "uima.cas.Integer"
    let ts ← createFeature ts "x.R" "type" "uima.cas.StringArray"
    createFeature ts "x.R" "peer" "x.R") with
  | .ok ts => ts
  | .error _ => Gen.builtinTS

def hpC : Heap :=
  [ { ty := "x.R", ts := 0, xid := some 2, slots :=
        [("self_", .int 7), ("type_", .ref 2), ("peer", .ref 1)] ++ tailSlots 0 2 },
    { ty := "x.R", ts := 0, xid := none, slots := [("self_", .none), ("type_", .none), ("peer", .ref 0)] ++ tailSlots 2 3 },
    arr "uima.cas.StringArray" (.strs [some "a b", none, some "c"]) ]

def casC : Cas :=
  { cas with views := cas.views.map (fun nv => (nv.1, { nv.2 with idx := [("x.R", [{ b := 0, e := 2, oid := 0 }])] })) }

/-- (test, differences, the own features of `x.R` as stored, the written attributes and child elements of the first
    structure) -/
def viaCreate : Bool × Except Err (List (Int × Option String)) × List (String × Bool) ×
    Option (List (String × String) × List (String × Option String)) :=
  (collAppliesB K tsC [casC] 0 hpC, roundTripDiffs K tsC [casC] 0 hpC 0 1,
   ((find? tsC "x.R").map (fun t => t.own.map (fun f => (f.name, f.reserved)))).getD [],
   match saveXmi K tsC [casC] 0 hpC with
   | .ok (doc, _) => (doc[1]?).map (fun e => (e.attrs, e.kids))
   | .error _ => none)

/-- a flat instance (for `xmi_roundtrip_flat` / `rtAppliesB`): `x.F` with the reserved features `self_` (an integer)
    and `type_` (a reference), as `createFeature` stores them -/
def flatRec : TypeRec :=
  { name := "x.F", super := some ANNOTATION,
    own := [ { name := "self_", domain := "x.F", range := "uima.cas.Integer", reserved := true },
             { name := "type_", domain := "x.F", range := "x.F", reserved := true } ],
    inh := docRec.inh }

def flatTs : TypeSystem := { Gen.builtinTS with types := Gen.builtinTS.types ++ [flatRec] }

def flatHp : Heap :=
  [ { ty := "x.F", ts := 0, xid := some 2, slots := [("self_", .int 7), ("type_", .ref 1)] ++ tailSlots 0 2 },
    { ty := "x.F", ts := 0, xid := none, slots := [("self_", .none), ("type_", .ref 0)] ++ tailSlots 2 3 } ]

def flatCas : Cas :=
  { cas with views := cas.views.map (fun nv => (nv.1, { nv.2 with idx := [("x.F", [{ b := 0, e := 2, oid := 0 }])] })) }

def showDiffs (r : Except Err (List (Int × Option String))) : String :=
  match r with
  | .ok l => s!"ok {l.map (fun (d : Int × Option String) => (d.1, d.2.getD "?"))}"
  | .error e => s!"error {e}"

/-- every feature of `x.Doc` as `self_` and as `type_` -/
def allRuns : List (String × String × Bool × String) :=
  (docRec.own.map (·.name)).flatMap (fun n =>
    ["self_", "type_"].map (fun stored => (n, stored, (run n stored).1, showDiffs (run n stored).2)))

-- 44 runs, each `(feature, stored name, true, "ok []")`:
#eval allRuns
#eval allRuns.all (fun r => r.2.2.1 && r.2.2.2 == "ok []")          -- true
-- (true, ok [], [("self_", true), ("type_", true), ("peer", false)],
--  attributes xmi:id="2" self="7" peer="3" begin="0" end="3" sofa="1", children <type>a b</type><type/><type>c</type>):
#eval (viaCreate.1, showDiffs viaCreate.2.1, viaCreate.2.2.1, viaCreate.2.2.2)
-- the flat instance: (true, true, "ok []")
#eval (rtAppliesB K flatTs [flatCas] 0 flatHp, collAppliesB K flatTs [flatCas] 0 flatHp,
  showDiffs (roundTripDiffs K flatTs [flatCas] 0 flatHp 0 1))

end ResDemo

end Cassis.Xmi
