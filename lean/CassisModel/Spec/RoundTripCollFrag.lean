/-
The fragment of `xmi_roundtrip_coll` (`Properties/C01RoundTripColl.lean`): what a collected structure must look like
for the XMI round trip theorem with collections to apply.

A structure is either
* a *general structure* (`GenFs`): as in the flat fragment (`FlatFs`, `Spec/RoundTrip.lean`), but each feature may also
  be a collection feature.  List nodes (`NonEmpty…List` with `head`/`tail`, `Empty…List`) are general structures: `head`
  is a primitive or a plain reference, `tail` a shared reference;
* an *array object* (`ArrFs`): a structure of one of the nine array types whose only slot is `elements`.

A feature of a general structure (`CollFeat`) is
* flat (`FlatFeat`): primitive, plain reference, the sofa reference;
* shared (`SharedFeat`): `multipleReferencesAllowed = true` and an array or list range — the value is a reference to a
  collection object / list node that is a structure of its own;
* inline (`InlineFeat`): `multipleReferencesAllowed` false or unset and the range one of the eight primitive array
  types, `uima.cas.FSArray`, `uima.cas.FSList`, `uima.cas.IntegerList`, `uima.cas.FloatList`, `uima.cas.StringList`.

The constants `K` and the type system `ts` are arbitrary in the theorem, so every case states how the codec's tests
(`isPrimitiveArray K`, `isArray K`, `isInstanceOf ts · STRING_ARRAY`, …) classify the range (`RangeKind`); for the
generated constants and a type system that contains the built-in types these are all true.

Side conditions beyond well-typedness — each is something XMI cannot express or the reader does not restore; the
counterexamples are evaluated on the model at the end of `Spec/RoundTripCollCheck.lean` (section "counterexamples"):

(S1) the elements of an FSArray (inlined or not) are not null — the writer raises (`cx_fsarray_null`);
(S2) an *inlined* array object has `elements ≠ None` — `elements = None` is written as nothing and the feature comes
     back as `None`, not as an array (`cx_inline_elements_none`); an array *object* of a non-string type may have
     `elements = None` (no `elements` attribute is written then, and the empty array is written as `elements=""`);
(S3) a StringArray *object* has `elements ≠ None` — XMI has no place for the difference between `None` and `[]`
     of a string array written as an element of its own: both are an element without children, read back as `[]`
     (`cx_strarray_obj_none`);
(S4) an inlined StringList is not empty — it is written as no child element at all and comes back as `None`
     (`cx_inline_strlist_empty`);
(S5) float tokens (in arrays and lists) are tokens: non-empty, without white space (`TokOk`) — the attribute is a
     blank-separated list (`cx_float_token_blank`); true for every canonical float token;
(S6) the bytes of a ByteArray are in `0 … 255` — the attribute is a hex string (`cx_byte_range`);
(S7) the heads of an inlined list are of the list's kind and those of an FSList not null — the writer raises on a null
     head (`cx_fslist_null_head`); the spine of an inlined list ends (`collectList` with the budget `|heap| + 1`
     succeeds; Python does not terminate on a cyclic spine).
`RefOk` (the target of a reference carries an id different from 0) is no restriction: the traversal has given every
reachable structure an id, and ids in use are positive (`RTWf.ids_pos`); it is stated like in `FlatFeat`.

No condition speaks about the output of the reader; inlined collection objects may be shared between features (the
content `featContentC` compares inlined collections by their elements).
-/
import CassisModel.Spec.RoundTripColl

namespace Cassis.Xmi
open Cassis.TS Cassis.Traverse

/-- a token of a blank-separated attribute value: non-empty, no white space (the same as `Lex.IsTok`) -/
def TokOk (t : String) : Prop := t.toList ≠ [] ∧ ∀ c ∈ t.toList, Lex.isWs c = false

/-- how the codec's tests classify the range `r`: `isPrimitiveArray`, `isPrimitiveList`, `isArray`, `isList`,
    instance of StringArray, instance of StringList; and `r` is not primitive -/
structure RangeKind (K : Consts) (ts : TypeSystem) (r : String) (pa pl ar li sa sl : Bool) : Prop where
  primArr : isPrimitiveArray K r = pa
  primList : isPrimitiveList K r = pl
  arr : isArray K r = ar
  list : isList K r = li
  strArr : isInstanceOf ts r STRING_ARRAY = sa
  strList : isInstanceOf ts r STRING_LIST = sl
  prim : isPrimitive K ts r = false

def IntArrTy (r : String) : Prop := r = "uima.cas.IntegerArray" ∨ r = "uima.cas.ShortArray" ∨ r = "uima.cas.LongArray"
def FloatArrTy (r : String) : Prop := r = "uima.cas.FloatArray" ∨ r = "uima.cas.DoubleArray"
/-- the primitive array types except StringArray -/
def PrimArrTy (r : String) : Prop :=
  IntArrTy r ∨ r = "uima.cas.ByteArray" ∨ r = "uima.cas.BooleanArray" ∨ FloatArrTy r

/-- the `elements` of a primitive array of type `r` (not StringArray); an empty Python list carries no element kind -/
def PrimElems (r : String) (ev : Val) : Prop :=
  ev = .refs [] ∨
  (IntArrTy r ∧ ∃ l : List Int, ev = .ints l) ∨
  (r = "uima.cas.ByteArray" ∧ ∃ l : List Int, ev = .ints l ∧ ∀ b ∈ l, 0 ≤ b ∧ b < 256) ∨
  (r = "uima.cas.BooleanArray" ∧ ∃ l : List Bool, ev = .bools l) ∨
  (FloatArrTy r ∧ ∃ l : List String, ev = .floats l ∧ ∀ t ∈ l, TokOk t)

/-- the `elements` of a StringArray -/
def StrElems (ev : Val) : Prop := ev = .refs [] ∨ ∃ l : List (Option String), ev = .strs l

/-- the target of a reference carries an id, and not the id 0 of the `cas:NULL` element -/
def RefOk (hp : Heap) (b : Nat) : Prop := (xidOf hp b).isSome = true ∧ xidOf hp b ≠ some 0

/-- the `elements` of an FSArray: no null element (S1) -/
def FsElems (hp : Heap) (ev : Val) : Prop := ∃ l : List Nat, ev = .refs (l.map some) ∧ ∀ b ∈ l, RefOk hp b

/-- the names the codec treats specially are not names of collection features; a collection feature may be one of the
    reserved features `self_` / `type_` (declared as `self` / `type`, `ResOk`) -/
def NameOk (f : Feature) : Prop :=
  ResOk f ∧ f.name ≠ "xmiID" ∧ f.name ≠ "type" ∧ f.name ≠ "self" ∧ f.name ≠ ID ∧ f.name ≠ "sofa"

/-- a shared collection feature: the value is a reference to a structure of its own -/
def SharedFeat (K : Consts) (ts : TypeSystem) (hp : Heap) (o : Obj) (f : Feature) : Prop :=
  f.multi = some true ∧ (isArray K f.range = true ∨ isList K f.range = true) ∧ isPrimitive K ts f.range = false ∧
  f.range ≠ "uima.cas.Boolean" ∧ f.range ≠ "uima.cas.Double" ∧ f.range ≠ "uima.cas.Float" ∧
  ∃ v : Val, alistGet? o.slots f.name = some v ∧ (v = .none ∨ ∃ b : Nat, v = .ref b ∧ RefOk hp b)

/-- an inlined array: the value is an array object with `elements` of the right kind (S2) -/
def InlArr (hp : Heap) (P : Val → Prop) (v : Val) : Prop :=
  v = .none ∨ ∃ (arr : Nat) (ev : Val), v = .ref arr ∧ slot hp arr "elements" = some ev ∧ P ev

/-- an inlined list: the value is the first node of a list whose spine ends and whose heads are of the right kind (S7) -/
def InlList (hp : Heap) (P : List Val → Prop) (v : Val) : Prop :=
  v = .none ∨ ∃ (a : Nat) (hs : List Val), v = .ref a ∧ collectList hp (hp.length + 1) v = .ok hs ∧ P hs

/-- an inlined collection feature -/
def InlineFeat (K : Consts) (ts : TypeSystem) (hp : Heap) (o : Obj) (f : Feature) : Prop :=
  f.multi.getD false = false ∧
  ∃ v : Val, alistGet? o.slots f.name = some v ∧
    ( (PrimArrTy f.range ∧ RangeKind K ts f.range true false true false false false ∧
        InlArr hp (PrimElems f.range) v)
    ∨ (f.range = STRING_ARRAY ∧ RangeKind K ts f.range true false true false true false ∧
        InlArr hp StrElems v)
    ∨ (f.range = FS_ARRAY ∧ RangeKind K ts f.range false false true false false false ∧
        InlArr hp (FsElems hp) v)
    ∨ (f.range = INTEGER_LIST ∧ RangeKind K ts f.range false true false true false false ∧
        InlList hp (fun hs => ∀ h ∈ hs, ∃ i : Int, h = .int i) v)
    ∨ (f.range = FLOAT_LIST ∧ RangeKind K ts f.range false true false true false false ∧
        InlList hp (fun hs => ∀ h ∈ hs, ∃ t : String, h = .float t ∧ TokOk t) v)
    ∨ (f.range = STRING_LIST ∧ RangeKind K ts f.range false true false true false true ∧
        InlList hp (fun hs => hs ≠ [] ∧ ∀ h ∈ hs, h = .none ∨ ∃ s : String, h = .str s) v)   -- (S4)
    ∨ (f.range = FS_LIST ∧ RangeKind K ts f.range false false false true false false ∧
        InlList hp (fun hs => ∀ h ∈ hs, ∃ b : Nat, h = .ref b ∧ RefOk hp b) v) )

/-- one feature of a general structure -/
def CollFeat (K : Consts) (ts : TypeSystem) (c : Cas) (ci : Nat) (hp : Heap) (isAnn : Bool) (o : Obj) (f : Feature) :
    Prop :=
  FlatFeat K ts c ci hp isAnn o f ∨ (NameOk f ∧ (SharedFeat K ts hp o f ∨ InlineFeat K ts hp o f))

/-- a general structure: exactly `FlatFs` with `CollFeat` in place of `FlatFeat` -/
def GenFs (K : Consts) (ts : TypeSystem) (c : Cas) (ci : Nat) (hp : Heap) (a : Nat) : Prop :=
  ∃ (o : Obj) (t : TypeRec), hp[a]? = some o ∧ find? ts o.ty = some t ∧ t.name = o.ty ∧
    isArray K o.ty = false ∧ isList K o.ty = false ∧ t.super ≠ some ARRAY_BASE ∧
    isPrimitiveArray K o.ty = false ∧ o.ty ≠ FS_ARRAY ∧ isInstanceOf ts o.ty STRING_ARRAY = false ∧
    o.ty ≠ SOFA ∧ o.ty ≠ VIEW_T ∧
    (ctorFields t).Nodup ∧
    o.slots.map (·.1) = (ctorFields t).eraseDups ∧
    (∀ f ∈ allFeatures t, CollFeat K ts c ci hp (isInstanceOf ts o.ty ANNOTATION) o f) ∧
    (isInstanceOf ts o.ty ANNOTATION = true →
      ∃ (vn : String) (v : View) (text : List Nat) (b e : Nat),
        alistGet? o.slots "sofa" = some (.sofa ci vn) ∧ Cas.getViewRec c vn = some v ∧ v.sofa.text = some text ∧
        alistGet? o.slots "begin" = some (.int b) ∧ alistGet? o.slots "end" = some (.int e) ∧
        b ≤ text.length ∧ e ≤ text.length)

/-- an array object: a structure of an array type (a child of `uima.cas.ArrayBase`), its only feature and slot is
    `elements` (declared with range `uima.cas.TOP`), holding a list of the right kind -/
def ArrFs (K : Consts) (ts : TypeSystem) (hp : Heap) (a : Nat) : Prop :=
  ∃ (o : Obj) (t : TypeRec) (f : Feature) (ev : Val), hp[a]? = some o ∧ find? ts o.ty = some t ∧ t.name = o.ty ∧
    t.super = some ARRAY_BASE ∧ allFeatures t = [f] ∧ f.name = "elements" ∧ f.range = TOP ∧ f.reserved = false ∧
    o.slots = [("elements", ev)] ∧ isInstanceOf ts o.ty ANNOTATION = false ∧
    ( (o.ty = FS_ARRAY ∧ isPrimitiveArray K FS_ARRAY = false ∧ isInstanceOf ts FS_ARRAY STRING_ARRAY = false ∧
        (ev = .none ∨ FsElems hp ev))
    ∨ (o.ty = STRING_ARRAY ∧ isPrimitiveArray K STRING_ARRAY = true ∧ StrElems ev)                    -- (S3)
    ∨ (PrimArrTy o.ty ∧ isPrimitiveArray K o.ty = true ∧ isInstanceOf ts o.ty STRING_ARRAY = false ∧
        (ev = .none ∨ PrimElems o.ty ev)) )

/-- the fragment with collections -/
def CollFs (K : Consts) (ts : TypeSystem) (c : Cas) (ci : Nat) (hp : Heap) (a : Nat) : Prop :=
  GenFs K ts c ci hp a ∨ ArrFs K ts hp a

end Cassis.Xmi
