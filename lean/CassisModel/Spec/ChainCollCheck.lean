/-
C16 with collections: the conversion chain XMI → CAS → JSON → CAS evaluated on the model, a computable test for the
hypotheses of `chain_xmi_json_coll` (`Properties/C16ChainColl.lean.proposed`), and the two evaluated counterexamples that
force the hypotheses `harr` (array objects carry an element list, (J1) of `Spec/RoundTripJsonCollFrag.lean`) and `htys`
(`CollTypesOk`, `Spec/ChainCollFrag.lean`).

This file imports specification files only.
-/
import CassisModel.Spec.ChainCollFrag
import CassisModel.Spec.RoundTripJsonCollCheck

namespace Cassis.Json
open Cassis.TS Cassis.Traverse Cassis.Xmi

/-- the features of the structures collected by the first writer whose content differs at the end of the chain
    `saveXmi` / `loadXmi` / `saveJson … .none` / `loadJson … false false` (`none`: the structure is missing or of another
    type; `(0, "views")`: the views differ); `.error`: a writer or a reader raised.  The id map of the last reader is
    recomputed with its first two passes. -/
def chainDiffsXJ (K : Consts) (ts : TypeSystem) (cass : List Cas) (ci : Nat) (hp : Heap) (tsIdx : Nat) :
    Except Err (List (Int × Option String)) := do
  let (doc, st) ← saveXmi K ts cass ci hp
  let ld1 ← loadXmi K ts tsIdx cass.length false st.heap doc
  let (docj, st2) ← saveJson K ts (cass ++ [ld1.cas]) cass.length ld1.heap .none
  let s1 ← sofaPass K ts tsIdx (cass.length + 1) docj.fss docj.fss { cas := Cas.empty, heap := st2.heap }
  let s ← fsPass K ts tsIdx docj.fss s1
  let ld ← loadJson K ts tsIdx (cass.length + 1) false false st2.heap docj
  let c ← match cass[ci]? with | some c => pure c | none => throw .keyError
  let viewsOk := decide (ld.cas.views.map (viewContent ld.heap) = c.views.map (viewContent st.heap))
  let ds := st.allFs.flatMap (fun q =>
    match lookup s.fss q.1, st.heap[q.2]? with
    | some (.ref a'), some o =>
      match ld.heap[a']?, find? ts o.ty with
      | some o', some t =>
        if o'.ty == o.ty && o'.xid == some q.1 then
          (allFeatures t).filterMap (fun f =>
            if CVal.beq (featContentC K ld.heap a' f) (featContentC K st.heap q.2 f) then none else some (q.1, some f.name))
        else [(q.1, none)]
      | _, _ => [(q.1, none)]
    | _, _ => [(q.1, none)])
  pure (if viewsOk then ds else (0, some "views") :: ds)

/-- hypothesis `hsr`: a feature named `sofa` that holds a value has a range the JSON writer takes for a reference -/
def sofaRangeB (K : Consts) (ts : TypeSystem) (hp : Heap) (a : Nat) : Bool :=
  match hp[a]? with
  | none => true
  | some o =>
    match find? ts o.ty with
    | none => true
    | some t =>
      (allFeatures t).all (fun f => decide (f.name ≠ "sofa") ||
        decide ((alistGet? o.slots f.name).getD .none = .none) ||
        (decide (f.range ≠ "uima.cas.Double") && decide (f.range ≠ "uima.cas.Float") && !isPrimitive K ts f.range))

/-- hypothesis `harr` (`ArrElemsSome`) -/
def arrElemsSomeB (hp : Heap) (a : Nat) : Bool :=
  match hp[a]? with
  | none => true
  | some o => decide (o.slots ≠ [("elements", Val.none)])

/-- the hypotheses of `chain_xmi_json_coll` without `harr` and `htys` (those of the statement as first given) -/
def chainBaseB (K : Consts) (ts : TypeSystem) (cass : List Cas) (ci : Nat) (hp : Heap) : Bool :=
  collAppliesB K ts cass ci hp &&
  match saveXmi K ts cass ci hp with
  | .error _ => false
  | .ok (_, st) => st.allFs.all (fun q => jsonOkB ts st.heap q.2 && sofaRangeB K ts st.heap q.2)

/-- every hypothesis of `chain_xmi_json_coll` holds for the CAS `cass[ci]` over the heap `hp` -/
def chainCollAppliesB (K : Consts) (ts : TypeSystem) (cass : List Cas) (ci : Nat) (hp : Heap) : Bool :=
  chainBaseB K ts cass ci hp && collTypesOkB K ts &&
  match saveXmi K ts cass ci hp with
  | .error _ => false
  | .ok (_, st) => st.allFs.all (fun q => arrElemsSomeB st.heap q.2)

/-! ### the converse chain JSON → CAS → XMI → CAS -/

/-- the features of the structures the XMI writer collects from the CAS written first (`stx`) whose content differs at
    the end of the chain `saveJson … .none` / `loadJson … false false` / `saveXmi` / `loadXmi`; the two numbers are the
    numbers of structures collected by the JSON writer and by the XMI writer -/
def chainDiffsJX (K : Consts) (ts : TypeSystem) (cass : List Cas) (ci : Nat) (hp : Heap) (tsIdx : Nat) :
    Except Err (List (Int × Option String) × Nat × Nat) := do
  let (docj, st) ← saveJson K ts cass ci hp .none
  let ld1 ← loadJson K ts tsIdx cass.length false false st.heap docj
  let (docx, st2) ← saveXmi K ts (cass ++ [ld1.cas]) cass.length ld1.heap
  let p2 ← pass1 K ts tsIdx false docx { heap := st2.heap }
  let ld ← loadXmi K ts tsIdx (cass.length + 1) false st2.heap docx
  let c ← match cass[ci]? with | some c => pure c | none => throw .keyError
  let stx ← findAllFs K ts {} st.heap c.nextXid (defaultSeeds c)
  let viewsOk := decide (ld.cas.views.map (viewContent ld.heap) = c.views.map (viewContent st.heap))
  let ds := stx.allFs.flatMap (fun q =>
    match lookupFs p2.fss q.1, st.heap[q.2]? with
    | .ok a', some o =>
      match ld.heap[a']?, find? ts o.ty with
      | some o', some t =>
        if o'.ty == o.ty && o'.xid == some q.1 then
          (allFeatures t).filterMap (fun f =>
            if CVal.beq (featContentC K ld.heap a' f) (featContentC K st.heap q.2 f) then none else some (q.1, some f.name))
        else [(q.1, none)]
      | _, _ => [(q.1, none)]
    | _, _ => [(q.1, none)])
  pure (if viewsOk then ds else (0, some "views") :: ds, st.allFs.length, stx.allFs.length)

/-- every hypothesis of `chain_json_xmi_coll` holds for the CAS `cass[ci]` over the heap `hp` -/
def chainJXAppliesB (K : Consts) (ts : TypeSystem) (cass : List Cas) (ci : Nat) (hp : Heap) : Bool :=
  match cass[ci]? with
  | none => false
  | some c =>
    match saveJson K ts cass ci hp .none with
    | .error _ => false
    | .ok (_, st) =>
      rtWfB c hp && nullOkB ts &&
      st.allFs.all (fun q => collFsB K ts c ci st.heap q.2 && jsonOkB ts st.heap q.2 && arrElemsSomeB st.heap q.2) &&
      memberIdsB c hp && disjointB st.allFs c && memSofaB c st.heap && membersOkB c st.heap &&
      match findAllFs K ts {} st.heap c.nextXid (defaultSeeds c) with
      | .ok _ => true
      | .error _ => false

/-! ## The instance `CollDemo` and its variations -/

namespace ChainDemo
open Cassis.Xmi.CollDemo Cassis.Xmi.ResDemo

/-- `run ts h` = (the hypotheses of the statement as first given, all hypotheses, the differences at the end of the
    chain) on the demo CAS over the heap `h` with the type system `ts` -/
def run (ts' : TypeSystem) (h : Heap) : Bool × Bool × String :=
  (chainBaseB K ts' [cas] 0 h, chainCollAppliesB K ts' [cas] 0 h, showDiffs (chainDiffsXJ K ts' [cas] 0 h 0))

/-- the instance itself: `(true, true, "ok []")` -/
def ok_demo := run ts hp

/-- **counterexample for `harr`**: a shared IntegerArray / FSArray object with `elements = None`.  The XMI reader
    restores `None`, the JSON writer omits `%ELEMENTS`, the JSON reader makes `[]` of that: the content of the feature
    `elements` of the array object (id 5 / 4) is `.none` at the start and `.elems []` at the end.
    `(true, false, "ok [(5, elements)]")`, `(true, false, "ok [(4, elements)]")` -/
def cx_obj_elements_none := run ts (hp.set 24 (arr "uima.cas.IntegerArray" .none))
def cx_obj_elements_none_fs := run ts (hp.set 23 (arr "uima.cas.FSArray" .none))

/-- the demo type system without the type `n` -/
def tsWithout (n : String) : TypeSystem := { ts with types := ts.types.filter (fun t => t.name != n) }

/-- the demo heap without the shared lists (they are structures of the node types) -/
def hpNoSharedLists : Heap := setSlot0 (setSlot0 (setSlot0 hp "mfl" .none) "mil" .none) "msl" .none

/-- **counterexample for `htys`**: a type system without one of the list-node types; the inlined lists of the CAS are
    not structures of their own in XMI, the reader makes their nodes by name, the JSON writer looks the type up.
    `(true, false, "error TypeNotFoundError")` each; with the full type system `(true, true, "ok []")` -/
def cx_missing_node_type := run (tsWithout "uima.cas.NonEmptyIntegerList") hpNoSharedLists
def cx_missing_empty_node_type := run (tsWithout "uima.cas.EmptyFSList") hpNoSharedLists
def ok_no_shared_lists := run ts hpNoSharedLists

/-- null and `""` inside string arrays and lists, inlined and shared (XMI identifies them, `featContentC` as well);
    empty arrays of every representation; empty inlined lists; an inlined array shared by two features or inlined and
    shared at once: `(true, true, "ok []")` each -/
def ok_variations : List (Bool × Bool × String) :=
  [ run ts (hp.set 9 (arr "uima.cas.StringArray" (.strs [none, some "", none]))),
    run ts (hp.set 9 (arr "uima.cas.StringArray" (.refs []))),
    run ts (hp.set 25 (arr "uima.cas.StringArray" (.strs [none, some ""]))),
    run ts (hp.set 25 (arr "uima.cas.StringArray" (.refs []))),
    run ts (hp.set 25 (arr "uima.cas.StringArray" (.strs []))),
    run ts (hp.set 24 (arr "uima.cas.IntegerArray" (.refs []))),
    run ts (hp.set 24 (arr "uima.cas.IntegerArray" (.ints []))),
    run ts (hp.set 2 (arr "uima.cas.IntegerArray" (.refs []))),
    run ts (setSlot0 (setSlot0 (setSlot0 hp "il" (.ref 15)) "fsl" (.ref 12)) "fl" (.ref 19)),
    run ts (setSlot0 hp "sha" (.ref 2)),
    run ts (setSlot0 hp "mia" (.ref 2)),
    run ts (hp.set 22 (node "uima.cas.NonEmptyStringList" .none (.ref 20))),
    run ts (hp.set 31 (node "uima.cas.NonEmptyStringList" .none (.ref 30))),
    run ts (hp.set 31 (node "uima.cas.NonEmptyStringList" (.str "") (.ref 30))) ]

/-- the converse chain on the demo CAS over the heap `h`: (`chainJXAppliesB`, differences, structures collected by the
    JSON writer, by the XMI writer) -/
def runJX (h : Heap) : Bool × String :=
  (chainJXAppliesB K ts [cas] 0 h, match chainDiffsJX K ts [cas] 0 h 0 with
    | .ok (l, a, b) => s!"ok {l.map (fun (d : Int × Option String) => (d.1, d.2.getD "?"))} {a} {b}"
    | .error e => s!"error {e}")

/-- the instance itself: `(true, "ok [] 32 11")` — 32 structures in the JSON document, 11 of them in the XMI document -/
def okjx_demo := runJX hp

/-- variations (null and `""`, empty arrays and lists, inlined arrays shared): `(true, "ok [] …")` each -/
def okjx_variations : List (Bool × String) :=
  [ runJX (hp.set 9 (arr "uima.cas.StringArray" (.strs [none, some "", none]))),
    runJX (hp.set 25 (arr "uima.cas.StringArray" (.strs [none, some ""]))),
    runJX (hp.set 24 (arr "uima.cas.IntegerArray" (.refs []))),
    runJX (hp.set 2 (arr "uima.cas.IntegerArray" (.refs []))),
    runJX (setSlot0 (setSlot0 (setSlot0 hp "il" (.ref 15)) "fsl" (.ref 12)) "fl" (.ref 19)),
    runJX (setSlot0 hp "sha" (.ref 2)),
    runJX (setSlot0 hp "mia" (.ref 2)),
    runJX (hp.set 22 (node "uima.cas.NonEmptyStringList" .none (.ref 20))),
    runJX (hp.set 31 (node "uima.cas.NonEmptyStringList" (.str "") (.ref 30))) ]

/-- (J1) is needed in this direction as well (it is a hypothesis of the JSON round trip): a shared IntegerArray object
    with `elements = None` — `(false, "ok [(19, elements)] 32 11")` -/
def cxjx_obj_elements_none := runJX (hp.set 24 (arr "uima.cas.IntegerArray" .none))

-- (true, true, "ok []"):
#eval ok_demo
-- (true, false, "ok [(5, elements)]"), (true, false, "ok [(4, elements)]"):
#eval (cx_obj_elements_none, cx_obj_elements_none_fs)
-- (true, false, "error TypeNotFoundError") twice, (true, true, "ok []"):
#eval (cx_missing_node_type, cx_missing_empty_node_type, ok_no_shared_lists)
-- true:
#eval ok_variations.all (fun r => r.1 && r.2.1 && r.2.2 == "ok []")
-- (true, "ok [] 32 11"), true, (false, "ok [(19, elements)] 32 11"):
#eval (okjx_demo, okjx_variations.all (fun r => r.1 && r.2.startsWith "ok [] "), cxjx_obj_elements_none)

end ChainDemo

end Cassis.Json
