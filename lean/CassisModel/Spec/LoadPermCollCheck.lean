/-
Element-order independence of the XMI reader on the whole format (`Properties/C05PermColl.lean`): the conclusion of the
theorem as a computable test, evaluated on the instance `CollDemo` (`Spec/RoundTripCollCheck.lean`: every collection
kind, inlined and shared) and on a two-view variant of it, for several layouts of the written document.

`permDiffs … π` writes the CAS, rearranges the document by `π`, loads it and compares — through the id table of the first
pass — every collected structure (type, id, deep content `featContentC` of every feature) and the views with the
ORIGINAL; `canonDump` is an id-keyed canonical dump of a loaded CAS (used to compare two loads with each other).
-/
import CassisModel.Spec.RoundTripCollCheck

namespace Cassis.Xmi
open Cassis.TS Cassis.Traverse

/-- the conclusion of `xmi_load_perm_coll` as a test: the list of differences (empty = none); `(0, some "views")`: the
    views differ as a multiset or the initial view is not first; `(0, some "ids")`: the id table differs as a set;
    `(0, some "gen")`: a generator was not reseeded -/
def permDiffs (K : Consts) (ts : TypeSystem) (cass : List Cas) (ci : Nat) (hp : Heap) (tsIdx ci' : Nat)
    (π : XDoc → XDoc) : Except Err (List (Int × Option String)) := do
  let (doc, st) ← saveXmi K ts cass ci hp
  let doc' := π doc
  let p ← pass1 K ts tsIdx false doc' { heap := st.heap }
  let ld ← loadXmi K ts tsIdx ci' false st.heap doc'
  let c ← match cass[ci]? with | some c => pure c | none => throw .keyError
  let vs' := ld.cas.views.map (viewContent ld.heap)
  let vs := c.views.map (viewContent st.heap)
  let viewsOk := decide (vs'.Perm vs) && decide ((ld.cas.views.head?).map (·.1) = some Cas.INITIAL_VIEW)
  let idsOk := decide ((p.fss.map (·.1)).Perm (0 :: (sortById st.allFs).map (·.1)))
  let genOk := st.allFs.all (fun q => decide (q.1 < ld.cas.nextXid)) &&
    c.views.all (fun nv => decide (nv.2.sofa.xid < ld.cas.nextXid) && decide (nv.2.sofa.sofaNum < ld.cas.nextSofaNum))
  let ds := st.allFs.flatMap (fun q =>
    match lookupFs p.fss q.1, st.heap[q.2]? with
    | .ok a', some o =>
      match ld.heap[a']?, find? ts o.ty with
      | some o', some t =>
        if o'.ty == o.ty && o'.xid == some q.1 then
          (allFeatures t).filterMap (fun f =>
            if CVal.beq (featContentC K ld.heap a' f) (featContentC K st.heap q.2 f) then none else some (q.1, some f.name))
        else [(q.1, none)]
      | _, _ => [(q.1, none)]
    | _, _ => [(q.1, none)])
  pure ((if viewsOk then [] else [(0, some "views")]) ++ (if idsOk then [] else [(0, some "ids")]) ++
    (if genOk then [] else [(0, some "gen")]) ++ ds)

/-- id-keyed canonical dump of the CAS loaded from `π doc`: per id (ascending) the type and the deep content of every
    feature, the view contents sorted by name, the generators -/
def canonDump (K : Consts) (ts : TypeSystem) (cass : List Cas) (ci : Nat) (hp : Heap) (tsIdx ci' : Nat)
    (π : XDoc → XDoc) : Except Err String := do
  let (doc, st) ← saveXmi K ts cass ci hp
  let doc' := π doc
  let p ← pass1 K ts tsIdx false doc' { heap := st.heap }
  let ld ← loadXmi K ts tsIdx ci' false st.heap doc'
  let rows := (sortById p.fss).map (fun q =>
    match ld.heap[q.2]? with
    | some o =>
      let fs := match find? ts o.ty with | some t => allFeatures t | none => []
      s!"{q.1}:{o.ty}:{repr o.xid}:" ++
        String.intercalate ";" (fs.map (fun f => f.name ++ "=" ++ toString (repr (featContentC K ld.heap q.2 f))))
    | none => s!"{q.1}:?")
  let vs := (ld.cas.views.map (viewContent ld.heap)).map (fun v => toString (repr v))
  pure (String.intercalate "\n" rows ++ "\nVIEWS(sorted) " ++ String.intercalate "|" (vs.toArray.qsort (· < ·)).toList ++
    s!"\nFIRST {(ld.cas.views.head?).map (·.1)} GEN {ld.cas.nextXid} {ld.cas.nextSofaNum}")

namespace PermDemo
open CollDemo

def rot (n : Nat) (d : XDoc) : XDoc := d.drop n ++ d.take n
/-- views, then sofas, then the rest -/
def viewsFirst (d : XDoc) : XDoc :=
  d.filter (·.ty == VIEW_T) ++ d.filter (·.ty == SOFA) ++ d.filter (fun e => e.ty != VIEW_T && e.ty != SOFA)
def nullLast (d : XDoc) : XDoc := d.filter (·.ty != NULL_T) ++ d.filter (·.ty == NULL_T)
/-- the structure elements in descending id order, the rest as it was -/
def swapFs (d : XDoc) : XDoc :=
  match d with
  | n :: rest =>
    let fs := rest.filter (fun e => e.ty != VIEW_T && e.ty != SOFA)
    n :: fs.reverse ++ rest.filter (fun e => e.ty == VIEW_T || e.ty == SOFA)
  | [] => []

def layouts : List (String × (XDoc → XDoc)) :=
  [("id", id), ("reverse", List.reverse), ("rot1", rot 1), ("rot2", rot 2), ("rot3", rot 3), ("rot5", rot 5),
   ("rot9", rot 9), ("viewsFirst", viewsFirst), ("nullLast", nullLast), ("swapFs", swapFs),
   ("viewsFirst.reverse", viewsFirst ∘ List.reverse), ("nullLast.swapFs", nullLast ∘ swapFs)]

/-- a second view over another text; the second `x.Doc` structure is indexed there -/
def cas2 : Cas :=
  { views := cas.views ++ [("v2",
      { sofa := { sofaID := "v2", sofaNum := 2, xid := 40, text := some [120, 121, 122, 120],
                  mime := none, uri := none, arr := .none, conv := some (Offsets.table [120, 121, 122, 120]) },
        idx := [("x.Doc", [{ b := 2, e := 3, oid := 1 }])] })],
    nextXid := 41, nextSofaNum := 3 }

/-- the demo heap with the second structure pointing to the sofa of the second view -/
def hp2 : Heap :=
  CollDemo.hp.set 1 { ty := "x.Doc", ts := 0, xid := none, slots :=
    [("n", .none), ("next", .ref 0)] ++ noColl ++ [("begin", .int 2), ("end", .int 3), ("sofa", .sofa 0 "v2")] }

def showDiffs (r : Except Err (List (Int × Option String))) : String :=
  match r with
  | .ok [] => "ok []"
  | .ok l => "ok " ++ toString (l.map (fun p => (p.1, p.2.getD "-")))
  | .error e => "error " ++ toString (repr e)

/-- (layout, is a permutation of the written document, differences to the original, same canonical dump as the
    unpermuted load) -/
def runs (cass : List Cas) (h : Heap) : List (String × Bool × String × Bool) :=
  let base := canonDump K ts cass 0 h 0 1 id
  layouts.map (fun (n, π) =>
    let isPerm := match saveXmi K ts cass 0 h with
      | .ok (doc, _) => decide ((π doc).Perm doc)
      | .error _ => false
    let same := match base, canonDump K ts cass 0 h 0 1 π with
      | .ok a, .ok b => a == b
      | _, _ => false
    (n, isPerm, showDiffs (permDiffs K ts cass 0 h 0 1 π), same))

/-! Evaluated results (re-evaluate by uncommenting the `#eval`s that are commented out).

One view (`CollDemo`): the document has 14 elements — `cas:NULL`, the two `x.Doc` structures (ids 2, 3), the shared
FSArray / IntegerArray / StringArray objects (4–6), the heads of the shared FSList / IntegerList / StringList (7–9), their
end nodes (10–12), the sofa (1), the view.  `runs` gives for every layout `(name, true, "ok []", true)`: the layout is a
permutation, nothing differs from the original, the id-keyed dump equals the dump of the unpermuted load. -/
-- #eval (saveXmi K ts [cas] 0 CollDemo.hp).toOption.map (fun r => r.1.map (fun e => (e.ty, attr e ID)))
#eval runs [cas] CollDemo.hp
#eval (runs [cas] CollDemo.hp).all (fun r => r.2.1 && r.2.2.1 == "ok []" && r.2.2.2)       -- true
-- two views (the second `x.Doc` structure, only referenced in `CollDemo`, is indexed in the second view here); the
-- hypotheses of the theorem hold on this instance as well
#eval collAppliesB K ts [cas2] 0 hp2                                                        -- true
#eval runs [cas2] hp2
#eval (runs [cas2] hp2).all (fun r => r.2.1 && r.2.2.1 == "ok []" && r.2.2.2)              -- true
-- #eval canonDump K ts [cas2] 0 hp2 0 1 List.reverse

end PermDemo

end Cassis.Xmi
