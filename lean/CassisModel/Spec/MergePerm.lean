/-
Specification-side definitions for order independence of `merge_typesystems` (C13).
-/
import CassisModel.Model.Merge
import CassisModel.Spec.MergeSelf

namespace Cassis.TS

/-- what C13 compares across argument orders: the types, their supertypes (hence children) and effective features
    (as `Feature.__eq__` compares features).  The *description of a type* is that of whichever declaration is processed
    first and is not promised to be order independent (the property does not mention it). -/
def SameHier (ts ts' : TypeSystem) : Prop :=
  ∀ n, match find? ts n, find? ts' n with
    | some t, some t' => t'.super = t.super ∧ t'.children.Perm t.children ∧
        ((allFeatures t').map featKey).Perm ((allFeatures t).map featKey)
    | none, none => True
    | _, _ => False

/-- every name is declared with one and the same supertype throughout: nothing competes for a supertype -/
def OneSuper (decls : List Decl) : Prop :=
  ∀ d ∈ decls, ∀ d' ∈ decls, d.name = d'.name → d.super = d'.super

/-- the declarations are those of user types of well-formed inputs: qualified, not predefined names; every feature
    carries the name of its declaring type as domain-independent data only (the merge overwrites `domain`) -/
def UserDecls (K : Consts) (decls : List Decl) : Prop :=
  ∀ d ∈ decls, K.predefined.contains d.name = false ∧ d.name.contains '.' = true

end Cassis.TS
