/-
Specification-side definitions for `typecheck`: which elements of which FSArray-valued features offend.
-/
import CassisModel.Model.Traverse
import CassisModel.Spec.TypeSystem

namespace Cassis.Traverse
open Cassis.TS

/-- the features `typecheck` looks at -/
def fsArrayFeatures (t : TypeRec) : List Feature := (allFeatures t).filter (fun f => f.range == FS_ARRAY)

/-- the element list of the FSArray held by feature `f` of the structure at `a` (empty when the feature is
    unset or the array has no element list) -/
def elementsOf (hp : Heap) (a : Nat) (f : Feature) : List (Option Nat) :=
  match slot hp a f.name with
  | some (.ref arr) =>
    match slot hp arr "elements" with
    | some (.refs l) => l
    | _ => []
  | _ => []

/-- the non-null elements whose type is not the declared element type or a subtype of it -/
def offending (ts : TypeSystem) (hp : Heap) (elemTy : String) (l : List (Option Nat)) : List Nat :=
  l.filterMap (fun r => match r with
    | none => none
    | some ea => match hp[ea]? with
      | none => none
      | some eo => if subsumes ts elemTy eo.ty then none else some ea)

/-- the errors `typecheck` must report for the structure at `a`: one per offending element, each carrying
    the owner's xmi:id -/
def expectedErrors (ts : TypeSystem) (hp : Heap) (a : Nat) (ob : Obj) (t : TypeRec) : List (Option Int) :=
  (fsArrayFeatures t).flatMap (fun f => (offending ts hp (f.elem.getD TOP) (elementsOf hp a f)).map (fun _ => ob.xid))

/-- well-formedness of the FSArray-valued features of the structure at `a` (what a type-directed client
    produces): the type is registered, each such feature is unset or holds a structure, and every non-null
    element is a structure of a registered type (registered under its exact name) -/
structure WfArrays (ts : TypeSystem) (hp : Heap) (a : Nat) : Prop where
  obj : ∃ ob t, hp[a]? = some ob ∧ getType ts ob.ty = .ok t ∧
    ∀ f ∈ fsArrayFeatures t,
      (slot hp a f.name = some .none ∨ ∃ arr, slot hp a f.name = some (.ref arr)) ∧
      ∀ ea, some ea ∈ elementsOf hp a f → ∃ eo et, hp[ea]? = some eo ∧ find? ts eo.ty = some et

end Cassis.Traverse
