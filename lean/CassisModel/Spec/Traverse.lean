/-
Specification-side definitions for the traversal: finiteness of inline list spines.
-/
import CassisModel.Model.Traverse
import CassisModel.Gen.Builtins

namespace Cassis.Traverse

/-- number of list nodes (objects with a `head` slot) on the `tail` chain starting at `v`;
    `none` = more than `fuel` nodes, i.e. (for `fuel > |heap|`) a cyclic spine -/
def spineLen (hp : Heap) : Nat → Val → Option Nat
  | 0, _ => none
  | f+1, .ref a =>
    match slot hp a "head" with
    | none => some 0
    | some _ =>
      match spineLen hp f ((slot hp a "tail").getD .none) with
      | none => none
      | some n => some (n + 1)
  | _, _ => some 0

/-- every `tail` chain of the heap ends (a cyclic spine is not a list; the code, like UIMA, diverges on it) -/
def FiniteSpines (hp : Heap) : Prop := ∀ v, spineLen hp (hp.length + 1) v ≠ none

end Cassis.Traverse
