/-
Specification-side definitions that are specific to the JSON round trip (C02) on the flat fragment
(`Spec/RoundTrip.lean` holds the fragment itself and is shared with the XMI round trip).

The JSON format reserves three key prefixes inside a feature structure (`@` reference, `#` special float, `%` keyword)
and reads a type name that ends in `[]` as the shorthand of an array type; the writer decides by the *declaring type*
of `begin`/`end` whether an offset is mapped, the reader by the type of the structure.  A type system built for UIMA
(identifiers; `begin`/`end` declared by `uima.tcas.Annotation` only) satisfies all of it; the model's `TypeSystem` is
an arbitrary record, hence the explicit condition.
-/
import CassisModel.Spec.RoundTrip
import CassisModel.Model.Json

namespace Cassis.Json
open Cassis.TS Cassis.Traverse

/-- the names and declarations of the type of the structure at `a` can be carried by the JSON format -/
def JsonFs (ts : TypeSystem) (hp : Heap) (a : Nat) : Prop :=
  ∀ (o : Obj) (t : TypeRec), hp[a]? = some o → find? ts o.ty = some t →
    o.ty.endsWith "[]" = false ∧
    ∀ f ∈ allFeatures t,
      f.name.startsWith "@" = false ∧ f.name.startsWith "#" = false ∧ f.name.startsWith "%" = false ∧
      ((f.name = "begin" ∨ f.name = "end") → (f.domain == ANNOTATION) = isInstanceOf ts o.ty ANNOTATION)

end Cassis.Json
