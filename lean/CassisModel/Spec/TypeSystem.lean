/-
Specification-side definitions for the type system: the ancestor relation read off the `super`
fields, the tree invariant `Consistent`, API histories, and the replay of the built-in creation script.
Written independently of the query algorithms of `Model/TypeSystem.lean`.
-/
import CassisModel.Model.TypeSystem
import CassisModel.Gen.Builtins

namespace Cassis.TS

/-- `Anc ts a b`: `a` is `b` or a (transitive) supertype of `b`, read off the `super` fields only -/
inductive Anc (ts : TypeSystem) : String → String → Prop where
  | refl (a : String) : hasExact ts a = true → Anc ts a a
  | step (a b s : String) (tb : TypeRec) : find? ts b = some tb → tb.super = some s → Anc ts a s → Anc ts a b

structure Consistent (ts : TypeSystem) : Prop where
  nodup : (ts.types.map (·.name)).Nodup
  topRoot : ∃ t, find? ts TOP = some t ∧ t.super = none
  onlyRoot : ∀ t ∈ ts.types, t.super = none → t.name = TOP
  superReg : ∀ t ∈ ts.types, ∀ s, t.super = some s → hasExact ts s = true
  link : ∀ a b, (∃ ta, find? ts a = some ta ∧ b ∈ ta.children) ↔ (∃ tb, find? ts b = some tb ∧ tb.super = some a)
  childNodup : ∀ t ∈ ts.types, t.children.Nodup
  topo : ∀ i (h : i < ts.types.length), ∀ s, (ts.types[i]).super = some s →
           ∃ j, j < i ∧ ∃ (hj : j < ts.types.length), (ts.types[j]).name = s

/-- histories of type-system construction through the API -/
inductive TsOp where
  | createType (name sup : String) (descr : Option String)
  | createFeature (dom name range : String) (elem descr : Option String) (multi : Option Bool)

/-- one API call; a call that raises leaves the type system as it was.  Re-creating an existing
    (predefined) name is excluded: that is finding T3, outside the claim. -/
def applyOp (K : Consts) (ts : TypeSystem) : TsOp → TypeSystem
  | .createType n s d =>
    if hasExact ts n then ts
    else match createType K ts n s d with
      | .ok ts' => ts'
      | .error _ => ts
  | .createFeature dom n r e d m =>
    match createFeature ts dom n r e d m with
    | .ok ts' => ts'
    | .error _ => ts


end Cassis.TS

namespace Cassis.Gen
open Cassis.TS

/-- the state `TypeSystem.__init__` starts from: only `uima.cas.TOP`, assigned directly -/
def initTS : TypeSystem := { types := [{ name := TOP, super := none }] }

def replayStep (K : Consts) (ts : Option TypeSystem) (s : Step) : Option TypeSystem :=
  match ts with
  | none => none
  | some ts =>
    match s with
    | .ty n sup => (createType K ts n sup none).toOption
    | .ft dom n r e m => (createFeature ts dom n r e none m).toOption

/-- run the creation script through the model's `createType` / `createFeature` -/
def replay (K : Consts) (script : List Step) : Option TypeSystem := script.foldl (replayStep K) (some initTS)

end Cassis.Gen
