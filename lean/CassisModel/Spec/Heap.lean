/-
Specification-side definitions for feature paths.
-/
import CassisModel.Model.Heap

namespace Cassis.Heap

/-- following the named features one by one, with no early exit (the specification) -/
def follow (RA : List String) (ext : Val → String → Val) (h : Heap) (start : Val) (parts : List String) : Val :=
  parts.foldl (stepGet RA ext h) start

end Cassis.Heap
