/-
Evaluated tests for `Properties/C20IsoJsonColl.lean` (`render_json_roundtrip_coll`: `cas_to_comparable_text` across the JSON
round trip, whole format), and a computable test for its hypotheses.

* `distinctDefB`: `Distinct` on what the *default* traversal of the original collects (`cas_to_comparable_text` traverses
  with the default options; the JSON writer with `include_inlinable_arrays_and_lists=True`, collecting more);
* `renderJsonCollAppliesB`: all hypotheses of `render_json_roundtrip_coll` (sound: `Proofs/ComparableIsoJsonCollChk.lean`);
* the candidate statement evaluated on the instance `CollDemo` and on variations of it — every variation on which the
  hypotheses of `json_roundtrip_coll` and `Distinct` hold keeps its comparable text; no further hypothesis was found
  necessary.  In particular the instances on which the XMI round trip changes the text (`""` in string arrays, an inlined
  list that is also shared, an inlined "array" that is no array object, …) keep it under JSON.
-/
import CassisModel.Spec.ComparableIsoCollCheck
import CassisModel.Spec.RoundTripJsonCollCheck

namespace Cassis.Comparable
open Cassis.TS Cassis.Traverse

/-- `Distinct` on what the default traversal of `cass[ci]` over `hp` collects (`false` if that traversal fails) -/
def distinctDefB (K : Consts) (ts : TypeSystem) (cass : List Cas) (ci : Nat) (hp : Heap) : Bool :=
  match cass[ci]? with
  | none => false
  | some c =>
    match findAllFs K ts {} hp c.nextXid (defaultSeeds c) with
    | .error _ => false
    | .ok st => distinctB st.heap (st.allFs.map (·.2))

/-- every hypothesis of `render_json_roundtrip_coll` holds for the CAS `cass[ci]` over the heap `hp` -/
def renderJsonCollAppliesB (K : Consts) (ts : TypeSystem) (cass : List Cas) (ci : Nat) (hp : Heap) : Bool :=
  Json.jcollAppliesB K ts cass ci hp && distinctDefB K ts cass ci hp

end Cassis.Comparable

namespace Cassis.Comparable.IsoJsonCollCheck
open Cassis.TS Cassis.Traverse Cassis.Xmi Cassis.Xmi.CollDemo Cassis.Comparable.IsoCollCheck

structure OutcomeJ where
  jcollApplies : Bool       -- the hypotheses of `json_roundtrip_coll`
  distinct : Bool           -- `Distinct` on the default traversal of the original
  collected : Nat × Nat × Nat  -- number of structures: JSON writer / default traversal of the original / of the loaded CAS
  same : Bool               -- the two comparable texts agree (same table or same exception)
  ok : Bool                 -- … and are tables
  diff : List String        -- the cells that differ (written / loaded)
deriving Repr, BEq

def outcomeJ (K : Consts) (ts : TypeSystem) (c : Cas) (h : Heap) : Except Err OutcomeJ := do
  let (doc, st) ← Json.saveJson K ts [c] 0 h .none
  let ld ← Json.loadJson K ts 0 1 false false st.heap doc
  let r0 := render K ts [c] 0 h {} (fun _ => 0) none
  let r0' := render K ts [c, ld.cas] 1 ld.heap {} (fun a => a) none
  let r : Except Err (List Section) := r0.map (·.1)
  let r' : Except Err (List Section) := r0'.map (·.1)
  let n (x : Except Err (List Section × St)) : Nat := match x with | .ok p => p.2.allFs.length | .error _ => 0
  pure { jcollApplies := Json.jcollAppliesB K ts [c] 0 h,
         distinct := distinctDefB K ts [c] 0 h,
         collected := (st.allFs.length, n r0, n r0'),
         same := exBeq secsBeq r r',
         ok := match r, r' with | .ok _, .ok _ => true | _, _ => false,
         diff := match r, r' with
           | .ok a, .ok b => diffSecs a b
           | .error e, .ok _ => ["written: " ++ reprStr e]
           | .ok _, .error e => ["loaded: " ++ reprStr e]
           | .error e, .error e' => if e == e' then [] else ["written: " ++ reprStr e ++ " / loaded: " ++ reprStr e'] }

def good' (r : Except Err OutcomeJ) : Bool :=
  match r with | .ok x => x.jcollApplies && x.distinct && x.same | .error _ => false

/-- hypotheses hold and the text changes: a counterexample to the candidate statement (none found) -/
def bad (r : Except Err OutcomeJ) : Bool :=
  match r with | .ok x => x.jcollApplies && x.distinct && !x.same | .error _ => false

/-! ### the instance: every collection kind, inlined and shared.  The JSON writer collects 32 structures, the default
traversal 11, on both sides. -/

def okj_demo := outcomeJ K ts cas hp
#eval okj_demo
#guard okj_demo matches .ok { jcollApplies := true, distinct := true, collected := (32, 11, 11), same := true, ok := true, diff := [] }
#guard renderJsonCollAppliesB K ts [cas] 0 hp

/-- the instance with what the XMI fragment excludes: null elements in the inlined and in the shared FSArray, an empty
    inlined StringList, `""` in the inlined StringArray (already in `CollDemo.hp`) -/
def rich : Heap :=
  setSlot0 ((hp.set 11 (arr "uima.cas.FSArray" (.refs [some 1, none, some 0]))).set 23
    (arr "uima.cas.FSArray" (.refs [none, some 1, none]))) "sl" (.ref 20)

def okj_rich := outcomeJ K ts cas rich
#guard okj_rich matches .ok { jcollApplies := true, distinct := true, collected := (30, 11, 11), same := true, ok := true, diff := [] }
#guard renderJsonCollAppliesB K ts [cas] 0 rich
-- the same instance is outside the hypotheses of the XMI theorem (the writer raises on a null element)
#guard !renderCollAppliesB K ts [cas] 0 rich

/-! ### variations inside the hypotheses: what JSON keeps and XMI does not -/

def variants : List (String × Heap) :=
  [ ("good", good),
    -- null elements of FSArrays, inlined and shared
    ("fsarray_null", hp.set 11 (arr "uima.cas.FSArray" (.refs [some 1, none]))),
    ("fsarray_null_shared", hp.set 23 (arr "uima.cas.FSArray" (.refs [none, some 1, none]))),
    ("fsarray_all_null", hp.set 11 (arr "uima.cas.FSArray" (.refs [none, none]))),
    ("fsarray_empty", hp.set 11 (arr "uima.cas.FSArray" (.refs []))),
    -- empty lists
    ("inline_strlist_empty", setSlot0 hp "sl" (.ref 20)),
    ("inline_lists_empty", setSlot0 (setSlot0 (setSlot0 hp "il" (.ref 15)) "fsl" (.ref 12)) "fl" (.ref 19)),
    -- `""` in string arrays, objects and inlined; empty arrays of every kind
    ("strarray_obj_empty_str", good.set 25 (arr "uima.cas.StringArray" (.strs [some "p", some ""]))),
    ("strarray_all_empty_str", hp.set 9 (arr "uima.cas.StringArray" (.strs [some "", some ""]))),
    ("strarray_obj_empty", hp.set 25 (arr "uima.cas.StringArray" (.strs []))),
    ("intarray_obj_empty", hp.set 24 (arr "uima.cas.IntegerArray" (.ints []))),
    ("floats_empty", hp.set 7 (arr "uima.cas.FloatArray" (.floats []))),
    ("bools_empty", hp.set 6 (arr "uima.cas.BooleanArray" (.bools []))),
    -- tokens, bytes
    ("float_tokens", hp.set 7 (arr "uima.cas.FloatArray" (.floats ["1.5 2.5", "", "NaN", "-Infinity"]))),
    ("float_list_token_empty", hp.set 18 (node "uima.cas.NonEmptyFloatList" (.float "") (.ref 19))),
    ("byte_range", hp.set 5 (arr "uima.cas.ByteArray" (.ints [256, -1]))),
    -- null heads
    ("fslist_null_head", hp.set 14 (node "uima.cas.NonEmptyFSList" .none (.ref 12))),
    ("intlist_null_head", hp.set 17 (node "uima.cas.NonEmptyIntegerList" .none (.ref 15))),
    -- element kind not tied to the type
    ("int_array_of_strings", hp.set 2 (arr "uima.cas.IntegerArray" (.strs [some "a", none, some ""]))),
    -- sharing
    ("inline_shared_twice", setSlot0 hp "sha" (.ref 2)),
    ("inline_and_shared", setSlot0 hp "mia" (.ref 2)),
    ("list_inline_and_shared", setSlot0 good "mil" (.ref 18)),                 -- `cx_list_shared` of the XMI check
    ("fslist_inline_and_shared", setSlot0 hp "mfl" (.ref 13)),
    ("fsarray_inline_and_shared", setSlot0 hp "mfa" (.ref 11)),
    -- an inlined "array" that is a structure; that is another array type; that is a list node
    ("inline_not_array", setSlot0 hp "ia" (.ref 1)),
    ("inline_other_array", good.set 2 (arr "uima.cas.LongArray" (.ints [1, -2, 30]))),
    ("inline_not_array_node", good.set 2 { ty := "uima.cas.EmptyFSList", ts := 0, xid := none, slots := [] }),
    ("fsarray_feature_holds_doc", setSlot0 hp "fsa" (.ref 1)),
    ("fslist_feature_holds_doc", setSlot0 hp "fsl" (.ref 1)),
    ("fslist_feature_holds_array", setSlot0 hp "fsl" (.ref 11)),
    -- cyclic shared list / cyclic array nesting (both sides `RuntimeError`)
    ("cyclic_shared_list", hp.set 27 (node "uima.cas.NonEmptyFSList" (.ref 1) (.ref 27))),
    ("cyclic_arrays", good.set 23 (arr "uima.cas.FSArray" (.refs [some 0, some 23]))),
    ("fsarray_in_fsarray", hp.set 11 (arr "uima.cas.FSArray" (.refs [some 23, some 11, some 24]))),
    -- a subtype relation the traversal relies on: an FSArray object in a shared IntegerArray feature
    ("shared_other_array", setSlot0 hp "mia" (.ref 23))
  ]

/-- the CAS with a second view (sofa id 40, generator at 41): room for ids that are in use but not by collected structures -/
def cas2 : Cas :=
  { views := cas.views ++ [("v2",
      { sofa := { sofaID := "v2", sofaNum := 2, xid := 40, text := some [120, 121, 122, 120],
                  mime := none, uri := none, arr := .none, conv := some (Offsets.table [120, 121, 122, 120]) },
        idx := [("x.Doc", [{ b := 2, e := 3, oid := 1 }])] })],
    nextXid := 41, nextSofaNum := 3 }

def doc1 (x : Option Int) (sofa : String) : Obj :=
  { ty := "x.Doc", ts := 0, xid := x, slots := [("n", .none), ("next", .ref 0)] ++ noColl ++
      [("begin", .int 2), ("end", .int 3), ("sofa", .sofa 0 sofa)] }

/-- two views: the second structure (id 3) is indexed in the second view and belongs to its sofa -/
def hp2 : Heap := hp.set 1 (doc1 (some 3) "v2")

def variants2 : List (String × Heap) :=
  [ ("two_views", hp2),
    -- pre-assigned ids on collection objects the default traversal does not collect (in use, below the generator)
    ("inline_node_has_id", hp2.set 13 { (node "uima.cas.NonEmptyFSList" (.ref 1) (.ref 14)) with xid := some 17 }),
    ("inline_arr_has_id", hp2.set 2 { (arr "uima.cas.IntegerArray" (.ints [1])) with xid := some 5 }),
    ("inline_floatlist_has_id", hp2.set 18 { (node "uima.cas.NonEmptyFloatList" (.float "0.25") (.ref 19)) with xid := some 39 }),
    ("shared_arr_has_id", hp2.set 23 { (arr "uima.cas.FSArray" (.refs [some 0, some 1])) with xid := some 30 }),
    -- the second structure indexed in the second view but belonging to the sofa of the first
    ("member_other_sofa", hp.set 1 (doc1 (some 3) "_InitialView")),
    -- the second structure indexed in both views
    ("two_views_null_elems", hp2.set 11 (arr "uima.cas.FSArray" (.refs [none, some 1, none, some 0])))
  ]

def results : List (String × Except Err OutcomeJ) :=
  variants.map (fun p => (p.1, outcomeJ K ts cas p.2)) ++ variants2.map (fun p => (p.1, outcomeJ K ts cas2 p.2))

#eval results.map (fun p => (p.1, match p.2 with
  | .ok x => s!"applies={x.jcollApplies} distinct={x.distinct} n={x.collected} same={x.same} ok={x.ok} {x.diff}"
  | .error e => s!"error {reprStr e}"))

-- no variation satisfies the hypotheses and changes its text
#guard results.all (fun p => !bad p.2)
#guard (results.filter (fun p => good' p.2)).length ≥ 30

/-! ### the hypothesis "the default traversal of the original succeeds"

It follows from the other hypotheses when the constants do not classify `uima.cas.FSList` as an array type
(`default_traversal_succeeds`, `Properties/C20IsoJsonColl.lean`).  With constants that do (`K2`; not reachable in Python), the
fragment `JCollFs` does not ask that the spine of an inlined FSList ends (J2 is about the lists the content function
unrolls), the JSON round trip of a cyclic spine succeeds, and the default traversal runs out of budget — on both sides
alike, so the comparable "text" is the same exception; the theorem does not cover this artefact. -/

def K2 : Consts := { K with arrays := K.arrays ++ [FS_LIST] }
def cyclicSpine : Heap := hp.set 14 (node "uima.cas.NonEmptyFSList" (.ref 0) (.ref 13))

def note_k2 := outcomeJ K2 ts cas cyclicSpine
#guard note_k2 matches .ok { jcollApplies := true, distinct := false, collected := (31, 0, 0), same := true, ok := false, diff := [] }
#guard (findAllFs K2 ts {} cyclicSpine cas.nextXid (defaultSeeds cas)).toOption.isNone
-- with the generated constants the instance is outside the fragment (J2)
#guard !Json.jcollAppliesB K ts [cas] 0 cyclicSpine

end Cassis.Comparable.IsoJsonCollCheck
