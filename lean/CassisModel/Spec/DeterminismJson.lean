/-
Specification-side definitions for the JSON half of C14 (`Properties/C14Json.lean`).
-/
import CassisModel.Model.Json

namespace Cassis.Json

/-- The structure at `a` carries an id, and so does every structure it refers to directly (through a reference
    feature or as an element of an `FSArray`): all the ids the JSON writer reads when it renders `a`. -/
def RefsHaveIds (hp : Heap) (a : Nat) : Prop :=
  (Traverse.xidOf hp a).isSome = true ∧
  ∀ n : String,
    (∀ t : Nat, Xmi.slot hp a n = some (.ref t) → (Traverse.xidOf hp t).isSome = true) ∧
    (∀ (l : List (Option Nat)) (t : Nat), Xmi.slot hp a n = some (.refs l) → some t ∈ l →
      (Traverse.xidOf hp t).isSome = true)

end Cassis.Json
