/-
Specification-side definitions for C20 (`cas_to_comparable_text`).
-/
import CassisModel.Model.Comparable

namespace Cassis.Comparable
open Cassis.TS Cassis.Traverse

/-- the side condition of C20: two different collected structures of one type both carry (integer)
    offsets and differ in them.  (The property also admits a *single* structure without offsets next to
    structures with offsets in one type; for that mixed case `_compare_fs` answers −1 in both directions and
    the order is whatever the sorting algorithm makes of it — it is outside this predicate and outside the
    generators, see DESIGN.md.) -/
def Distinct (hp : Heap) (addrs : List Nat) : Prop :=
  ∀ a ∈ addrs, ∀ b ∈ addrs, a ≠ b → tyOf hp a = tyOf hp b →
    isAnnot hp a = true ∧ isAnnot hp b = true ∧ (beginOf hp a ≠ beginOf hp b ∨ endOf hp a ≠ endOf hp b)

/-- the order the table promises: ascending begin, then descending end -/
def offsetLe (hp : Heap) (a b : Nat) : Prop :=
  beginOf hp a < beginOf hp b ∨ (beginOf hp a = beginOf hp b ∧ endOf hp b ≤ endOf hp a)

/-- primitive feature values of the same Python type -/
def SameKindPrim : Val → Val → Prop
  | .int _, .int _ => True
  | .str _, .str _ => True
  | .bool _, .bool _ => True
  | .float _, .float _ => True
  | _, _ => False

end Cassis.Comparable
