/-
The conclusion of `xmi_roundtrip_coll_fixpoint` (`Properties/C01FixpointColl.lean`) as a computable test, evaluated on
the demo instance `CollDemo` (`Spec/RoundTripCollCheck.lean`), on its variations, and on a few hand-made CASes with
inlined / shared arrays and lists: save, load, save again, compare the two documents.

Remark on the byte level (outside the model, which works on the XML infoset: `normTxt`): the implementation writes an
inlined / shared string array element `""` as `<sa></sa>` and a null element as `<sa/>`; after loading both are null, so
the *second* document writes `<sa/>` twice.  The two byte strings differ, their canonical forms (c14n) are equal, and from
the second document on the bytes are stable (checked on `/repo` with lxml).

This file imports specification files only.
-/
import CassisModel.Spec.RoundTripCollCheck

namespace Cassis.Xmi
open Cassis.TS Cassis.Traverse

/-- save `cass[ci]`, load the document as a new CAS at index `cass.length`, save that CAS: are the two documents equal?
    (`.error`: one of the three runs raised) -/
def fixpointB (K : Consts) (ts : TypeSystem) (cass : List Cas) (ci : Nat) (hp : Heap) (tsIdx : Nat) :
    Except Err Bool := do
  let (doc, st) ← saveXmi K ts cass ci hp
  let ld ← loadXmi K ts tsIdx cass.length false st.heap doc
  let (doc', _) ← saveXmi K ts (cass ++ [ld.cas]) cass.length ld.heap
  pure (decide (doc' = doc))

/-- the same, three times: the third document too -/
def fixpoint2B (K : Consts) (ts : TypeSystem) (cass : List Cas) (ci : Nat) (hp : Heap) (tsIdx : Nat) :
    Except Err Bool := do
  let (doc, st) ← saveXmi K ts cass ci hp
  let ld ← loadXmi K ts tsIdx cass.length false st.heap doc
  let (doc', st') ← saveXmi K ts (cass ++ [ld.cas]) cass.length ld.heap
  let ld' ← loadXmi K ts tsIdx (cass.length + 1) false st'.heap doc'
  let (doc'', _) ← saveXmi K ts (cass ++ [ld.cas] ++ [ld'.cas]) (cass.length + 1) ld'.heap
  pure (decide (doc' = doc) && decide (doc'' = doc))

namespace CollDemo

/-- (`collAppliesB`, fixpoint) on the demo CAS over the heap `h` -/
def runFix (h : Heap) : Bool × Except Err Bool := (collAppliesB K ts [cas] 0 h, fixpointB K ts [cas] 0 h 0)

/-- string arrays / lists with null and `""` side by side, inlined and shared; empty collections of every kind -/
def hpNulls : Heap :=
  ((((hp.set 9 (arr "uima.cas.StringArray" (.strs [none, some "", some "x", none]))).set 25
      (arr "uima.cas.StringArray" (.strs [some "", none]))).set 21
      (node "uima.cas.NonEmptyStringList" .none (.ref 22))).set 31
      (node "uima.cas.NonEmptyStringList" (.str "") (.ref 30)))

def hpEmpties : Heap :=
  setSlot0 (setSlot0 (setSlot0 (((hp.set 2 (arr "uima.cas.IntegerArray" (.ints []))).set 11
      (arr "uima.cas.FSArray" (.refs []))).set 23 (arr "uima.cas.FSArray" (.refs []))) "il" (.ref 15)) "fsl" (.ref 12))
    "fl" (.ref 19)

def fixRuns : List (String × Bool × String) :=
  [ ("demo", runFix hp), ("nulls", runFix hpNulls), ("empties", runFix hpEmpties),
    ("obj_elements_none", runFix (hp.set 24 (arr "uima.cas.IntegerArray" .none))),
    ("obj_elements_none_fs", runFix (hp.set 23 (arr "uima.cas.FSArray" .none))),
    ("inline_lists_empty", runFix (setSlot0 (setSlot0 (setSlot0 hp "il" (.ref 15)) "fsl" (.ref 12)) "fl" (.ref 19))),
    ("inline_shared_twice", runFix (setSlot0 hp "sha" (.ref 2))),
    ("inline_and_shared", runFix (setSlot0 hp "mia" (.ref 2))),
    ("inline_and_shared_fs", runFix (setSlot0 hp "mfa" (.ref 11))),
    ("inline_and_shared_list", runFix (setSlot0 hp "mfl" (.ref 13))),
    ("inline_and_shared_strlist", runFix (setSlot0 hp "msl" (.ref 21))),
    -- outside the fragment (for information)
    ("cx_inline_elements_none", runFix (hp.set 2 (arr "uima.cas.IntegerArray" .none))),
    ("cx_strarray_obj_none", runFix (hp.set 25 (arr "uima.cas.StringArray" .none))),
    ("cx_inline_strlist_empty", runFix (setSlot0 hp "sl" (.ref 20))),
    ("cx_float_token_blank", runFix (hp.set 7 (arr "uima.cas.FloatArray" (.floats ["1.5 2.5"])))),
    ("cx_byte_negative", runFix (hp.set 5 (arr "uima.cas.ByteArray" (.ints [-1])))) ].map
  (fun (n, r) => (n, r.1, match r.2 with | .ok b => s!"ok {b}" | .error e => s!"error {e}"))

-- every run inside the fragment (second component `true`) evaluates to `"ok true"`: the second document is the first;
-- so do the five runs outside the fragment listed for information (the round trip changes the CAS there, cf. the
-- counterexamples of `Spec/RoundTripCollCheck.lean`, but what is written is already a fixpoint):
#eval fixRuns
-- (ok true, ok true, ok true): the third document too
#eval (fixpoint2B K ts [cas] 0 hp 0, fixpoint2B K ts [cas] 0 hpNulls 0, fixpoint2B K ts [cas] 0 hpEmpties 0)

end CollDemo

namespace ResDemo
open CollDemo

/-- reserved names: every feature of `x.Doc` as `self_` and as `type_` -/
def fixRuns : List (String × String × Bool × String) :=
  (docRec.own.map (·.name)).flatMap (fun n =>
    ["self_", "type_"].map (fun stored => (n, stored, collAppliesB K (resTs n stored) [cas] 0 (resHp n stored),
      match fixpointB K (resTs n stored) [cas] 0 (resHp n stored) 0 with
      | .ok b => s!"ok {b}" | .error e => s!"error {e}")))

#eval fixRuns.all (fun r => r.2.2.1 && r.2.2.2 == "ok true")          -- true (44 runs)
#eval (collAppliesB K tsC [casC] 0 hpC, fixpointB K tsC [casC] 0 hpC 0)  -- (true, ok true)

end ResDemo

end Cassis.Xmi
