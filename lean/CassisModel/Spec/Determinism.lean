/-
Specification-side definitions for C14.
-/
import CassisModel.Model.TsXml

namespace Cassis.Traverse

/-- ids present in the heap are below the generator (the C09 invariant) -/
def IdsBelow (hp : Heap) (nx : Int) : Prop :=
  ∀ (a : Nat) (ob : Obj) (x : Int), hp[a]? = some ob → ob.xid = some x → x < nx

end Cassis.Traverse
