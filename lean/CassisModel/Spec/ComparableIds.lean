/-
Specification-side definitions for the id-invariance theorem of C20.
-/
import CassisModel.Spec.Comparable

namespace Cassis.Comparable
open Cassis.TS Cassis.Traverse

/-- the heap with every xmi:id replaced through `σ` (nothing else changes) -/
def renumber (σ : Int → Int) (hp : Heap) : Heap := hp.map (fun o => { o with xid := o.xid.map σ })

end Cassis.Comparable
