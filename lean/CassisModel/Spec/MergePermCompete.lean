/-
Specification-side definitions for the extension of C13 (order independence of `merge_typesystems`) to names declared
with competing supertypes (`Properties/C13Perm.lean.proposed`).
-/
import CassisModel.Spec.MergePerm

namespace Cassis.TS

/-- `n` is declared with (at least) two different supertypes -/
def Competing (decls : List Decl) (n : String) : Prop :=
  ∃ d ∈ decls, ∃ d' ∈ decls, d.name = n ∧ d'.name = n ∧ d.super ≠ d'.super

/-- a name declared with competing supertypes has no declared subtype.  Consequently every declared *supertype* — in
    particular every competing supertype and every ancestor of one — is declared with one supertype throughout, so it
    sits at its final place as soon as it is registered and `subsumes` on the partially merged tree agrees with the
    final tree.  (Finding M6 needs a name with competing supertypes that has a declared subtype: there `x.C` competes
    for `uima.cas.TOP` / `uima.tcas.Annotation` and is the supertype of `x.B`.) -/
def LeafCompete (decls : List Decl) : Prop :=
  ∀ n, Competing decls n → ∀ e ∈ decls, e.super ≠ n

/-- no competing supertype is inheritance final (inputs built through the API never declare a type below a final one;
    the re-parenting branch does not check this, `create_type` does) -/
def CompeteNonFinal (K : Consts) (decls : List Decl) : Prop :=
  ∀ d ∈ decls, Competing decls d.name → K.finalTypes.contains d.super = false

/-- the declarations of the document annotation type agree with what a fresh type system registers -/
def BaseAgree (decls : List Decl) : Prop :=
  ∀ d ∈ decls, d.name = DOCUMENT_ANNOTATION → d.super = ANNOTATION

end Cassis.TS
