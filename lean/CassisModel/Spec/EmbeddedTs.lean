/-
Specification-side definitions for "the embedded FULL type system reproduces the original" (C02): which type systems the
`%TYPES` section of a JSON document can carry (`Writable`).

The format drops or re-codes some of what `create_type` / `create_feature` accept:
* an empty description is not written (`if type_.description:`), it comes back as `None`;
* an array range is written as `<element type>[]` and the element type is not written separately, so
  - the element type given for a primitive array (`IntegerArray` with `elementType=Integer`) is lost,
  - an `FSArray` whose element type is a primitive type (`FSArray` of `uima.cas.Integer`) is read back as the
    primitive array (`IntegerArray`),
  - a non-array range whose name ends in `[]` is read back as an array;
* a type named `DocumentAnnotation` (no namespace) is taken for the flag of the same name and makes the reader start
  from a type system without `uima.tcas.DocumentAnnotation`.
-/
import CassisModel.Model.Json
import CassisModel.Spec.MergeSelf

namespace Cassis.Json
open Cassis.TS

/-- a feature declaration that `_serialize_feature` / `_parse_features` carry faithfully -/
def FeatWritable (K : Consts) (f : Feature) : Prop :=
  f.descr ≠ some "" ∧
  (isArray K f.range = false → f.range.endsWith "[]" = false) ∧
  (isPrimitiveArray K f.range = true → f.elem.getD TOP = TOP) ∧
  (f.range = FS_ARRAY → K.primitive.contains (f.elem.getD TOP) = false)

instance (K : Consts) (f : Feature) : Decidable (FeatWritable K f) := by
  unfold FeatWritable; infer_instance

/-- a type system whose user types (other than DocumentAnnotation, which is not written) the `%TYPES` section carries
    faithfully -/
def Writable (K : Consts) (ts : TypeSystem) : Prop :=
  hasExact ts "DocumentAnnotation" = false ∧
  ∀ t ∈ ts.types, K.predefined.contains t.name = false → t.name ≠ DOCUMENT_ANNOTATION →
    t.descr ≠ some "" ∧ ∀ f ∈ t.own, FeatWritable K f

instance (K : Consts) (ts : TypeSystem) : Decidable (Writable K ts) := by
  unfold Writable; infer_instance

/-- no feature name starts with `%`: in a `%TYPES` entry the feature declarations share one JSON object with the reserved
    keys `%NAME`, `%SUPER_TYPE`, `%DESCRIPTION`, and the reader skips every key that starts with `%` (a feature `%foo` is
    lost, a feature `%DESCRIPTION` is read as the type's description, a feature `%SUPER_TYPE` makes the reader raise, a
    feature `%NAME` makes `to_json` raise).  The model follows the code there (`renderTypeDecl`, `renderTypeDecls`,
    `loadEmbeddedTs`; evaluated in `Proofs/EmbeddedTsPctDemo.lean`); `json_full_ts_same` needs the hypothesis. -/
def NoPercentNames (ts : TypeSystem) : Prop :=
  ∀ t ∈ ts.types, ∀ f ∈ t.own, f.name.startsWith "%" = false

instance (ts : TypeSystem) : Decidable (NoPercentNames ts) := by
  unfold NoPercentNames; infer_instance

end Cassis.Json
