/-
Boolean checkers for the invariants on *concrete* tables.  They live on the specification side (plain
definitions, no proofs) so that the compiled driver can evaluate them on the regenerated built-in
table before the kernel is asked to decide them (`Proofs/TypeSystem.lean`, `Proofs/Features.lean`
prove them sound: `consistentB ts = true → Consistent ts`, `featInvB ts = true → FeatInv ts`).
-/
import CassisModel.Spec.TypeSystem
import CassisModel.Spec.Features

namespace Cassis.TS

def nodupB : List String → Bool
  | [] => true
  | a :: l => !(l.contains a) && nodupB l

def consistentB (ts : TypeSystem) : Bool :=
  nodupB (ts.types.map (·.name)) &&
  (match find? ts TOP with
    | some t => t.super.isNone
    | none => false) &&
  (ts.types.all fun t => t.super.isSome || t.name == TOP) &&
  (ts.types.all fun t => match t.super with
    | none => true
    | some s => hasExact ts s) &&
  (ts.types.all fun ta => ta.children.all fun b => match find? ts b with
    | some tb => tb.super == some ta.name
    | none => false) &&
  (ts.types.all fun tb => match tb.super with
    | none => true
    | some a => match find? ts a with
      | some ta => ta.children.contains tb.name
      | none => false) &&
  (ts.types.all fun t => nodupB t.children) &&
  ((List.range ts.types.length).all fun i => match ts.types[i]? with
    | none => true
    | some t => match t.super with
      | none => true
      | some s => (ts.types.take i).any (·.name == s))

def featInvB (ts : TypeSystem) : Bool :=
  ts.types.all fun t =>
    nodupB (fnames t.own) && nodupB (fnames t.inh) &&
    (t.own.all fun f => t.inh.all fun g => !(f.name == g.name) || featureEq f g) &&
    (match t.super with
     | none => t.inh.isEmpty
     | some s => match find? ts s with
       | none => true
       | some ps =>
         (t.inh.all fun g => (fnames (allFeatures ps)).contains g.name) &&
         ((allFeatures ps).all fun f => (fnames t.inh).contains f.name) &&
         (t.inh.all fun g => (allFeatures ps).all fun f => !(f.name == g.name) || featureEq f g))

end Cassis.TS

namespace Cassis.Gen
open Cassis.TS

/-- the obligations about the regenerated table that the kernel decides, evaluated by compiled code -/
def builtinSelfCheck : List (String × Bool) :=
  [ ("replay builtinScript = builtinTS", decide (replay consts builtinScript = some builtinTS)),
    ("consistentB builtinTS", consistentB builtinTS),
    ("consistentB builtinTSNoDoc", consistentB builtinTSNoDoc),
    ("featInvB builtinTS", featInvB builtinTS),
    ("featInvB builtinTSNoDoc", featInvB builtinTSNoDoc) ]

end Cassis.Gen
