/-
Definitions used by the document-level statement about the JSON reader (`Properties/C09DocJson.lean`).
-/
import CassisModel.Model.Json

namespace Cassis.Json
open Cassis.TS

/-- the `sofaID` member of a sofa element -/
def sofaIdOf (j : JFs) : Option String :=
  match ((j.feats.find? (fun p => p.1 == "sofaID")).map (·.2) : Option JV) with
  | some (.str n) => some n
  | _ => none

/-- no two sofa elements name the same view, except for the initial view (which exists before the first element is read:
    every element naming it is applied to it) -/
def SofaNamesDistinct (l : List JFs) : Prop :=
  l.Pairwise (fun a b => a.ty = SOFA → b.ty = SOFA →
    ∀ n, sofaIdOf a = some n → sofaIdOf b = some n → n = Cas.INITIAL_VIEW)

/-- Invariant of the two parsing passes (`sofaPass`, `fsPass`): every id registered in the id table
    (`feature_structures`: structures and sofas) is at most `maxId`, and the view of every registered sofa has a sofa id
    and sofaNum of at most `maxId` / `maxNum`. -/
def JBounded (s : RState) : Prop :=
  (∀ q ∈ s.fss, q.1 ≤ s.maxId) ∧
  (∀ q ∈ s.fss, ∀ (cI : Nat) (vn : String), q.2 = .sofa cI vn →
    ∃ v : View, Cas.getViewRec s.cas vn = some v ∧ v.sofa.xid ≤ s.maxId ∧ v.sofa.sofaNum ≤ s.maxNum)

/-- the id table holds structures (heap addresses) and sofas only -/
def FssVals (fss : List (Int × Val)) : Prop :=
  ∀ q ∈ fss, (∃ a : Nat, q.2 = .ref a) ∨ (∃ (cI : Nat) (vn : String), q.2 = .sofa cI vn)

/-- every registered structure sits in the heap under the id it was registered with -/
def FssIds (fss : List (Int × Val)) (hp : Heap) : Prop :=
  ∀ q ∈ fss, ∀ a : Nat, q.2 = .ref a → ∃ o : Obj, hp[a]? = some o ∧ o.xid = some q.1

end Cassis.Json
