/-
Specification-side definition for C16 with the JSON-embedded type system, chain JSON → CAS → XMI → CAS
(`Properties/C16ChainEmbedded.lean`): what the XMI codec consults of a feature beyond what `SameTs` compares.

`SameTs` (`Spec/MergeSelf.lean`; the relation `json_full_ts_same` establishes between a type system and the type system
rebuilt from the `%TYPES` section of its FULL document) compares the effective features of a type up to `Feature.__eq__`:
name, description, range, element type.  It does not compare `multipleReferencesAllowed` — which decides whether the XMI
writer inlines an array / list or writes it as a structure of its own — nor the reserved-name flag (`self` / `type`).
-/
import CassisModel.Model.TypeSystem

namespace Cassis.ChainE
open Cassis.TS

/-- effective features of the same name under the same type name agree on the reserved-name flag and — when the range
    is an array or list type, the only case in which the codec looks at it — on `multipleReferencesAllowed` (absent =
    false).  Stated over the registries, so that it is decidable. -/
def MultiResAgree (K : Consts) (ts ts' : TypeSystem) : Prop :=
  ∀ t ∈ ts.types, ∀ t' ∈ ts'.types, t'.name = t.name → ∀ f ∈ allFeatures t, ∀ f' ∈ allFeatures t',
    f'.name = f.name → f'.reserved = f.reserved ∧
      ((isArray K f.range = true ∨ isList K f.range = true) → f'.multi.getD false = f.multi.getD false)

instance (K : Consts) (ts ts' : TypeSystem) : Decidable (MultiResAgree K ts ts') := by
  unfold MultiResAgree; infer_instance

/-- a sufficient condition on the ORIGINAL type system (`Proofs/ChainEmbProv*.lean`): own features of the same name, on
    whatever types (built-in types included), agree on the reserved-name flag, and on `multipleReferencesAllowed` as soon
    as one of them has an array or list range.  It excludes in particular that a type and one of its ancestors declare
    the same feature with different flags (`RedefDemo`). -/
def FlagCoherent (K : Consts) (ts : TypeSystem) : Prop :=
  ∀ t1 ∈ ts.types, ∀ t2 ∈ ts.types, ∀ g1 ∈ t1.own, ∀ g2 ∈ t2.own, g1.name = g2.name →
    g2.reserved = g1.reserved ∧
      ((isArray K g1.range = true ∨ isList K g1.range = true) → g2.multi.getD false = g1.multi.getD false)

instance (K : Consts) (ts : TypeSystem) : Decidable (FlagCoherent K ts) := by
  unfold FlagCoherent; infer_instance

end Cassis.ChainE
