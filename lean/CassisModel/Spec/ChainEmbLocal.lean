/-
C16 with the JSON-embedded type system: the LOCAL flag-coherence condition `FlagCoherentChain`.

`FlagCoherent` (`Spec/ChainEmb.lean`) compares the own features of the same name of ANY two types, also of unrelated
types and of built-in types.  What the rebuilt type system can confuse is only a feature declared on a type `t` with a
feature of the same name `t` INHERITS (`RedefDemo`, `Spec/ChainEmbCheck.lean`: the reader of the `%TYPES` section creates
the features supertypes first, so that the ancestor's record wins, while `all_features` of the original lists the own
record first).  `FlagCoherentChain` says just that: on every type, an inherited record and an own record of the same
name agree on the reserved-name flag and, when the (own) range is an array or list type, on
`multipleReferencesAllowed` (absent = false).  Types without own features (in particular types that merely inherit)
and pairs of unrelated types impose nothing.
-/
import CassisModel.Spec.ChainEmbCheck

namespace Cassis.ChainE
open Cassis.TS

/-- on every type, an own feature `g` and an inherited feature `h` of the same name agree on the reserved-name flag and
    — when the range is an array or list type — on `multipleReferencesAllowed` (absent = false) -/
def FlagCoherentChain (K : Consts) (ts : TypeSystem) : Prop :=
  ∀ t ∈ ts.types, ∀ g ∈ t.own, ∀ h ∈ t.inh, h.name = g.name →
    h.reserved = g.reserved ∧
      ((isArray K g.range = true ∨ isList K g.range = true) → h.multi.getD false = g.multi.getD false)

instance (K : Consts) (ts : TypeSystem) : Decidable (FlagCoherentChain K ts) := by
  unfold FlagCoherentChain; infer_instance

end Cassis.ChainE

namespace Cassis.Json
open Cassis.TS Cassis.Traverse Cassis.Xmi Cassis.ChainE

/-! ## `RedefDemo` violates the local condition (both orders of the redefinition) -/

#guard decide (FlagCoherentChain Gen.consts RedefDemo.ts) == false
#guard decide (FlagCoherentChain Gen.consts RedefDemo.ts') == false
#guard decide (FlagCoherent Gen.consts RedefDemo.ts) == false
-- the built-in type system satisfies both
#guard decide (FlagCoherentChain Gen.consts Gen.builtinTS)
#guard decide (FlagCoherent Gen.consts Gen.builtinTS)

/-! ## The instance the local condition is for: two UNRELATED types that declare `f` with different flags

`x.A` and `x.B` (both below `Annotation`, neither an ancestor of the other) declare `f : FSArray`, `x.A` with
`multipleReferencesAllowed = True`, `x.B` without.  `FlagCoherent` fails (it compares `x.A.f` with `x.B.f`),
`FlagCoherentChain` holds, and the chains preserve the CAS: the array shared by the two `x.A` stays a structure of its
own (id 5), the array of `x.B` stays inlined. -/
namespace UnrelDemo

def ops : List TsOp :=
  [ .createType "x.A" "uima.tcas.Annotation" none,
    .createType "x.B" "uima.tcas.Annotation" none,
    .createFeature "x.A" "f" "uima.cas.FSArray" none none (some true),
    .createFeature "x.B" "f" "uima.cas.FSArray" none none none ]

def ts : TypeSystem := ops.foldl (applyOp Gen.consts) Gen.builtinTS

/-- two indexed `x.A` that share one FSArray holding both, one indexed `x.B` with an FSArray of its own -/
def hp : Heap :=
  [ { ty := "x.A", ts := 0, xid := some 2, slots := [("f", .ref 3)] ++ RedefDemo.tailSlots 0 1 },
    { ty := "x.A", ts := 0, xid := some 3, slots := [("f", .ref 3)] ++ RedefDemo.tailSlots 1 2 },
    { ty := "x.B", ts := 0, xid := some 4, slots := [("f", .ref 4)] ++ RedefDemo.tailSlots 2 3 },
    { ty := "uima.cas.FSArray", ts := 0, xid := none, slots := [("elements", .refs [some 0, some 1])] },
    { ty := "uima.cas.FSArray", ts := 0, xid := none, slots := [("elements", .refs [some 2])] } ]

def cas : Cas :=
  { views := [("_InitialView",
      { sofa := { sofaID := "_InitialView", sofaNum := 1, xid := 1, text := some [97, 98, 99],
                  mime := some "text/plain", uri := none, arr := .none, conv := some [0, 1, 2, 3] },
        idx := [("x.A", [{ b := 0, e := 1, oid := 0 }, { b := 1, e := 2, oid := 1 }]),
                ("x.B", [{ b := 2, e := 3, oid := 2 }])] })],
    nextXid := 5, nextSofaNum := 2 }

-- the local condition holds, the global one does not
#guard decide (FlagCoherentChain Gen.consts ts)
#guard decide (FlagCoherent Gen.consts ts) == false
-- the other hypotheses of `chain_json_xmi_full_coll` / `chain_json_xmi_minimal_coll`
#guard chainJXAppliesB Gen.consts ts [cas] 0 hp
#guard chainCollAppliesB Gen.consts ts [cas] 0 hp
#guard decide (Writable Gen.consts ts) && decide (NoPercentNames ts)
-- JSON (FULL / MINIMAL) → CAS without a type system → XMI under the rebuilt type system → CAS: preserved
-- (5 structures in JSON; 4 in XMI: the array of `x.B` is inlined, the shared array of the `x.A` is not)
#guard showDiffsN (chainDiffsJXEmb Gen.consts ts [cas] 0 hp 0 .full false) == "ok [] json=5 stx=4 xmi=4"
#guard showDiffsN (chainDiffsJXEmb Gen.consts ts [cas] 0 hp 0 .minimal false) == "ok [] json=5 stx=4 xmi=4"
#guard showDiffsN (chainDiffsJXEmb Gen.consts ts [cas] 0 hp 0 .full true) == "ok [] json=5 stx=4 xmi=4"
#guard Cassis.Xmi.ResDemo.showDiffs (chainDiffsXJEmb Gen.consts ts [cas] 0 hp 0 .full) == "ok []"
-- `MultiResAgree` holds between the original and the rebuilt type system
#guard (match rebuiltTs Gen.consts ts [cas] 0 hp with
  | .ok t => decide (Cassis.ChainE.MultiResAgree Gen.consts ts t) | .error _ => false)

end UnrelDemo

end Cassis.Json
