/-
Model of the XMI codec (`cassis/xmi.py`): `CasXmiSerializer` and `CasXmiDeserializer` at the level of
abstract documents (XML infoset after namespace resolution: the element's tag is given as the full type
name it denotes; prefixes, attribute order, whitespace and escaping are lxml's business and are
exercised by the independent reader/writer of the harness).
Floats are opaque tokens; integers, booleans, byte arrays and token lists go through `Model/Lex.lean`.
-/
import CassisModel.Model.Lex
import CassisModel.Model.Traverse

namespace Cassis.Xmi
open Cassis.TS Cassis.Lex

structure XElem where
  ty : String                              -- type name denoted by the tag
  attrs : List (String × String)           -- attributes; the xmi:id under the key "xmi:id"
  kids : List (String × Option String) := []   -- child elements (local name, text) in document order
deriving Repr, DecidableEq, Inhabited

abbrev XDoc := List XElem

def ID : String := "xmi:id"
def NULL_T : String := "uima.cas.NULL"
def VIEW_T : String := "uima.cas.View"
def INTEGER_LIST : String := "uima.cas.IntegerList"
def FLOAT_LIST : String := "uima.cas.FloatList"

/-! ## Writer -/

/-- the text of a child element: XML cannot tell an empty text from no text -/
def normTxt (e : Option String) : Option String := if e == some "" then none else e

def slot (hp : Heap) (a : Nat) (n : String) : Option Val := Traverse.slot hp a n

def xidStr (hp : Heap) (a : Nat) : Except Err String :=
  match hp[a]? with
  | some o => match o.xid with
    | some x => .ok (showInt x)
    | none => .ok "None"                       -- `str(None)`; cannot happen after id assignment
  | none => .error .attributeError

/-- `" ".join(str(e.xmiID) for e in elements)`: a null element raises `AttributeError` -/
def refIds (hp : Heap) : List (Option Nat) → Except Err (List String)
  | [] => .ok []
  | none :: _ => .error .attributeError
  | some a :: rest => do
    let x ← xidStr hp a
    let xs ← refIds hp rest
    pure (x :: xs)

/-- `str(value)` of a primitive Python value -/
def showPrim : Val → Except Err String
  | .int i => .ok (showInt i)
  | .str s => .ok s
  | .float t => .ok t
  | .bool b => .ok (if b then "True" else "False")
  | _ => .error .typeError

/-- `_serialize_primitive_array(type_name, values)` -/
def showPrimArray (tyName : String) (v : Val) : Except Err String :=
  match v with
  | .bools l => .ok (joinSp (l.map showBool))
  | .ints l => if tyName == "uima.cas.ByteArray" then .ok (hexEnc (l.map Int.toNat)) else .ok (joinSp (l.map showInt))
  | .floats l => .ok (joinSp l)
  | .strs l => .ok (joinSp (l.map (fun s => s.getD "None")))
  | .refs [] => .ok ""                              -- an empty Python list carries no element kind
  | _ => .error .typeError

/-- `_collect_list_elements`: the `head` values along the `tail` chain (fuel = spine budget) -/
def collectList (hp : Heap) : Nat → Val → Except Err (List Val)
  | 0, _ => .error .outOfFuel
  | f+1, .ref a =>
    match slot hp a "head" with
    | none => .ok []
    | some hd => do
      let rest ← collectList hp f ((slot hp a "tail").getD .none)
      pure (hd :: rest)
  | _, _ => .ok []

/-- one feature of one feature structure: attributes and child elements it contributes -/
def renderFeature (K : Consts) (ts : TypeSystem) (cass : List Cas) (hp : Heap) (a : Nat) (isAnn : Bool)
    (f : Feature) : Except Err (List (String × String) × List (String × Option String)) := do
  if f.name == "xmiID" || f.name == "type" then return ([], [])
  let name := if f.reserved then (String.ofList f.name.toList.dropLast) else f.name
  let v := (slot hp a f.name).getD .none
  if v == .none then return ([], [])
  -- offsets of annotations are written as UTF-16 offsets of the text of the annotation's sofa
  let v ← if isAnn && (name == "begin" || name == "end") then
      match slot hp a "sofa" with
      | some (.sofa ci vn) =>
        match (cass[ci]?).bind (fun c => Cas.getViewRec c vn) with
        | some view =>
          match v with
          | .int i => pure (Val.int (if i < 0 then i else (Offsets.pythonToExternal view.sofa.conv i.toNat : Nat)))
          | other => pure other
        | none => throw .attributeError
      | _ => throw .attributeError
    else pure v
  let multi := f.multi.getD false
  let fuel := hp.length + 1
  if isInstanceOf ts f.range STRING_ARRAY && !multi then
    match v with
    | .ref arr =>
      match slot hp arr "elements" with
      | some (.strs []) | some (.refs []) => return ([(name, "")], [])
      | some (.strs l) => return ([], l.map (fun e => (name, normTxt e)))
      | some .none | none => return ([], [])
      | _ => throw .typeError
    | _ => throw .attributeError
  else if isInstanceOf ts f.range STRING_LIST && !multi then
    let heads ← collectList hp fuel v
    let kids ← heads.mapM (fun h => match h with
      | .str s => pure (name, normTxt (some s))
      | .none => pure (name, (none : Option String))
      | _ => throw Err.typeError)
    return ([], kids)
  else if isPrimitiveArray K f.range && !multi then
    match v with
    | .ref arr =>
      match slot hp arr "elements" with
      | some .none | none => return ([], [])
      | some ev => do
        let s ← showPrimArray f.range ev
        return ([(name, s)], [])
    | _ => throw .attributeError
  else if isPrimitiveList K f.range && !multi then
    let heads ← collectList hp fuel v
    let toks ← heads.mapM showPrim
    return ([(name, joinSp toks)], [])
  else if f.range == FS_ARRAY && !multi then
    match v with
    | .ref arr =>
      match slot hp arr "elements" with
      | some .none | none => return ([], [])
      | some (.refs l) => do
        let ids ← refIds hp l
        return ([(name, joinSp ids)], [])
      | _ => throw .typeError
    | _ => throw .attributeError
  else if f.range == FS_LIST && !multi then
    let heads ← collectList hp fuel v
    let ids ← heads.mapM (fun h => match h with
      | .ref t => xidStr hp t
      | _ => throw Err.attributeError)
    return ([(name, joinSp ids)], [])
  else if name == "sofa" then
    match v with
    | .sofa ci vn =>
      match (cass[ci]?).bind (fun c => Cas.getViewRec c vn) with
      | some view => return ([(name, showInt view.sofa.xid)], [])
      | none => throw .attributeError
    | .ref t => do let x ← xidStr hp t; return ([(name, x)], [])
    | _ => throw .attributeError
  else if f.range == "uima.cas.Boolean" then
    match v with
    | .bool b => return ([(name, showBool b)], [])
    | .int i => return ([(name, showBool (i != 0))], [])
    | _ => return ([(name, "true")], [])
  else if f.range == "uima.cas.Double" || f.range == "uima.cas.Float" then
    match v with
    | .float t => return ([(name, t)], [])
    | _ => throw .typeError
  else if isPrimitive K ts f.range then
    let s ← showPrim v
    return ([(name, s)], [])
  else
    match v with
    | .ref t => do let x ← xidStr hp t; return ([(name, x)], [])
    | .sofa ci vn =>
      match (cass[ci]?).bind (fun c => Cas.getViewRec c vn) with
      | some view => return ([(name, showInt view.sofa.xid)], [])
      | none => throw .attributeError
    | _ => throw .attributeError

def renderFeatures (K : Consts) (ts : TypeSystem) (cass : List Cas) (hp : Heap) (a : Nat) (isAnn : Bool) :
    List Feature → Except Err (List (String × String) × List (String × Option String))
  | [] => .ok ([], [])
  | f :: fs => do
    let (a1, k1) ← renderFeature K ts cass hp a isAnn f
    let (a2, k2) ← renderFeatures K ts cass hp a isAnn fs
    pure (a1 ++ a2, k1 ++ k2)

/-- `_serialize_feature_structure` -/
def renderFs (K : Consts) (ts : TypeSystem) (cass : List Cas) (hp : Heap) (a : Nat) : Except Err XElem := do
  let o ← match hp[a]? with
    | some o => pure o
    | none => throw .attributeError
  let idAttr := (ID, match o.xid with | some x => showInt x | none => "None")
  if isPrimitiveArray K o.ty || o.ty == FS_ARRAY then
    match slot hp a "elements" with
    | some .none | none => return { ty := o.ty, attrs := [idAttr] }
    | some ev =>
      if isInstanceOf ts o.ty STRING_ARRAY then
        match ev with
        | .strs l => return { ty := o.ty, attrs := [idAttr], kids := l.map (fun e => ("elements", normTxt e)) }
        | .refs [] => return { ty := o.ty, attrs := [idAttr] }
        | _ => throw .typeError
      else if o.ty == FS_ARRAY then
        match ev with
        | .refs l => do
          let ids ← refIds hp l
          return { ty := o.ty, attrs := [idAttr, ("elements", joinSp ids)] }
        | _ => throw .typeError
      else do
        let s ← showPrimArray o.ty ev
        return { ty := o.ty, attrs := [idAttr, ("elements", s)] }
  else
    let t ← getType ts o.ty
    let isAnn := isInstanceOf ts o.ty ANNOTATION
    let (as, ks) ← renderFeatures K ts cass hp a isAnn (allFeatures t)
    return { ty := o.ty, attrs := idAttr :: as, kids := ks }

def renderSofa (s : Sofa) : XElem :=
  { ty := SOFA,
    attrs := [(ID, showInt s.xid), ("sofaNum", showInt s.sofaNum), ("sofaID", s.sofaID)] ++
      (match s.mime with | some m => [("mimeType", m)] | none => []) ++
      (match s.text with | some t => [("sofaString", String.ofList (t.map Char.ofNat))] | none => []) }

/-- insertion sort of ids (`sorted(..., key=int)`) -/
def insertInt (x : Int) : List Int → List Int
  | [] => [x]
  | y :: ys => if x ≤ y then x :: y :: ys else y :: insertInt x ys
def sortInts (l : List Int) : List Int := l.foldr insertInt []

def renderView (hp : Heap) (v : View) : XElem :=
  let ids := (Index.all v.idx).filterMap (fun e => (hp[e.oid]?).bind (·.xid))
  { ty := VIEW_T, attrs := [("sofa", showInt v.sofa.xid), ("members", joinSp ((sortInts ids).map showInt))] }

def insertById (p : Int × Nat) : List (Int × Nat) → List (Int × Nat)
  | [] => [p]
  | q :: qs => if p.1 ≤ q.1 then p :: q :: qs else q :: insertById p qs
def sortById (l : List (Int × Nat)) : List (Int × Nat) := l.foldr insertById []

def renderAll (K : Consts) (ts : TypeSystem) (cass : List Cas) (hp : Heap) : List (Int × Nat) → Except Err (List XElem)
  | [] => .ok []
  | p :: ps => do
    let e ← renderFs K ts cass hp p.2
    let es ← renderAll K ts cass hp ps
    pure (e :: es)

/-- `CasXmiSerializer.serialize`: returns the document and the state after id assignment -/
def saveXmi (K : Consts) (ts : TypeSystem) (cass : List Cas) (ci : Nat) (hp : Heap) :
    Except Err (XDoc × Traverse.St) := do
  let c ← match cass[ci]? with
    | some c => pure c
    | none => throw .keyError
  let st ← Traverse.findAllFs K ts {} hp c.nextXid (Traverse.defaultSeeds c)
  let fsElems ← renderAll K ts cass st.heap (sortById st.allFs)
  let doc := [{ ty := NULL_T, attrs := [(ID, "0")] }] ++ fsElems ++
    c.views.map (fun p => renderSofa p.2.sofa) ++ c.views.map (fun p => renderView st.heap p.2)
  pure (doc, st)

/-! ## Reader -/

/-- result of loading: the new CAS (stored at index `ci` of the world by the caller) and the extended heap -/
structure Loaded where
  cas : Cas
  heap : Heap
deriving Repr, Inhabited

structure PSofa where
  xid : Int
  num : Int
  sofaID : String
  mime : Option String
  text : Option String
deriving Repr, Inhabited

structure PView where
  sofa : Int
  members : List Int
deriving Repr, Inhabited

def attr (e : XElem) (n : String) : Option String := alistGet? e.attrs n

def parseIntE (s : String) : Except Err Int :=
  match parseInt s with
  | some i => .ok i
  | none => .error .valueError

def parseInts : List String → Except Err (List Int)
  | [] => .ok []
  | s :: ss => do
    let i ← parseIntE s
    let is ← parseInts ss
    pure (i :: is)

/-- `_parse_sofa`: `Sofa(**attributes)` accepts only its own fields -/
def parseSofa (e : XElem) : Except Err PSofa := do
  let idS ← match attr e ID with | some s => pure s | none => throw .keyError
  let numS ← match attr e "sofaNum" with | some s => pure s | none => throw .keyError
  let xid ← parseIntE idS
  let num ← parseIntE numS
  let sofaID ← match attr e "sofaID" with | some s => pure s | none => throw .typeError
  if e.attrs.any (fun p => !(["xmi:id", "sofaNum", "sofaID", "mimeType", "sofaString", "sofaURI", "sofaArray"].contains p.1)) then
    throw .typeError
  pure { xid := xid, num := num, sofaID := sofaID, mime := attr e "mimeType", text := attr e "sofaString" }

/-- `_parse_view` -/
def parseView (e : XElem) : Except Err PView := do
  let sS ← match attr e "sofa" with | some s => pure s | none => throw .keyError
  let s ← parseIntE sS
  let ms ← parseInts (splitWs ((attr e "members").getD ""))
  pure { sofa := s, members := ms }

/-- group child elements by tag, in order of first occurrence (`children[elem.tag].append(elem.text)`) -/
def groupKids : List (String × Option String) → List (String × List (Option String)) → List (String × List (Option String))
  | [], acc => acc
  | (n, t) :: rest, acc => groupKids rest (alistSet acc n ((alistGet? acc n).getD [] ++ [t]))

/-- build a primitive list (`_parse_primitive_list`) from already separated element texts; new list
    nodes are appended to the heap; returns the address of the head node -/
def buildPrimList (hp : Heap) (tsIdx : Nat) (rangeName : String) (elems : List (Option String)) :
    Except Err (Heap × Nat) := do
  let (emptyT, neT) ←
    if rangeName == INTEGER_LIST then pure ("uima.cas.EmptyIntegerList", "uima.cas.NonEmptyIntegerList")
    else if rangeName == FLOAT_LIST then pure ("uima.cas.EmptyFloatList", "uima.cas.NonEmptyFloatList")
    else if rangeName == STRING_LIST then pure ("uima.cas.EmptyStringList", "uima.cas.NonEmptyStringList")
    else throw Err.valueError
  let conv : Option String → Except Err Val := fun e =>
    if rangeName == INTEGER_LIST then
      match e with
      | some s => (parseIntE s).map Val.int
      | none => .error .typeError
    else if rangeName == FLOAT_LIST then
      match e with
      | some s => .ok (.float s)
      | none => .error .typeError
    else
      match e with
      | some s => .ok (.str s)
      | none => .ok .none
  let vals ← elems.mapM conv
  let hp0 := hp ++ [{ ty := emptyT, ts := tsIdx, xid := none, slots := [] }]
  let step := fun (acc : Heap × Nat) (v : Val) =>
    (acc.1 ++ [{ ty := neT, ts := tsIdx, xid := none, slots := [("head", v), ("tail", .ref acc.2)] }], acc.1.length)
  pure (vals.reverse.foldl step (hp0, hp.length))

/-- `_parse_primitive_array(type_, value)` for an attribute value -/
def parsePrimArrayStr (tyName : String) (value : String) : Except Err Val :=
  let toks := splitWs value
  if tyName == "uima.cas.FloatArray" || tyName == "uima.cas.DoubleArray" then
    .ok (if value.isEmpty then .refs [] else .floats toks)
  else if tyName == "uima.cas.IntegerArray" || tyName == "uima.cas.ShortArray" || tyName == "uima.cas.LongArray" then
    if value.isEmpty then .ok (.refs []) else (parseInts toks).map Val.ints
  else if tyName == STRING_ARRAY then
    if toks.isEmpty then .ok (.refs []) else .error .valueError
  else if tyName == "uima.cas.BooleanArray" then
    if value.isEmpty then .ok (.refs [])
    else match toks.mapM parseBool with
      | some bs => .ok (.bools bs)
      | none => .error .valueError
  else if tyName == "uima.cas.ByteArray" then
    if value.isEmpty then .ok (.refs [])
    else match hexDec value with
      | some bs => .ok (.ints (bs.map Int.ofNat))
      | none => .error .valueError
  else .error .valueError

/-- `_parse_primitive_value(type_, value)` with the walk up to the primitive ancestor -/
def parsePrimValue (ts : TypeSystem) : Nat → String → Val → Except Err Val
  | 0, _, _ => .error .outOfFuel
  | fuel+1, tyName, v =>
    match v with
    | .none => .ok .none
    | _ =>
      if tyName == "uima.cas.String" then .ok v
      else if tyName == "uima.cas.Float" || tyName == "uima.cas.Double" then
        match v with
        | .str s => .ok (.float s)
        | .int i => .ok (.float (showInt i))
        | _ => .error .typeError
      else if tyName == "uima.cas.Integer" || tyName == "uima.cas.Short" || tyName == "uima.cas.Long" || tyName == "uima.cas.Byte" then
        match v with
        | .str s => (parseIntE s).map Val.int
        | .int i => .ok (.int i)
        | _ => .error .typeError
      else if tyName == "uima.cas.Boolean" then
        match v with
        | .str s => match parseBool s with
          | some b => .ok (.bool b)
          | none => .error .valueError
        | _ => .error .valueError
      else match superOf ts tyName with
        | some sup => parsePrimValue ts fuel sup v
        | none => .error .valueError

/-- first pass over one FS element: `_parse_feature_structure` -/
def parseFsElem (K : Consts) (ts : TypeSystem) (tsIdx : Nat) (hp : Heap) (e : XElem) : Except Err (Heap × Int × Nat) := do
  let t ← getTypeExact ts e.ty
  let kids := groupKids e.kids []
  -- attributes.update(children): children override attributes of the same name, keeping dict positions
  let rawAttrs : List (String × Val) := e.attrs.map (fun p => (p.1, Val.str p.2))
  let merged : List (String × Val) := kids.foldl (fun acc p => alistSet acc p.1 (Val.strs p.2)) rawAttrs
  let idV ← match alistGet? merged ID with
    | some (.str s) => parseIntE s
    | _ => throw Err.keyError
  let merged := merged.filter (fun p => p.1 != ID)
  let intify := fun (m : List (String × Val)) (n : String) =>
    match alistGet? m n with
    | some (.str s) => (parseIntE s).map (fun i => alistSet m n (Val.int i))
    | some (.strs _) => Except.error Err.typeError
    | _ => Except.ok m
  let merged ← intify merged "sofa"
  let rename := fun (m : List (String × Val)) (o n : String) => m.map (fun p => if p.1 == o then (n, p.2) else p)
  let merged := rename (rename merged "self" "self_") "type" "type_"
  -- child elements of primitive array / list range become array objects / linked lists at once
  let (hp, merged) ←
    if isPrimitiveArray K e.ty then pure (hp, merged)
    else kids.foldlM (fun (acc : Heap × List (String × Val)) (p : String × List (Option String)) => do
      let pn := if p.1 == "self" || p.1 == "type" then p.1 ++ "_" else p.1
      let f ← match getFeature t pn with
        | some f => pure f
        | none => throw Err.attributeError
      if isPrimitiveArray K f.range then
        let arr : Obj := { ty := f.range, ts := tsIdx, xid := none, slots := [("elements", Val.strs p.2)] }
        pure (acc.1 ++ [arr], alistSet acc.2 pn (Val.ref acc.1.length))
      else if isPrimitiveList K f.range then
        let (hp', a) ← buildPrimList acc.1 tsIdx f.range p.2
        pure (hp', alistSet acc.2 pn (Val.ref a))
      else pure acc) (hp, merged)
  let o ← construct t tsIdx (some idV) merged
  pure (hp ++ [o], idV, hp.length)

/-- `_parse_fs_list`: a chain of NonEmptyFSList / EmptyFSList nodes over the referenced structures -/
def buildFsList (hp : Heap) (tsIdx : Nat) (targets : List Nat) : Heap × Nat :=
  let hp0 := hp ++ [{ ty := "uima.cas.EmptyFSList", ts := tsIdx, xid := none, slots := [] }]
  let step := fun (acc : Heap × Nat) (t : Nat) =>
    (acc.1 ++ [{ ty := "uima.cas.NonEmptyFSList", ts := tsIdx, xid := none,
                 slots := [("head", Val.ref t), ("tail", Val.ref acc.2)] }], acc.1.length)
  targets.reverse.foldl step (hp0, hp.length)

def lookupFs (fss : List (Int × Nat)) (i : Int) : Except Err Nat :=
  match fss.find? (fun p => p.1 == i) with
  | some p => .ok p.2
  | none => .error .keyError

def resolveIds (fss : List (Int × Nat)) : List String → Except Err (List Nat)
  | [] => .ok []
  | s :: ss => do
    let i ← parseIntE s
    let a ← lookupFs fss i
    let as ← resolveIds fss ss
    pure (a :: as)

/-- the post-processing of one feature of one parsed structure (second pass) -/
def postFeature (K : Consts) (ts : TypeSystem) (tsIdx ci : Nat) (sofas : List (Int × PSofa)) (fss : List (Int × Nat))
    (hp : Heap) (a : Nat) (tyName : String) (isStrArr : Bool) (f : Feature) : Except Err Heap := do
  let v := (slot hp a f.name).getD .none
  let multi := f.multi.getD false
  if f.name == "sofa" then
    match v with
    | .int i =>
      match sofas.find? (fun p => p.1 == i) with
      | some p => Heap.setSlot hp a "sofa" (.sofa ci p.2.sofaID)
      | none => throw .keyError
    | .none => pure hp                       -- a structure that is not indexed need not have a sofa
    | _ => throw .keyError
  else if isStrArr then
    if f.name == "elements" && v == .none then Heap.setSlot hp a "elements" (.refs []) else pure hp
  else if isPrimitive K ts f.range then do
    let v' ← parsePrimValue ts (ts.types.length + 1) f.range v
    Heap.setSlot hp a f.name v'
  else if isPrimitiveArray K tyName && f.name == "elements" then
    match v with
    | .none => pure hp
    | .str s => do
      let ev ← parsePrimArrayStr tyName s
      Heap.setSlot hp a "elements" ev
    | _ => pure hp
  else if isPrimitiveArray K f.range && !multi then
    match v with
    | .str s => do
      let ev ← parsePrimArrayStr f.range s
      let arr : Obj := { ty := f.range, ts := tsIdx, xid := none, slots := [("elements", ev)] }
      Heap.setSlot (hp ++ [arr]) a f.name (.ref hp.length)
    | _ => pure hp
  else if isPrimitiveList K f.range && !multi then
    match v with
    | .str s => do
      let (hp', l) ← buildPrimList hp tsIdx f.range ((splitWs s).map some)
      Heap.setSlot hp' a f.name (.ref l)
    | _ => pure hp
  else
    match v with
    | .none => pure hp
    | _ =>
      if tyName == FS_ARRAY || (f.range == FS_ARRAY && !multi) then
        match v with
        | .str s => do
          let targets ← resolveIds fss (splitWs s)
          if f.range == FS_ARRAY then
            let arr : Obj := { ty := FS_ARRAY, ts := tsIdx, xid := none, slots := [("elements", .refs (targets.map some))] }
            Heap.setSlot (hp ++ [arr]) a f.name (.ref hp.length)
          else Heap.setSlot hp a f.name (.refs (targets.map some))
        | _ => throw .attributeError
      else if f.range == FS_LIST && !multi then
        match v with
        | .str s => do
          let targets ← resolveIds fss (splitWs s)
          let (hp', l) := buildFsList hp tsIdx targets
          Heap.setSlot hp' a f.name (.ref l)
        | .strs l => do
          let targets ← resolveIds fss (l.map (fun x => x.getD "None"))
          let (hp', l') := buildFsList hp tsIdx targets
          Heap.setSlot hp' a f.name (.ref l')
        | _ => pure hp
      else
        match v with
        | .str s => do
          let i ← parseIntE s
          let t ← lookupFs fss i
          Heap.setSlot hp a f.name (.ref t)
        | .int i => do
          let t ← lookupFs fss i
          Heap.setSlot hp a f.name (.ref t)
        | _ => throw .typeError

def postFeatures (K : Consts) (ts : TypeSystem) (tsIdx ci : Nat) (sofas : List (Int × PSofa)) (fss : List (Int × Nat))
    (a : Nat) (tyName : String) (isStrArr : Bool) : List Feature → Heap → Except Err Heap
  | [], hp => .ok hp
  | f :: fs, hp => do
    let hp' ← postFeature K ts tsIdx ci sofas fss hp a tyName isStrArr f
    postFeatures K ts tsIdx ci sofas fss a tyName isStrArr fs hp'

def postAll (K : Consts) (ts : TypeSystem) (tsIdx ci : Nat) (sofas : List (Int × PSofa)) (fss : List (Int × Nat)) :
    List (Int × Nat) → Heap → Except Err Heap
  | [], hp => .ok hp
  | (_, a) :: rest, hp => do
    let o ← match hp[a]? with
      | some o => pure o
      | none => throw Err.attributeError
    let t ← getType ts o.ty
    let hp' ← postFeatures K ts tsIdx ci sofas fss a o.ty (isInstanceOf ts o.ty STRING_ARRAY) (allFeatures t) hp
    postAll K ts tsIdx ci sofas fss rest hp'

/-- state of the first pass -/
structure Pass1 where
  sofas : List (Int × PSofa) := []
  views : List (Int × PView) := []
  fss : List (Int × Nat) := []           -- `feature_structures`: xmi:id ↦ heap address
  lenientIds : List Int := []
  heap : Heap
  maxId : Int := 0
  maxNum : Int := 0

def pass1 (K : Consts) (ts : TypeSystem) (tsIdx : Nat) (lenient : Bool) : List XElem → Pass1 → Except Err Pass1
  | [], s => .ok s
  | e :: es, s =>
    if e.ty == SOFA then do
      let p ← parseSofa e
      pass1 K ts tsIdx lenient es { s with sofas := alistSetI s.sofas p.xid p, maxId := max s.maxId p.xid, maxNum := max s.maxNum p.num }
    else if e.ty == VIEW_T then do
      let v ← parseView e
      pass1 K ts tsIdx lenient es { s with views := alistSetI s.views v.sofa v }
    else
      match parseFsElem K ts tsIdx s.heap e with
      | .ok (hp, i, a) => pass1 K ts tsIdx lenient es { s with heap := hp, fss := alistSetI s.fss i a, maxId := max s.maxId i }
      | .error .typeNotFound =>
        if lenient then
          let ids := match (attr e ID).bind parseInt with | some i => [i] | none => []
          pass1 K ts tsIdx lenient es { s with lenientIds := s.lenientIds ++ ids }
        else .error .typeNotFound
      | .error err => .error err
where
  alistSetI {β} (l : List (Int × β)) (k : Int) (v : β) : List (Int × β) :=
    match l with
    | [] => [(k, v)]
    | (k', v') :: rest => if k' == k then (k, v) :: rest else (k', v') :: alistSetI rest k v

/-- external → internal offsets of one annotation through the converter of a sofa -/
def convertOffsets (conv : Offsets.Conv) (hp : Heap) (a : Nat) : Except Err Heap := do
  let cv := fun (v : Val) => match v with
    | .int i => Val.int (if i < 0 then i else (Offsets.externalToPython conv i.toNat : Nat))
    | other => other
  let hp1 ← match slot hp a "begin" with
    | some v => Heap.setSlot hp a "begin" (cv v)
    | none => throw Err.attributeError
  match slot hp1 a "end" with
  | some v => Heap.setSlot hp1 a "end" (cv v)
  | none => throw Err.attributeError

def convOfText (t : Option String) : Offsets.Conv :=
  match t with
  | some s => if s.isEmpty then none else some (Offsets.table (s.toList.map Char.toNat))
  | none => none

/-- state of the third pass: the CAS under construction, the heap, the ids whose offsets were converted -/
structure Build where
  cas : Cas
  heap : Heap
  converted : List Int := []
  memberSofas : List (Int × Val) := []     -- first-seen `sofa` value of every member that has one

/-- the converter of the sofa a member points to (the document's `sofa` attribute), else the one of the view at hand -/
def ownConv (sofas : List (Int × PSofa)) (conv : Offsets.Conv) (own : Option Val) : Offsets.Conv :=
  match own with
  | some (.sofa _ vn) =>
    match sofas.find? (fun q => q.2.sofaID == vn) with
    | some q => convOfText q.2.text
    | none => conv
  | _ => conv

/-- index the members of one view (ids remembered as dropped by a lenient first pass are skipped); a structure that
    is a member of several views has its offsets mapped once, with the text of the sofa the document names -/
def addMembers (ts : TypeSystem) (ci : Nat) (h : Handle) (conv : Offsets.Conv) (sofas : List (Int × PSofa))
    (lenientIds : List Int) (fss : List (Int × Nat)) : List Int → Build → Except Err Build
  | [], b => .ok b
  | m :: ms, b =>
    if lenientIds.contains m then addMembers ts ci h conv sofas lenientIds fss ms b
    else
      match lookupFs fss m with
      | .error e => .error e
      | .ok a =>
        match b.heap[a]? with
        | none => .error .attributeError
        | some o =>
          let (own, ms') : Option Val × List (Int × Val) :=
            match b.memberSofas.find? (fun q => q.1 == m) with
            | some q => (some q.2, b.memberSofas)
            | none =>
              match slot b.heap a "sofa" with
              | some v => (some v, b.memberSofas ++ [(m, v)])
              | none => (none, b.memberSofas)
          let r : Except Err (Heap × List Int) :=
            if !(b.converted.contains m) && isInstanceOf ts o.ty ANNOTATION then
              match convertOffsets (ownConv sofas conv own) b.heap a with
              | .error e => .error e
              | .ok hp' => .ok (hp', b.converted ++ [m])
            else .ok (b.heap, b.converted)
          match r with
          | .error e => .error e
          | .ok (hp1, cv1) =>
            match Cas.add ts ci b.cas hp1 h a true with
            | .error e => .error e
            | .ok (c', hp2) =>
              addMembers ts ci h conv sofas lenientIds fss ms { cas := c', heap := hp2, converted := cv1, memberSofas := ms' }

/-- create / fill the view of one sofa and index its members -/
def buildView (ts : TypeSystem) (ci : Nat) (lenient : Bool) (p : Pass1) (s : PSofa) (b : Build) : Except Err Build :=
  let h0 : Handle := { view := Cas.INITIAL_VIEW, lenient := lenient }
  let h : Handle := { view := s.sofaID, lenient := lenient }
  let c1 : Except Err Cas :=
    if s.sofaID == Cas.INITIAL_VIEW then
      Cas.updSofa b.cas h0 (fun so => { so with xid := s.xid, sofaNum := s.num })
    else
      match Cas.createView b.cas h0 s.sofaID (some s.xid) (some s.num) with
      | .error e => .error e
      | .ok (c', _) => .ok c'
  match c1 with
  | .error e => .error e
  | .ok c1 =>
    let conv := convOfText s.text
    match Cas.updSofa c1 h (fun so => { so with text := s.text.map (fun t => t.toList.map Char.toNat), conv := conv, mime := s.mime }) with
    | .error e => .error e
    | .ok c2 =>
      let members := match p.views.find? (fun q => q.1 == s.xid) with
        | some q => q.2.members
        | none => []
      addMembers ts ci h conv p.sofas p.lenientIds p.fss members { b with cas := c2 }

def buildViews (ts : TypeSystem) (ci : Nat) (lenient : Bool) (p : Pass1) : List (Int × PSofa) → Build → Except Err Build
  | [], b => .ok b
  | (_, s) :: rest, b =>
    match buildView ts ci lenient p s b with
    | .error e => .error e
    | .ok b' => buildViews ts ci lenient p rest b'

/-- annotations that are only referenced: their offsets are converted with the text of the sofa they point to -/
def convertReferenced (ts : TypeSystem) (p : Pass1) (converted : List Int) : List (Int × Nat) → Heap → Except Err Heap
  | [], heap => .ok heap
  | (i, a) :: rest, heap =>
    if converted.contains i then convertReferenced ts p converted rest heap
    else
      match heap[a]? with
      | none => .error .attributeError
      | some o =>
        if isInstanceOf ts o.ty ANNOTATION then
          match slot heap a "sofa" with
          | some (.sofa _ vn) =>
            match p.sofas.find? (fun q => q.2.sofaID == vn) with
            | some q =>
              match convertOffsets (convOfText q.2.text) heap a with
              | .error e => .error e
              | .ok heap' => convertReferenced ts p converted rest heap'
            | none => convertReferenced ts p converted rest heap
          | _ => convertReferenced ts p converted rest heap
        else convertReferenced ts p converted rest heap

/-- members get back the sofa the document names for them (`view.add` pointed them to the view read last) -/
def rehome (fss : List (Int × Nat)) : List (Int × Val) → Heap → Except Err Heap
  | [], heap => .ok heap
  | (m, v) :: rest, heap =>
    match v with
    | .sofa _ _ =>
      match lookupFs fss m with
      | .error e => .error e
      | .ok a =>
        match Heap.setSlot heap a "sofa" v with
        | .error e => .error e
        | .ok heap' => rehome fss rest heap'
    | _ => rehome fss rest heap

/-- third pass: build the CAS, its views and indexes -/
def buildCas (_K : Consts) (ts : TypeSystem) (ci : Nat) (lenient : Bool) (p : Pass1) (hp : Heap) : Except Err Loaded :=
  match buildViews ts ci lenient p p.sofas { cas := Cas.empty, heap := hp } with
  | .error e => .error e
  | .ok b0 =>
    match rehome p.fss b0.memberSofas b0.heap with
    | .error e => .error e
    | .ok hpR =>
    let b : Build := { b0 with heap := hpR }
    match convertReferenced ts p b.converted p.fss b.heap with
    | .error e => .error e
    | .ok heap => .ok { cas := { b.cas with nextXid := p.maxId + 1, nextSofaNum := p.maxNum + 1 }, heap := heap }

/-- `CasXmiDeserializer.deserialize` -/
def loadXmi (K : Consts) (ts : TypeSystem) (tsIdx ci : Nat) (lenient : Bool) (hp : Heap) (doc : XDoc) : Except Err Loaded := do
  let p ← pass1 K ts tsIdx lenient doc { heap := hp }
  let hp2 ← postAll K ts tsIdx ci p.sofas p.fss p.fss p.heap
  buildCas K ts ci lenient p hp2

end Cassis.Xmi
