/-
Model of feature-structure instances (`cassis/typesystem.py:397-500`, `FeatureStructure` and the
classes `attr.make_class` builds per type): a heap of objects with slots, `getattr`/`setattr`,
feature paths (`get`/`set`/`__getitem__`/`__setitem__`).
-/
import CassisModel.Model.TypeSystem

namespace Cassis

/-- Python values that can sit in a slot -/
inductive Val where
  | none
  | int (i : Int)
  | str (s : String)
  | bool (b : Bool)
  | float (tok : String)                 -- canonical token of a float; opaque to the model
  | ref (a : Nat)                        -- a feature structure (heap address)
  | sofa (cas : Nat) (view : String)     -- a `Sofa` object (owned by a view of a CAS)
  | refs (l : List (Option Nat))         -- Python list of FS / None (FSArray elements)
  | ints (l : List Int)                  -- list of ints (also bytes)
  | floats (l : List String)
  | bools (l : List Bool)
  | strs (l : List (Option String))
  | attr (tag : String)                  -- a non-feature attribute (bound method, `type`, …)
deriving Repr, DecidableEq, Inhabited

structure Obj where
  ty : String                            -- `fs.type.name`
  ts : Nat                               -- the type system instance owning `fs.type`
  xid : Option Int                       -- `fs.xmiID`
  slots : List (String × Val)            -- one slot per constructor field, in field order
deriving Repr, DecidableEq, Inhabited

abbrev Heap := List Obj

/-- `T(**kwargs)`: the attrs-generated class accepts exactly the feature names of `all_features`
    (plus `xmiID` and `type`, passed separately here); every other keyword is a `TypeError`.
    Slots are created for every field, defaulting to `None`. -/
def construct (t : TS.TypeRec) (tsIdx : Nat) (xid : Option Int) (kwargs : List (String × Val)) : Except Err Obj :=
  let fields := (TS.ctorFields t).eraseDups
  if kwargs.any (fun p => !(fields.contains p.1)) then .error .typeError
  else .ok { ty := t.name, ts := tsIdx, xid := xid,
             slots := fields.map (fun n => (n, (alistGet? kwargs n).getD .none)) }

namespace Heap

/-- names every instance answers to besides its feature slots: `type`, `xmiID` and the methods
    and dunder attributes of `FeatureStructure` (regenerated list: `Gen/Builtins.lean` `reservedAttrs`) -/
def getattr (RA : List String) (h : Heap) (a : Nat) (name : String) : Option Val :=
  match h[a]? with
  | none => none
  | some o =>
    match alistGet? o.slots name with
    | some v => some v
    | none =>
      if name == "xmiID" then some (match o.xid with | some i => .int i | none => .none)
      else if RA.contains name then some (.attr name)
      else none

/-- `setattr(obj, name, v)`: slots classes reject unknown names (`AttributeError`) -/
def setSlot (h : Heap) (a : Nat) (name : String) (v : Val) : Except Err Heap :=
  match h[a]? with
  | none => .error .attributeError
  | some o =>
    match alistGet? o.slots name with
    | some _ => .ok (h.set a { o with slots := alistSet o.slots name v })
    | none =>
      if name == "xmiID" then
        match v with
        | .int i => .ok (h.set a { o with xid := some i })
        | .none => .ok (h.set a { o with xid := none })
        | _ => .error .typeError
      else .error .attributeError

/-- one step of `FeatureStructure.get`: `cur = getattr(cur, part, None)`.
    `ext` answers for values that are not feature structures (sofa objects, Python primitives). -/
def stepGet (RA : List String) (ext : Val → String → Val) (h : Heap) (cur : Val) (part : String) : Val :=
  match cur with
  | .ref a => (getattr RA h a part).getD .none
  | v => ext v part

/-- `fs.get(path)` over the already split path -/
def getPath (RA : List String) (ext : Val → String → Val) (h : Heap) (a : Nat) (parts : List String) : Val :=
  let rec go : Val → List String → Val
    | cur, [] => cur
    | cur, p :: ps =>
      match stepGet RA ext h cur p with
      | .none => .none
      | v => go v ps
  go (.ref a) parts

/-- `fs.set(path, v)` over the already split, non-empty path -/
def setPath (RA : List String) (ext : Val → String → Val) (h : Heap) (a : Nat) (parts : List String) (v : Val) : Except Err Heap :=
  match parts.reverse with
  | [] => .error .attributeError
  | last :: revPrefix =>
    match revPrefix with
    | [] => setSlot h a last v
    | _ =>
      match getPath RA ext h a revPrefix.reverse with
      | .ref t => setSlot h t last v
      | .none => .error .attributeError
      | _ => .error .attributeError     -- `setattr` on a non-FS value

end Heap
end Cassis
