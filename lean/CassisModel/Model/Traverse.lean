/-
Model of `Cas._find_all_fs` (`cassis/cas.py:719-818`, with the two repairs: skip at pop time,
advance in the inline-FSList walk), `Cas.typecheck` (`:704-717`) and `TypeSystem.typecheck`
(`typesystem.py:1157-1185`).  Every loop carries a counter so that step counts can be compared with
the implementation (`sys.monitoring` LINE events) and bounded by theorems (C15).
-/
import CassisModel.Model.Cas

namespace Cassis.Traverse

open Cassis.TS

structure St where
  heap : Heap
  nextXid : Int
  allFs : List (Int × Nat) := []      -- `all_fs`: xmi:id ↦ object, insertion order
  openl : List Nat := []              -- `openlist`
  pops : Nat := 0                     -- iterations of `while openlist`
  pushes : Nat := 0                   -- `openlist.append`
  listSteps : Nat := 0                -- iterations of the inline-FSList `while`
deriving Repr, Inhabited

def xidOf (hp : Heap) (a : Nat) : Option Int := (hp[a]?).bind (·.xid)

/-- `all_fs.get(ref.xmiID) is ref`: the structure at address `a`, carrying id `x`, was already collected -/
def seenId (allFs : List (Int × Nat)) (x : Option Int) (a : Nat) : Bool :=
  match x with
  | none => false
  | some i => match allFs.find? (fun p => p.1 == i) with
    | some p => p.2 == a
    | none => false

/-- `for ref in elements: if not ref or ref.xmiID in all_fs: continue; openlist.append(ref)` -/
def refsToPush (hp : Heap) (allFs : List (Int × Nat)) (refs : List (Option Nat)) : List Nat :=
  refs.filterMap (fun r => match r with
    | none => none
    | some a => if seenId allFs (xidOf hp a) a then none else some a)

def slot (hp : Heap) (a : Nat) (name : String) : Option Val := (hp[a]?).bind (fun o => alistGet? o.slots name)

/-- the inline FSList walk: `while hasattr(v, "head"): …; v = v.tail`.
    Returns the heads to push and the number of iterations; `none` = fuel exhausted (cyclic spine). -/
def walkList (hp : Heap) (allFs : List (Int × Nat)) : Nat → Val → Option (List Nat × Nat)
  | 0, _ => none
  | f+1, .ref a =>
    match slot hp a "head" with
    | none => some ([], 0)
    | some hd =>
      let tl := (slot hp a "tail").getD .none
      match walkList hp allFs f tl with
      | none => none
      | some (ps, n) =>
        let p := match hd with
          | .ref t => if seenId allFs (xidOf hp t) t then [] else [t]
          | _ => []
        some (p ++ ps, n + 1)
  | _, _ => some ([], 0)

/-- options of `_find_all_fs` -/
structure Opts where
  generateIds : Bool := true
  includeInlinable : Bool := false

/-- what one feature of the popped FS contributes: addresses to push and list-walk steps -/
def featureSuccs (K : Consts) (ts : TypeSystem) (o : Opts) (hp : Heap) (allFs : List (Int × Nat)) (fuel : Nat)
    (a : Nat) (f : Feature) : Except Err (List Nat × Nat) :=
  if f.name == "sofa" then .ok ([], 0)
  else if isPrimitive K ts f.range then .ok ([], 0)
  else
    match slot hp a f.name with
    | none => .ok ([], 0)                     -- instance created before the feature was added: `getattr(fs, name, None)`
    | some .none => .ok ([], 0)
    | some v =>
      if !o.includeInlinable && !(f.multi.getD false) && (isArray K f.range || isList K f.range) then
        if f.range == FS_ARRAY then
          match v with
          | .ref arr =>
            match slot hp arr "elements" with
            | some (.refs l) => .ok (refsToPush hp allFs l, 0)
            | _ => .ok ([], 0)
          | _ => .error .attributeError
        else if f.range == FS_LIST then
          match walkList hp allFs fuel v with
          | some r => .ok r
          | none => .error .outOfFuel
        else .ok ([], 0)
      else
        match v with
        | .ref t => if seenId allFs (xidOf hp t) t then .ok ([], 0) else .ok ([t], 0)
        | _ => .error .attributeError         -- "should point to a […] but the feature value is a […]"

def featuresSuccs (K : Consts) (ts : TypeSystem) (o : Opts) (hp : Heap) (allFs : List (Int × Nat)) (fuel : Nat)
    (a : Nat) : List Feature → Except Err (List Nat × Nat)
  | [] => .ok ([], 0)
  | f :: fs => do
    let (p1, n1) ← featureSuccs K ts o hp allFs fuel a f
    let (p2, n2) ← featuresSuccs K ts o hp allFs fuel a fs
    pure (p1 ++ p2, n1 + n2)

/-- what the popped FS at `a` (of registered type `t`) contributes: addresses to push, list-walk steps -/
def nodeSuccs (K : Consts) (ts : TypeSystem) (o : Opts) (hp : Heap) (allFs : List (Int × Nat)) (fuel : Nat)
    (a : Nat) (t : TypeRec) : Except Err (List Nat × Nat) :=
  if t.super == some ARRAY_BASE then
    if t.name == FS_ARRAY then
      match slot hp a "elements" with
      | some (.refs l) => .ok (refsToPush hp allFs l, 0)
      | _ => .ok ([], 0)
    else .ok ([], 0)
  else featuresSuccs K ts o hp allFs fuel a (allFeatures t)

/-- one iteration of `while openlist` on the popped address `a` -/
def step (K : Consts) (ts : TypeSystem) (o : Opts) (fuel : Nat) (s : St) (a : Nat) (rest : List Nat) :
    Except Err St := do
  let s := { s with openl := rest, pops := s.pops + 1 }
  let ob ← match s.heap[a]? with
    | some ob => pure ob
    | none => throw .attributeError
  if ob.xid == some 0 then return s
  -- assign a missing id
  let (x, s) ← match ob.xid with
    | some x => pure (x, s)
    | none =>
      if o.generateIds then
        pure (s.nextXid, { s with nextXid := s.nextXid + 1,
                                  heap := s.heap.set a { ob with xid := some s.nextXid } })
      else throw .valueError
  match s.allFs.find? (fun p => p.1 == x) with
  | some (_, b) =>
    if b == a then return s                -- already processed
    else throw .valueError                 -- duplicate id
  | none =>
    let s := { s with allFs := s.allFs ++ [(x, a)] }
    let t ← getType ts ob.ty
    let (ps, n) ← nodeSuccs K ts o s.heap s.allFs fuel a t
    return { s with openl := s.openl ++ ps, pushes := s.pushes + ps.length, listSteps := s.listSteps + n }

/-- the worklist loop; `fuel` bounds the number of iterations -/
def run (K : Consts) (ts : TypeSystem) (o : Opts) (listFuel : Nat) : Nat → St → Except Err St
  | 0, s => if s.openl.isEmpty then .ok s else .error .outOfFuel
  | f+1, s =>
    match s.openl with
    | [] => .ok s
    | a :: rest => do
      let s' ← step K ts o listFuel s a rest
      run K ts o listFuel f s'

/-- seeds when none are given: `select_all()` of every view, in `cas.sofas` order -/
def defaultSeeds (c : Cas) : List Nat := c.views.flatMap (fun p => (Index.all p.2.idx).map (·.oid))

/-- everything the FS at `a` can ever contribute to the open list: its successors computed against an
    empty visited map (references it holds directly or through its inlined arrays and lists) -/
def outdeg (K : Consts) (ts : TypeSystem) (o : Opts) (hp : Heap) (listFuel : Nat) (a : Nat) : Nat :=
  match hp[a]? with
  | none => 0
  | some ob =>
    match getType ts ob.ty with
    | .error _ => 0
    | .ok t =>
      match nodeSuccs K ts o hp [] listFuel a t with
      | .ok (ps, _) => ps.length
      | .error _ => 0

def totalOut (K : Consts) (ts : TypeSystem) (o : Opts) (hp : Heap) (listFuel : Nat) : Nat :=
  ((List.range hp.length).map (outdeg K ts o hp listFuel)).sum

/-- `_find_all_fs`: the fuel is the proved iteration bound `|seeds| + Σ outdeg` (C15) -/
def findAllFs (K : Consts) (ts : TypeSystem) (o : Opts) (hp : Heap) (nextXid : Int) (seeds : List Nat) :
    Except Err St :=
  let lf := hp.length + 1
  let fuel := seeds.length + totalOut K ts o hp lf
  run K ts o lf fuel { heap := hp, nextXid := nextXid, openl := seeds }

/-! ### typecheck -/

/-- the inner loop of `TypeSystem.typecheck`: one error (carrying the owner's id) per non-null element whose
    type is not subsumed by the declared element type; an element of an unregistered type raises -/
def elemErrors (ts : TypeSystem) (hp : Heap) (elemTy : String) (owner : Option Int) :
    List (Option Nat) → Except Err (List (Option Int))
  | [] => .ok []
  | none :: rest => elemErrors ts hp elemTy owner rest
  | some ea :: rest =>
    match hp[ea]? with
    | none => .error .attributeError
    | some eo =>
      match getType ts eo.ty with            -- `self.get_type(child)`
      | .error e => .error e
      | .ok et =>
        match elemErrors ts hp elemTy owner rest with
        | .error e => .error e
        | .ok r => .ok (if subsumes ts elemTy et.name then r else owner :: r)

/-- the outer loop over `t.all_features`: only features whose range is `uima.cas.FSArray` are looked at -/
def featErrors (ts : TypeSystem) (hp : Heap) (a : Nat) (owner : Option Int) :
    List Feature → Except Err (List (Option Int))
  | [] => .ok []
  | f :: fs =>
    if f.range == FS_ARRAY then
      match slot hp a f.name with
      | none => featErrors ts hp a owner fs   -- instance created before the feature was added: `getattr(fs, name, None)`
      | some (.ref arr) =>
        match slot hp arr "elements" with
        | some (.refs l) =>
          match elemErrors ts hp (f.elem.getD TOP) owner l with
          | .error e => .error e
          | .ok r1 =>
            match featErrors ts hp a owner fs with
            | .error e => .error e
            | .ok r2 => .ok (r1 ++ r2)
        | _ => featErrors ts hp a owner fs    -- unset / empty / non-reference elements: nothing to check
      | some .none => featErrors ts hp a owner fs -- feature unset (`None`)
      | some _ => .error .attributeError       -- a non-FS value has no `elements`
    else featErrors ts hp a owner fs

/-- `TypeSystem.typecheck(fs)`: the list of errors, each represented by the `xmiID` it carries -/
def typecheckFs (ts : TypeSystem) (hp : Heap) (a : Nat) : Except Err (List (Option Int)) :=
  match hp[a]? with
  | none => .error .attributeError
  | some ob =>
    match getType ts ob.ty with
    | .error e => .error e
    | .ok t => featErrors ts hp a ob.xid (allFeatures t)

def typecheckAll (ts : TypeSystem) (hp : Heap) : List Nat → Except Err (List (Option Int))
  | [] => .ok []
  | a :: rest =>
    match typecheckFs ts hp a with
    | .error e => .error e
    | .ok r1 =>
      match typecheckAll ts hp rest with
      | .error e => .error e
      | .ok r2 => .ok (r1 ++ r2)

/-- `Cas.typecheck()`: over everything `_find_all_fs` collects -/
def typecheckCas (K : Consts) (ts : TypeSystem) (c : Cas) (hp : Heap) : Except Err (St × List (Option Int)) :=
  match findAllFs K ts {} hp c.nextXid (defaultSeeds c) with
  | .error e => .error e
  | .ok s =>
    match typecheckAll ts s.heap (s.allFs.map (·.2)) with
    | .error e => .error e
    | .ok errs => .ok (s, errs)

end Cassis.Traverse
