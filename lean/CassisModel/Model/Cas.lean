/-
Model of `cassis/cas.py:103-146` (`Sofa`), `:204-387` (`Cas`: views, handles, add/remove),
`:403-530` (`select*`, `get_document_annotation`), `:820-833` (`IdGenerator`s, `_copy`),
and of `FeatureStructure.get_covered_text` (`typesystem.py:408-424`).

One `Cas` value is the state *shared* by all handles (`_views`, `_sofas`, the two id generators);
a handle is `(view name, lenient)`.  All methods take the shared state and a handle.
-/
import CassisModel.Model.Offsets
import CassisModel.Model.Index
import CassisModel.Model.Heap

namespace Cassis

structure Sofa where
  sofaID : String
  sofaNum : Int
  xid : Int
  text : Option (List Nat) := none      -- code points
  mime : Option String := none
  uri : Option String := none
  arr : Val := .none
  conv : Offsets.Conv := none
deriving Repr, DecidableEq, Inhabited

structure View where
  sofa : Sofa
  idx : Index.Idx := []
deriving Repr, DecidableEq, Inhabited

structure Cas where
  views : List (String × View)          -- `_views` / `_sofas` (same keys, same order)
  nextXid : Int := 1
  nextSofaNum : Int := 1
deriving Repr, DecidableEq, Inhabited

structure Handle where
  view : String
  lenient : Bool
deriving Repr, DecidableEq, Inhabited

namespace Cas

def INITIAL_VIEW : String := "_InitialView"

def getViewRec (c : Cas) (n : String) : Option View := alistGet? c.views n

def setViewRec (c : Cas) (n : String) (v : View) : Cas := { c with views := alistSet c.views n v }

/-- `_add_view` -/
def addView (c : Cas) (name : String) (xid : Option Int) (num : Option Int) : Cas :=
  let (x, c1) := match xid with
    | some x => (x, c)
    | none => (c.nextXid, { c with nextXid := c.nextXid + 1 })
  let (n, c2) := match num with
    | some n => (n, c1)
    | none => (c1.nextSofaNum, { c1 with nextSofaNum := c1.nextSofaNum + 1 })
  setViewRec c2 name { sofa := { sofaID := name, sofaNum := n, xid := x } }

/-- `Cas(typesystem, lenient)` without text/language: the initial view consumes id 1 and sofaNum 1 -/
def empty : Cas := addView { views := [] } INITIAL_VIEW none none

/-- `create_view`: the returned handle is a `_copy` of the calling one -/
def createView (c : Cas) (h : Handle) (name : String) (xid : Option Int := none) (num : Option Int := none) :
    Except Err (Cas × Handle) :=
  if (getViewRec c name).isSome then .error .valueError
  else .ok (addView c name xid num, { h with view := name })

/-- `get_view` -/
def getView (c : Cas) (h : Handle) (name : String) : Except Err Handle :=
  if (getViewRec c name).isSome then .ok { h with view := name } else .error .keyError

/-- the view a handle points to (handles are only ever created for existing views) -/
def cur (c : Cas) (h : Handle) : Except Err View :=
  match getViewRec c h.view with
  | some v => .ok v
  | none => .error .keyError

/-- `_sort_func`: index entry of a heap object -/
def entryOf (o : Obj) (addr : Nat) : Except Err Index.Entry :=
  match alistGet? o.slots "begin", alistGet? o.slots "end" with
  | some b, some e =>
    match b, e with
    | .int b, .int e => .ok { b := b, e := e, oid := addr }
    | .none, .none => .ok { b := Index.NONE_KEY, e := Index.NONE_KEY, oid := addr }
    | _, _ => .error .typeError            -- other combinations are not modelled
  | _, _ => .ok { b := Index.MAXSIZE, e := Index.MAXSIZE, oid := addr }

/-- `Cas.add(annotation, keep_id)` -/
def add (ts : TS.TypeSystem) (cas : Nat) (c : Cas) (hp : Heap) (h : Handle) (addr : Nat) (keepId : Bool := true) :
    Except Err (Cas × Heap) := do
  let o ← match hp[addr]? with
    | some o => pure o
    | none => throw .attributeError
  if !h.lenient && !(TS.containsType ts o.ty) then throw .runtimeError
  let v ← cur c h
  let (x, c1) := match keepId, o.xid with
    | true, some x => (x, c)
    | _, _ => (c.nextXid, { c with nextXid := c.nextXid + 1 })
  let slots := if (alistGet? o.slots "sofa").isSome then alistSet o.slots "sofa" (.sofa cas h.view) else o.slots
  let o' : Obj := { o with xid := some x, slots := slots }
  let e ← entryOf o' addr
  -- `None < int` raises `TypeError` inside the sorted insertion
  if (Index.get v.idx o.ty).any (fun x => decide (x.b = Index.NONE_KEY) != decide (e.b = Index.NONE_KEY)) then
    throw .typeError
  let v' : View := { v with idx := Index.add v.idx o.ty e }
  pure (setViewRec c1 h.view v', hp.set addr o')

/-- `Cas.remove(annotation)`; the index is untouched when the call raises -/
def remove (c : Cas) (hp : Heap) (h : Handle) (addr : Nat) : Except Err Cas := do
  let o ← match hp[addr]? with
    | some o => pure o
    | none => throw .attributeError
  let v ← cur c h
  let e ← entryOf o addr
  match Index.rem v.idx o.ty e with
  | some idx' => pure (setViewRec c h.view { v with idx := idx' })
  | none => throw .valueError

/-- `select(type_)` for a type given by name (full or unique short name) -/
def select (ts : TS.TypeSystem) (c : Cas) (h : Handle) (tyName : String) : Except Err (List Index.Entry) := do
  let t ← TS.getType ts tyName
  let v ← cur c h
  pure (Index.selectNames v.idx (TS.descendantsOf ts t.name))

def selectCovered (ts : TS.TypeSystem) (c : Cas) (h : Handle) (tyName : String) (cb ce : Int) :
    Except Err (List Index.Entry) := do
  let t ← TS.getType ts tyName
  let v ← cur c h
  let names := TS.descendantsOf ts t.name
  -- comparing a `None` offset with the span raises `TypeError`
  if names.any (fun n => (Index.get v.idx n).any (fun x => x.b = Index.NONE_KEY)) then throw .typeError
  pure (Index.selectCoveredNames v.idx names cb ce)

def selectCovering (ts : TS.TypeSystem) (c : Cas) (h : Handle) (tyName : String) (cb ce : Int) :
    Except Err (List Index.Entry) := do
  let t ← TS.getType ts tyName
  let v ← cur c h
  let names := TS.descendantsOf ts t.name
  if names.any (fun n => (Index.get v.idx n).any (fun x => x.b = Index.NONE_KEY)) then throw .typeError
  pure (Index.selectCoveringNames v.idx names cb ce)

def selectAll (c : Cas) (h : Handle) : Except Err (List Index.Entry) := do
  let v ← cur c h
  pure (Index.all v.idx)

/-! ### Sofa data -/

def updSofa (c : Cas) (h : Handle) (f : Sofa → Sofa) : Except Err Cas := do
  let v ← cur c h
  pure (setViewRec c h.view { v with sofa := f v.sofa })

/-- `cas.sofa_string = value` (the `Sofa.sofaString` setter recomputes the mapping) -/
def setSofaString (c : Cas) (h : Handle) (t : Option (List Nat)) : Except Err Cas :=
  updSofa c h (fun s => { s with text := t, conv := Offsets.createMapping s.conv t })

def setSofaMime (c : Cas) (h : Handle) (m : Option String) : Except Err Cas :=
  updSofa c h (fun s => { s with mime := m })

def setSofaUri (c : Cas) (h : Handle) (u : Option String) : Except Err Cas :=
  updSofa c h (fun s => { s with uri := u })

def setSofaArray (c : Cas) (h : Handle) (a : Val) : Except Err Cas :=
  updSofa c h (fun s => { s with arr := a })

/-- `Cas(typesystem, lenient, sofa_string, sofa_mime)` -/
def new (text : Option (List Nat)) (mime : Option String) : Cas :=
  let c := empty
  let h : Handle := { view := INITIAL_VIEW, lenient := false }
  match text with
  | none => c
  | some t =>
    match setSofaString c h (some t) with
    | .error _ => c
    | .ok c1 =>
      match setSofaMime c1 h (some (mime.getD "text/plain")) with
      | .error _ => c1
      | .ok c2 => c2

/-- `get_document_annotation()`: the first selected instance of the DocumentAnnotation subtree if there
    is one (which one, with several subtypes indexed, follows set order in the code: the model takes the
    first in descendant order), else a new instance is created and indexed -/
def getDocumentAnnotation (ts : TS.TypeSystem) (tsIdx cas : Nat) (c : Cas) (hp : Heap) (h : Handle) :
    Except Err (Cas × Heap × Nat) := do
  let sel ← select ts c h TS.DOCUMENT_ANNOTATION
  match sel with
  | e :: _ => pure (c, hp, e.oid)
  | [] =>
    let t ← TS.getType ts TS.DOCUMENT_ANNOTATION
    let o ← construct t tsIdx none []
    let addr := hp.length
    let (c', hp') ← add ts cas c (hp ++ [o]) h addr true
    pure (c', hp', addr)

/-- `FeatureStructure.get_covered_text()` for non-negative int offsets -/
def coveredText (cass : List Cas) (hp : Heap) (addr : Nat) : Except Err (Option (List Nat)) := do
  let o ← match hp[addr]? with
    | some o => pure o
    | none => throw .attributeError
  match alistGet? o.slots "sofa", alistGet? o.slots "begin", alistGet? o.slots "end" with
  | some s, some b, some e =>
    match s with
    | .none => throw .noSofa
    | .sofa ci vn =>
      let sofa ← match cass[ci]? with
        | some c => match getViewRec c vn with
          | some v => pure v.sofa
          | none => throw .keyError
        | none => throw .keyError
      match sofa.text with
      | none => pure none
      | some t =>
        match b, e with
        | .int b, .int e =>
          if b < 0 || e < 0 then throw .notImplemented   -- negative slice indices are not modelled
          else pure (some (Offsets.slice t b.toNat e.toNat))
        | _, _ => throw .typeError
    | _ => throw .attributeError
  | _, _, _ => throw .notImplemented

end Cas
end Cassis
