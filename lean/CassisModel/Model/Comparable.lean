/-
Model of `cassis/util.py` (`cas_to_comparable_text` and its helpers).  The result is the table the
function writes, as structured sections/rows/cells; turning cells into CSV text (`csv.writer`,
`str(list)`) is Python's business and is re-done by the harness with the same stdlib calls.

`hsh` stands for `_feature_structure_hash` (Python's `hash()` of strings is seeded per process, so the
model cannot and need not compute it): it is consulted only to order structures of one type whose offsets
tie.
-/
import CassisModel.Model.Traverse
import CassisModel.Model.Lex

namespace Cassis.Comparable
open Cassis.TS Cassis.Traverse

/-- one CSV cell before `str()` -/
inductive Cell where
  | none                       -- Python `None` (written as an empty field)
  | int (i : Int)
  | float (tok : String)
  | bool (b : Bool)
  | str (s : String)
  | text (cps : List Nat)      -- covered text (code points)
  | list (l : List Cell)
deriving Repr, Inhabited

def NULL_VALUE : String := "<NULL>"

/-- `None` is shown as the string `<NULL>` (and cannot be told from a string with that content) -/
def Cell.null : Cell := .str NULL_VALUE

structure Section where
  tyName : String
  header : List String
  rows : List (List Cell)
deriving Repr, Inhabited

structure Opts where
  markIndexed : Bool := true
  coveredText : Bool := true
  exclude : List String := []
deriving Repr, Inhabited


def tyOf (hp : Heap) (a : Nat) : String := match hp[a]? with | some o => o.ty | none => ""

/-- `_is_annotation_fs`: has `begin` and `end`, both ints -/
def isAnnot (hp : Heap) (a : Nat) : Bool :=
  match slot hp a "begin", slot hp a "end" with
  | some (.int _), some (.int _) => true
  | _, _ => false

def beginOf (hp : Heap) (a : Nat) : Int := match slot hp a "begin" with | some (.int b) => b | _ => 0
def endOf (hp : Heap) (a : Nat) : Int := match slot hp a "end" with | some (.int e) => e | _ => 0

/-- `_is_array_fs` -/
def isArrayFs (K : Consts) (hp : Heap) (a : Nat) : Bool := isArray K (tyOf hp a)

/-- `_compare_fs` -/
def cmpFs (hp : Heap) (hsh : Nat → Int) (a b : Nat) : Int :=
  if a == b then 0
  else
    let aa := isAnnot hp a
    let ba := isAnnot hp b
    if aa != ba then -1
    else
      let c1 := if aa && ba then beginOf hp a - beginOf hp b else 0
      if c1 != 0 then c1
      else
        let c2 := if aa && ba then endOf hp b - endOf hp a else 0
        if c2 != 0 then c2
        else if hsh a == hsh b then 0 else if hsh a < hsh b then -1 else 1

/-- stable insertion: `x` goes before the first element it is smaller than -/
def insertFs (lt : Nat → Nat → Bool) (x : Nat) : List Nat → List Nat
  | [] => [x]
  | y :: ys => if lt x y then x :: y :: ys else y :: insertFs lt x ys

/-- `list.sort(key=cmp_to_key(cmp))` for a comparator that is a total preorder: every stable sort gives the
    same list -/
def sortFs (lt : Nat → Nat → Bool) (l : List Nat) : List Nat := l.foldl (fun acc x => insertFs lt x acc) []

def ltFs (hp : Heap) (hsh : Nat → Int) (a b : Nat) : Bool := cmpFs hp hsh a b < 0

def insertName (x : String) : List String → List String
  | [] => [x]
  | y :: ys => if x ≤ y then x :: y :: ys else y :: insertName x ys
def sortNames (l : List String) : List String := l.foldr insertName []

/-- `_group_feature_structures_by_type`: type names in order of first occurrence, members in list order -/
def typeKeys (hp : Heap) (addrs : List Nat) : List String := (addrs.map (tyOf hp)).eraseDups
def group (hp : Heap) (addrs : List Nat) (t : String) : List Nat := addrs.filter (fun a => tyOf hp a == t)

/-- `_generate_anchor` -/
def anchorOf (cass : List Cas) (hp : Heap) (indexed : List Nat) (o : Opts) (a : Nat) : Except Err String := do
  let base := shortName (tyOf hp a)
  let off := if isAnnot hp a then "[" ++ Lex.showInt (beginOf hp a) ++ "-" ++ Lex.showInt (endOf hp a) ++ "]" else ""
  let mark := if o.markIndexed && indexed.contains a then "*" else ""
  let view ← match slot hp a "sofa" with
    | none => pure ""                                   -- `hasattr(fs, "sofa")` is false
    | some (.sofa ci vn) =>
      match cass[ci]? with
      | some c => match Cas.getViewRec c vn with
        | some v => pure ("@" ++ v.sofa.sofaID)
        | none => throw .keyError
      | none => throw .keyError
    | some _ => throw .attributeError                   -- `None.sofaID`
  pure (base ++ off ++ mark ++ view)

/-- the loop body of `_generate_anchors` for one (sorted) structure: counter per anchor text,
    `(n)` appended from the second use on; the map is keyed by xmi:id -/
structure AnchorSt where
  counts : List (String × Nat) := []
  byId : List (Option Int × String) := []
deriving Repr, Inhabited

def setById (l : List (Option Int × String)) (k : Option Int) (v : String) : List (Option Int × String) :=
  match l with
  | [] => [(k, v)]
  | (k', v') :: rest => if k' == k then (k, v) :: rest else (k', v') :: setById rest k v

def getById (l : List (Option Int × String)) (k : Option Int) : Option String :=
  match l with
  | [] => none
  | (k', v') :: rest => if k' == k then some v' else getById rest k

def anchorStep (cass : List Cas) (hp : Heap) (indexed : List Nat) (o : Opts) (st : AnchorSt) (a : Nat) :
    Except Err AnchorSt := do
  let anchor ← anchorOf cass hp indexed o a
  let n := (alistGet? st.counts anchor).getD 0
  let counts := alistSet st.counts anchor (n + 1)
  let anchor' := if n != 0 then anchor ++ "(" ++ Lex.showInt n ++ ")" else anchor
  pure { counts := counts, byId := setById st.byId (xidOf hp a) anchor' }

def anchorsOfList (cass : List Cas) (hp : Heap) (indexed : List Nat) (o : Opts) :
    List Nat → AnchorSt → Except Err AnchorSt
  | [], st => .ok st
  | a :: as, st =>
    match anchorStep cass hp indexed o st a with
    | .error e => .error e
    | .ok st' => anchorsOfList cass hp indexed o as st'

/-- `_generate_anchors`: types in name order, structures of a type in sorted order -/
def genAnchors (ts : TypeSystem) (cass : List Cas) (hp : Heap) (indexed : List Nat) (o : Opts)
    (sorted : List (String × List Nat)) : List (String × List Nat) → AnchorSt → Except Err AnchorSt
  | [], st => .ok st
  | (t, fss) :: rest, st =>
    match getType ts t with
    | .error e => .error e
    | .ok _ =>
      match anchorsOfList cass hp indexed o fss st with
      | .error e => .error e
      | .ok st' => genAnchors ts cass hp indexed o sorted rest st'

/-- `_render_feature_value`; `fuel` bounds the nesting of arrays inside arrays -/
def renderVal (K : Consts) (hp : Heap) (byId : List (Option Int × String)) : Nat → Val → Except Err Cell
  | _, .none => .ok .null
  | _, .int i => .ok (.int i)
  | _, .str s => .ok (.str s)
  | _, .bool b => .ok (.bool b)
  | _, .float t => .ok (.float t)
  | _, .ints l => .ok (.list (l.map .int))
  | _, .floats l => .ok (.list (l.map .float))
  | _, .bools l => .ok (.list (l.map .bool))
  | _, .strs l => .ok (.list (l.map (fun s => match s with | some s => .str s | none => .null)))
  | _, .sofa _ _ => .ok .none
  | _, .attr _ => .ok .none
  | 0, .ref _ => .error .runtimeError                       -- RecursionError
  | 0, .refs _ => .error .runtimeError
  | f+1, .refs l =>
    (l.mapM (fun r => match r with
      | none => Except.ok Cell.null
      | some a => renderVal K hp byId f (.ref a))).map Cell.list
  | f+1, .ref a =>
    if isArrayFs K hp a then
      match slot hp a "elements" with
      | some .none => .ok .none                             -- falls off the `if`: returns `None`
      | some v => renderVal K hp byId f v
      | none => .error .attributeError
    else
      match getById byId (xidOf hp a) with
      | some s => .ok (.str s)
      | none => .ok .none

/-- the feature columns: all features sorted by name, without `sofa` -/
def insertFeat (x : Feature) : List Feature → List Feature
  | [] => [x]
  | y :: ys => if x.name < y.name then x :: y :: ys else y :: insertFeat x ys
def sortFeats (l : List Feature) : List Feature := l.foldl (fun acc x => insertFeat x acc) []

def columns (t : TypeRec) : List String :=
  ((sortFeats (allFeatures t)).map (·.name)).filter (fun n => n != "sofa")

/-- `_render_header` -/
def header (t : TypeRec) (covered : Bool) : List String :=
  ["<ANCHOR>"] ++ (if covered then ["<COVERED_TEXT>"] else []) ++ columns t

/-- covered text cell, abbreviated from 30 code points on -/
def abbreviate (t : List Nat) : List Nat :=
  if t.length ≥ 30 then t.take 15 ++ [46, 46, 46] ++ t.drop (t.length - 15) else t

def renderCols (K : Consts) (hp : Heap) (byId : List (Option Int × String)) (a : Nat) : List String → Except Err (List Cell)
  | [] => .ok []
  | n :: ns =>
    -- `fs[name]` is `get`, i.e. `getattr(fs, name, None)`: an instance created before the feature existed has no
    -- such slot and answers `None`.  The budget stands for Python's recursion limit: one level of array nesting
    -- takes two units (`.ref arr` → `.refs l` → `.ref e`), a heap of `n` objects nests at most `n` arrays without a
    -- cycle, so `2 * n + 2` covers every acyclic nesting (a cyclic one: RecursionError)
    match renderVal K hp byId (2 * hp.length + 2) ((slot hp a n).getD .none) with
    | .error e => .error e
    | .ok c =>
      match renderCols K hp byId a ns with
      | .error e => .error e
      | .ok cs => .ok (c :: cs)

/-- `_render_feature_structure` -/
def renderRow (K : Consts) (cass : List Cas) (hp : Heap) (byId : List (Option Int × String)) (t : TypeRec)
    (annType : Bool) (a : Nat) : Except Err (List Cell) := do
  let anchor : Cell := match getById byId (xidOf hp a) with | some s => .str s | none => .none
  let cov ← if annType && isAnnot hp a then do
      let ct ← Cas.coveredText cass hp a
      pure [match ct with | some t => Cell.text (abbreviate t) | none => Cell.null]
    else pure []
  if isArrayFs K hp a then
    match slot hp a "elements" with
    | none => throw .attributeError
    | some v =>
      let c ← renderVal K hp byId (2 * hp.length + 2) v
      pure ([anchor] ++ cov ++ [c])
  else
    let cs ← renderCols K hp byId a (columns t)
    pure ([anchor] ++ cov ++ cs)

def renderRows (K : Consts) (cass : List Cas) (hp : Heap) (byId : List (Option Int × String)) (t : TypeRec)
    (annType : Bool) : List Nat → Except Err (List (List Cell))
  | [] => .ok []
  | a :: as =>
    match renderRow K cass hp byId t annType a with
    | .error e => .error e
    | .ok r =>
      match renderRows K cass hp byId t annType as with
      | .error e => .error e
      | .ok rs => .ok (r :: rs)

def renderSections (K : Consts) (ts : TypeSystem) (cass : List Cas) (hp : Heap) (o : Opts)
    (byId : List (Option Int × String)) : List (String × List Nat) → Except Err (List Section)
  | [] => .ok []
  | (tn, fss) :: rest =>
    if o.exclude.contains tn then renderSections K ts cass hp o byId rest
    else
      match getType ts tn with
      | .error e => .error e
      | .ok t =>
        let annType := o.coveredText && subsumes ts ANNOTATION t.name
        match renderRows K cass hp byId t annType fss with
        | .error e => .error e
        | .ok rows =>
          match renderSections K ts cass hp o byId rest with
          | .error e => .error e
          | .ok ss => .ok ({ tyName := t.name, header := header t annType, rows := rows } :: ss)

/-- everything after the traversal: `addrs` is what `_find_all_fs` returned (in its order), `indexed` what the
    views' `select_all()` returned -/
def renderFrom (K : Consts) (ts : TypeSystem) (cass : List Cas) (hp : Heap) (o : Opts) (hsh : Nat → Int)
    (indexed addrs : List Nat) : Except Err (List Section) :=
  let sorted := (sortNames (typeKeys hp addrs)).map (fun t => (t, sortFs (ltFs hp hsh) (group hp addrs t)))
  match genAnchors ts cass hp indexed o sorted sorted {} with
  | .error e => .error e
  | .ok st => renderSections K ts cass hp o st.byId sorted

/-- `cas_to_comparable_text` -/
def render (K : Consts) (ts : TypeSystem) (cass : List Cas) (ci : Nat) (hp : Heap) (o : Opts) (hsh : Nat → Int)
    (seeds : Option (List Nat)) : Except Err (List Section × St) := do
  let c ← match cass[ci]? with
    | some c => pure c
    | none => throw .keyError
  let indexed := defaultSeeds c
  let st ← findAllFs K ts {} hp c.nextXid (seeds.getD indexed)
  let secs ← renderFrom K ts cass st.heap o hsh indexed (st.allFs.map (·.2))
  pure (secs, st)

end Cassis.Comparable
