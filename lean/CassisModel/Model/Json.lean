/-
Model of the JSON CAS codec (`cassis/json.py`, format 0.4.0): `CasJsonSerializer` and
`CasJsonDeserializer` at the level of abstract documents (the JSON value after parsing; member order
inside JSON objects is kept because the code iterates over it).  Floats are opaque tokens, byte arrays
are byte lists (base64 is the standard library's business and handled by the harness).
-/
import CassisModel.Model.Merge
import CassisModel.Model.Xmi
import CassisModel.Gen.Builtins

namespace Cassis.Json
open Cassis.TS Cassis.Lex

/-- JSON values occurring as feature values or array elements -/
inductive JV where
  | null
  | int (i : Int)
  | flt (tok : String)           -- a JSON number that is not an integer literal (canonical token)
  | bool (b : Bool)
  | str (s : String)
  | ints (l : List Int)          -- %ELEMENTS of integer-like arrays; also decoded base64 of byte arrays
  | flts (l : List JV)           -- %ELEMENTS of float arrays: numbers and the strings "NaN", "Infinity", …
  | bools (l : List Bool)
  | strs (l : List (Option String))
  | refs (l : List (Option Int)) -- %ELEMENTS of FSArray
deriving Repr, Inhabited

structure JFs where
  id : Option Int                       -- %ID (`null` when the writer had no id yet)
  ty : String                           -- %TYPE
  elements : Option JV := none          -- %ELEMENTS
  feats : List (String × JV) := []      -- remaining members, keys as written (with `@` / `#` prefixes)
deriving Repr, Inhabited

structure JFeat where
  name : String
  range : String
  descr : Option String := none
  multi : Option Bool := none
  elem : Option String := none
deriving Repr, Inhabited

/-- one entry of `%TYPES`: the key (`name`) and the JSON object under it — the members `%SUPER_TYPE`, `%DESCRIPTION` when
    they hold a string, and every member that holds a feature declaration (`feats`, keyed by `JFeat.name`, in order;
    the keys may start with `%`: see `renderTypeDecl`, `loadEmbeddedTs`) -/
structure JType where
  name : String
  super : String
  descr : Option String := none
  feats : List JFeat := []
deriving Repr, Inhabited

structure JView where
  name : String
  sofa : Option Int
  members : List Int
deriving Repr, Inhabited

structure JDoc where
  types : Option (List JType)           -- %TYPES (absent in mode NONE)
  fss : List JFs                        -- %FEATURE_STRUCTURES (as a list)
  views : List JView                    -- %VIEWS
deriving Repr, Inhabited

inductive Mode | full | minimal | none
deriving Repr, DecidableEq

def isSpecialFloat (t : String) : Bool := t == "NaN" || t == "Infinity" || t == "-Infinity"

/-! ## Writer -/

def idOf (hp : Heap) (a : Nat) : Option Int := (hp[a]?).bind (·.xid)

/-- `_serialize_ref` -/
def refOf (hp : Heap) (r : Option Nat) : Option Int :=
  match r with
  | none => none
  | some a => idOf hp a

def floatElem (t : String) : JV := if isSpecialFloat t then .str t else .flt t

/-- `%ELEMENTS` of an array structure (omitted when the list is empty or missing) -/
def arrayElements (hp : Heap) (ty : String) (v : Option Val) : Except Err (Option JV) :=
  match v with
  | none | some .none => .ok none
  | some (.refs []) => .ok none
  | some ev =>
    if ty == "uima.cas.ByteArray" then
      match ev with
      | .ints [] => .ok none
      | .ints l => .ok (some (.ints l))
      | _ => .error .typeError
    else if ty == "uima.cas.DoubleArray" || ty == "uima.cas.FloatArray" then
      match ev with
      | .floats [] => .ok none
      | .floats l => .ok (some (.flts (l.map floatElem)))
      | _ => .error .typeError
    else if ty == FS_ARRAY then
      match ev with
      | .refs l => .ok (some (.refs (l.map (refOf hp))))
      | _ => .error .typeError
    else
      match ev with
      | .ints [] | .bools [] | .strs [] | .floats [] => .ok none
      | .ints l => .ok (some (.ints l))
      | .bools l => .ok (some (.bools l))
      | .strs l => .ok (some (.strs l))
      | _ => .error .typeError

def primJV : Val → Except Err JV
  | .int i => .ok (.int i)
  | .str s => .ok (.str s)
  | .bool b => .ok (.bool b)
  | .float t => .ok (.flt t)
  | _ => .error .typeError

/-- one feature of `_serialize_feature_structure` -/
def renderFeature (K : Consts) (ts : TypeSystem) (cass : List Cas) (hp : Heap) (a : Nat) (f : Feature) :
    Except Err (List (String × JV)) := do
  if f.name == "xmiID" || f.name == "type" then return []
  let name := if f.reserved then String.ofList f.name.toList.dropLast else f.name
  let v := (Xmi.slot hp a f.name).getD .none
  if v == .none then return []
  let v ← if f.domain == ANNOTATION && (name == "begin" || name == "end") then
      match Xmi.slot hp a "sofa" with
      | some (.sofa ci vn) =>
        match (cass[ci]?).bind (fun c => Cas.getViewRec c vn) with
        | some view =>
          match v with
          | .int i => pure (Val.int (if i < 0 then i else (Offsets.pythonToExternal view.sofa.conv i.toNat : Nat)))
          | other => pure other
        | none => throw .attributeError
      | _ => throw .attributeError
    else pure v
  if f.range == "uima.cas.Double" || f.range == "uima.cas.Float" then
    match v with
    | .float t => if isSpecialFloat t then return [("#" ++ name, .str t)] else return [(name, .flt t)]
    | .int i => return [(name, .int i)]
    | _ => throw .typeError
  else if isPrimitive K ts f.range then do
    let jv ← primJV v
    return [(name, jv)]
  else
    match v with
    | .ref t => return [("@" ++ name, match idOf hp t with | some i => .int i | none => .null)]
    | .sofa ci vn =>
      match (cass[ci]?).bind (fun c => Cas.getViewRec c vn) with
      | some view => return [("@" ++ name, .int view.sofa.xid)]
      | none => throw .attributeError
    | _ => throw .attributeError

def renderFeatures (K : Consts) (ts : TypeSystem) (cass : List Cas) (hp : Heap) (a : Nat) :
    List Feature → Except Err (List (String × JV))
  | [] => .ok []
  | f :: fs => do
    let x ← renderFeature K ts cass hp a f
    let xs ← renderFeatures K ts cass hp a fs
    pure (x ++ xs)

/-- `_serialize_feature_structure(fs)` for a heap object -/
def renderFs (K : Consts) (ts : TypeSystem) (cass : List Cas) (hp : Heap) (a : Nat) : Except Err JFs := do
  let o ← match hp[a]? with
    | some o => pure o
    | none => throw .attributeError
  if isPrimitiveArray K o.ty || o.ty == FS_ARRAY then
    let el ← arrayElements hp o.ty (Xmi.slot hp a "elements")
    return { id := o.xid, ty := o.ty, elements := el }
  else
    let t ← getType ts o.ty
    let fs ← renderFeatures K ts cass hp a (allFeatures t)
    return { id := o.xid, ty := o.ty, feats := fs }

/-- the sofa of a view as a feature structure (features in the order of the Sofa type) -/
def renderSofa (hp : Heap) (s : Sofa) : JFs :=
  { id := some s.xid, ty := SOFA,
    feats := [("sofaNum", JV.int s.sofaNum), ("sofaID", JV.str s.sofaID)] ++
      (match s.mime with | some m => [("mimeType", JV.str m)] | none => []) ++
      (match s.arr with
        | .ref a => [("@sofaArray", match idOf hp a with | some i => JV.int i | none => JV.null)]
        | _ => []) ++
      (match s.text with | some t => [("sofaString", JV.str (String.ofList (t.map Char.ofNat)))] | none => []) ++
      (match s.uri with | some u => [("sofaURI", JV.str u)] | none => []) }

def renderAll (K : Consts) (ts : TypeSystem) (cass : List Cas) (hp : Heap) : List (Int × Nat) → Except Err (List JFs)
  | [] => .ok []
  | p :: ps => do
    let e ← renderFs K ts cass hp p.2
    let es ← renderAll K ts cass hp ps
    pure (e :: es)

/-- `_serialize_feature` / `_serialize_type` -/
def renderFeatDecl (K : Consts) (f : Feature) : JFeat :=
  let name := if f.reserved then String.ofList f.name.toList.dropLast else f.name
  let arr := isArray K f.range
  let range :=
    if arr then
      if isPrimitiveArray K f.range then
        ((Gen.elementTypeNameTable.find? (fun p => p.1 == f.range)).map (·.2)).getD Gen.elementTypeNameDefault ++ "[]"
      else match f.elem with
        | some e => e ++ "[]"
        | none => TOP ++ "[]"
    else f.range
  { name := name, range := range,
    descr := match f.descr with | some "" => none | d => d,
    multi := f.multi,
    elem := if arr then none else f.elem }

/-- `_serialize_type`: the declaration is ONE JSON object holding the reserved members `%NAME`, `%SUPER_TYPE`,
    `%DESCRIPTION` and one member per feature, `json_type[feature name] = feature declaration`.  `JType` stands for that
    object: `feats` are the members that hold a feature declaration, in the order of insertion; a feature named
    `%SUPER_TYPE` / `%DESCRIPTION` has replaced the string member of that name (`super` is then `""`, `descr` is `none`:
    the strings are gone from the document).  A feature named `%NAME` is dealt with in `renderTypeDecls`. -/
def renderTypeDecl (K : Consts) (t : TypeRec) : JType :=
  let feats := t.own.map (renderFeatDecl K)
  { name := t.name,
    super := if feats.any (fun f => f.name == "%SUPER_TYPE") then "" else t.super.getD "",
    descr := if feats.any (fun f => f.name == "%DESCRIPTION") then none
             else match t.descr with | some "" => none | d => d,
    feats := feats }

/-- `types[json_type[NAME_FIELD]] = json_type` for the types to include, in order: a feature named `%NAME` has replaced
    the name by its declaration, a `dict`, which is unhashable (`TypeError`) -/
def renderTypeDecls (K : Consts) (l : List TypeRec) : Except Err (List JType) :=
  if l.any (fun t => t.own.any (fun f => (renderFeatDecl K f).name == "%NAME")) then .error .typeError
  else .ok (l.map (renderTypeDecl K))

/-- the `%TYPES` member: absent in mode NONE -/
def renderTypes (K : Consts) : Option (List TypeRec) → Except Err (Option (List JType))
  | none => .ok none
  | some l =>
    match renderTypeDecls K l with
    | .error e => .error e
    | .ok d => .ok (some d)

def insertByName (t : TypeRec) : List TypeRec → List TypeRec
  | [] => [t]
  | u :: us => if t.name ≤ u.name then t :: u :: us else u :: insertByName t us
def sortByName (l : List TypeRec) : List TypeRec := l.foldr insertByName []

/-- `CasJsonSerializer.serialize` -/
def saveJson (K : Consts) (ts : TypeSystem) (cass : List Cas) (ci : Nat) (hp : Heap) (mode : Mode) :
    Except Err (JDoc × Traverse.St) := do
  let c ← match cass[ci]? with
    | some c => pure c
    | none => throw .keyError
  -- views and sofas are rendered before ids are assigned
  let views := c.views.map (fun p =>
    ({ name := p.2.sofa.sofaID, sofa := some p.2.sofa.xid,
       members := Xmi.sortInts ((Index.all p.2.idx).filterMap (fun e => idOf hp e.oid)) } : JView))
  let sofaFss ← c.views.foldlM (fun (acc : List JFs) p => do
    let arr ← match p.2.sofa.arr with
      | .ref a => do let e ← renderFs K ts cass hp a; pure [e]
      | _ => pure []
    pure (acc ++ arr ++ [renderSofa hp p.2.sofa])) []
  let st ← Traverse.findAllFs K ts { includeInlinable := true } hp c.nextXid (Traverse.defaultSeeds c)
  let sorted := Xmi.sortById st.allFs
  let fsElems ← renderAll K ts cass st.heap sorted
  let usedTypes := (sorted.filterMap (fun p => (st.heap[p.2]?).map (·.ty))).eraseDups
  let types ← match mode with
    | .none => pure none
    | .full => pure (some ((sortByName (getTypes K ts false)).filter (fun t => t.name != DOCUMENT_ANNOTATION)))
    | .minimal =>
      let fuel := usedTypes.length + ((ts.types.map (fun t => 2 + 2 * (allFeatures t).length)).sum) + 1
      let names := closureStep K ts [] fuel usedTypes
      pure (some ((sortByName (names.filterMap (find? ts))).filter (fun t => t.name != DOCUMENT_ANNOTATION)))
  let decls ← renderTypes K types
  pure ({ types := decls, fss := sofaFss ++ fsElems, views := views }, st)

/-! ## Reader -/

/-- `array_type_name_for_type` -/
def arrayTypeNameFor (n : String) : String :=
  ((Gen.arrayTypeNameTable.find? (fun p => p.1 == n)).map (·.2)).getD Gen.arrayTypeNameDefault

/-- dependency-first order of the embedded type names (`toposort_flatten` with sorting inside a level);
    names that are only mentioned as supertypes take part as well -/
def toposort (types : List JType) : Except Err (List String) :=
  let names := (types.map (·.name) ++ types.map (·.super)).eraseDups
  let depOf := fun (n : String) => (types.filter (fun t => t.name == n)).map (·.super)
  let rec go (fuel : Nat) (done : List String) (rest : List String) : Except Err (List String) :=
    match fuel with
    | 0 => .error .valueError          -- circular dependencies
    | fuel+1 =>
      if rest.isEmpty then .ok done
      else
        let ready := rest.filter (fun n => (depOf n).all (fun d => d == n || done.contains d || !(rest.contains d)))
        if ready.isEmpty then .error .valueError
        else
          let level := (ready.toArray.qsort (· < ·)).toList
          go fuel (done ++ level) (rest.filter (fun n => !(level.contains n)))
  go (names.length + 1) [] names

/-- build the embedded type system (`deserialize`, `_parse_type`, `_parse_features`).  A declaration is read as the JSON
    object it is (see `renderTypeDecl`): a member that holds a feature declaration and whose key starts with `%` is
    skipped as a feature (`if key.startswith(RESERVED_FIELD_PREFIX): continue`), but under the keys `%SUPER_TYPE` and
    `%DESCRIPTION` it is what the reader takes for the supertype name / the description. -/
def loadEmbeddedTs (K : Consts) (types : List JType) : Except Err TypeSystem := do
  let hasDocKey := types.any (fun t => t.name == "DocumentAnnotation")
  let base := if hasDocKey then Gen.builtinTSNoDoc else Gen.builtinTS
  -- `type_dependencies[type_name].add(json_type[SUPER_TYPE_FIELD])`: a feature declaration (a `dict`) is unhashable
  if types.any (fun t => t.feats.any (fun f => f.name == "%SUPER_TYPE")) then throw Err.typeError
  let order ← toposort types
  let ts1 ← order.foldlM (fun (ts : TypeSystem) (n : String) =>
    if K.predefined.contains n || hasExact ts n then pure ts     -- `contains_type(name, match_exactly=True)`
    else match types.find? (fun t => t.name == n) with
      | some jt =>
        -- `json_type.get(DESCRIPTION_FIELD)` is the declaration of the feature `%DESCRIPTION`: the type is created with
        -- a `dict` as its description; the model has no such descriptions (NOT MODELLED from here on)
        if jt.feats.any (fun f => f.name == "%DESCRIPTION") then throw Err.notImplemented
        else createType K ts n jt.super jt.descr
      | none => throw Err.keyError) base
  types.foldlM (fun (ts : TypeSystem) (jt : JType) => do
    let t ← getType ts jt.name
    (jt.feats.filter (fun jf => !(jf.name.startsWith "%"))).foldlM (fun (ts : TypeSystem) (jf : JFeat) =>
      let isArr := jf.range.endsWith "[]"
      let elemT := if isArr then some (String.ofList (jf.range.toList.dropLast.dropLast)) else jf.elem
      let rangeT := if isArr then arrayTypeNameFor ((elemT.getD "")) else jf.range
      -- the element type is implied by a primitive array type, it is not declared
      let elemT := if isArr && isPrimitiveArray K rangeT then none else elemT
      createFeature ts t.name jf.name rangeT elemT jf.descr jf.multi) ts) ts1

structure Loaded where
  ts : TypeSystem
  cas : Cas
  heap : Heap
deriving Inhabited

/-- `_parse_float_value` -/
def parseFloatValue : JV → Except Err Val
  | .flt t => .ok (.float t)
  | .str s =>
    if s == "NaN" then .ok (.float "NaN")
    else if s == "Infinity" || s == "Inf" then .ok (.float "Infinity")
    else if s == "-Infinity" || s == "-Inf" then .ok (.float "-Infinity")
    else .error .valueError
  | _ => .error .valueError

def valOfJV : JV → Val
  | .null => .none
  | .int i => .int i
  | .flt t => .float t
  | .bool b => .bool b
  | .str s => .str s
  | .ints l => .ints l
  | .bools l => .bools l
  | .strs l => .strs l
  | .flts _ => .none
  | .refs _ => .none

/-- `_parse_primitive_array(type_name, elements)` (absent or empty → `[]`) -/
def parsePrimArray (ty : String) (el : Option JV) : Except Err Val :=
  match el with
  | none | some .null => .ok (.refs [])
  | some (.ints []) | some (.bools []) | some (.strs []) | some (.flts []) | some (.refs []) => .ok (.refs [])
  | some v =>
    if ty == "uima.cas.FloatArray" || ty == "uima.cas.DoubleArray" then
      match v with
      | .flts l => do
        let toks ← l.mapM (fun x => do
          match ← parseFloatValue x with
          | .float t => pure t
          | _ => throw Err.valueError)
        pure (.floats toks)
      | .ints l => .error .valueError
      | _ => .error .valueError
    else .ok (valOfJV v)

structure Deferred where
  addr : Nat
  slot : String
  target : Option Int          -- single reference
  elems : Option (List (Option Int))   -- or the element ids of an FSArray
deriving Inhabited

structure RState where
  cas : Cas
  heap : Heap
  fss : List (Int × Val) := []      -- `feature_structures`: id ↦ structure or sofa
  deferred : List Deferred := []
  maxId : Int := 0
  maxNum : Int := 0
deriving Inhabited

def lookup (fss : List (Int × Val)) (i : Int) : Option Val := (fss.find? (fun p => p.1 == i)).map (·.2)

def setFs (fss : List (Int × Val)) (i : Int) (v : Val) : List (Int × Val) :=
  match fss with
  | [] => [(i, v)]
  | (k, w) :: rest => if k == i then (i, v) :: rest else (k, w) :: setFs rest i v

/-- `_resolve_references`: a reference whose target is already parsed is set at once, the others are deferred -/
def resolveRefs (rename : String → String) (fss : List (Int × Val)) (addr : Nat) :
    List (String × JV) → Heap × List Deferred → Except Err (Heap × List Deferred)
  | [], acc => .ok acc
  | p :: rest, (heap, deferred) =>
    let key := rename (String.ofList (p.1.toList.drop 1))
    let target := match p.2 with
      | .int i => some i
      | _ => none
    match target.bind (lookup fss) with
    | some tv =>
      match Heap.setSlot heap addr key tv with
      | .error e => .error e
      | .ok heap' => resolveRefs rename fss addr rest (heap', deferred)
    | none => resolveRefs rename fss addr rest (heap, deferred ++ [{ addr := addr, slot := key, target := target, elems := none }])

def renameReserved (n : String) : String := if n == "self" then "self_" else if n == "type" then "type_" else n

/-- the `#` members: float values under their feature names -/
def parseNums : List (String × JV) → Except Err (List (String × Val))
  | [] => .ok []
  | p :: rest =>
    match parseFloatValue p.2 with
    | .error e => .error e
    | .ok v =>
      match parseNums rest with
      | .error e => .error e
      | .ok vs => .ok ((renameReserved (String.ofList (p.1.toList.drop 1)), v) :: vs)

/-- `_parse_feature_structure` -/
def parseFs (K : Consts) (ts : TypeSystem) (tsIdx : Nat) (s : RState) (j : JFs) : Except Err RState :=
  let tyName := if j.ty.endsWith "[]" then arrayTypeNameFor j.ty else j.ty
  match getTypeExact ts tyName with
  | .error e => .error e
  | .ok t =>
    match j.id with
    | none => .error .typeError             -- `max(None, int)`
    | some fsId =>
      let addr := s.heap.length
      -- attributes: `@` keys become references, `#` keys floats, the rest is passed to the constructor
      let plain := j.feats.filter (fun p => !(p.1.startsWith "@") && !(p.1.startsWith "#") && !(p.1.startsWith "%"))
      let refsF := j.feats.filter (fun p => p.1.startsWith "@")
      let numsF := j.feats.filter (fun p => p.1.startsWith "#")
      match parseNums numsF with
      | .error e => .error e
      | .ok nums =>
        let kwargs0 : List (String × Val) := (plain.map (fun p => (renameReserved p.1, valOfJV p.2))) ++ nums
        let r : Except Err (List (String × Val) × List Deferred) :=
          if isPrimitiveArray K t.name then
            match parsePrimArray t.name j.elements with
            | .error e => .error e
            | .ok ev => .ok (kwargs0 ++ [("elements", ev)], s.deferred)
          else if t.name == FS_ARRAY then
            let ids := match j.elements with
              | some (.refs l) => l
              | some (.ints l) => l.map some
              | _ => []
            .ok (kwargs0, s.deferred ++ [{ addr := addr, slot := "elements", target := none, elems := some ids }])
          else .ok (kwargs0, s.deferred)
        match r with
        | .error e => .error e
        | .ok (kwargs, deferred0) =>
          match construct t tsIdx (some fsId) kwargs with
          | .error e => .error e
          | .ok o =>
            match resolveRefs renameReserved s.fss addr refsF (s.heap ++ [o], deferred0) with
            | .error e => .error e
            | .ok (heap1, deferred) =>
              -- offsets of annotations are converted through the sofa the structure names
              let r2 : Except Err Heap :=
                if isInstanceOf ts t.name ANNOTATION then
                  match Xmi.slot heap1 addr "sofa" with
                  | some (.sofa _ vn) =>
                    match Cas.getViewRec s.cas vn with
                    | some view => Xmi.convertOffsets view.sofa.conv heap1 addr
                    | none => .error .attributeError
                  | _ => .error .attributeError
                else .ok heap1
              match r2 with
              | .error e => .error e
              | .ok heap =>
                .ok { s with heap := heap, fss := setFs s.fss fsId (.ref addr), deferred := deferred, maxId := max s.maxId fsId }

/-- `_get_or_create_view` + `_parse_sofa`.  Three cases: the initial view (exists from the start; its sofa takes the id
    and, if given, the sofaNum of the element — every time an element names it), a view that exists already (a second
    sofa element with that name: the view is taken as it is, id and sofaNum of the element are ignored), a new view
    (created with the id and sofaNum of the element).  In all three the sofa data (`sofaString`, `mimeType`, `sofaURI`,
    `sofaArray`) are set from the element (absent members reset them to `None`), and the sofa is registered in the id
    table under the id it carries at the end. -/
def parseSofa (ci : Nat) (s : RState) (j : JFs) : Except Err RState := do
  let fsId ← match j.id with
    | some i => pure i
    | none => throw Err.typeError
  let get : String → Option JV := fun (k : String) => (j.feats.find? (fun p => p.1 == k)).map (·.2)
  let name ← match get "sofaID" with
    | some (.str n) => pure n
    | _ => throw Err.typeError
  let num := match get "sofaNum" with | some (.int n) => some n | _ => none
  let h : Handle := { view := name, lenient := false }
  let c ←
    if name == Cas.INITIAL_VIEW then
      -- the initial view exists from the start: its sofa takes the id and the sofaNum of the element (#155)
      Cas.updSofa s.cas h (fun so => { so with xid := fsId, sofaNum := num.getD so.sofaNum })
    else if (Cas.getViewRec s.cas name).isSome then
      -- a second sofa element with the name of an existing view: `cas.get_view(name)` returns the view as it is,
      -- the id and the sofaNum of the element are ignored (the sofa data below are overwritten all the same)
      pure s.cas
    else do
      let (c', _) ← Cas.createView s.cas { view := Cas.INITIAL_VIEW, lenient := false } name (some fsId) num
      pure c'
  let text := match get "sofaString" with | some (.str t) => some (t.toList.map Char.toNat) | _ => none
  let c ← Cas.setSofaString c h text
  let c ← Cas.setSofaMime c h (match get "mimeType" with | some (.str m) => some m | _ => none)
  let c ← Cas.setSofaUri c h (match get "sofaURI" with | some (.str m) => some m | _ => none)
  let arr := match get "@sofaArray" with
    | some (.int i) => (lookup s.fss i).getD .none
    | _ => .none
  let c ← Cas.setSofaArray c h arr
  let v ← Cas.cur c h
  -- `feature_structures[fs.xmiID] = fs`: the sofa is registered under the id it carries now (for a second element
  -- with the name of an existing non-initial view that is the id of the first element, not `fsId`)
  pure { s with cas := c, fss := setFs s.fss v.sofa.xid (.sofa ci name),
                maxId := max s.maxId v.sofa.xid, maxNum := max s.maxNum v.sofa.sofaNum }

/-- a byte array a sofa refers to is parsed before the sofa -/
def parseById (K : Consts) (ts : TypeSystem) (tsIdx : Nat) (i : Int) : List JFs → RState → Except Err RState
  | [], s => .ok s
  | j2 :: rest, s =>
    if j2.id == some i then
      match parseFs K ts tsIdx s j2 with
      | .error e => .error e
      | .ok s' => parseById K ts tsIdx i rest s'
    else parseById K ts tsIdx i rest s

/-- first pass: the sofas -/
def sofaPass (K : Consts) (ts : TypeSystem) (tsIdx ci : Nat) (all : List JFs) : List JFs → RState → Except Err RState
  | [], s => .ok s
  | j :: rest, s =>
    if j.ty == SOFA then
      let r : Except Err RState :=
        match ((j.feats.find? (fun p => p.1 == "@sofaArray")).map (·.2) : Option JV) with
        | some (JV.int i) => if (lookup s.fss i).isNone then parseById K ts tsIdx i all s else .ok s
        | _ => .ok s
      match r with
      | .error e => .error e
      | .ok s1 =>
        match parseSofa ci s1 j with
        | .error e => .error e
        | .ok s2 => sofaPass K ts tsIdx ci all rest s2
    else sofaPass K ts tsIdx ci all rest s

/-- second pass: everything that is not a sofa -/
def fsPass (K : Consts) (ts : TypeSystem) (tsIdx : Nat) : List JFs → RState → Except Err RState
  | [], s => .ok s
  | j :: rest, s =>
    if j.ty != SOFA then
      match parseFs K ts tsIdx s j with
      | .error e => .error e
      | .ok s' => fsPass K ts tsIdx rest s'
    else fsPass K ts tsIdx rest s

/-- deferred references and FSArray elements -/
def fixUps (fss : List (Int × Val)) : List Deferred → Heap → Except Err Heap
  | [], heap => .ok heap
  | d :: rest, heap =>
    let v : Val := match d.elems with
      | some ids => .refs (ids.map (fun oi => match oi.bind (lookup fss) with
          | some (.ref a) => some a
          | _ => none))
      | none => (d.target.bind (lookup fss)).getD .none
    match Heap.setSlot heap d.addr d.slot v with
    | .error e => .error e
    | .ok heap' => fixUps fss rest heap'

/-- state of the views pass -/
structure VState where
  cas : Cas
  heap : Heap
  memberSofas : List (Int × Option Val) := []    -- first-seen `sofa` slot of every member

/-- index the members of one view; a structure that is a member of several views keeps the sofa the document names -/
def addJMembers (ts : TypeSystem) (ci : Nat) (h : Handle) (fss : List (Int × Val)) : List Int → VState → Except Err VState
  | [], v => .ok v
  | m :: ms, v =>
    match lookup fss m with
    | some (.ref a) =>
      let (own, ms') : Option Val × List (Int × Option Val) :=
        match v.memberSofas.find? (fun q => q.1 == m) with
        | some q => (q.2, v.memberSofas)
        | none => (Traverse.slot v.heap a "sofa", v.memberSofas ++ [(m, Traverse.slot v.heap a "sofa")])
      match Cas.add ts ci v.cas v.heap h a true with
      | .error e => .error e
      | .ok (c', heap') =>
        let r : Except Err Heap := match own with
          | some w => if w != .none then Heap.setSlot heap' a "sofa" w else .ok heap'
          | none => .ok heap'
        match r with
        | .error e => .error e
        | .ok heap'' => addJMembers ts ci h fss ms { cas := c', heap := heap'', memberSofas := ms' }
    | some _ => .error .attributeError
    | none => .error .keyError

def viewsPass (ts : TypeSystem) (ci : Nat) (lenient : Bool) (fss : List (Int × Val)) : List JView → VState → Except Err VState
  | [], v => .ok v
  | jv :: rest, v =>
    let h : Handle := { view := jv.name, lenient := lenient }
    let rc : Except Err Cas :=
      if (Cas.getViewRec v.cas jv.name).isNone then
        match Cas.createView v.cas { view := Cas.INITIAL_VIEW, lenient := lenient } jv.name none none with
        | .error e => .error e
        | .ok (c', _) => .ok c'
      else .ok v.cas
    match rc with
    | .error e => .error e
    | .ok c =>
      match addJMembers ts ci h fss jv.members { v with cas := c } with
      | .error e => .error e
      | .ok v' => viewsPass ts ci lenient fss rest v'

/-- the type system the document is read with -/
def loadTs (K : Consts) (tsArg : TypeSystem) (mergeTs : Bool) (doc : JDoc) : Except Err TypeSystem :=
  if mergeTs then
    match doc.types with
    | none => .error .attributeError      -- `None.get(...)`
    | some types =>
      match loadEmbeddedTs K types with
      | .error e => .error e
      | .ok emb => merge K Gen.builtinTS [tsArg, emb]
  else .ok tsArg

/-- `CasJsonDeserializer.deserialize` (feature structures given as a list) -/
def loadJson (K : Consts) (tsArg : TypeSystem) (tsIdx ci : Nat) (lenient mergeTs : Bool) (hp : Heap) (doc : JDoc) :
    Except Err Loaded :=
  match loadTs K tsArg mergeTs doc with
  | .error e => .error e
  | .ok ts =>
    match sofaPass K ts tsIdx ci doc.fss doc.fss { cas := Cas.empty, heap := hp } with
    | .error e => .error e
    | .ok s1 =>
      match fsPass K ts tsIdx doc.fss s1 with
      | .error e => .error e
      | .ok s =>
        match fixUps s.fss s.deferred s.heap with
        | .error e => .error e
        | .ok heap =>
          let c : Cas := { s.cas with nextXid := s.maxId + 1, nextSofaNum := s.maxNum + 1 }
          match viewsPass ts ci lenient s.fss doc.views { cas := c, heap := heap } with
          | .error e => .error e
          | .ok v => .ok { ts := ts, cas := v.cas, heap := v.heap }

end Cassis.Json
