/-
Model of `cassis/cas.py:33-100` (`_get_size_in_utf16_bytes`, `Utf16CodepointOffsetConverter`)
and of the sofa-string setter `cassis/cas.py:134-145`.

A sofa text is a list of Unicode code points (`Nat`).  Python's `str` indexes by code point,
`len(c.encode("utf-16-le")) // 2` is 1 for BMP code points and 2 otherwise.
-/
namespace Cassis.Offsets

/-- `_get_size_in_utf16_bytes` -/
def width (cp : Nat) : Nat := if cp < 0x10000 then 1 else 2

/-- `[0] + list(itertools.accumulate(sizes))`, started at `acc` -/
def accum : List Nat → Nat → List Nat
  | [], acc => [acc]
  | w :: ws, acc => acc :: accum ws (acc + w)

/-- the accumulated sizes of a text -/
def table (cps : List Nat) : List Nat := accum (cps.map width) 0

/-- dict lookup `d[k]` for `d = dict(zip(keys, range(len(keys))))`: a later occurrence overwrites -/
def lookupLastAux : List Nat → Nat → Nat → Option Nat → Option Nat
  | [], _, _, best => best
  | x :: xs, k, i, best => lookupLastAux xs k (i+1) (if x = k then some i else best)

def lookupLast (keys : List Nat) (k : Nat) : Option Nat := lookupLastAux keys k 0 none

/-- converter state: `None` before any mapping was created, else the accumulated table -/
abbrev Conv := Option (List Nat)

/-- `create_offset_mapping`: a `None` text leaves the old mapping in place -/
def createMapping (c : Conv) (text : Option (List Nat)) : Conv :=
  match text with
  | none => c
  | some cps => some (table cps)

/-- `python_to_external` on a non-`None` index (offsets are non-negative here; a negative Python
    int is never a key of the dict and is passed through, which the driver handles separately) -/
def p2eTab (tab : List Nat) (i : Nat) : Nat :=
  match tab[i]? with
  | some e => e
  | none => i          -- KeyError: warn and pass through

def e2pTab (tab : List Nat) (j : Nat) : Nat :=
  match lookupLast tab j with
  | some i => i
  | none => j          -- KeyError: warn and pass through

def pythonToExternal (c : Conv) (i : Nat) : Nat :=
  match c with
  | none => i
  | some tab => p2eTab tab i

def externalToPython (c : Conv) (j : Nat) : Nat :=
  match c with
  | none => j
  | some tab => e2pTab tab j

/-- text-level shorthands -/
def p2e (cps : List Nat) (i : Nat) : Nat := p2eTab (table cps) i
def e2p (cps : List Nat) (j : Nat) : Nat := e2pTab (table cps) j

/-! ### Independent specification: real UTF-16 encoding with surrogate arithmetic -/

/-- UTF-16 code units of one code point (lone surrogates encode as themselves, as Python's
    `surrogatepass` would; the converter only looks at the *number* of units) -/
def encodeCp (cp : Nat) : List Nat :=
  if cp < 0x10000 then [cp]
  else
    let v := cp - 0x10000
    [0xD800 + v / 0x400, 0xDC00 + v % 0x400]

def utf16Encode (cps : List Nat) : List Nat := cps.flatMap encodeCp

/-- decode a well-formed unit sequence (inverse of `utf16Encode` on scalar values) -/
def utf16Decode : List Nat → List Nat
  | [] => []
  | [u] => [u]
  | u :: v :: rest =>
    if 0xD800 ≤ u ∧ u < 0xDC00 ∧ 0xDC00 ≤ v ∧ v < 0xE000 then
      (0x10000 + (u - 0xD800) * 0x400 + (v - 0xDC00)) :: utf16Decode rest
    else u :: utf16Decode (v :: rest)

/-- Python slice `l[b:e]` for `0 ≤ b`, `0 ≤ e` -/
def slice {α} (l : List α) (b e : Nat) : List α := (l.take e).drop b

/-- the set of external offsets that fall on a code-point boundary -/
def boundaries (cps : List Nat) : List Nat := table cps

/-- a Unicode scalar value (no surrogate code points) -/
def IsScalar (cp : Nat) : Prop := cp < 0xD800 ∨ (0xE000 ≤ cp ∧ cp < 0x110000)

/-! ### Sofa text setter as a state machine (`Sofa.sofaString` property) -/

structure SofaText where
  text : Option (List Nat)
  conv : Conv
deriving Repr

/-- `Sofa(...)` with `sofaString=None` -/
def SofaText.init : SofaText := { text := none, conv := none }

/-- `sofa.sofaString = value` -/
def SofaText.set (s : SofaText) (v : Option (List Nat)) : SofaText :=
  { text := v, conv := createMapping s.conv v }

end Cassis.Offsets
