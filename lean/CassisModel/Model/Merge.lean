/-
Model of `merge_typesystems` (`cassis/typesystem.py`, with the repairs: re-parenting moves the type
between the children maps of the merged type system and lets it inherit the additional features;
contradictory supertypes and feature clashes revealed by re-parenting raise `ValueError`).

Representation note.  The merged type system is a fresh `TypeSystem()`, extended with `create_type` /
`_add_feature`.  When a type is re-parented below a type registered *after* it, the model moves the
records of the re-parented subtree to the end of the registry list (keeping their relative order), so
that the list stays "parents first".  The implementation's dict keeps the old insertion order; no
property speaks about that order after a merge (`to_xml`/`to_json` sort by name) and the correspondence
check compares merged type systems as name-keyed maps.
-/
import CassisModel.Model.TypeSystem

namespace Cassis.TS

/-- one user type of an input type system as the merge loop sees it (`t.name`, `t.supertype.name`,
    `t.description`, `t.features`) -/
structure Decl where
  name : String
  super : String
  descr : Option String := none
  own : List Feature := []
deriving Repr, DecidableEq, Inhabited

/-- `ts.get_types()` of an input -/
def declsOf (K : Consts) (ts : TypeSystem) : List Decl :=
  (getTypes K ts false).map (fun t => { name := t.name, super := t.super.getD "", descr := t.descr, own := t.own })

structure MState where
  ts : TypeSystem
  merged : List String        -- `merged_types`
deriving Repr, Inhabited

/-- `for feature in t.features: type._add_feature(copy(feature), warn=False)` -/
def addOwnFeatures (ts : TypeSystem) (name : String) : List Feature → Except Err TypeSystem
  | [] => .ok ts
  | f :: fs =>
    match addFeature ts name { f with domain := name } with
    | .error e => .error e
    | .ok ts' => addOwnFeatures ts' name fs

/-- a proper-or-improper descendant of `name` owns a feature named like `f` but defined differently -/
def subtreeClash (ts : TypeSystem) (name : String) (f : Feature) : Bool :=
  (descendantsOf ts name).any (fun d =>
    match find? ts d with
    | none => false
    | some t => match t.own.find? (·.name == f.name) with
      | some g => !(featureEq g f)
      | none => false)

/-- let `name` (and, through `pushInherited`, its subtypes) inherit the features of its new supertype -/
def inheritFrom (ts : TypeSystem) (name : String) : List Feature → Except Err TypeSystem
  | [] => .ok ts
  | f :: fs =>
    if subtreeClash ts name f then .error .valueError
    else
      match pushInherited f (ts.types.length + 1) ts [name] with
      | .error e => .error e
      | .ok ts' => inheritFrom ts' name fs

/-- move `name` from the children of `oldSup` to those of `newSup`, set its supertype, and move the
    records of its subtree to the end of the registry (see the representation note) -/
def relink (ts : TypeSystem) (name oldSup newSup : String) : TypeSystem :=
  let sub := descendantsOf ts name
  let upd := ts.types.map (fun t =>
    if t.name == name then { t with super := some newSup }
    else if t.name == oldSup && t.name == newSup then t
    else if t.name == oldSup then { t with children := t.children.filter (· != name) }
    else if t.name == newSup then { t with children := t.children ++ [name] }
    else t)
  { ts with types := upd.filter (fun t => !(sub.contains t.name)) ++ upd.filter (fun t => sub.contains t.name) }

/-- the re-parenting branch -/
def reparent (ts : TypeSystem) (name oldSup newSup : String) : Except Err TypeSystem :=
  if subsumes ts name newSup then .error .valueError        -- the new supertype is the type itself or below it
  else
    match find? ts newSup with
    | none => .error .typeNotFound
    | some ns =>
      let ts1 := relink ts name oldSup newSup
      inheritFrom ts1 name (allFeatures ns)

/-- the body of the `for t in type_list` loop for a declaration whose supertype is available -/
def processDecl (K : Consts) (s : MState) (d : Decl) : Except Err MState := do
  let ts1 ←
    if !(hasExact s.ts d.name) then do
      let ts' ← createType K s.ts d.name d.super d.descr
      addOwnFeatures ts' d.name d.own
    else do
      let ex ← match find? s.ts d.name with
        | some t => pure t
        | none => throw .typeNotFound
      let exSup := ex.super.getD ""
      let ts' ←
        if d.super != exSup then
          -- `merged_ts.subsumes(a, b)` resolves both names first
          match getType s.ts exSup, getType s.ts d.super with
          | .ok _, .ok _ =>
            if subsumes s.ts exSup d.super then reparent s.ts d.name exSup d.super
            else if subsumes s.ts d.super exSup then pure s.ts
            else throw .valueError
          | _, _ => throw .typeNotFound
        else pure s.ts
      addOwnFeatures ts' d.name d.own
  pure { ts := ts1, merged := if s.merged.contains d.name then s.merged else s.merged ++ [d.name] }

/-- one pass over the whole (never shrinking) `type_list`; returns the state and how many declarations
    were processed in this pass -/
def mergeRound (K : Consts) : List Decl → MState → Nat → Except Err (MState × Nat)
  | [], s, n => .ok (s, n)
  | d :: ds, s, n =>
    if K.predefined.contains d.super || s.merged.contains d.super then
      match processDecl K s d with
      | .error e => .error e
      | .ok s' => mergeRound K ds s' (n + 1)
    else mergeRound K ds s n

/-- `while True:` — stops when a pass processed every declaration -/
def mergeLoop (K : Consts) (decls : List Decl) : Nat → MState → Except Err MState
  | 0, _ => .error .outOfFuel
  | fuel+1, s =>
    match mergeRound K decls s 0 with
    | .error e => .error e
    | .ok (s', n) => if n == decls.length then .ok s' else mergeLoop K decls fuel s'

/-- `merge_typesystems(*typesystems)`; `base` is a fresh `TypeSystem()` -/
def mergeDecls (K : Consts) (base : TypeSystem) (decls : List Decl) : Except Err TypeSystem :=
  match mergeLoop K decls (decls.length + 1) { ts := base, merged := [] } with
  | .error e => .error e
  | .ok s => .ok s.ts

def merge (K : Consts) (base : TypeSystem) (inputs : List TypeSystem) : Except Err TypeSystem :=
  mergeDecls K base (inputs.flatMap (declsOf K))

end Cassis.TS
