/-
The lexical layer of the codecs: `str(int)` / `int(str)`, `" ".join` / `str.split()`, booleans,
upper-case hex of byte arrays.  Strings are `List Char` underneath (`String.mk` / `.toList`) so that the
round-trip laws can be proved by structural induction (`Proofs/Lex.lean`).
Floats are opaque tokens (DESIGN.md §3.2): the model never formats or parses them.
-/
namespace Cassis.Lex

def digitChar (d : Nat) : Char := Char.ofNat (48 + d)

def charDigit? (c : Char) : Option Nat :=
  if 48 ≤ c.toNat ∧ c.toNat ≤ 57 then some (c.toNat - 48) else none

/-- least-significant-first decimal digits -/
def digitsRev : Nat → Nat → List Nat
  | 0, _ => []
  | fuel+1, n => if n < 10 then [n] else (n % 10) :: digitsRev fuel (n / 10)

/-- `str(n)` for a natural number -/
def showNatL (n : Nat) : List Char := ((digitsRev (n+1) n).reverse).map digitChar

def parseNatAux : List Char → Nat → Option Nat
  | [], acc => some acc
  | c :: cs, acc => match charDigit? c with
    | some d => parseNatAux cs (acc * 10 + d)
    | none => none

/-- `int(s)` restricted to plain decimal digit strings (no sign, no blanks, no underscores) -/
def parseNatL (cs : List Char) : Option Nat :=
  match cs with
  | [] => none
  | _ => parseNatAux cs 0

/-- `str(i)` -/
def showIntL (i : Int) : List Char :=
  match i with
  | .ofNat n => showNatL n
  | .negSucc n => '-' :: showNatL (n + 1)

/-- `int(s)` for the literals `str(int)` produces (an optional `-` followed by digits) -/
def parseIntL (cs : List Char) : Option Int :=
  match cs with
  | '-' :: rest => (parseNatL rest).map (fun n => -(n : Int))
  | _ => (parseNatL cs).map (fun n => (n : Int))

def showInt (i : Int) : String := String.ofList (showIntL i)
def parseInt (s : String) : Option Int := parseIntL s.toList

def isWs (c : Char) : Bool := c == ' ' || c == '\n' || c == '\t' || c == '\r'

/-- `" ".join(tokens)` on character lists -/
def joinSpL : List (List Char) → List Char
  | [] => []
  | [t] => t
  | t :: ts => t ++ ' ' :: joinSpL ts

/-- `s.split()`: maximal runs of non-whitespace characters -/
def splitWsAux : List Char → List Char → List (List Char)
  | [], cur => if cur.isEmpty then [] else [cur.reverse]
  | c :: cs, cur =>
    if isWs c then (if cur.isEmpty then splitWsAux cs [] else cur.reverse :: splitWsAux cs [])
    else splitWsAux cs (c :: cur)

def splitWsL (cs : List Char) : List (List Char) := splitWsAux cs []

def joinSp (toks : List String) : String := String.ofList (joinSpL (toks.map (·.toList)))
def splitWs (s : String) : List String := (splitWsL s.toList).map String.ofList

def showBool (b : Bool) : String := if b then "true" else "false"
def parseBool (s : String) : Option Bool :=
  if s == "true" then some true else if s == "false" then some false else none

def hexDigit (d : Nat) : Char := if d < 10 then Char.ofNat (48 + d) else Char.ofNat (55 + d)   -- 'A' = 65
def hexVal? (c : Char) : Option Nat :=
  if 48 ≤ c.toNat ∧ c.toNat ≤ 57 then some (c.toNat - 48)
  else if 65 ≤ c.toNat ∧ c.toNat ≤ 70 then some (c.toNat - 55)
  else if 97 ≤ c.toNat ∧ c.toNat ≤ 102 then some (c.toNat - 87)
  else none

/-- `"".join(f"{x:02X}" for x in values)` for bytes 0..255 -/
def hexEncL : List Nat → List Char
  | [] => []
  | b :: bs => hexDigit (b / 16) :: hexDigit (b % 16) :: hexEncL bs

/-- `list(bytearray.fromhex(s))` for strings without blanks -/
def hexDecL : List Char → Option (List Nat)
  | [] => some []
  | [_] => none
  | a :: b :: rest =>
    match hexVal? a, hexVal? b, hexDecL rest with
    | some x, some y, some r => some ((x * 16 + y) :: r)
    | _, _, _ => none

def hexEnc (bs : List Nat) : String := String.ofList (hexEncL bs)
def hexDec (s : String) : Option (List Nat) := hexDecL s.toList

end Cassis.Lex
