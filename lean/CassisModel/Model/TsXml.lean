/-
Model of the type-system descriptor codec (`cassis/typesystem.py`: `TypeSystemSerializer`,
`TypeSystemDeserializer`) at the level of abstract descriptors (the list of `typeDescription` records;
XML text, namespaces and escaping are lxml's business).  An abstract descriptor carries every element text exactly
as it stands in the XML (not trimmed); the reader strips each of them (`normalize`).
-/
import CassisModel.Model.Json

namespace Cassis.TsXml
open Cassis.TS

structure FDesc where
  name : String
  descr : Option String := none
  range : String
  multi : Option Bool := none
  elem : Option String := none
deriving Repr, DecidableEq, Inhabited

structure TDesc where
  name : String
  descr : Option String := none
  super : String
  feats : List FDesc := []
deriving Repr, DecidableEq, Inhabited

abbrev Descriptor := List TDesc

/-- an empty element text cannot be told from a missing text in XML -/
def noEmpty (d : Option String) : Option String := if d == some "" then none else d

/-- `_serialize_feature` -/
def renderFeat (f : Feature) : FDesc :=
  { name := if f.reserved then String.ofList f.name.toList.dropLast else f.name,
    descr := noEmpty f.descr, range := f.range, multi := f.multi, elem := f.elem }

/-- `_serialize_type` -/
def renderType (t : TypeRec) : TDesc :=
  { name := t.name, descr := noEmpty t.descr, super := t.super.getD "", feats := t.own.map renderFeat }

def insertStr (x : String) : List String → List String
  | [] => [x]
  | y :: ys => if x ≤ y then x :: y :: ys else y :: insertStr x ys
def sortStrs (l : List String) : List String := l.foldr insertStr []

/-- `TypeSystemSerializer.serialize`: the redeclared predefined types (sorted), then the user types sorted
    by name without the implicit DocumentAnnotation -/
def toDescriptor (K : Consts) (ts : TypeSystem) : Except Err Descriptor := do
  let pre ← (sortStrs ts.redeclared.eraseDups).mapM (fun n => do
    let t ← getType ts n
    pure (renderType t))
  let user := (Json.sortByName (getTypes K ts false)).filter (fun t => t.name != DOCUMENT_ANNOTATION)
  pure (pre ++ user.map renderType)

/-- `_get_elem_as_str`: surrounding whitespace is stripped (`None` stays `None`; an empty element has text `None`);
    applied to EVERY text the reader takes from the descriptor: type name, description, supertype name, feature name,
    range type name, feature description, element type.  `str.strip()` without argument removes the characters with
    `str.isspace()`: the ASCII blanks and control characters U+0009–U+000D, U+001C–U+001F, and the Unicode spaces
    (NEL U+0085, no-break space U+00A0, U+1680, U+2000–U+200A, U+2028, U+2029, U+202F, U+205F, U+3000) — `isPySpace` -/
def isPySpace (c : Char) : Bool :=
  let n := c.toNat
  (0x09 ≤ n && n ≤ 0x0D) || (0x1C ≤ n && n ≤ 0x20) || n == 0x85 || n == 0xA0 || n == 0x1680 ||
  (0x2000 ≤ n && n ≤ 0x200A) || n == 0x2028 || n == 0x2029 || n == 0x202F || n == 0x205F || n == 0x3000

def strip (s : String) : String := ((s.toSlice.dropWhile isPySpace).dropEndWhile isPySpace).copy

def normDescr (d : Option String) : Option String :=
  match d with
  | none => none
  | some s => some (strip s)

/-- dependency-first order of the declared names (any order respecting "supertype first" is what
    `toposort_flatten(sort=False)` may return; the model picks the one `Json.toposort` picks) -/
def creationOrder (d : Descriptor) : Except Err (List String) :=
  Json.toposort (d.map (fun t => ({ name := t.name, super := t.super } : Json.JType)))

/-- what the reader makes of the texts of one `featureDescription`: name, range type, element type and description
    all go through `_get_elem_as_str` (`multipleReferencesAllowed` is compared unstripped with `"true"`/`"false"`,
    which is the text layer's business) -/
def stripF (f : FDesc) : FDesc :=
  { f with name := strip f.name, descr := normDescr f.descr, range := strip f.range, elem := f.elem.map strip }

/-- … and of one `typeDescription`: name, description, supertype name, and every feature -/
def stripT (t : TDesc) : TDesc :=
  { name := strip t.name, descr := normDescr t.descr, super := strip t.super, feats := t.feats.map stripF }

/-- later declarations of a name replace earlier ones (`types[type_name] = …`), features accumulate
    (`features[type_name].append(f)`) -/
def groupByName (d0 : Descriptor) : Descriptor :=
  let names := (d0.map (·.name)).eraseDups
  names.filterMap (fun n =>
    match (d0.filter (fun t => t.name == n)).getLast? with
    | some t => some { t with feats := (d0.filter (fun u => u.name == n)).flatMap (·.feats) }
    | none => none)

/-- the parsing loop: every text is whitespace-stripped as it is read, THEN the declarations are keyed by the
    (stripped) type name — `"x.A"` and `" x.A "` are one type, a feature `" self "` is the feature `self` -/
def normalize (d0 : Descriptor) : Descriptor := groupByName (d0.map stripT)

/-- supertypes and feature types must be predefined or declared (`types[...]` raises `KeyError`) -/
def featsResolvable (ok : String → Bool) : List FDesc → Bool
  | [] => true
  | f :: fs => ok f.range && (match f.elem with | some e => ok e | none => true) && featsResolvable ok fs

def allResolvable (ok : String → Bool) : Descriptor → Bool
  | [] => true
  | t :: ts => ok t.super && featsResolvable ok t.feats && allResolvable ok ts

def featKey (name : String) (descr : Option String) (range : String) (elem : Option String) : String × Option String × String × String :=
  (name, descr, range, elem.getD TOP)

/-- redeclared predefined types must match the built-in definition; returns their names -/
def checkPredefined (K : Consts) (base : TypeSystem) : Descriptor → Except Err (List String)
  | [] => .ok []
  | t :: ts =>
    if K.predefined.contains t.name then
      match find? base t.name with
      | none => .error .typeNotFound
      | some pt =>
        if pt.super != some t.super then .error .valueError
        else
          let a := (t.feats.map (fun f => featKey f.name f.descr f.range f.elem)).toArray.qsort (fun x y => x.1 < y.1) |>.toList
          let b := (pt.own.map (fun f => featKey f.name f.descr f.range f.elem)).toArray.qsort (fun x y => x.1 < y.1) |>.toList
          if a != b then .error .valueError
          else match checkPredefined K base ts with
            | .error e => .error e
            | .ok r => .ok (t.name :: r)
    else checkPredefined K base ts

/-- create the declared (non-predefined) types in the given dependency-first order -/
def createTypes (K : Consts) (d : Descriptor) : List String → TypeSystem → Except Err (TypeSystem × List String)
  | [], ts => .ok (ts, [])
  | n :: ns, ts =>
    if K.predefined.contains n then createTypes K d ns ts
    else match d.find? (fun t => t.name == n) with
      | none => .error .keyError
      | some t =>
        match createType K ts t.name t.super t.descr with
        | .error e => .error e
        | .ok ts1 =>
          match createTypes K d ns ts1 with
          | .error e => .error e
          | .ok (ts2, created) => .ok (ts2, n :: created)

def addFeats (ts : TypeSystem) (tyName : String) : List FDesc → Except Err TypeSystem
  | [] => .ok ts
  | f :: fs =>
    match createFeature ts tyName f.name f.range f.elem f.descr f.multi with
    | .error e => .error e
    | .ok ts1 => addFeats ts1 tyName fs

/-- the features are added after all types exist, type by type in creation order -/
def addAllFeats (d : Descriptor) : List String → TypeSystem → Except Err TypeSystem
  | [], ts => .ok ts
  | n :: ns, ts =>
    match d.find? (fun t => t.name == n) with
    | none => addAllFeats d ns ts
    | some t =>
      match addFeats ts t.name t.feats with
      | .error e => .error e
      | .ok ts1 => addAllFeats d ns ts1

/-- `TypeSystemDeserializer.deserialize` -/
def load (K : Consts) (d0 : Descriptor) : Except Err TypeSystem :=
  let d1 := normalize d0
  let hasDoc := (d1.map (·.name)).contains DOCUMENT_ANNOTATION
  let d := if hasDoc then d1 else d1 ++ [{ name := DOCUMENT_ANNOTATION, super := ANNOTATION,
                                            feats := [{ name := "language", range := "uima.cas.String" }] }]
  let base := Gen.builtinTSNoDoc
  let declared := d.map (·.name)
  let ok := fun (n : String) => K.predefined.contains n || declared.contains n
  if !(allResolvable ok d) then .error .keyError
  else
    match checkPredefined K base d with
    | .error e => .error e
    | .ok redecl =>
      match creationOrder d with
      | .error e => .error e
      | .ok order =>
        match createTypes K d order base with
        | .error e => .error e
        | .ok (ts1, created) =>
          match addAllFeats d created ts1 with
          | .error e => .error e
          | .ok ts2 => .ok { ts2 with redeclared := (if hasDoc then [DOCUMENT_ANNOTATION] else []) ++ redecl }

end Cassis.TsXml
