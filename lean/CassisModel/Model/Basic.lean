/-
Shared conventions of the model: Python exceptions become `Except Err α`.
-/
namespace Cassis

/-- the exception classes the properties distinguish -/
inductive Err where
  | valueError
  | keyError
  | typeNotFound
  | runtimeError
  | attributeError
  | typeError
  | indexError
  | notImplemented
  | noSofa          -- AnnotationHasNoSofa
  | outOfFuel       -- never expected: a fuelled loop of the model ran dry
deriving Repr, DecidableEq, BEq, Inhabited

def Err.toString : Err → String
  | .valueError => "ValueError"
  | .keyError => "KeyError"
  | .typeNotFound => "TypeNotFoundError"
  | .runtimeError => "RuntimeError"
  | .attributeError => "AttributeError"
  | .typeError => "TypeError"
  | .indexError => "IndexError"
  | .notImplemented => "NotImplementedError"
  | .noSofa => "AnnotationHasNoSofa"
  | .outOfFuel => "OutOfFuel"

instance : ToString Err := ⟨Err.toString⟩

abbrev R (α : Type) := Except Err α

/-- association list update: replace the first binding of `k` in place, else append
    (Python `d[k] = v` on an insertion-ordered dict) -/
def alistSet {β} (l : List (String × β)) (k : String) (v : β) : List (String × β) :=
  match l with
  | [] => [(k, v)]
  | (k', v') :: rest => if k' = k then (k, v) :: rest else (k', v') :: alistSet rest k v

def alistGet? {β} (l : List (String × β)) (k : String) : Option β :=
  match l with
  | [] => none
  | (k', v') :: rest => if k' = k then some v' else alistGet? rest k

theorem alistGet?_set_same {β} (l : List (String × β)) (k : String) (v : β) :
    alistGet? (alistSet l k v) k = some v := by
  induction l with
  | nil => simp [alistSet, alistGet?]
  | cons p rest ih =>
    obtain ⟨k', v'⟩ := p
    unfold alistSet
    split
    · simp [alistGet?]
    · rename_i h; simp [alistGet?, h, ih]

theorem alistGet?_set_other {β} (l : List (String × β)) (k k2 : String) (v : β) (h : k2 ≠ k) :
    alistGet? (alistSet l k v) k2 = alistGet? l k2 := by
  induction l with
  | nil => simp [alistSet, alistGet?, Ne.symm h]
  | cons p rest ih =>
    obtain ⟨k', v'⟩ := p
    unfold alistSet
    split
    · rename_i hk; subst hk; simp [alistGet?, Ne.symm h]
    · simp [alistGet?, ih]

end Cassis
