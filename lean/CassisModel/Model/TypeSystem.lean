/-
Model of `cassis/typesystem.py`: `Feature`, `Type`, `TypeSystem` (type tree, features, lookups).

Types are identified by name inside one type-system value (the code identifies them by object; the
correspondence check observes object identity on the implementation side, see DESIGN.md §4).
Dictionaries are lists in insertion order.
-/
import CassisModel.Model.Basic

namespace Cassis.TS

def TOP : String := "uima.cas.TOP"
def ANNOTATION : String := "uima.tcas.Annotation"
def DOCUMENT_ANNOTATION : String := "uima.tcas.DocumentAnnotation"
def SOFA : String := "uima.cas.Sofa"
def FS_ARRAY : String := "uima.cas.FSArray"
def FS_LIST : String := "uima.cas.FSList"
def ARRAY_BASE : String := "uima.cas.ArrayBase"
def STRING_ARRAY : String := "uima.cas.StringArray"
def STRING_LIST : String := "uima.cas.StringList"

structure Feature where
  name : String
  domain : String
  range : String
  elem : Option String := none
  descr : Option String := none
  multi : Option Bool := none
  reserved : Bool := false
deriving Repr, DecidableEq, Inhabited

/-- `Feature.__eq__`: name, description, range name, element type name (absent = TOP).
    The multiple-references flag is compared with itself in the code and therefore never differs. -/
def featureEq (f g : Feature) : Bool :=
  f.name == g.name && f.descr == g.descr && f.range == g.range &&
  (f.elem.getD TOP) == (g.elem.getD TOP)

structure TypeRec where
  name : String
  super : Option String
  descr : Option String := none
  children : List String := []     -- keys of `_children`, insertion order
  own : List Feature := []         -- values of `_features`
  inh : List Feature := []         -- values of `_inherited_features`
deriving Repr, DecidableEq, Inhabited

structure TypeSystem where
  types : List TypeRec                  -- `_types`, insertion order
  redeclared : List String := []        -- `_predefined_types`
deriving Repr, DecidableEq, Inhabited

/-- constant name sets of the module, regenerated from the source (see `Gen/Builtins.lean`) -/
structure Consts where
  predefined : List String
  primitive : List String
  finalTypes : List String      -- `_INHERITANCE_FINAL_TYPES`
  primArrays : List String
  primLists : List String
  arrays : List String
  lists : List String
deriving Repr

variable (K : Consts)

def find? (ts : TypeSystem) (n : String) : Option TypeRec := ts.types.find? (·.name == n)

def hasExact (ts : TypeSystem) (n : String) : Bool := (find? ts n).isSome

/-- `Type.short_name`: the part after the last dot -/
def shortName (n : String) : String := (n.splitOn ".").getLast!

def hasDot (n : String) : Bool := n.contains '.'

/-- `TypeSystem.get_type(name)` (`match_exactly=False`) -/
def getType (ts : TypeSystem) (n : String) : R TypeRec :=
  match find? ts n with
  | some t => .ok t
  | none =>
    if hasDot n then .error .typeNotFound
    else
      match ts.types.filter (fun t => shortName t.name == n) with
      | [t] => .ok t
      | _ => .error .typeNotFound

/-- `TypeSystem.get_type(name, match_exactly=True)`: no short-name matching.  The loaders resolve the type an element of a
    document names this way: a document names types by their full names -/
def getTypeExact (ts : TypeSystem) (n : String) : R TypeRec :=
  match find? ts n with
  | some t => .ok t
  | none => .error .typeNotFound

/-- `TypeSystem.contains_type(name, match_exactly)` -/
def containsType (ts : TypeSystem) (n : String) (exact : Bool := false) : Bool :=
  if hasDot n || exact then hasExact ts n
  else match getType ts n with
    | .ok _ => true
    | .error _ => false

/-- replace the record named `n` -/
def setRec (ts : TypeSystem) (r : TypeRec) : TypeSystem :=
  { ts with types := ts.types.map (fun t => if t.name == r.name then r else t) }

/-- `_types[name] = new_type` -/
def putRec (ts : TypeSystem) (r : TypeRec) : TypeSystem :=
  if hasExact ts r.name then setRec ts r else { ts with types := ts.types ++ [r] }

/-- `Type.all_features`: own then inherited, `unique_everseen` under `Feature.__eq__` -/
def dedupFeatures : List Feature → List Feature → List Feature
  | [], _ => []
  | f :: fs, seen => if seen.any (featureEq · f) then dedupFeatures fs seen
                     else f :: dedupFeatures fs (seen ++ [f])

def allFeatures (t : TypeRec) : List Feature := dedupFeatures (t.own ++ t.inh) []

/-- `Type.get_feature` -/
def getFeature (t : TypeRec) (n : String) : Option Feature :=
  match t.own.find? (·.name == n) with
  | some f => some f
  | none => t.inh.find? (·.name == n)

/-- `Type.descendants` (pre-order over `_children`), fuel = depth budget -/
def descendants (ts : TypeSystem) : Nat → String → List String
  | 0, _ => []
  | f+1, n => match find? ts n with
    | none => []
    | some t => n :: t.children.flatMap (descendants ts f)

def descendantsOf (ts : TypeSystem) (n : String) : List String := descendants ts (ts.types.length + 1) n

/-- walk of the supertype chain used by `Type.subsumes`, `is_instance_of`, `is_primitive` -/
def superOf (ts : TypeSystem) (n : String) : Option String := (find? ts n).bind (·.super)

/-- `Type.subsumes(self=a, other=b)` -/
def subsumesAux (ts : TypeSystem) (a : String) : Nat → Option String → Bool
  | 0, _ => false
  | _, none => false
  | f+1, some b => if a == b then true else subsumesAux ts a f (superOf ts b)

def subsumes (ts : TypeSystem) (a b : String) : Bool :=
  if a == TOP then true else subsumesAux ts a (ts.types.length + 1) (some b)

/-- `TypeSystem.is_instance_of(type_, parent)` on names of registered types -/
def isInstanceOfAux (ts : TypeSystem) (p : String) : Nat → Option String → Bool
  | 0, _ => false
  | _, none => false
  | f+1, some t => if t == p then true else if t == TOP then false else isInstanceOfAux ts p f (superOf ts t)

def isInstanceOf (ts : TypeSystem) (t p : String) : Bool :=
  isInstanceOfAux ts p (ts.types.length + 1) (some t)

/-- `is_primitive(type_)`: walk up until TOP or a primitive name -/
def isPrimitiveAux (ts : TypeSystem) : Nat → Option String → Bool
  | 0, _ => false
  | _, none => false
  | f+1, some t => if t == TOP then false else if K.primitive.contains t then true
                   else isPrimitiveAux ts f (superOf ts t)

def isPrimitive (ts : TypeSystem) (t : String) : Bool := isPrimitiveAux K ts (ts.types.length + 1) (some t)

def isPrimitiveArray (n : String) : Bool := n != TOP && K.primArrays.contains n
def isPrimitiveList (n : String) : Bool := n != TOP && K.primLists.contains n
def isArray (n : String) : Bool := n != TOP && K.arrays.contains n
def isList (n : String) : Bool := n != TOP && K.lists.contains n

/-! ### `Type._add_feature` -/

/-- outcome of the two dictionary checks at the top of `_add_feature` -/
inductive AddCheck | conflict | same | fresh
deriving DecidableEq, Repr

def addCheck (t : TypeRec) (f : Feature) (inherited : Bool) : AddCheck :=
  let target := if inherited then t.inh else t.own
  match target.find? (·.name == f.name) with
  | some g => if featureEq g f then .same else .conflict
  | none =>
    match t.inh.find? (·.name == f.name) with
    | some g => if featureEq g f then .same else .conflict
    | none => .fresh

/-- push an inherited feature down the `_children` links (fuel = depth budget) -/
def pushInherited (f : Feature) : Nat → TypeSystem → List String → R TypeSystem
  | 0, _, _ => .error .outOfFuel
  | _, ts, [] => .ok ts
  | fuel+1, ts, c :: cs =>
    match find? ts c with
    | none => pushInherited f (fuel+1) ts cs       -- cannot happen in a consistent tree
    | some t =>
      match addCheck t f true with
      | .conflict => .error .valueError
      | .same => pushInherited f (fuel+1) ts cs
      | .fresh => do
        let ts1 := setRec ts { t with inh := t.inh ++ [f] }
        let ts2 ← pushInherited f fuel ts1 t.children
        pushInherited f (fuel+1) ts2 cs
termination_by fuel _ cs => (fuel, cs.length)

/-- does a proper descendant own a feature of that name defined differently? -/
def descendantConflict (ts : TypeSystem) (n : String) (f : Feature) : Bool :=
  (descendantsOf ts n).any (fun d => d != n &&
    match find? ts d with
    | none => false
    | some t => match t.own.find? (·.name == f.name) with
      | some g => !(featureEq g f)
      | none => false)

/-- `domain._add_feature(feature)` with `inherited=False` -/
def addFeature (ts : TypeSystem) (domain : String) (f : Feature) : R TypeSystem :=
  match find? ts domain with
  | none => .error .typeNotFound
  | some t =>
    match addCheck t f false with
    | .conflict => .error .valueError
    | .same => .ok ts
    | .fresh =>
      if descendantConflict ts domain f then .error .valueError
      else
        let ts1 := setRec ts { t with own := t.own ++ [f] }
        pushInherited f (ts.types.length + 1) ts1 t.children

/-- `TypeSystem.create_feature` (names `self`/`type` get a trailing underscore) -/
def createFeature (ts : TypeSystem) (domain name range : String) (elem : Option String := none)
    (descr : Option String := none) (multi : Option Bool := none) : R TypeSystem := do
  let reserved := name == "self" || name == "type"
  let name' := if reserved then name ++ "_" else name
  let d ← getType ts domain
  let r ← getType ts range
  let e ← match elem with
    | none => pure none
    | some en => do let t ← getType ts en; pure (some t.name)
  addFeature ts d.name
    { name := name', domain := d.name, range := r.name, elem := e, descr := descr, multi := multi,
      reserved := reserved }

/-- add the inherited features of the supertype to a fresh (childless, featureless) type:
    the loop `for feature in supertype.all_features: new_type._add_feature(feature, inherited=True)` -/
def inheritAll : List Feature → TypeRec → R TypeRec
  | [], t => .ok t
  | f :: fs, t =>
    match addCheck t f true with
    | .conflict => .error .valueError
    | .same => inheritAll fs t
    | .fresh => inheritAll fs { t with inh := t.inh ++ [f] }

/-- `TypeSystem.create_type` -/
def createType (ts : TypeSystem) (name : String) (superName : String := ANNOTATION)
    (descr : Option String := none) : R TypeSystem := do
  if K.finalTypes.contains superName then throw .valueError
  if hasExact ts name && !(K.predefined.contains name) then throw .valueError
  let sup ← getType ts superName
  if K.finalTypes.contains sup.name then throw .valueError     -- the supertype may be given by short name
  let new0 : TypeRec := { name := name, super := some sup.name, descr := descr }
  -- `supertype._children[name] = new_type`
  let sup' := if sup.children.contains name then sup else { sup with children := sup.children ++ [name] }
  let new1 ← inheritAll (allFeatures sup) new0
  pure (putRec (setRec ts sup') new1)

/-- `TypeSystem.get_types(built_in)` -/
def getTypes (ts : TypeSystem) (builtIn : Bool := false) : List TypeRec :=
  if builtIn then ts.types else ts.types.filter (fun t => !(K.predefined.contains t.name))

/-- field names the instance constructor accepts (besides `type` and `xmiID`) -/
def ctorFields (t : TypeRec) : List String := (allFeatures t).map (·.name)

/-- `TypeSystem.transitive_closure(seeds, built_in=False)`; the open list is a queue, result order is
    the order of first visit (the code returns a set) -/
def closureStep (ts : TypeSystem) (visited : List String) : Nat → List String → List String
  | 0, _ => visited
  | _, [] => visited
  | fuel+1, n :: rest =>
    if visited.contains n then closureStep ts visited fuel rest
    else if K.predefined.contains n then closureStep ts visited fuel rest
    else match find? ts n with
      | none => closureStep ts visited fuel rest
      | some t =>
        let vis := visited ++ [n]
        let sup := match t.super with
          | some s => if vis.contains s then [] else [s]
          | none => []
        let feats := (allFeatures t).flatMap (fun f =>
          (if vis.contains f.range then [] else [f.range]) ++
          (match f.elem with | some e => if vis.contains e then [] else [e] | none => []))
        closureStep ts vis fuel (rest ++ sup ++ feats)

end Cassis.TS
