/-
Model of `cassis/cas.py:148-195` (`View`), `:403-507` (`select*`), `:836-841` (`_sort_func`).

A per-type index is a `sortedcontainers.SortedKeyList` keyed by `(begin, end, id(a))` (or
`(maxsize, maxsize, id(a))` for feature structures without offsets).  Assumed contract of the
library (DESIGN.md §4): `add` inserts after all elements whose key is `≤` the new key, `bisect_key_left p`
/ `bisect_key_right p` are the numbers of elements whose key is `<` / `≤` `p`, slicing is positional,
`remove` deletes the element with the given key and raises `ValueError` when there is none.
-/
import CassisModel.Model.TypeSystem

namespace Cassis.Index

/-- one indexed feature structure as the index sees it -/
structure Entry where
  b : Int
  e : Int
  oid : Nat        -- `id(a)`: any injective labelling of objects
deriving Repr, DecidableEq, Inhabited

def MAXSIZE : Int := 9223372036854775807

/-- key component standing for a `None` offset (e.g. a freshly created DocumentAnnotation): `None == None`
    lets tuples of `None`s be ordered by `id`, while `None < int` raises `TypeError` (see `Cas.add`) -/
def NONE_KEY : Int := -9223372036854775808

/-- Python tuple order on keys `(b, e, oid)` -/
def keyLt (x y : Entry) : Bool :=
  x.b < y.b || (x.b == y.b && (x.e < y.e || (x.e == y.e && x.oid < y.oid)))

def keyLe (x y : Entry) : Bool :=
  x.b < y.b || (x.b == y.b && (x.e < y.e || (x.e == y.e && x.oid ≤ y.oid)))

/-- lexicographic order on `(begin, end)` -/
def beLt (x : Entry) (p q : Int) : Bool := x.b < p || (x.b == p && x.e < q)
def beLe (x : Entry) (p q : Int) : Bool := x.b < p || (x.b == p && x.e ≤ q)

/-- `SortedKeyList.add` -/
def insert (x : Entry) : List Entry → List Entry
  | [] => [x]
  | y :: ys => if keyLe y x then y :: insert x ys else x :: y :: ys

/-- `SortedKeyList.remove`: `none` = `ValueError` -/
def remove (x : Entry) (l : List Entry) : Option (List Entry) :=
  if l.contains x then some (l.erase x) else none

/-- key `(b,e,oid) < (p,p)` (2-tuple probe): an equal prefix makes the 3-tuple the greater one -/
def ltProbe2 (p : Int) (x : Entry) : Bool := beLt x p p

/-- key `(b,e,oid) ≤ (q,q,+inf)` (3-tuple probe with an infinite last component) -/
def leProbeInf (q : Int) (x : Entry) : Bool := beLe x q q

/-- `bisect_key_left((begin, begin))` -/
def bisectLeft (l : List Entry) (cb : Int) : Nat := (l.takeWhile (ltProbe2 cb)).length

/-- `bisect_key_right((end, end, inf))` -/
def bisectRight (l : List Entry) (ce : Int) : Nat := (l.takeWhile (leProbeInf ce)).length

/-- `annotations[idx_begin:idx_end]` -/
def window (l : List Entry) (cb ce : Int) : List Entry :=
  (l.take (bisectRight l ce)).drop (bisectLeft l cb)

def coveredP (cb ce : Int) (x : Entry) : Bool := decide (x.b ≥ cb) && decide (x.e ≤ ce)
def coveringP (cb ce : Int) (x : Entry) : Bool := decide (cb ≥ x.b) && decide (ce ≤ x.e)

/-- `select_covered` on one per-type list -/
def selectCovered1 (l : List Entry) (cb ce : Int) : List Entry := (window l cb ce).filter (coveredP cb ce)

/-- `select_covering` on one per-type list -/
def selectCovering1 (l : List Entry) (cb ce : Int) : List Entry := l.filter (coveringP cb ce)

/-! ### A view's indices: type name ↦ sorted list (a `defaultdict`) -/

abbrev Idx := List (String × List Entry)

def get (idx : Idx) (ty : String) : List Entry := (alistGet? idx ty).getD []

/-- `View.add_annotation_to_index` -/
def add (idx : Idx) (ty : String) (x : Entry) : Idx := alistSet idx ty (insert x (get idx ty))

/-- `View.remove_annotation_from_index` -/
def rem (idx : Idx) (ty : String) (x : Entry) : Option Idx :=
  match remove x (get idx ty) with
  | some l => some (alistSet idx ty l)
  | none => none

/-- `View.get_all_annotations` -/
def all (idx : Idx) : List Entry := idx.flatMap (·.2)

/-- `Cas._get_feature_structures`: `names` is the set `{c.name for c in type_.descendants}` in the
    iteration order the set happens to have -/
def selectNames (idx : Idx) (names : List String) : List Entry := names.flatMap (get idx)

def selectCoveredNames (idx : Idx) (names : List String) (cb ce : Int) : List Entry :=
  names.flatMap (fun n => selectCovered1 (get idx n) cb ce)

def selectCoveringNames (idx : Idx) (names : List String) (cb ce : Int) : List Entry :=
  names.flatMap (fun n => selectCovering1 (get idx n) cb ce)

/-! ### Specifications (definitional) -/

/-- every indexed pair `(type name, entry)` of a view -/
def pairs (idx : Idx) : List (String × Entry) := idx.flatMap (fun p => p.2.map (fun x => (p.1, x)))

end Cassis.Index
