/-
The traversal of `cas_to_comparable_text` (`_find_all_fs` with default options) and the traversal of the JSON writer
(`include_inlinable_arrays_and_lists=True`) are the same run when no collected structure has an array or list feature:
the option is consulted only for features whose range is an array or list type.
-/
import CassisModel.Proofs.Traverse
import CassisModel.Proofs.Reach

namespace Cassis.Traverse
open Cassis.TS

/-- the option `includeInlinable` makes no difference for structures of type `t` -/
def OptFree (K : Consts) (ts : TypeSystem) (t : TypeRec) : Prop :=
  ∀ (b b' : Bool) (hp : Heap) (allFs : List (Int × Nat)) (lf a : Nat),
    nodeSuccs K ts { includeInlinable := b } hp allFs lf a t = nodeSuccs K ts { includeInlinable := b' } hp allFs lf a t

/-- a feature for which the option is not consulted -/
def FeatOptFree (K : Consts) (ts : TypeSystem) (f : Feature) : Prop :=
  f.name = "sofa" ∨ isPrimitive K ts f.range = true ∨ (isArray K f.range = false ∧ isList K f.range = false)

theorem featureSuccs_opts {K : Consts} {ts : TypeSystem} {f : Feature} (h : FeatOptFree K ts f) (b b' : Bool)
    (hp : Heap) (allFs : List (Int × Nat)) (lf a : Nat) :
    featureSuccs K ts { includeInlinable := b } hp allFs lf a f
      = featureSuccs K ts { includeInlinable := b' } hp allFs lf a f := by
  unfold featureSuccs
  rcases h with h | h | ⟨h1, h2⟩
  · simp only [h, beq_self_eq_true, if_true]
  · simp only [h, if_true]
  · simp only [h1, h2, Bool.or_self, Bool.and_false, Bool.false_eq_true, if_false]

theorem featuresSuccs_opts {K : Consts} {ts : TypeSystem} (b b' : Bool) (hp : Heap) (allFs : List (Int × Nat))
    (lf a : Nat) : ∀ (fs : List Feature), (∀ f ∈ fs, FeatOptFree K ts f) →
      featuresSuccs K ts { includeInlinable := b } hp allFs lf a fs
        = featuresSuccs K ts { includeInlinable := b' } hp allFs lf a fs
  | [], _ => rfl
  | f :: fs, h => by
    unfold featuresSuccs
    rw [featureSuccs_opts (h f List.mem_cons_self) b b',
      featuresSuccs_opts b b' hp allFs lf a fs (fun g hg => h g (List.mem_cons_of_mem _ hg))]

theorem optFree_of_feats {K : Consts} {ts : TypeSystem} {t : TypeRec} (h : ∀ f ∈ allFeatures t, FeatOptFree K ts f) :
    OptFree K ts t := by
  intro b b' hp allFs lf a
  unfold nodeSuccs
  split
  · rfl
  · exact featuresSuccs_opts b b' hp allFs lf a _ h

/-- one iteration does not depend on the option if the structure it expands (if any) has an option-free type -/
theorem step_opts {K : Consts} {ts : TypeSystem} {b b' : Bool} {lf : Nat} {s : St} {a : Nat} {rest : List Nat} {s1 : St}
    (h : step K ts { includeInlinable := b } lf s a rest = .ok s1)
    (hfree : ∀ x, (x, a) ∈ s1.allFs → ∀ ob t, s.heap[a]? = some ob → getType ts ob.ty = .ok t → OptFree K ts t) :
    step K ts { includeInlinable := b' } lf s a rest = .ok s1 := by
  unfold step at h ⊢
  simp only [bind, Except.bind, pure, Except.pure, throw, throwThe, MonadExceptOf.throw] at h ⊢
  cases hob : s.heap[a]? with
  | none => rw [hob] at h; simp only at h; cases h
  | some ob =>
    rw [hob] at h
    simp only at h ⊢
    by_cases h0 : (ob.xid == some 0) = true
    · simp only [h0, if_true] at h ⊢
      exact h
    · simp only [h0, Bool.false_eq_true, if_false] at h ⊢
      cases hx : ob.xid with
      | some x =>
        simp only [hx] at h ⊢
        cases hf : s.allFs.find? (fun p => p.1 == x) with
        | some q =>
          simp only [hf] at h ⊢
          exact h
        | none =>
          simp only [hf] at h ⊢
          cases ht : getType ts ob.ty with
          | error e => simp only [ht] at h; cases h
          | ok t =>
            simp only [ht] at h ⊢
            cases hn : nodeSuccs K ts { includeInlinable := b } s.heap (s.allFs ++ [(x, a)]) lf a t with
            | error e => simp only [hn] at h; cases h
            | ok r =>
              simp only [hn] at h
              have hs1 : (x, a) ∈ s1.allFs := by
                cases h
                simp
              have := hfree x hs1 ob t hob ht b' b s.heap (s.allFs ++ [(x, a)]) lf a
              rw [this, hn]
              exact h
      | none =>
        simp only [hx] at h ⊢
        -- `generateIds` is `true` for both option records
        simp only [if_true] at h ⊢
        cases hf : s.allFs.find? (fun p => p.1 == s.nextXid) with
        | some q =>
          simp only [hf] at h ⊢
          exact h
        | none =>
          simp only [hf] at h ⊢
          cases ht : getType ts ob.ty with
          | error e => simp only [ht] at h; cases h
          | ok t =>
            simp only [ht] at h ⊢
            cases hn : nodeSuccs K ts { includeInlinable := b }
                (s.heap.set a { ob with xid := some s.nextXid }) (s.allFs ++ [(s.nextXid, a)]) lf a t with
            | error e => simp only [hn] at h; cases h
            | ok r =>
              simp only [hn] at h
              have hs1 : (s.nextXid, a) ∈ s1.allFs := by
                cases h
                simp
              have := hfree s.nextXid hs1 ob t hob ht b' b
                (s.heap.set a { ob with xid := some s.nextXid }) (s.allFs ++ [(s.nextXid, a)]) lf a
              rw [this, hn]
              exact h

/-- along a successful run the collected list only grows and the heap keeps its shape -/
theorem run_mono (K : Consts) (ts : TypeSystem) (o : Opts) (lf : Nat) : ∀ (f : Nat) (s st : St),
    run K ts o lf f s = .ok st → (∀ q ∈ s.allFs, q ∈ st.allFs) ∧ SameShape s.heap st.heap
  | 0, s, st, h => by
    unfold run at h
    split at h
    · cases h; exact ⟨fun _ hq => hq, SameShape.refl _⟩
    · cases h
  | f+1, s, st, h => by
    unfold run at h
    split at h
    · cases h; exact ⟨fun _ hq => hq, SameShape.refl _⟩
    · rename_i a rest ho
      cases hs : step K ts o lf s a rest with
      | error e => rw [hs] at h; cases h
      | ok s1 =>
        rw [hs] at h
        obtain ⟨h1, h2⟩ := run_mono K ts o lf f s1 st h
        obtain ⟨ob, x, hob, hstep, _, hcase⟩ := step_cases K ts o lf s a rest s1 hs
        obtain ⟨sh, _⟩ := hstep.shape hob
        refine ⟨?_, sh.trans h2⟩
        intro q hq
        apply h1
        rcases hcase with ⟨hall, _⟩ | ⟨_, _, _, _, _, _, hall, _⟩
        · rw [hall]; exact hq
        · rw [hall]; exact List.mem_append_left _ hq

/-- **the two runs coincide** when the types of the collected structures are option-free -/
theorem run_opts {K : Consts} {ts : TypeSystem} {b b' : Bool} {hp0 : Heap} {lf seeds : Nat} {st : St}
    (hfree : ∀ q ∈ st.allFs, ∀ ob t, st.heap[q.2]? = some ob → getType ts ob.ty = .ok t → OptFree K ts t) :
    ∀ (f : Nat) (s : St), run K ts { includeInlinable := b } lf f s = .ok st →
      ∀ (f' : Nat), Inv K ts { includeInlinable := b' } hp0 lf seeds s →
        seeds + totalOut K ts { includeInlinable := b' } hp0 lf ≤ f' + s.pops →
        run K ts { includeInlinable := b' } lf f' s = .ok st
  | 0, s, h, f', _, _ => by
    unfold run at h
    split at h
    · rename_i he
      have hnil : s.openl = [] := List.isEmpty_iff.mp he
      cases h
      cases f' with
      | zero => unfold run; rw [if_pos he]
      | succ f' => unfold run; rw [hnil]
    · cases h
  | f+1, s, h, f', inv, hf => by
    unfold run at h
    split at h
    · rename_i ho
      cases h
      cases f' with
      | zero => unfold run; rw [ho]; rfl
      | succ f' => unfold run; rw [ho]
    · rename_i a rest ho
      cases hs : step K ts { includeInlinable := b } lf s a rest with
      | error e => rw [hs] at h; cases h
      | ok s1 =>
        rw [hs] at h
        obtain ⟨hmono, hshape⟩ := run_mono K ts _ lf f s1 st h
        have hs' : step K ts { includeInlinable := b' } lf s a rest = .ok s1 := by
          apply step_opts hs
          intro x hx ob t hob ht
          obtain ⟨ob1, x1, hob1, hstep, _, _⟩ := step_cases K ts _ lf s a rest s1 hs
          obtain ⟨sh1, _⟩ := hstep.shape hob1
          obtain ⟨ob', hob', hty, _⟩ := (sh1.trans hshape).2 a ob hob
          exact hfree (x, a) (hmono _ hx) ob' t hob' (by rw [hty]; exact ht)
        cases f' with
        | zero =>
          have h1 := inv.count
          have h2 := inv.pot
          rw [ho, List.length_cons] at h1
          omega
        | succ f' =>
          obtain ⟨inv1, hp1⟩ := inv_step K ts _ hp0 lf seeds s a rest s1 ho inv hs'
          unfold run
          rw [ho]
          simp only [hs', bind, Except.bind]
          exact run_opts hfree f s1 h f' inv1 (by rw [hp1]; omega)

theorem findAllFs_opts {K : Consts} {ts : TypeSystem} {b : Bool} (b' : Bool) {hp : Heap} {nx : Int} {seeds : List Nat}
    {st : St} (h : findAllFs K ts { includeInlinable := b } hp nx seeds = .ok st)
    (hfree : ∀ q ∈ st.allFs, ∀ ob t, st.heap[q.2]? = some ob → getType ts ob.ty = .ok t → OptFree K ts t) :
    findAllFs K ts { includeInlinable := b' } hp nx seeds = .ok st := by
  unfold findAllFs at h ⊢
  exact run_opts hfree _ _ h _ (inv_init K ts _ hp _ nx seeds) (Nat.le_refl _)

end Cassis.Traverse
