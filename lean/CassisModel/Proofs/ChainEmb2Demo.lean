/-
Non-vacuity of `chain_json_xmi_minimal_coll` (`Properties/C16ChainEmbedded2.lean`) on an instance where the rebuilt type
system is STRICTLY a part of the original: `PartDemo` = the type system of `EmbDemo` with collections plus two types the
CAS does not use (`x.U < Annotation` with a shared `FSArray<x.U>` feature and an Integer feature, `x.V < x.U`); same CAS,
same heap.  The type system rebuilt from the MINIMAL document does not register `x.U` / `x.V` (evaluated, `#guard`), the
tests of the hypotheses answer `true` (kernel).
-/
import CassisModel.Proofs.ChainEmbDemo

namespace Cassis.Json.PartDemo
open Cassis Cassis.TS Cassis.Xmi Cassis.Traverse Cassis.Json.EmbDemo

def ops : List TsOp := embOpsC ++
  [ .createType "x.U" "uima.tcas.Annotation" (some "unused"),
    .createType "x.V" "x.U" none,
    .createFeature "x.U" "us" "uima.cas.FSArray" (some "x.U") none (some true),
    .createFeature "x.V" "n" "uima.cas.Integer" none none none ]

def ts : TypeSystem := ops.foldl (applyOpS Gen.consts) Gen.builtinTS

theorem ts_eq : ops.foldl (applyOp Gen.consts) Gen.builtinTS = ts := by unfold ts; rw [applyOp_eq_S]

theorem userOnly : UserOnly Gen.consts ops := by
  have hA : Gen.consts.predefined.contains "x.A" = false ∧ "x.A".contains '.' = true :=
    ⟨by decide, contains_dot _ (by decide)⟩
  have hB : Gen.consts.predefined.contains "x.B" = false ∧ "x.B".contains '.' = true :=
    ⟨by decide, contains_dot _ (by decide)⟩
  have hC : Gen.consts.predefined.contains "x.C" = false ∧ "x.C".contains '.' = true :=
    ⟨by decide, contains_dot _ (by decide)⟩
  have hU : Gen.consts.predefined.contains "x.U" = false ∧ "x.U".contains '.' = true :=
    ⟨by decide, contains_dot _ (by decide)⟩
  have hV : Gen.consts.predefined.contains "x.V" = false ∧ "x.V".contains '.' = true :=
    ⟨by decide, contains_dot _ (by decide)⟩
  exact ⟨hC.1, hC.2, hB.1, hB.2, hA.1, hA.2, hA.1, hA.2, hA.1, hA.2, hB.1, hB.2, hU.1, hU.2, hV.1, hV.2, trivial⟩

theorem noDoc : ∀ op ∈ ops, match op with
    | .createFeature dom _ _ _ _ _ => dom ≠ DOCUMENT_ANNOTATION
    | .createType _ _ _ => True := by
  intro op hop
  simp only [ops, embOpsC, embOps, List.cons_append, List.nil_append, List.mem_cons, List.not_mem_nil, or_false] at hop
  rcases hop with rfl | rfl | rfl | rfl | rfl | rfl | rfl | rfl | rfl | rfl | rfl | rfl | rfl
  all_goals first
    | trivial
    | decide

theorem writable : Writable Gen.consts ts := by decide +kernel
theorem noPct : NoPercentNames ts := by decide +kernel
theorem flagCoherent : Cassis.ChainE.FlagCoherent Gen.consts ts := by decide +kernel

/-- the test of `chain_json_xmi_coll` applies to the instance -/
theorem chainJX_applies : chainJXAppliesB Gen.consts ts [cas] 0 hpC = true := by decide +kernel

/-- the type system rebuilt from the MINIMAL document -/
def rebuiltMin : Except Err TypeSystem := do
  let (d, _) ← saveJson Gen.consts ts [cas] 0 hpC .minimal
  loadTs Gen.consts Gen.builtinTS true d

-- the original registers `x.U` and `x.V`, the rebuilt type system registers neither (but `x.A`, `x.B`, `x.C`): it has
-- two types less (evaluated)
#guard hasExact ts "x.U" && hasExact ts "x.V" &&
    (match rebuiltMin with
      | .ok t => !hasExact t "x.U" && !hasExact t "x.V" && hasExact t "x.A" && hasExact t "x.B" && hasExact t "x.C" &&
          decide (t.types.length + 2 = ts.types.length)
      | .error _ => false)

end Cassis.Json.PartDemo
