/-
C20 across the XMI round trip, whole format, layer 2: every slot of a collected structure and the corresponding slot of
its loaded counterpart hold related values (`slot_vrof`), kind by kind along `CollFs`.
-/
import CassisModel.Proofs.ComparableIsoCollRel

namespace Cassis.Comparable
open Cassis.TS Cassis.Traverse Cassis.Xmi Cassis.ChainC

theorem slot_obj {hp : Heap} {a : Nat} {o : Obj} (ho : hp[a]? = some o) (n : String) :
    Traverse.slot hp a n = alistGet? o.slots n := by
  unfold Traverse.slot; rw [ho]; rfl

/-- an inlined collection feature, summarised: unset, an array (a list value whose references — only in an FSArray — are
    not null), or a list -/
theorem inline_cases {K : Consts} {ts : TypeSystem} {H : Heap} {o : Obj} {f : Feature} (h : InlineFeat K ts H o f) :
    Xmi.isInline K f = true ∧ ∃ v : Val, alistGet? o.slots f.name = some v ∧
      ( v = .none
      ∨ (isArray K f.range = true ∧ ∃ (arr : Nat) (ev : Val), v = .ref arr ∧ Traverse.slot H arr "elements" = some ev ∧
          isListV ev = true ∧ ∀ l, ev = .refs l → ∀ r ∈ l, f.range = FS_ARRAY ∧ ∃ b : Nat, r = some b)
      ∨ (isArray K f.range = false ∧ isPrimitiveArray K f.range = false ∧ f.range ≠ FS_ARRAY ∧
          ∃ (a : Nat) (hs : List Val), v = .ref a ∧ collectList H (H.length + 1) v = .ok hs) ) := by
  obtain ⟨hm, v, hv, hk⟩ := h
  have hinl : ∀ {pa pl ar li sa sl : Bool}, RangeKind K ts f.range pa pl ar li sa sl → (ar || li) = true →
      Xmi.isInline K f = true := by
    intro pa pl ar li sa sl rk hor
    unfold Xmi.isInline
    rw [hm, rk.arr, rk.list, hor]
    rfl
  have harr : ∀ (P : Val → Prop), InlArr H P v → (∀ ev, P ev →
      isListV ev = true ∧ ∀ l, ev = .refs l → ∀ r ∈ l, f.range = FS_ARRAY ∧ ∃ b : Nat, r = some b) →
      v = .none ∨ ∃ (arr : Nat) (ev : Val), v = .ref arr ∧ Traverse.slot H arr "elements" = some ev ∧
          isListV ev = true ∧ ∀ l, ev = .refs l → ∀ r ∈ l, f.range = FS_ARRAY ∧ ∃ b : Nat, r = some b := by
    intro P hi hP
    rcases hi with rfl | ⟨arr, ev, rfl, hev, hp⟩
    · exact Or.inl rfl
    · exact Or.inr ⟨arr, ev, rfl, hev, hP ev hp⟩
  have hlist : ∀ (P : List Val → Prop), InlList H P v →
      v = .none ∨ ∃ (a : Nat) (hs : List Val), v = .ref a ∧ collectList H (H.length + 1) v = .ok hs := by
    intro P hi
    rcases hi with rfl | ⟨a, hs, rfl, hcl, _⟩
    · exact Or.inl rfl
    · exact Or.inr ⟨a, hs, rfl, hcl⟩
  have hnil : ∀ r, r ∈ ([] : List (Option Nat)) → f.range = FS_ARRAY ∧ ∃ b : Nat, r = some b := fun r hr => by cases hr
  rcases hk with ⟨hty, rk, hi⟩ | ⟨hty, rk, hi⟩ | ⟨hty, rk, hi⟩ | ⟨hty, rk, hi⟩ | ⟨hty, rk, hi⟩ | ⟨hty, rk, hi⟩ |
    ⟨hty, rk, hi⟩
  · refine ⟨hinl rk rfl, v, hv, ?_⟩
    rcases harr _ hi (by
      intro ev hp
      rcases hp with rfl | ⟨_, l, rfl⟩ | ⟨_, l, rfl, _⟩ | ⟨_, l, rfl⟩ | ⟨_, l, rfl, _⟩
      · exact ⟨rfl, fun l hl => by cases hl; exact hnil⟩
      all_goals exact ⟨rfl, fun l hl => by cases hl⟩) with h | h
    · exact Or.inl h
    · exact Or.inr (Or.inl ⟨rk.arr, h⟩)
  · refine ⟨hinl rk rfl, v, hv, ?_⟩
    rcases harr _ hi (by
      intro ev hp
      rcases hp with rfl | ⟨l, rfl⟩
      · exact ⟨rfl, fun l hl => by cases hl; exact hnil⟩
      · exact ⟨rfl, fun l hl => by cases hl⟩) with h | h
    · exact Or.inl h
    · exact Or.inr (Or.inl ⟨rk.arr, h⟩)
  · refine ⟨hinl rk rfl, v, hv, ?_⟩
    rcases harr _ hi (by
      intro ev hp
      obtain ⟨l, rfl, _⟩ := hp
      refine ⟨rfl, fun l' hl' r hr => ?_⟩
      cases hl'
      obtain ⟨b, _, rfl⟩ := List.mem_map.mp hr
      exact ⟨hty, b, rfl⟩) with h | h
    · exact Or.inl h
    · exact Or.inr (Or.inl ⟨rk.arr, h⟩)
  all_goals
    refine ⟨hinl rk rfl, v, hv, ?_⟩
    rcases hlist _ hi with h | h
    · exact Or.inl h
    · refine Or.inr (Or.inr ⟨rk.arr, rk.primArr, ?_, h⟩)
      rw [hty]; decide

/-- the node at the head of a list the reader made is of a list-node type -/
theorem tList_ty {hp : Heap} {k : LK} {a : Nat} (h : TList hp k a) :
    ∃ o : Obj, hp[a]? = some o ∧ o.ty ∈ listNodeTypes := by
  cases h with
  | nil h1 _ h3 _ => exact ⟨_, h1, by rw [h3]; cases k <;> decide⟩
  | cons h1 _ h3 _ _ => exact ⟨_, h1, by rw [h3]; cases k <;> decide⟩

section
variable {K : Consts} {ts : TypeSystem} {c : Cas} {ci : Nat} {H : Heap} {L : List (Int × Nat)} {na : Int → Nat}
  {ia : Int → String → Nat} {ci' : Nat} {hpL : Heap} {addrs : List Nat}

theorem vrof_none {AR : Nat → Nat → Prop} : VRof AR .none .none := Or.inl ⟨.null, rfl, rfl⟩

/-- **corresponding slots hold related values** -/
theorem slot_vrof (X : CtxC K ts c ci H L na ia ci' hpL addrs) {q : Int × Nat} (hq : q ∈ L) (n : String) :
    VRof (ARc K H hpL L na addrs) ((Traverse.slot H q.2 n).getD .none) ((Traverse.slot hpL (na q.1) n).getD .none) := by
  obtain ⟨o, o', ho, ho', hty, hx', hkeys, hslots⟩ := X.hrel q hq
  rw [X.slot hq ho n, slot_obj ho n]
  cases hv : alistGet? o.slots n with
  | none => exact vrof_none
  | some v =>
    simp only [Option.map_some, Option.getD_some]
    rcases X.hL.coll q hq with hg | ha
    · -- a general structure
      obtain ⟨o1, t, ho1, ht, htn, g1, g2, g3, hpa, hfa, g6, g7, g8, hnd, hsl, hfeat, hann⟩ := hg
      rw [ho] at ho1; cases ho1
      have hm : n ∈ o.slots.map (·.1) := List.mem_map.mpr ⟨(n, v), alistGet?_mem _ _ _ hv, rfl⟩
      rw [hsl, List.mem_eraseDups] at hm
      unfold ctorFields at hm
      obtain ⟨f, hf, rfl⟩ := List.mem_map.mp hm
      have h : CFX.Loc K ts c ci H L na ia ci' hpL q o o' t :=
        ⟨X.hL, fun q hq => X.xid hq, X.hcolls, hq, ho, ho', hty, hkeys, hslots, ht⟩
      -- a reference held by a feature that is not inlined
      have href : ∀ b, v = .ref b → Xmi.isInline K f = false →
          VRof (ARc K H hpL L na addrs) v (E3c K ts H na ia ci' o f.name v) := by
        intro b hb hni
        subst hb
        obtain ⟨x, _, hxl, _, _, hs'⟩ := h.ref hnd hf hni hv
        rw [hslots _ _ hv] at hs'
        rw [Option.some.inj hs']
        exact Or.inr (Or.inr (Or.inl ⟨b, na x, rfl, rfl, Or.inl ⟨(x, b), hxl, rfl, rfl⟩⟩))
      rcases hfeat f hf with hflat | ⟨hname, hsh | hin⟩
      · have hflat' := hflat
        obtain ⟨_, _, _, _, _, _, _, _, _, _, _, v0, hv0, hcase⟩ := hflat
        rw [hv] at hv0; cases hv0
        rcases hcase with ⟨_, hs⟩ | ⟨_, _, hs⟩ | ⟨_, _, _, _, _, _, _, hs⟩
        · rcases hs with ⟨vn, rfl, _⟩ | ⟨rfl, _⟩
          · exact Or.inl ⟨.none, rfl, rfl⟩
          · exact vrof_none
        · rcases hs with rfl | ⟨_, i, rfl⟩ | ⟨_, s, rfl⟩ | ⟨_, b, rfl⟩ | ⟨_, t, rfl⟩
          · exact vrof_none
          all_goals exact Or.inl ⟨_, rfl, rfl⟩
        · rcases hs with rfl | ⟨b, rfl, _, _⟩
          · exact vrof_none
          · exact href b rfl (CFX.flat_ref_notInline hflat' hv)
      · obtain ⟨hmu, _, _, _, _, _, v0, hv0, hvs⟩ := hsh
        rw [hv] at hv0; cases hv0
        rcases hvs with rfl | ⟨b, rfl, _⟩
        · exact vrof_none
        · refine href b rfl ?_
          unfold Xmi.isInline
          rw [hmu]; rfl
      · obtain ⟨hi, v0, hv0, hk⟩ := inline_cases hin
        rw [hv] at hv0; cases hv0
        have hinl : inlineSlot K ts o f.name = true := (CF.inlineSlot_eq (K := K) ht hnd hf).trans hi
        have hox := h.ox
        rcases hk with rfl | ⟨harr, cc, ev, rfl, hev, hlv, hrefs⟩ | ⟨harr, hpa', hnfs, cc, hs, rfl, hcl⟩
        · exact vrof_none
        · -- an inlined array
          obtain ⟨c', hs', hat⟩ := h.arrAt hnd hf hi harr hv hev
          rw [hslots _ _ hv, CF.E3c_inl o f.name cc q.1 hinl hox] at hs'
          rw [CF.E3c_inl o f.name cc q.1 hinl hox]
          cases Option.some.inj hs'
          have hnew := X.typed q hq o ho f.name cc hv hinl t f ht hf rfl
          obtain ⟨hA, hstr⟩ := (X.inl q hq).arr o t f cc ho ht hf hi harr hv
          have hA' : isArrayFs K hpL (ia q.1 f.name) = true := by
            rcases hnew with ⟨⟨ob, ev', hob, _, hobt, _⟩, _⟩ | ⟨k, _, htl⟩
            · rw [isArrayFs_of_obj hob, hobt]; exact harr
            · exfalso
              obtain ⟨ob, h1, _, h3⟩ := hat
              cases htl with
              | nil g1 _ _ g4 => rw [h1] at g1; cases g1; rw [g4] at h3; simp [alistGet?] at h3
              | cons g1 _ _ g4 _ => rw [h1] at g1; cases g1; rw [g4] at h3; simp [alistGet?] at h3
          refine Or.inr (Or.inr (Or.inl ⟨cc, _, rfl, rfl, Or.inr (Or.inl ⟨hA, hA', ev, hev, CFX.slot_arrAt hat, hlv,
            hstr ev hev, ?_⟩)⟩))
          intro l hl r hr
          obtain ⟨hfs, b, rfl⟩ := hrefs l hl r hr
          subst hl
          obtain ⟨x, hx, hxl⟩ := X.hL.closed q hq b
            ⟨o, t, ho, ht, Or.inr (Or.inl ⟨f, hf, hi, hfs, cc, l, hv, hev, hr⟩)⟩
          exact ⟨b, x, rfl, hx, hxl⟩
        · -- an inlined list
          obtain ⟨c', hs', hat, _⟩ := h.listAt hnd hf hi harr hv hcl
          rw [hslots _ _ hv, CF.E3c_inl o f.name cc q.1 hinl hox] at hs'
          rw [CF.E3c_inl o f.name cc q.1 hinl hox]
          cases Option.some.inj hs'
          have hnew := X.typed q hq o ho f.name cc hv hinl t f ht hf rfl
          obtain ⟨hA, hfresh⟩ := (X.inl q hq).list o t f cc ho ht hf hi harr hv
          obtain ⟨ob, hob, hobx⟩ := ListAt.noId hat
          have hA' : isArrayFs K hpL (ia q.1 f.name) = false := by
            rcases hnew with ⟨_, hp | hp⟩ | ⟨k, _, htl⟩
            · rw [hpa'] at hp; cases hp
            · exact absurd hp hnfs
            · obtain ⟨ob', hob', hmem⟩ := tList_ty htl
              rw [isArrayFs_of_obj hob']
              exact X.nodes _ hmem
          refine Or.inr (Or.inr (Or.inl ⟨cc, _, rfl, rfl, Or.inr (Or.inr ⟨hA, hA', hfresh, ?_⟩)⟩))
          unfold xidOf; rw [hob]; exact hobx
    · -- an array object
      obtain ⟨o1, ev, ho1, hsl, hev⟩ := X.arrFs_elems hq ha
      rw [ho] at ho1; cases ho1
      rw [hsl] at hv
      obtain ⟨rfl, rfl⟩ := CAR.get_elems_inv _ _ _ hv
      rcases hev with rfl | hok
      · exact vrof_none
      · rw [E3c_list hok.1]; exact vrof_elems hok

end

end Cassis.Comparable
