/-
Helper lemmas for `Properties/C13Perm.lean.proposed` (competing supertypes on leaves), part XB: the replay invariant.
`E` is the set of names that may still move down (the names declared with competing supertypes); they are leaves of
`o` and of every intermediate state, and no declared supertype is among them.
-/
import CassisModel.Proofs.MergePermB2

namespace Cassis.TS

variable {E : String → Prop}

/-- the ancestors in `o` of a type registered in the part `m` are its ancestors in `m` when no movable name lies on
    the chain -/
theorem anc_down_subX {o m : TypeSystem} (hs : SubP o E m) (hcm : Consistent m) {a b : String} (h : Anc o a b) :
    hasExact m b = true → (∀ n, E n → ¬ Anc o n b) → Anc m a b := by
  induction h with
  | refl _ => intro hb _; exact Anc.refl _ hb
  | step b s tb hfb hsb hab ih =>
    intro hb hE
    obtain ⟨tm, htm⟩ := (hasExact_iff_find m b).mp hb
    obtain ⟨to, hto, hr⟩ := hs b tm htm
    rw [hfb] at hto
    cases hto
    have hbE : ¬ E b := fun hEb => hE b hEb (Anc.refl b ((hasExact_iff_find o b).mpr ⟨tb, hfb⟩))
    have hsm : tm.super = some s := by rw [← hr.super hbE]; exact hsb
    have hsreg : hasExact m s = true := hcm.superReg tm (find?_mem htm) s hsm
    exact Anc.step a b s tm htm hsm (ih hsreg (fun n hn h' => hE n hn (Anc.step _ b s tb hfb hsb h')))

/-- a declaration that `o` makes too: registered below the declared supertype (directly, unless the name is movable),
    the declared features covered -/
structure DeclOkX (K : Consts) (o : TypeSystem) (E : String → Prop) (d : Decl) : Prop where
  ex : ∃ t, find? o d.name = some t ∧ (∀ f ∈ d.own, ∃ g ∈ eff t, featureEq g f = true) ∧
    Anc o d.super d.name ∧ d.super ≠ d.name ∧ (¬ E d.name → t.super = some d.super)
  nonfinal : K.finalTypes.contains d.super = false
  user : K.predefined.contains d.name = false
  supNotE : ¬ E d.super

structure MInvX (K : Consts) (o : TypeSystem) (E : String → Prop) (s : MState) : Prop where
  cons : Consistent s.ts
  feat : FeatInv s.ts
  sub : SubP o E s.ts
  pre : ∀ p, K.predefined.contains p = true → hasExact s.ts p = true
  mer : ∀ x ∈ s.merged, hasExact s.ts x = true
  leafE : ∀ n, E n → ∀ tm, find? s.ts n = some tm → tm.children = []

theorem minvX_of_stepOut {K : Consts} {o : TypeSystem} {s s' : MState} {d : Decl} (hi : MInvX K o E s)
    (hout : StepOut K o E s d s') (hsupE : ¬ E d.super) : MInvX K o E s' := by
  refine ⟨hout.cons, hout.feat, hout.sub, fun p hp => hout.grow.reg p (hi.pre p hp), ?_, ?_⟩
  · intro x hx
    rcases (mem_merged_step hout.merged x).mp hx with h | rfl
    · exact hout.grow.reg x (hi.mer x h)
    · exact hout.reg
  · intro n hn tm htm
    rcases hout.back n ((hasExact_iff_find _ _).mpr ⟨tm, htm⟩) with hreg | rfl
    · obtain ⟨t0, ht0⟩ := (hasExact_iff_find _ _).mp hreg
      obtain ⟨t', ht', hk⟩ := hout.kidsKeep n t0 ht0 (fun e => hsupE (e ▸ hn))
      rw [htm] at ht'; cases ht'
      rw [hk]; exact hi.leafE n hn t0 ht0
    · cases hx : hasExact s.ts d.name with
      | true =>
        obtain ⟨t0, ht0⟩ := (hasExact_iff_find _ _).mp hx
        obtain ⟨t', ht', hk⟩ := hout.kidsKeep d.name t0 ht0 (fun e => hsupE (e ▸ hn))
        rw [htm] at ht'; cases ht'
        rw [hk]; exact hi.leafE d.name hn t0 ht0
      | false =>
        obtain ⟨t', ht', hk⟩ := hout.newLeaf hx
        rw [htm] at ht'; cases ht'
        exact hk

theorem processDecl_invX (K : Consts) (o : TypeSystem) (hfo : FeatInv o) (hco : Consistent o)
    (oLeaf : ∀ n, E n → ∀ b, Anc o n b → n = b)
    (s : MState) (d : Decl) (hi : MInvX K o E s) (hd : DeclOkX K o E d)
    (hready : (K.predefined.contains d.super || s.merged.contains d.super) = true) :
    ∃ s', processDecl K s d = .ok s' ∧ MInvX K o E s' := by
  have hsup : hasExact s.ts d.super = true := by
    rcases Bool.or_eq_true _ _ |>.mp hready with h | h
    · exact hi.pre _ h
    · exact hi.mer _ (by simpa using h)
  obtain ⟨tn, htn, hcov, hanc, hxn, hex⟩ := hd.ex
  have hEx : ∀ n, E n → ¬ Anc o n d.super := by
    intro n hn h
    exact hd.supNotE (by rw [← oLeaf n hn _ h]; exact hn)
  cases hx : hasExact s.ts d.name with
  | false =>
    obtain ⟨s', h', hout⟩ := stepP_new K o hfo s d hi.cons hi.feat hi.sub hx hsup tn htn hex hanc hcov
      hd.nonfinal hd.user
    exact ⟨s', h', minvX_of_stepOut hi hout hd.supNotE⟩
  | true =>
    obtain ⟨tm, he⟩ := (hasExact_iff_find _ _).mp hx
    obtain ⟨to, hto, hr⟩ := hi.sub d.name tm he
    rw [htn] at hto; cases hto
    by_cases hE : E d.name
    · -- a movable name: compare its present supertype with the declared one
      have hleaf := hi.leafE d.name hE tm he
      cases hts : tm.super with
      | none =>
        exfalso
        have hn := hi.cons.onlyRoot tm (find?_mem he) hts
        rw [find?_name he] at hn
        obtain ⟨t0, ht0, hs0⟩ := hco.topRoot
        rw [← hn, htn] at ht0
        cases ht0
        rcases hanc.inv htn with e | ⟨s0, hs0', _⟩
        · exact hxn e
        · rw [hs0] at hs0'; cases hs0'
      | some c =>
        have hancc : Anc o c d.name := hr.superW c hts
        have hregc : hasExact s.ts c = true := hi.cons.superReg tm (find?_mem he) c hts
        have hcE : ¬ E c := by
          intro hEc
          obtain ⟨tc, htc⟩ := (hasExact_iff_find _ _).mp hregc
          obtain ⟨ta, hta, hm⟩ := (hi.cons.link c d.name).mpr ⟨tm, he, hts⟩
          rw [htc] at hta; cases hta
          rw [hi.leafE c hEc tc htc] at hm; cases hm
        have hEc : ∀ n, E n → ¬ Anc o n c := by
          intro n hn h
          exact hcE (by rw [← oLeaf n hn _ h]; exact hn)
        by_cases hxc : d.super = c
        · obtain ⟨s', h', hout⟩ := stepP_same K o hfo s d hi.cons hi.feat hi.sub tm he (by rw [hts, hxc]) tn htn
            hcov hd.user
          exact ⟨s', h', minvX_of_stepOut hi hout hd.supNotE⟩
        · rcases Anc.linear hancc hanc with hcx | hxc'
          · -- the declared supertype is the lower one: re-parent the leaf
            have hmax : Anc s.ts c d.super := anc_down_subX hi.sub hi.cons hcx hsup hEx
            obtain ⟨s', h', hc', hf', hs', hreg', hback', hm', ⟨t', ht', _, hk'⟩, hothers⟩ :=
              stepP_reparent K o hfo s d hi.cons hi.feat hi.sub hE tm he c hts hleaf hsup hmax hxc tn htn
                hanc hxn hcov hd.user
            refine ⟨s', h', hc', hf', hs', fun p hp => hreg' p (hi.pre p hp), ?_, ?_⟩
            · intro x hx'
              rcases (mem_merged_step hm' x).mp hx' with h | rfl
              · exact hreg' x (hi.mer x h)
              · exact (hasExact_iff_find _ _).mpr ⟨t', ht'⟩
            · intro n hn tm' htm'
              obtain ⟨t0, ht0⟩ := (hasExact_iff_find _ _).mp (hback' n ((hasExact_iff_find _ _).mpr ⟨tm', htm'⟩))
              obtain ⟨ty', hty', hkk, _⟩ := hothers n t0 ht0 (fun e => hd.supNotE (e ▸ hn))
              rw [htm'] at hty'; cases hty'
              exact hkk (hi.leafE n hn t0 ht0)
          · -- the declared supertype is the higher one: nothing moves
            have h2 : Anc s.ts d.super c := anc_down_subX hi.sub hi.cons hxc' hregc hEc
            have h1 : ¬ Anc s.ts c d.super := by
              intro h
              exact hxc (anc_antisymm hco hxc' (anc_subP hi.sub h))
            obtain ⟨s', h', hout⟩ := stepP_noop K o hfo s d hi.cons hi.feat hi.sub tm c he hts hxc hregc hsup
              h1 h2 tn htn hcov hd.user
            exact ⟨s', h', minvX_of_stepOut hi hout hd.supNotE⟩
    · have hss : tm.super = some d.super := by rw [← hr.super hE]; exact hex hE
      obtain ⟨s', h', hout⟩ := stepP_same K o hfo s d hi.cons hi.feat hi.sub tm he hss tn htn hcov hd.user
      exact ⟨s', h', minvX_of_stepOut hi hout hd.supNotE⟩

theorem mergeRound_replayX (K : Consts) (o : TypeSystem) (hfo : FeatInv o) (hco : Consistent o)
    (oLeaf : ∀ n, E n → ∀ b, Anc o n b → n = b) :
    ∀ (ds : List Decl) (s : MState) (n : Nat), MInvX K o E s → (∀ d ∈ ds, DeclOkX K o E d) →
      ∃ s' n', mergeRound K ds s n = .ok (s', n') ∧ MInvX K o E s' := by
  intro ds
  induction ds with
  | nil => intro s n hi _; exact ⟨s, n, rfl, hi⟩
  | cons d ds ih =>
    intro s n hi hok
    simp only [mergeRound]
    split
    · rename_i hready
      obtain ⟨s1, h1, hi1⟩ := processDecl_invX K o hfo hco oLeaf s d hi (hok d List.mem_cons_self) hready
      rw [h1]
      exact ih s1 (n + 1) hi1 (fun d' hd' => hok d' (List.mem_cons_of_mem _ hd'))
    · exact ih s n hi (fun d' hd' => hok d' (List.mem_cons_of_mem _ hd'))

theorem mergeLoop_replayX (K : Consts) (o : TypeSystem) (hfo : FeatInv o) (hco : Consistent o)
    (oLeaf : ∀ n, E n → ∀ b, Anc o n b → n = b)
    (decls : List Decl) (hok : ∀ d ∈ decls, DeclOkX K o E d) :
    ∀ (fuel : Nat) (s : MState), MInvX K o E s →
      (∃ s', mergeLoop K decls fuel s = .ok s' ∧ MInvX K o E s') ∨ mergeLoop K decls fuel s = .error .outOfFuel := by
  intro fuel
  induction fuel with
  | zero => intro s _; exact Or.inr rfl
  | succ fuel ih =>
    intro s hi
    obtain ⟨s1, n1, h1, hi1⟩ := mergeRound_replayX K o hfo hco oLeaf decls s 0 hi hok
    simp only [mergeLoop, h1]
    split
    · exact Or.inl ⟨s1, rfl, hi1⟩
    · exact ih s1 hi1

/-- replaying declarations that `o` makes too, in any order, succeeds with a part of `o` -/
theorem mergeDecls_replayX (K : Consts) (o base : TypeSystem) (hfo : FeatInv o) (hco : Consistent o)
    (oLeaf : ∀ n, E n → ∀ b, Anc o n b → n = b) (decls : List Decl)
    (hinv : MInvX K o E { ts := base, merged := [] }) (hok : ∀ d ∈ decls, DeclOkX K o E d)
    (hterm : mergeDecls K base decls ≠ .error .outOfFuel) :
    ∃ s', mergeDecls K base decls = .ok s'.ts ∧ MInvX K o E s' := by
  rcases mergeLoop_replayX K o hfo hco oLeaf decls hok (decls.length + 1) _ hinv with ⟨s', h, hi⟩ | h
  · exact ⟨s', by simp only [mergeDecls, h], hi⟩
  · exfalso
    apply hterm
    simp only [mergeDecls, h]

end Cassis.TS
