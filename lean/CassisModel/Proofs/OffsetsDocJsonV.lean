/-
C03, document level, the JSON reader, part 2: the views pass indexes the members and does not touch any slot but `sofa`
(offsets were converted by the structure pass, for members and non-members alike); the loaded CAS satisfies `ConvIs`.
-/
import CassisModel.Proofs.OffsetsDocJsonR

namespace Cassis.Json
open Cassis.Offsets Cassis.TS Cassis.OffsetsDoc Cassis.Json.Ids

/-- every slot but `sofa` of every object reads the same -/
def SlotsKeep (hp hp' : Heap) : Prop := ∀ (a : Nat) (n : String), n ≠ "sofa" → Traverse.slot hp' a n = Traverse.slot hp a n

theorem SlotsKeep.refl (hp : Heap) : SlotsKeep hp hp := fun _ _ _ => rfl

theorem SlotsKeep.trans {a b c : Heap} (h1 : SlotsKeep a b) (h2 : SlotsKeep b c) : SlotsKeep a c :=
  fun x n hn => (h2 x n hn).trans (h1 x n hn)

theorem slotsKeep_add {ts : TypeSystem} {cas : Nat} {c c' : Cas} {hp hp' : Heap} {h : Handle} {addr : Nat} {keep : Bool}
    (hadd : Cas.add ts cas c hp h addr keep = .ok (c', hp')) : SlotsKeep hp hp' := by
  obtain ⟨_, hoth, o, o', ho, ho', _, hsl, _⟩ := Cas.add_heap_aux ts cas c c' hp hp' h addr keep hadd
  intro a n hn
  unfold Traverse.slot
  by_cases ha : a = addr
  · subst ha
    rw [ho, ho']
    exact hsl n hn
  · rw [hoth a ha]

theorem slotsKeep_setSofa {hp hp' : Heap} {a : Nat} {w : Val} (h : Heap.setSlot hp a "sofa" w = .ok hp') :
    SlotsKeep hp hp' := by
  unfold Heap.setSlot at h
  cases ho : hp[a]? with
  | none => rw [ho] at h; cases h
  | some o =>
    rw [ho] at h
    dsimp only at h
    cases hs : alistGet? o.slots "sofa" with
    | none =>
      rw [hs] at h
      dsimp only at h
      rw [if_neg (by decide)] at h
      cases h
    | some v0 =>
      rw [hs] at h
      cases h
      intro b n hn
      unfold Traverse.slot
      have hlt : a < hp.length := (List.getElem?_eq_some_iff.mp ho).1
      by_cases hb : b = a
      · subst hb
        rw [List.getElem?_set_self hlt, ho]
        exact alistGet?_set_other _ _ _ _ hn
      · rw [List.getElem?_set_ne (fun e => hb e.symm)]

variable {P : Sofa → Prop}

theorem addJMembers_keeps (ts : TypeSystem) (ci : Nat) (h : Handle) (fss : List (Int × Val)) :
    ∀ (ms : List Int) (v v' : VState), addJMembers ts ci h fss ms v = .ok v' →
      SlotsKeep v.heap v'.heap ∧ (AllSofas P v.cas → AllSofas P v'.cas)
  | [], v, v', hr => by
    unfold addJMembers at hr
    cases hr
    exact ⟨SlotsKeep.refl _, fun h => h⟩
  | m :: ms, v, v', hr => by
    unfold addJMembers at hr
    split at hr
    · rename_i a hl
      dsimp only at hr
      split at hr
      · cases hr
      · rename_i c' heap' hadd
        split at hr
        · cases hr
        · rename_i heap'' hset
          obtain ⟨k, hall⟩ := addJMembers_keeps ts ci h fss ms _ v' hr
          have k1 : SlotsKeep v.heap heap' := slotsKeep_add hadd
          have k2 : SlotsKeep heap' heap'' := by
            split at hset
            · split at hset
              · exact slotsKeep_setSofa hset
              · cases hset; exact SlotsKeep.refl _
            · cases hset; exact SlotsKeep.refl _
          exact ⟨(k1.trans k2).trans k, fun ha => hall (ha.add hadd)⟩
    · cases hr
    · cases hr

theorem viewsPass_keeps (ts : TypeSystem) (ci : Nat) (lenient : Bool) (fss : List (Int × Val)) (hf : Fresh P) :
    ∀ (l : List JView) (v v' : VState), viewsPass ts ci lenient fss l v = .ok v' →
      SlotsKeep v.heap v'.heap ∧ (AllSofas P v.cas → AllSofas P v'.cas)
  | [], v, v', hr => by
    unfold viewsPass at hr
    cases hr
    exact ⟨SlotsKeep.refl _, fun h => h⟩
  | jv :: rest, v, v', hr => by
    unfold viewsPass at hr
    dsimp only at hr
    split at hr
    · cases hr
    · rename_i c hc
      split at hr
      · cases hr
      · rename_i v1 hm
        obtain ⟨k1, a1⟩ := addJMembers_keeps (P := P) ts ci _ fss jv.members _ v1 hm
        obtain ⟨k2, a2⟩ := viewsPass_keeps ts ci lenient fss hf rest v1 v' hr
        refine ⟨k1.trans k2, fun ha => a2 (a1 ?_)⟩
        split at hc
        · split at hc
          · cases hc
          · rename_i r hcv
            cases hc
            obtain ⟨c', h'⟩ := r
            exact ha.createView hf hcv
        · cases hc
          exact ha

/-- the relation the two parsing passes keep -/
theorem stepRel_allSofas (K : Consts) (ts : TypeSystem) (tsIdx ci : Nat) (hk : KeepsTextConv P) (hf : Fresh P)
    (htext : ∀ t s, P s → P { s with text := t, conv := createMapping s.conv t }) :
    StepRel K ts tsIdx ci (fun s s' => AllSofas P s.cas → AllSofas P s'.cas) where
  refl := fun _ h => h
  trans := fun _ _ _ h1 h2 h => h2 (h1 h)
  sofa := fun s s' j h => (parseSofa_text ci s s' j h).choose_spec.2.2 P hk hf htext
  fs := fun s s' j h ha => by
    obtain ⟨_, _, _, hc, _⟩ := parseFs_res K ts tsIdx s s' j h
    exact ha.of_views (by rw [hc])

theorem loadJson_allSofas (K : Consts) (tsArg : TypeSystem) (tsIdx ci : Nat) (lenient mergeTs : Bool) (hp : Heap)
    (doc : JDoc) (ld : Loaded) (hk : KeepsTextConv P) (hf : Fresh P)
    (htext : ∀ t s, P s → P { s with text := t, conv := createMapping s.conv t })
    (h : loadJson K tsArg tsIdx ci lenient mergeTs hp doc = .ok ld) : AllSofas P ld.cas := by
  unfold loadJson at h
  split at h
  · cases h
  · rename_i ts hts
    split at h
    · cases h
    · rename_i s1 h1
      split at h
      · cases h
      · rename_i s h2
        split at h
        · cases h
        · rename_i heap h3
          dsimp only at h
          split at h
          · cases h
          · rename_i v h4
            cases h
            have hR := stepRel_allSofas (P := P) K ts tsIdx ci hk hf htext
            have a1 := sofaPass_rel hR doc.fss doc.fss _ _ h1 (allSofas_empty hf)
            have a2 := fsPass_rel hR doc.fss _ _ h2 a1
            exact (viewsPass_keeps ts ci lenient s.fss hf doc.views _ v h4).2 (a2.of_views rfl)

theorem loadJson_convIs_aux (K : Consts) (tsArg : TypeSystem) (tsIdx ci : Nat) (lenient mergeTs : Bool) (hp : Heap)
    (doc : JDoc) (ld : Loaded) (h : loadJson K tsArg tsIdx ci lenient mergeTs hp doc = .ok ld) : ConvIs ld.cas :=
  loadJson_allSofas K tsArg tsIdx ci lenient mergeTs hp doc ld keeps_convIs fresh_convIs
    (fun t s _ => setText_convIs t s) h

end Cassis.Json
