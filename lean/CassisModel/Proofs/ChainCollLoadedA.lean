/-
C16 with collections, the CAS loaded from XMI (`XLd`, `ChainCollXmiCore.lean`), part A: the collection objects the
reader made for inlined collections, with their types *and* their content (`VList`, the `elements` of the array
objects), and the set `SAll` of the structures the JSON writer will collect from the loaded CAS: the counterparts of
the written structures (`SMain`), the inlined array objects (`SArr`) and the nodes of the inlined lists (`SNode`).
-/
import CassisModel.Proofs.ChainCollXmiCore
import CassisModel.Proofs.RoundTripFixFlat
import CassisModel.Spec.ChainCollFrag

namespace Cassis.ChainC
open Cassis.TS Cassis.Traverse Cassis.Xmi Cassis.Lex Cassis.Json

/-! ### typed lists with known heads -/

inductive VList (hp : Heap) (k : LK) : Nat → List Val → Prop
  | nil {a : Nat} {o : Obj} : hp[a]? = some o → o.xid = none → o.ty = k.emptyT → o.slots = [] → VList hp k a []
  | cons {a : Nat} {o : Obj} {v : Val} {a' : Nat} {vs : List Val} : hp[a]? = some o → o.xid = none → o.ty = k.neT →
      o.slots = [("head", v), ("tail", .ref a')] → VList hp k a' vs → VList hp k a (v :: vs)

theorem get_head (v t : Val) : alistGet? [("head", v), ("tail", t)] "head" = some v := by
  simp [alistGet?]

theorem get_tail (v t : Val) : alistGet? [("head", v), ("tail", t)] "tail" = some t := by
  simp [alistGet?]

theorem get_elements (ev : Val) : alistGet? [("elements", ev)] "elements" = some ev := by
  simp [alistGet?]

/-- the content description of the round-trip proof and the typing invariant together -/
theorem VList.of {hp : Heap} {k : LK} : ∀ {a : Nat} {vs : List Val}, ListAt hp a vs → TList hp k a → VList hp k a vs := by
  intro a vs hl
  induction hl with
  | @nil a o h1 h2 h3 =>
    intro ht
    cases ht with
    | nil g1 g2 g3 g4 => exact .nil g1 g2 g3 g4
    | cons g1 g2 g3 g4 g5 =>
      rw [h1] at g1; cases g1
      rw [g4, get_head] at h3
      cases h3
  | @cons a o hd a' rest h1 h2 h3 h4 _ ih =>
    intro ht
    cases ht with
    | nil g1 g2 g3 g4 =>
      rw [h1] at g1; cases g1
      rw [g4] at h3
      cases h3
    | cons g1 g2 g3 g4 g5 =>
      rw [h1] at g1; cases g1
      rw [g4, get_head] at h3
      rw [g4, get_tail] at h4
      cases h3
      cases h4
      exact .cons h1 h2 g3 g4 (ih g5)

theorem slotOf {hp : Heap} {a : Nat} {o : Obj} (n : String) (h : hp[a]? = some o) :
    Xmi.slot hp a n = alistGet? o.slots n := by
  simp [Xmi.slot, Traverse.slot, h]

theorem collectList_vlist {hp : Heap} {k : LK} : ∀ {a : Nat} {vs : List Val}, VList hp k a vs →
    ∀ fuel, vs.length < fuel → collectList hp fuel (.ref a) = .ok vs := by
  intro a vs h
  induction h with
  | @nil a o h1 h2 h3 h4 =>
    intro fuel hf
    cases fuel with
    | zero => cases hf
    | succ f =>
      unfold collectList
      rw [slotOf "head" h1, h4]
      rfl
  | @cons a o v a' vs h1 h2 h3 h4 _ ih =>
    intro fuel hf
    cases fuel with
    | zero => cases hf
    | succ f =>
      unfold collectList
      rw [slotOf "head" h1, slotOf "tail" h1, h4, get_head, get_tail]
      simp only [Option.getD_some, bind, Except.bind, pure, Except.pure]
      rw [ih f (by simpa using hf)]

/-! ### what the JSON writer will find -/

/-- the head of a node of a list of kind `k`: a counterpart of a written structure, or a primitive of the kind -/
def HeadGood (L : List (Int × Nat)) (na : Int → Nat) : LK → Val → Prop
  | .fs, v => ∃ q ∈ L, v = .ref (na q.1)
  | .int, v => ∃ i : Int, v = .int i
  | .flt, v => ∃ t : String, v = .float t
  | .str, v => v = .none ∨ ∃ s : String, v = .str s

/-- the counterpart of a written structure -/
def SMain (L : List (Int × Nat)) (na : Int → Nat) (a : Nat) : Prop := ∃ q ∈ L, a = na q.1

/-- a node of an inlined list -/
def SNode (hp : Heap) (L : List (Int × Nat)) (na : Int → Nat) (a : Nat) : Prop :=
  ∃ (k : LK) (vs : List Val), VList hp k a vs ∧ vs.length < hp.length ∧ ∀ v ∈ vs, HeadGood L na k v

/-- an inlined array object -/
def SArr (K : Consts) (hp : Heap) (L : List (Int × Nat)) (na : Int → Nat) (a : Nat) : Prop :=
  ∃ (o : Obj) (ev : Val), hp[a]? = some o ∧ o.xid = none ∧ o.slots = [("elements", ev)] ∧
    ( (o.ty = FS_ARRAY ∧ isPrimitiveArray K FS_ARRAY = false ∧
        ∃ l : List (Option Nat), ev = .refs l ∧ ∀ r ∈ l, ∃ q ∈ L, r = some (na q.1))
    ∨ (o.ty ≠ FS_ARRAY ∧ (PrimArrTy o.ty ∨ o.ty = STRING_ARRAY) ∧ isPrimitiveArray K o.ty = true ∧
        JPrimElems o.ty ev) )

def SAll (K : Consts) (hp : Heap) (L : List (Int × Nat)) (na : Int → Nat) (a : Nat) : Prop :=
  SMain L na a ∨ SArr K hp L na a ∨ SNode hp L na a

theorem SNode.tail {hp : Heap} {L : List (Int × Nat)} {na : Int → Nat} {a : Nat} {o : Obj} {v : Val} {a' : Nat}
    (h : SNode hp L na a) (ho : hp[a]? = some o) (hs : o.slots = [("head", v), ("tail", .ref a')]) :
    SNode hp L na a' ∧ ∃ k, HeadGood L na k v ∧ o.ty = k.neT := by
  obtain ⟨k, vs, hv, hlen, hgood⟩ := h
  cases hv with
  | nil g1 _ _ g4 =>
    rw [ho] at g1; cases g1
    rw [hs] at g4; cases g4
  | cons g1 _ g3 g4 g5 =>
    rw [ho] at g1; cases g1
    rw [hs] at g4
    cases g4
    refine ⟨⟨k, _, g5, ?_, fun w hw => hgood w (List.mem_cons_of_mem _ hw)⟩, k, hgood _ List.mem_cons_self, g3⟩
    simp only [List.length_cons] at hlen
    omega

/-! ### values the reader produces -/

theorem lk_range_inj : ∀ {k k' : LK}, k.range = k'.range → k = k' := by
  intro k k' h
  cases k <;> cases k' <;> first | rfl | (exact absurd h (by decide))

theorem primArr_ne_list {r : String} (h : PrimArrTy r ∨ r = STRING_ARRAY ∨ r = FS_ARRAY) : ∀ k : LK, r ≠ k.range := by
  intro k
  rcases h with ((h | h | h) | h | h | (h | h)) | h | h <;> subst h <;> cases k <;> decide

/-- the elements the reader restores for a primitive array of the XMI fragment are elements of the JSON fragment -/
theorem jprim_of_prim {r : String} {ev : Val} (H : Heap) (na : Int → Nat) (h : PrimElems r ev) :
    JPrimElems r (elemsExp H na ev) := by
  rcases h with rfl | ⟨hr, l, rfl⟩ | ⟨hr, l, rfl, _⟩ | ⟨hr, l, rfl⟩ | ⟨hr, l, rfl, _⟩
  · exact .inl rfl
  · cases l with
    | nil => exact .inl rfl
    | cons i l =>
      refine .inr (.inr (.inr ⟨?_, ?_, .inl ⟨_, rfl⟩⟩))
      · rcases hr with h | h | h <;> subst h <;> decide
      · rcases hr with h | h | h <;> subst h <;> (intro hh; rcases hh with hh | hh <;> exact absurd hh (by decide))
  · cases l with
    | nil => exact .inl rfl
    | cons i l => exact .inr (.inl ⟨hr, _, rfl⟩)
  · cases l with
    | nil => exact .inl rfl
    | cons i l =>
      subst hr
      refine .inr (.inr (.inr ⟨by decide, ?_, .inr (.inl ⟨_, rfl⟩)⟩))
      intro hh
      rcases hh with hh | hh <;> exact absurd hh (by decide)
  · cases l with
    | nil => exact .inl rfl
    | cons i l => exact .inr (.inr (.inl ⟨hr, _, rfl⟩))

theorem jprim_of_str {ev : Val} (H : Heap) (na : Int → Nat) (h : StrElems ev) :
    JPrimElems STRING_ARRAY (elemsExp H na ev) := by
  rcases h with rfl | ⟨l, rfl⟩
  · exact .inl rfl
  · cases l with
    | nil => exact .inl rfl
    | cons i l =>
      refine .inr (.inr (.inr ⟨by decide, ?_, .inr (.inr ⟨_, rfl⟩)⟩))
      intro hh
      rcases hh with hh | hh <;> exact absurd hh (by decide)

theorem primArrTy_ne_fs {r : String} (h : PrimArrTy r) : r ≠ FS_ARRAY := by
  rcases h with (h | h | h) | h | h | (h | h) <;> subst h <;> decide

/-! ### the loaded CAS -/

section
variable {K : Consts} {ts : TypeSystem} {c : Cas} {ci : Nat} {H : Heap} {L : List (Int × Nat)} {ci' : Nat}
  {na : Int → Nat} {ia : Int → String → Nat} {ld : Xmi.Loaded}

theorem XLd.xid_new (x : XLd K ts c ci H L ci' na ia ld) {q : Int × Nat} (hq : q ∈ L) :
    xidOf ld.heap (na q.1) = some q.1 := heapRel_xid x.rel hq

theorem XLd.oxid (x : XLd K ts c ci H L ci' na ia ld) {q : Int × Nat} (hq : q ∈ L) {o : Obj} (ho : H[q.2]? = some o) :
    o.xid = some q.1 := by
  have := (x.lok.ids q hq).1
  unfold xidOf at this
  rw [ho] at this
  exact this

/-- a structure the written structure `q` refers to is collected -/
theorem XLd.target (x : XLd K ts c ci H L ci' na ia ld) {q : Int × Nat} (hq : q ∈ L) {b : Nat}
    (hb : Target K ts H q.2 b) : ∃ q' ∈ L, q'.2 = b ∧ xidOf H b = some q'.1 := by
  obtain ⟨y, hy, hyl⟩ := x.lok.closed q hq b hb
  exact ⟨(y, b), hyl, rfl, hy⟩

/-- the array object the reader made for the array inlined in feature `f` of the written structure `q` -/
theorem XLd.inlArr (x : XLd K ts c ci H L ci' na ia ld) {q : Int × Nat} (hq : q ∈ L) {o : Obj} (ho : H[q.2]? = some o)
    {t : TypeRec} (ht : find? ts o.ty = some t) (hnd : (ctorFields t).Nodup) {f : Feature} (hf : f ∈ allFeatures t)
    (hinl : isInline K f = true) (harr : isArray K f.range = true)
    (hr : PrimArrTy f.range ∨ f.range = STRING_ARRAY ∨ f.range = FS_ARRAY)
    {cc : Nat} (hv : alistGet? o.slots f.name = some (.ref cc)) {ev : Val} (hev : Xmi.slot H cc "elements" = some ev) :
    ∃ ob : Obj, ld.heap[ia q.1 f.name]? = some ob ∧ ob.xid = none ∧ ob.ty = f.range ∧
      ob.slots = [("elements", elemsExp H na ev)] := by
  have hi : inlineSlot K ts o f.name = true := (CF.inlineSlot_eq ht hnd hf).trans hinl
  have hT := x.typed q hq o ho f.name cc hv hi t f ht hf rfl
  obtain ⟨t', f', ht', hf', hn', hd⟩ := x.colls q hq o ho f.name cc hv hi
  rw [ht] at ht'; cases ht'
  have hff := CF.feat_unique hnd hf hf' hn'
  subst hff
  rcases hd with ⟨_, ev', hev', ob2, hob2, hx2, hel2⟩ | ⟨hno, _⟩
  · rw [hev] at hev'; cases hev'
    rcases hT with ⟨⟨ob, ev'', hob, hx, hty, hsl⟩, _⟩ | ⟨k, hk, _⟩
    · rw [hob2] at hob; cases hob
      rw [hsl, get_elements] at hel2
      cases hel2
      exact ⟨ob2, hob2, hx, hty, hsl⟩
    · exact absurd hk (primArr_ne_list hr k)
  · rw [harr] at hno; cases hno

/-- the list the reader made for the list inlined in feature `f` of the written structure `q` -/
theorem XLd.inlList (x : XLd K ts c ci H L ci' na ia ld) {q : Int × Nat} (hq : q ∈ L) {o : Obj} (ho : H[q.2]? = some o)
    {t : TypeRec} (ht : find? ts o.ty = some t) (hnd : (ctorFields t).Nodup) {f : Feature} (hf : f ∈ allFeatures t)
    (hinl : isInline K f = true) (harr : isArray K f.range = false) (hpa : isPrimitiveArray K f.range = false)
    (k : LK) (hr : f.range = k.range)
    {cc : Nat} (hv : alistGet? o.slots f.name = some (.ref cc)) {hs : List Val}
    (hcol : collectList H (H.length + 1) (.ref cc) = .ok hs) :
    VList ld.heap k (ia q.1 f.name) (hs.map (headExp H na)) ∧ hs.length < ld.heap.length := by
  have hi : inlineSlot K ts o f.name = true := (CF.inlineSlot_eq ht hnd hf).trans hinl
  have hT := x.typed q hq o ho f.name cc hv hi t f ht hf rfl
  obtain ⟨t', f', ht', hf', hn', hd⟩ := x.colls q hq o ho f.name cc hv hi
  rw [ht] at ht'; cases ht'
  have hff := CF.feat_unique hnd hf hf' hn'
  subst hff
  rcases hd with ⟨hyes, _⟩ | ⟨_, hs', hcol', hat, hlen⟩
  · rw [harr] at hyes; cases hyes
  · rw [hcol] at hcol'; cases hcol'
    rcases hT with ⟨_, hp1 | hp1⟩ | ⟨k', hk', htl⟩
    · rw [hpa] at hp1; cases hp1
    · rw [hr] at hp1
      exact absurd hp1 (by cases k <;> decide)
    · have : k' = k := lk_range_inj (hk'.symm.trans hr)
      subst this
      exact ⟨VList.of hat htl, hlen⟩

end

end Cassis.ChainC
