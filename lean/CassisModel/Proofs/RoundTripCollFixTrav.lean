/-
Fixpoint of the XMI round trip with collections, traversal part 2: the traversal of the loaded CAS succeeds, leaves the
heap alone, and collects exactly the loaded counterparts of the written structures, under the same ids; hence the
second document lists the same elements in the same order, and each is rendered identically.
-/
import CassisModel.Proofs.RoundTripCollFixObj
import CassisModel.Proofs.RoundTripFixTrav
import CassisModel.Proofs.RoundTripFixAux
import CassisModel.Proofs.RoundTripPass1

namespace Cassis.Xmi.CFX
open Cassis.TS Cassis.Traverse Cassis.Lex Cassis.Xmi

section
variable {K : Consts} {ts : TypeSystem} {cass cass' : List Cas} {c c' : Cas} {ci ci' : Nat} {hp H hpL : Heap}
  {L : List (Int × Nat)} {na : Int → Nat}

/-! ### seeds -/

theorem seed_fwd_c (hL : LOkC K ts c ci H L) (hviews : ViewsRel H na c c') {a : Nat}
    (ha : a ∈ defaultSeeds c') : ∃ q ∈ L, a = na q.1 := by
  unfold defaultSeeds at ha
  obtain ⟨nv', hnv', ha⟩ := List.mem_flatMap.mp ha
  obtain ⟨nv, hnv, hr⟩ := viewsRelL_bwd H na _ _ hviews nv' hnv'
  have hperm := hr.2.2.2.2.2.2.2
  have := hperm.mem_iff.mp ha
  obtain ⟨m, hm, rfl⟩ := List.mem_map.mp this
  obtain ⟨e0, he0, hx0⟩ := mem_members.mp hm
  obtain ⟨x, hx⟩ := hL.members nv hnv e0 he0
  have := (hL.ids _ hx).1
  rw [show ((x, e0.oid) : Int × Nat).2 = e0.oid from rfl, hx0] at this
  cases this
  exact ⟨_, hx, rfl⟩

theorem seed_bwd_c (hL : LOkC K ts c ci H L) (hviews : ViewsRel H na c c') {x : Int} {a : Nat}
    (hx : (x, a) ∈ L) (ha : a ∈ defaultSeeds c) : na x ∈ defaultSeeds c' := by
  unfold defaultSeeds at ha ⊢
  obtain ⟨nv, hnv, ha⟩ := List.mem_flatMap.mp ha
  obtain ⟨e, he, rfl⟩ := List.mem_map.mp ha
  obtain ⟨nv', hnv', hr⟩ := viewsRelL_fwd H na _ _ hviews nv hnv
  have hperm := hr.2.2.2.2.2.2.2
  refine List.mem_flatMap.mpr ⟨nv', hnv', hperm.mem_iff.mpr ?_⟩
  exact List.mem_map.mpr ⟨x, mem_members.mpr ⟨e, he, (hL.ids _ hx).1⟩, rfl⟩

/-! ### the traversal of the loaded CAS -/

theorem new_traversal_c (hL : LOkC K ts c ci H L) (hxid : ∀ q ∈ L, xidOf hpL (na q.1) = some q.1)
    (hviews : ViewsRel H na c c') (hobj : ∀ q ∈ L, ObjFix K ts cass cass' c' ci' H hpL L na q) :
    ∃ st' : St, findAllFs K ts {} hpL c'.nextXid (defaultSeeds c') = .ok st' ∧ st'.heap = hpL ∧
      ∀ r ∈ st'.allFs, ∃ q ∈ L, r.2 = na q.1 := by
  apply Traverse.findAllFs_succeeds K ts {} hpL c'.nextXid (defaultSeeds c') (fun b => ∃ q ∈ L, b = na q.1)
  · intro a ha
    exact seed_fwd_c hL hviews ha
  · rintro a ⟨q, hq, rfl⟩
    obtain ⟨o', t, _, _, ho', ht, _, _⟩ := nodeSuccs_coll_any (hobj q hq).coll []
    have hx := hxid q hq
    refine ⟨o', q.1, t, ho', ?_, getType_of_find ht, ?_⟩
    · unfold xidOf at hx; rw [ho'] at hx; exact hx
    · intro allFs
      obtain ⟨o2, t2, ps, n, ho2, ht2, hns, hps⟩ := nodeSuccs_coll_any (hobj q hq).coll allFs
      rw [ho'] at ho2; cases ho2
      rw [ht] at ht2; cases ht2
      exact ⟨ps, n, hns, fun b' hb' => (hobj q hq).fwd b' (hps b' hb')⟩
  · rintro a b ⟨q, hq, rfl⟩ ⟨q', hq', rfl⟩ h
    rw [hxid q hq, hxid q' hq'] at h
    rw [Option.some.inj h]

theorem reach_transfer_c {st : St}
    (hwf : RTWf c hp) (hfa : findAllFs K ts {} hp c.nextXid (defaultSeeds c) = .ok st)
    (hL : LOkC K ts c ci st.heap (sortById st.allFs))
    (hxid : ∀ q ∈ sortById st.allFs, xidOf hpL (na q.1) = some q.1)
    (hviews : ViewsRel st.heap na c c')
    (hobj : ∀ q ∈ sortById st.allFs, ObjFix K ts cass cass' c' ci' st.heap hpL (sortById st.allFs) na q)
    {a : Nat} (hr : Reach K ts {} st.heap (hp.length + 1) (defaultSeeds c) a) :
    ∀ x, (x, a) ∈ sortById st.allFs → Reach K ts {} hpL (hpL.length + 1) (defaultSeeds c') (na x) := by
  have hlen : st.heap.length = hp.length := (findAllFs_heap_frame_aux K ts {} hp c.nextXid _ st hfa).1
  induction hr with
  | seed a hs =>
    intro x hx
    exact Reach.seed _ (seed_bwd_c hL hviews hx hs)
  | step a b hra hnull hsucc ih =>
    intro xb hxb
    have hmem := findAllFs_complete_aux K ts {} hp c.nextXid _ st hwf.next_pos hfa a hra hnull
    obtain ⟨⟨xa, a2⟩, hq, rfl⟩ := List.mem_map.mp hmem
    have hqa : (xa, a2) ∈ sortById st.allFs := mem_sortById.mpr hq
    rw [← hlen] at hsucc
    have htg : Target K ts st.heap a2 b := (succsOf_coll (hL.coll _ hqa) b).mp hsucc
    have htg' := (hobj _ hqa).bwd b xb htg hxb
    refine Reach.step (na xa) (na xb) (ih xa hqa) ?_ ?_
    · rw [hxid _ hqa]
      intro h
      exact (hL.ids _ hqa).2 (Option.some.inj h)
    · exact (succsOf_coll (hobj _ hqa).coll (na xb)).mpr htg'

theorem new_allFs_perm_c {st st' : St}
    (hwf : RTWf c hp) (hfa : findAllFs K ts {} hp c.nextXid (defaultSeeds c) = .ok st)
    (hL : LOkC K ts c ci st.heap (sortById st.allFs))
    (hxid : ∀ q ∈ sortById st.allFs, xidOf hpL (na q.1) = some q.1)
    (hviews : ViewsRel st.heap na c c')
    (hobj : ∀ q ∈ sortById st.allFs, ObjFix K ts cass cass' c' ci' st.heap hpL (sortById st.allFs) na q)
    (hnx : 0 < c'.nextXid)
    (hfa' : findAllFs K ts {} hpL c'.nextXid (defaultSeeds c') = .ok st') (hheap : st'.heap = hpL)
    (hS : ∀ r ∈ st'.allFs, ∃ q ∈ sortById st.allFs, r.2 = na q.1) :
    st'.allFs.Perm (st.allFs.map (fun q => (q.1, na q.1))) := by
  have inv' := (findAllFs_inv K ts {} hpL c'.nextXid _ st' hfa').1
  have inv := (findAllFs_inv K ts {} hp c.nextXid _ st hfa).1
  have hnd' : st'.allFs.Nodup := nodup_of_nodup_map _ _ inv'.nodupK
  have hnd : (st.allFs.map (fun q => (q.1, na q.1))).Nodup := by
    apply nodup_of_nodup_map (·.1)
    rw [List.map_map]
    exact inv.nodupK
  rw [List.perm_ext_iff_of_nodup hnd' hnd]
  rintro ⟨x, b⟩
  constructor
  · intro hr
    obtain ⟨q, hq, hb⟩ := hS _ hr
    have h1 := inv'.link x b hr
    rw [hheap, show ((x, b) : Int × Nat).2 = b from rfl] at *
    subst hb
    rw [hxid q hq] at h1
    cases h1
    exact List.mem_map.mpr ⟨q, mem_sortById.mp hq, rfl⟩
  · intro hm
    obtain ⟨q, hq, heq⟩ := List.mem_map.mp hm
    cases heq
    have hqL : q ∈ sortById st.allFs := mem_sortById.mpr hq
    have hreach := findAllFs_sound_aux K ts {} hp c.nextXid _ st hwf.next_pos hfa q.2
      (List.mem_map.mpr ⟨q, hq, rfl⟩)
    have hreach' := reach_transfer_c hwf hfa hL hxid hviews hobj hreach q.1 hqL
    have hxq : xidOf st'.heap (na q.1) = some q.1 := by rw [hheap]; exact hxid q hqL
    have hmem := findAllFs_complete_aux K ts {} hpL c'.nextXid _ st' hnx hfa' (na q.1)
      (by rw [hheap]; exact hreach')
      (by rw [hxq]; intro h; exact (hL.ids _ hqL).2 (Option.some.inj h))
    obtain ⟨⟨y, b⟩, hr, hb⟩ := List.mem_map.mp hmem
    simp only at hb
    subst hb
    have := inv'.link y _ hr
    rw [hxq] at this
    cases this
    exact hr

/-! ### rendering -/

theorem renderAll_transfer_c (hobj : ∀ q ∈ L, ObjFix K ts cass cass' c' ci' H hpL L na q) :
    ∀ (M : List (Int × Nat)), (∀ q ∈ M, q ∈ L) →
      renderAll K ts cass' hpL (M.map (fun q => (q.1, na q.1))) = renderAll K ts cass H M := by
  intro M
  induction M with
  | nil => intro _; rfl
  | cons q M ih =>
    intro hM
    have hq : q ∈ L := hM q List.mem_cons_self
    simp only [List.map_cons, renderAll]
    rw [(hobj q hq).render, ih (fun q' hq' => hM q' (List.mem_cons_of_mem _ hq'))]

/-! ### saving again -/

theorem saveXmi_again_c (K : Consts) (ts : TypeSystem) (cass : List Cas) (ci : Nat) (c : Cas) (hp : Heap)
    (na : Int → Nat) (ia : Int → String → Nat) (doc : XDoc) (st : St) (ld : Loaded)
    (hc : cass[ci]? = some c) (hwf : RTWf c hp)
    (hsave : saveXmi K ts cass ci hp = .ok (doc, st))
    (hL : LOkC K ts c ci st.heap (sortById st.allFs))
    (hrel : HeapRel st.heap (sortById st.allFs) na (E3c K ts st.heap na ia cass.length) ld.heap)
    (hcolls : CollsAt K ts st.heap (sortById st.allFs) na ia ld.heap)
    (hviews : ViewsRel st.heap na c ld.cas)
    (hvc : ld.cas.views.map (viewContent ld.heap) = c.views.map (viewContent st.heap))
    (hnx : 0 < ld.cas.nextXid) :
    (∃ st' : St, saveXmi K ts (cass ++ [ld.cas]) cass.length ld.heap = .ok (doc, st')) ∧
    (∀ q ∈ sortById st.allFs, CollFs K ts ld.cas cass.length ld.heap (na q.1)) := by
  have hc' : (cass ++ [ld.cas])[cass.length]? = some ld.cas := List.getElem?_concat_length
  have hfa := saveXmi_findAllFs hc hsave
  have hxid : ∀ q ∈ sortById st.allFs, xidOf ld.heap (na q.1) = some q.1 := by
    intro q hq
    obtain ⟨_, o2, _, ho2, _, hx2, _⟩ := hrel q hq
    unfold xidOf; rw [ho2]; exact hx2
  have hobj : ∀ q ∈ sortById st.allFs,
      ObjFix K ts cass (cass ++ [ld.cas]) ld.cas cass.length st.heap ld.heap (sortById st.allFs) na q :=
    fun q hq => fix_obj hc hc' hwf hL hrel hcolls hviews q hq
  refine ⟨?_, fun q hq => (hobj q hq).coll⟩
  obtain ⟨st', hfa', hheap, hS⟩ := new_traversal_c hL hxid hviews hobj
  have hperm := new_allFs_perm_c hwf hfa hL hxid hviews hobj hnx hfa' hheap hS
  have hnd' : (st'.allFs.map (·.1)).Nodup := (findAllFs_inv K ts {} _ _ _ st' hfa').1.nodupK
  have hsort : sortById st'.allFs = (sortById st.allFs).map (fun q => (q.1, na q.1)) := by
    rw [sortById_perm_invariant_aux _ _ hperm hnd']
    exact sortById_map (fun q => (q.1, na q.1)) (fun _ => rfl) _
  obtain ⟨fsElems, hren, hdoc⟩ := saveXmi_doc K ts cass ci c hp doc st hc hsave
  have hren' : renderAll K ts (cass ++ [ld.cas]) ld.heap ((sortById st.allFs).map (fun q => (q.1, na q.1)))
      = .ok fsElems := by
    rw [renderAll_transfer_c hobj _ (fun _ h => h)]; exact hren
  refine ⟨st', ?_⟩
  unfold saveXmi
  rw [hc']
  simp only [bind, Except.bind, pure, Except.pure, hfa', hsort, hheap, hren']
  rw [hdoc, viewsRelL_sofas _ _ _ _ hviews, renderView_map st.heap ld.heap _ _ hvc]

end

end Cassis.Xmi.CFX
