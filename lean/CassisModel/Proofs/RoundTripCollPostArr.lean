/-
Round trip with collections, layer IA: the second pass (`postFeature`) on one inlined ARRAY feature of a general
structure (`PostInlineStmt … ArrRange`).  Helper lemmas: `RoundTripCollPostArrA` (general), `…B` (attributes of
primitive arrays read back), `…C` (ids of an FSArray resolved; the branches of `postFeature`).
-/
import CassisModel.Proofs.RoundTripCollPostArrA
import CassisModel.Proofs.RoundTripCollPostArrB
import CassisModel.Proofs.RoundTripCollPostArrC

namespace Cassis.Xmi.CIA
open Cassis.TS Cassis.Traverse Cassis.Lex Cassis.Xmi

/-! ### the ranges are pairwise different -/

theorem prim_ne {r : String} (h : PrimArrTy r) :
    r ≠ STRING_ARRAY ∧ r ≠ FS_ARRAY ∧ r ≠ INTEGER_LIST ∧ r ≠ FLOAT_LIST ∧ r ≠ STRING_LIST ∧ r ≠ FS_LIST := by
  rcases h with (h | h | h) | h | h | (h | h) <;> subst h <;> decide

theorem str_ne : ¬ PrimArrTy STRING_ARRAY ∧ STRING_ARRAY ≠ FS_ARRAY ∧ STRING_ARRAY ≠ INTEGER_LIST ∧
    STRING_ARRAY ≠ FLOAT_LIST ∧ STRING_ARRAY ≠ STRING_LIST ∧ STRING_ARRAY ≠ FS_LIST := by
  refine ⟨?_, by decide, by decide, by decide, by decide, by decide⟩
  intro h
  exact (prim_ne h).1 rfl

theorem fs_ne : ¬ PrimArrTy FS_ARRAY ∧ FS_ARRAY ≠ STRING_ARRAY ∧ FS_ARRAY ≠ INTEGER_LIST ∧
    FS_ARRAY ≠ FLOAT_LIST ∧ FS_ARRAY ≠ STRING_LIST ∧ FS_ARRAY ≠ FS_LIST := by
  refine ⟨?_, by decide, by decide, by decide, by decide, by decide⟩
  intro h
  exact (prim_ne h).2.1 rfl

/-! ### the surviving disjunct of `Inl1R` -/

theorem inl1R_prim {H hpX : Heap} {r : String} {c : Nat} {w : Val} (hr : PrimArrTy r) (h : Inl1R H hpX r c w) :
    ∃ (ev : Val) (s : String), slot H c "elements" = some ev ∧ showPrimArray r ev = .ok s ∧ w = .str s := by
  obtain ⟨n1, n2, n3, n4, n5, n6⟩ := prim_ne hr
  rcases h with ⟨_, h⟩ | ⟨e, _⟩ | ⟨e, _⟩ | ⟨e | e, _⟩ | ⟨e, _⟩ | ⟨e, _⟩
  · exact h
  · exact absurd e n1
  · exact absurd e n2
  · exact absurd e n3
  · exact absurd e n4
  · exact absurd e n5
  · exact absurd e n6

theorem inl1R_str {H hpX : Heap} {r : String} {c : Nat} {w : Val} (hr : r = STRING_ARRAY) (h : Inl1R H hpX r c w) :
    ∃ ev : Val, slot H c "elements" = some ev ∧
      (((ev = .refs [] ∨ ev = .strs []) ∧ w = .str "") ∨
       ∃ (l : List (Option String)) (addr : Nat), ev = .strs l ∧ l ≠ [] ∧ w = .ref addr ∧
         ArrAt hpX addr (.strs (l.map normTxt))) := by
  subst hr
  obtain ⟨n1, n2, n3, n4, n5, n6⟩ := str_ne
  rcases h with ⟨e, _⟩ | ⟨_, h⟩ | ⟨e, _⟩ | ⟨e | e, _⟩ | ⟨e, _⟩ | ⟨e, _⟩
  · exact absurd e n1
  · exact h
  · exact absurd e n2
  · exact absurd e n3
  · exact absurd e n4
  · exact absurd e n5
  · exact absurd e n6

theorem inl1R_fs {H hpX : Heap} {r : String} {c : Nat} {w : Val} (hr : r = FS_ARRAY) (h : Inl1R H hpX r c w) :
    ∃ l : List Nat, slot H c "elements" = some (.refs (l.map some)) ∧ w = .str (joinSp (l.map (idTok H))) := by
  subst hr
  obtain ⟨n1, n2, n3, n4, n5, n6⟩ := fs_ne
  rcases h with ⟨e, _⟩ | ⟨e, _⟩ | ⟨_, h⟩ | ⟨e | e, _⟩ | ⟨e, _⟩ | ⟨e, _⟩
  · exact absurd e n1
  · exact absurd e n2
  · exact h
  · exact absurd e n3
  · exact absurd e n4
  · exact absurd e n5
  · exact absurd e n6

/-- `Slot1` on an inlined feature whose old value is a reference -/
theorem slot1_inl {K : Consts} {ts : TypeSystem} {cass : List Cas} {H hpX : Heap} {o : Obj} {t : TypeRec} {f : Feature}
    {c : Nat} {w : Val} (ht : find? ts o.ty = some t) (hf : f ∈ allFeatures t) (hnd : (ctorFields t).Nodup)
    (hinl : inlineSlot K ts o f.name = true) (h : Slot1 K ts cass H hpX o f.name (.ref c) w) :
    Inl1R H hpX f.range c w := by
  obtain ⟨t', f', ht', hf', hn', hR⟩ := h.1 c rfl hinl
  rw [ht] at ht'
  cases ht'
  have := feat_unique (allFeatures t) f f' hnd hf hf' hn'
  subst this
  exact hR

/-! ### the three kinds -/

section
variable (K : Consts) (ts : TypeSystem) (cass : List Cas) (H : Heap) (na : Int → Nat)
  (tsIdx ci' : Nat) (sofas : List (Int × PSofa)) (fss : List (Int × Nat))

/-- nothing was written: nothing changes -/
theorem post_none (o : Obj) (f : Feature) (hpX : Heap) (a' : Nat) (o' : Obj) (w : Val)
    (ho' : hpX[a']? = some o') (hw : alistGet? o'.slots f.name = some w)
    (hs1 : Slot1 K ts cass H hpX o f.name .none w)
    (hpost : alistGet? o'.slots f.name = some .none →
      postFeature K ts tsIdx ci' sofas fss hpX a' o.ty false f = .ok hpX) :
    ∃ (hpY : Heap) (w' : Val), postFeature K ts tsIdx ci' sofas fss hpX a' o.ty false f = .ok hpY ∧
      StepX hpX hpY a' f.name w' ∧ Slot2 K ts cass H na ci' hpY o f.name .none w' := by
  have := slot1_none hs1
  subst this
  exact ⟨hpX, .none, hpost hw, stepX_same ho' hw, slot2_none K ts cass H na ci' hpX o f.name⟩

theorem post_prim (o : Obj) (t : TypeRec) (f : Feature) (ht : find? ts o.ty = some t) (hf : f ∈ allFeatures t)
    (hnd : (ctorFields t).Nodup) (hname : NameOk f) (hm : f.multi.getD false = false)
    (hinl : inlineSlot K ts o f.name = true)
    (hr : PrimArrTy f.range) (hk : RangeKind K ts f.range true false true false false false)
    (hpa : isPrimitiveArray K o.ty = false)
    (hpX : Heap) (a' : Nat) (o' : Obj) (ho' : hpX[a']? = some o')
    (v w : Val) (hia : InlArr H (PrimElems f.range) v) (hw : alistGet? o'.slots f.name = some w)
    (hs1 : Slot1 K ts cass H hpX o f.name v w) :
    ∃ (hpY : Heap) (w' : Val), postFeature K ts tsIdx ci' sofas fss hpX a' o.ty false f = .ok hpY ∧
      StepX hpX hpY a' f.name w' ∧ Slot2 K ts cass H na ci' hpY o f.name v w' := by
  have hsofa : f.name ≠ "sofa" := hname.2.2.2.2.2
  rcases hia with rfl | ⟨c, ev, rfl, hev, hP⟩
  · exact post_none K ts cass H na tsIdx ci' sofas fss o f hpX a' o' w ho' hw hs1
      (fun h2 => postFeature_parr_none K ts tsIdx ci' sofas fss hpX a' o.ty f o' hsofa hk.prim hpa hk.primArr hm ho' h2)
  · obtain ⟨ev', s, hev', hshow, rfl⟩ := inl1R_prim hr (slot1_inl ht hf hnd hinl hs1)
    rw [hev] at hev'
    cases hev'
    have hparse := parse_prim H na f.range hr ev hP s hshow
    obtain ⟨hpY, hset, hstep, hat⟩ := append_set hpX a' o' f.name (.str s)
      { ty := f.range, ts := tsIdx, xid := none, slots := [("elements", elemsExp H na ev)] } (elemsExp H na ev)
      ho' hw rfl (by simp [alistGet?])
    refine ⟨hpY, .ref hpX.length, ?_, hstep, ?_⟩
    · rw [postFeature_parr_str K ts tsIdx ci' sofas fss hpX a' o.ty f o' s _ hsofa hk.prim hpa hk.primArr hm ho' hw
        hparse]
      exact hset
    · exact slot2_ref K ts cass H na ci' hpY o t f c hpX.length ev ht hf hinl hk.arr hev hat

theorem post_str (o : Obj) (t : TypeRec) (f : Feature) (ht : find? ts o.ty = some t) (hf : f ∈ allFeatures t)
    (hnd : (ctorFields t).Nodup) (hname : NameOk f) (hm : f.multi.getD false = false)
    (hinl : inlineSlot K ts o f.name = true)
    (hr : f.range = STRING_ARRAY) (hk : RangeKind K ts f.range true false true false true false)
    (hpa : isPrimitiveArray K o.ty = false)
    (hpX : Heap) (a' : Nat) (o' : Obj) (ho' : hpX[a']? = some o')
    (v w : Val) (hia : InlArr H StrElems v) (hw : alistGet? o'.slots f.name = some w)
    (hs1 : Slot1 K ts cass H hpX o f.name v w) :
    ∃ (hpY : Heap) (w' : Val), postFeature K ts tsIdx ci' sofas fss hpX a' o.ty false f = .ok hpY ∧
      StepX hpX hpY a' f.name w' ∧ Slot2 K ts cass H na ci' hpY o f.name v w' := by
  have hsofa : f.name ≠ "sofa" := hname.2.2.2.2.2
  rcases hia with rfl | ⟨c, ev, rfl, hev, _⟩
  · exact post_none K ts cass H na tsIdx ci' sofas fss o f hpX a' o' w ho' hw hs1
      (fun h2 => postFeature_parr_none K ts tsIdx ci' sofas fss hpX a' o.ty f o' hsofa hk.prim hpa hk.primArr hm ho' h2)
  · obtain ⟨ev', hev', hcase⟩ := inl1R_str hr (slot1_inl ht hf hnd hinl hs1)
    rw [hev] at hev'
    cases hev'
    rcases hcase with ⟨hemp, rfl⟩ | ⟨l, addr, rfl, hl, rfl, hat⟩
    · have hexp : elemsExp H na ev = .refs [] := by
        rcases hemp with rfl | rfl <;> rfl
      have hparse : parsePrimArrayStr f.range "" = .ok (elemsExp H na ev) := by
        rw [hr, hexp]; exact parse_str_empty
      obtain ⟨hpY, hset, hstep, hat⟩ := append_set hpX a' o' f.name (.str "")
        { ty := f.range, ts := tsIdx, xid := none, slots := [("elements", elemsExp H na ev)] } (elemsExp H na ev)
        ho' hw rfl (by simp [alistGet?])
      refine ⟨hpY, .ref hpX.length, ?_, hstep, ?_⟩
      · rw [postFeature_parr_str K ts tsIdx ci' sofas fss hpX a' o.ty f o' "" _ hsofa hk.prim hpa hk.primArr hm ho' hw
          hparse]
        exact hset
      · exact slot2_ref K ts cass H na ci' hpY o t f c hpX.length ev ht hf hinl hk.arr hev hat
    · refine ⟨hpX, .ref addr, ?_, stepX_same ho' hw, ?_⟩
      · exact postFeature_parr_ref K ts tsIdx ci' sofas fss hpX a' o.ty f o' addr hsofa hk.prim hpa hk.primArr hm ho' hw
      · refine slot2_ref K ts cass H na ci' hpX o t f c addr (.strs l) ht hf hinl hk.arr hev ?_
        rw [elemsExp_strs H na l hl]
        exact hat

theorem post_fs (a : Nat) (o : Obj) (t : TypeRec) (f : Feature) (ho : H[a]? = some o) (ht : find? ts o.ty = some t)
    (hf : f ∈ allFeatures t)
    (hnd : (ctorFields t).Nodup) (hname : NameOk f) (hm : f.multi.getD false = false)
    (hinl : inlineSlot K ts o f.name = true) (hinl' : isInline K f = true)
    (hr : f.range = FS_ARRAY) (hk : RangeKind K ts f.range false false true false false false)
    (hpa : isPrimitiveArray K o.ty = false)
    (htgt : ∀ b, Target K ts H a b → Resolves H fss na b)
    (hpX : Heap) (a' : Nat) (o' : Obj) (ho' : hpX[a']? = some o')
    (v w : Val) (hv : alistGet? o.slots f.name = some v) (hia : InlArr H (FsElems H) v)
    (hw : alistGet? o'.slots f.name = some w)
    (hs1 : Slot1 K ts cass H hpX o f.name v w) :
    ∃ (hpY : Heap) (w' : Val), postFeature K ts tsIdx ci' sofas fss hpX a' o.ty false f = .ok hpY ∧
      StepX hpX hpY a' f.name w' ∧ Slot2 K ts cass H na ci' hpY o f.name v w' := by
  have hsofa : f.name ≠ "sofa" := hname.2.2.2.2.2
  rcases hia with rfl | ⟨c, ev, rfl, hev, _⟩
  · exact post_none K ts cass H na tsIdx ci' sofas fss o f hpX a' o' w ho' hw hs1
      (fun h2 => postFeature_fsarr_none K ts tsIdx ci' sofas fss hpX a' o.ty f o' hsofa hk.prim hpa hk.primArr
        hk.primList ho' h2)
  · obtain ⟨l, hev', rfl⟩ := inl1R_fs hr (slot1_inl ht hf hnd hinl hs1)
    have hres : ∀ b ∈ l, Resolves H fss na b := by
      intro b hb
      refine htgt b ⟨o, t, ho, ht, Or.inr (Or.inl ⟨f, hf, hinl', hr, c, l.map some, hv, hev', ?_⟩)⟩
      exact List.mem_map.2 ⟨b, hb, rfl⟩
    obtain ⟨targets, hresolve, hexp⟩ := fs_resolve H fss na l hres
    obtain ⟨hpY, hset, hstep, hat⟩ := append_set hpX a' o' f.name (.str (joinSp (l.map (idTok H))))
      { ty := FS_ARRAY, ts := tsIdx, xid := none, slots := [("elements", .refs (targets.map some))] }
      (.refs (targets.map some)) ho' hw rfl (by simp [alistGet?])
    refine ⟨hpY, .ref hpX.length, ?_, hstep, ?_⟩
    · rw [postFeature_fsarr_str K ts tsIdx ci' sofas fss hpX a' o.ty f o' _ targets hsofa hk.prim hpa hk.primArr
        hk.primList hr hm ho' hw hresolve]
      exact hset
    · refine slot2_ref K ts cass H na ci' hpY o t f c hpX.length _ ht hf hinl hk.arr hev' ?_
      rw [← hexp]
      exact hat

end

end Cassis.Xmi.CIA

namespace Cassis.Xmi
open Cassis.TS Cassis.Traverse Cassis.Lex Cassis.Xmi.CIA

theorem postInline_arr (K : Consts) (ts : TypeSystem) (cass : List Cas) (H : Heap) (na : Int → Nat)
    (tsIdx ci' : Nat) (sofas : List (Int × PSofa)) (fss : List (Int × Nat)) :
    PostInlineStmt K ts cass H na tsIdx ci' sofas fss ArrRange := by
  intro a o t f ho ht hf hnd hname hinlf hQ hpa _ htgt hpX a' o' ho' _ v w hv hw hs1
  obtain ⟨hm, v0, hv0, hkinds⟩ := hinlf
  rw [hv] at hv0
  cases hv0
  -- every array kind is an array for `isArray`, hence the feature is inlined
  have hinlOf : isArray K f.range = true → isInline K f = true := by
    intro h
    unfold isInline
    rw [hm, h]; rfl
  have hslot : isInline K f = true → inlineSlot K ts o f.name = true := by
    intro h
    rw [inlineSlot_of K ts o t f ht hf hnd]; exact h
  rcases hkinds with ⟨hr, hk, hia⟩ | ⟨hr, hk, hia⟩ | ⟨hr, hk, hia⟩ | ⟨hr, _⟩ | ⟨hr, _⟩ | ⟨hr, _⟩ | ⟨hr, _⟩
  · exact post_prim K ts cass H na tsIdx ci' sofas fss o t f ht hf hnd hname hm (hslot (hinlOf hk.arr)) hr hk hpa
      hpX a' o' ho' v w hia hw hs1
  · exact post_str K ts cass H na tsIdx ci' sofas fss o t f ht hf hnd hname hm (hslot (hinlOf hk.arr)) hr hk hpa
      hpX a' o' ho' v w hia hw hs1
  · exact post_fs K ts cass H na tsIdx ci' sofas fss a o t f ho ht hf hnd hname hm (hslot (hinlOf hk.arr))
      (hinlOf hk.arr) hr hk hpa htgt hpX a' o' ho' v w hv hia hw hs1
  all_goals
    exfalso
    rcases hQ with h | h | h
    · obtain ⟨n1, n2, n3, n4, n5, n6⟩ := prim_ne h
      first | exact n3 hr | exact n4 hr | exact n5 hr | exact n6 hr
    · rw [h] at hr
      obtain ⟨n1, n2, n3, n4, n5, n6⟩ := str_ne
      first | exact n3 hr | exact n4 hr | exact n5 hr | exact n6 hr
    · rw [h] at hr
      obtain ⟨n1, n2, n3, n4, n5, n6⟩ := fs_ne
      first | exact n3 hr | exact n4 hr | exact n5 hr | exact n6 hr

end Cassis.Xmi

