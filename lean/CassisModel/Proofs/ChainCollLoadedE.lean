/-
C16 with collections, the CAS loaded from XMI, part E: the traversal of the JSON writer (`includeInlinable := true`) on
the loaded CAS succeeds and collects structures of `SAll` only; the fragment is kept when the traversal assigns ids
(`SameShape`); the collected structures satisfy `LOkJ`.
-/
import CassisModel.Proofs.ChainCollLoadedD
import CassisModel.Proofs.ChainCollTravGen
import CassisModel.Proofs.RoundTripFixAux
import CassisModel.Proofs.RoundTripJsonCollWriter

namespace Cassis.ChainC
open Cassis.TS Cassis.Traverse Cassis.Xmi Cassis.Lex Cassis.Json

/-! ### what a structure pushes (against the empty visited map) -/

theorem featureSuccs_sub {K : Consts} {ts : TypeSystem} {hp : Heap} {fuel a : Nat} {f : Feature} {ps : List Nat} {n : Nat}
    (h : featureSuccs K ts jop hp [] fuel a f = .ok (ps, n)) :
    ∀ b ∈ ps, Traverse.slot hp a f.name = some (.ref b) := by
  unfold featureSuccs at h
  split at h
  · cases h; intro b hb; cases hb
  · split at h
    · cases h; intro b hb; cases hb
    · cases hs : Traverse.slot hp a f.name with
      | none =>
        -- (the model of `_find_all_fs` treats a missing slot as `None`; an earlier version raised)
        rw [hs] at h
        first
          | (cases h; done)
          | (cases h; intro b hb; cases hb)
      | some v =>
        rw [hs] at h
        cases v with
        | none => cases h; intro b hb; cases hb
        | ref t =>
          simp only [Bool.not_true, Bool.false_and, Bool.false_eq_true, if_false, seenId_nil] at h
          cases h
          intro b hb
          rw [List.mem_singleton.mp hb]
        | _ =>
          simp only [Bool.not_true, Bool.false_and, Bool.false_eq_true, if_false] at h
          cases h

theorem featuresSuccs_sub {K : Consts} {ts : TypeSystem} {hp : Heap} {fuel a : Nat} :
    ∀ (fs : List Feature) (ps : List Nat) (n : Nat), featuresSuccs K ts jop hp [] fuel a fs = .ok (ps, n) →
      ∀ b ∈ ps, ∃ f ∈ fs, Traverse.slot hp a f.name = some (.ref b)
  | [], ps, n, h, b, hb => by
    unfold featuresSuccs at h
    cases h
    cases hb
  | f :: fs, ps, n, h, b, hb => by
    unfold featuresSuccs at h
    simp only [bind, Except.bind, pure, Except.pure] at h
    cases h1 : featureSuccs K ts jop hp [] fuel a f with
    | error e => rw [h1] at h; cases h
    | ok r1 =>
      rw [h1] at h
      dsimp only at h
      cases h2 : featuresSuccs K ts jop hp [] fuel a fs with
      | error e => rw [h2] at h; cases h
      | ok r2 =>
        rw [h2] at h
        dsimp only at h
        cases h
        obtain ⟨p1, n1⟩ := r1
        obtain ⟨p2, n2⟩ := r2
        rcases List.mem_append.mp hb with hb | hb
        · exact ⟨f, List.mem_cons_self, featureSuccs_sub h1 b hb⟩
        · obtain ⟨g, hg, hs⟩ := featuresSuccs_sub fs p2 n2 h2 b hb
          exact ⟨g, List.mem_cons_of_mem _ hg, hs⟩

theorem mem_refsToPush_nil' {hp : Heap} {l : List (Option Nat)} {b : Nat} (h : b ∈ refsToPush hp [] l) : some b ∈ l := by
  unfold refsToPush at h
  obtain ⟨r, hr, hb⟩ := List.mem_filterMap.mp h
  cases r with
  | none => cases hb
  | some a =>
    simp only [seenId_nil, Bool.false_eq_true, if_false] at hb
    cases hb
    exact hr

/-- a structure of the JSON fragment: the successor computation succeeds and yields targets of reference slots or
    elements of the `elements` slot -/
theorem jop_succs {K : Consts} {ts : TypeSystem} {c : Cas} {ci : Nat} {hp : Heap} {a : Nat} (fuel : Nat)
    (h : JGenFs K ts c ci hp a ∨ JArrFs K ts hp a) :
    ∃ (ob : Obj) (t : TypeRec) (ps : List Nat) (n : Nat), hp[a]? = some ob ∧ getType ts ob.ty = .ok t ∧
      nodeSuccs K ts jop hp [] fuel a t = .ok (ps, n) ∧
      ∀ b ∈ ps, (∃ m, alistGet? ob.slots m = some (.ref b)) ∨
        (∃ l, alistGet? ob.slots "elements" = some (.refs l) ∧ some b ∈ l) := by
  rcases h with hg | ha
  · obtain ⟨o, t, ho, ht, _, _, _, hsup, _, _, _, _, _, _, _, hfeat, _⟩ := hg
    obtain ⟨ps, hps, _⟩ := jfeaturesSuccs_coll (K := K) (ts := ts) fuel ho (allFeatures t) hfeat
    have hnode : nodeSuccs K ts jop hp [] fuel a t = .ok (ps, 0) := by
      unfold nodeSuccs
      have : (t.super == some ARRAY_BASE) = false := by
        cases hh : (t.super == some ARRAY_BASE)
        · rfl
        · exact absurd (eq_of_beq hh) hsup
      rw [this]
      exact hps
    refine ⟨o, t, ps, 0, ho, Cassis.Xmi.getType_of_find ht, hnode, fun b hb => ?_⟩
    obtain ⟨f, _, hs⟩ := featuresSuccs_sub _ _ _ hps b hb
    unfold Traverse.slot at hs
    rw [ho] at hs
    exact .inl ⟨f.name, hs⟩
  · obtain ⟨o, t, f, ev, ho, ht, htn, hsup, _, _, _, hsl, _, _, _⟩ := ha
    have h1 : (t.super == some ARRAY_BASE) = true := by rw [hsup]; exact beq_self_eq_true _
    have hslot : Traverse.slot hp a "elements" = some ev := by
      unfold Traverse.slot; rw [ho]; simp only [Option.bind_some]; rw [hsl, get_elements]
    by_cases hfa : (t.name == FS_ARRAY) = true
    · cases ev with
      | refs l =>
        refine ⟨o, t, refsToPush hp [] l, 0, ho, Cassis.Xmi.getType_of_find ht, ?_, fun b hb => ?_⟩
        · unfold nodeSuccs
          simp only [h1, hfa, if_true, hslot]
        · exact .inr ⟨l, by rw [hsl, get_elements], mem_refsToPush_nil' hb⟩
      | _ =>
        refine ⟨o, t, [], 0, ho, Cassis.Xmi.getType_of_find ht, ?_, fun b hb => by cases hb⟩
        unfold nodeSuccs
        simp only [h1, hfa, if_true, hslot]
    · refine ⟨o, t, [], 0, ho, Cassis.Xmi.getType_of_find ht, ?_, fun b hb => by cases hb⟩
      unfold nodeSuccs
      simp only [h1, hfa, if_true, Bool.false_eq_true, if_false]

/-! ### the fragment and `SameShape` -/

theorem collectList_shape {hp hp' : Heap} (hs : ∀ a n, Xmi.slot hp' a n = Xmi.slot hp a n) :
    ∀ (fuel : Nat) (v : Val), collectList hp' fuel v = collectList hp fuel v
  | 0, _ => rfl
  | fuel+1, v => by
    cases v with
    | ref a =>
      unfold collectList
      rw [hs a "head", hs a "tail"]
      cases Xmi.slot hp a "head" with
      | none => rfl
      | some hd =>
        dsimp only
        rw [collectList_shape hs fuel]
    | _ => rfl

theorem spineEnds_shape {hp hp' : Heap} (sh : SameShape hp hp') {b : Nat} (h : SpineEnds hp b) : SpineEnds hp' b := by
  obtain ⟨hs, h⟩ := h
  refine ⟨hs, ?_⟩
  rw [sh.1, collectList_shape (fun a n => sh.slot a n)]
  exact h

theorem jcollFs_shape {K : Consts} {ts : TypeSystem} {c : Cas} {ci : Nat} {hp hp' : Heap} (sh : SameShape hp hp')
    {a : Nat} (h : JCollFs K ts c ci hp a) : JCollFs K ts c ci hp' a := by
  obtain ⟨hk, hj⟩ := h
  refine ⟨?_, ?_⟩
  · rcases hk with ⟨o, t, ho, ht, htn, h1, h2, h3, h4, h5, h6, h7, h8, hnd, hsl, hfeat, hann⟩ |
      ⟨o, t, f, ev, ho, ht, htn, hsup, hall, hfn, hres, hsl, hann, hns, hcase⟩
    · obtain ⟨o', ho', hty, hslots, _⟩ := sh.2 a o ho
      obtain ⟨ty, tsi, xid, slots⟩ := o
      obtain ⟨ty', tsi', xid', slots'⟩ := o'
      simp only at hty hslots
      subst hty hslots
      refine .inl ⟨_, t, ho', ht, htn, h1, h2, h3, h4, h5, h6, h7, h8, hnd, hsl, ?_, hann⟩
      intro f hf
      obtain ⟨r1, r2, r3, r4, r5, v, hv, hc⟩ := hfeat f hf
      refine ⟨r1, r2, r3, r4, r5, v, hv, ?_⟩
      rcases hc with hc | hc | ⟨p1, p2, p3, p4, p5, hval⟩
      · exact .inl hc
      · exact .inr (.inl hc)
      · refine .inr (.inr ⟨p1, p2, p3, p4, p5, ?_⟩)
        rcases hval with hval | ⟨b, hb, hsp⟩
        · exact .inl hval
        · exact .inr ⟨b, hb, fun hi hna => spineEnds_shape sh (hsp hi hna)⟩
    · obtain ⟨o', ho', hty, hslots, _⟩ := sh.2 a o ho
      obtain ⟨ty, tsi, xid, slots⟩ := o
      obtain ⟨ty', tsi', xid', slots'⟩ := o'
      simp only at hty hslots
      subst hty hslots
      exact .inr ⟨_, t, f, ev, ho', ht, htn, hsup, hall, hfn, hres, hsl, hann, hns, hcase⟩
  · intro o' t ho' ht
    obtain ⟨o, ho, hty, _⟩ := sh.get_back ho'
    rw [hty] at ht ⊢
    exact hj o t ho ht

/-! ### the traversal of the loaded CAS -/

section
variable {K : Consts} {ts : TypeSystem} {c : Cas} {ci : Nat} {H : Heap} {L : List (Int × Nat)} {ci' : Nat}
  {na : Int → Nat} {ia : Int → String → Nat} {ld : Xmi.Loaded}

theorem XLd.seed_fwd (x : XLd K ts c ci H L ci' na ia ld) {a : Nat} (ha : a ∈ defaultSeeds ld.cas) :
    ∃ q ∈ L, a = na q.1 := by
  unfold defaultSeeds at ha
  obtain ⟨nv', hnv', ha⟩ := List.mem_flatMap.mp ha
  obtain ⟨nv, hnv, hr⟩ := viewsRelL_bwd H na _ _ x.views nv' hnv'
  have hperm := hr.2.2.2.2.2.2.2
  have := hperm.mem_iff.mp ha
  obtain ⟨m, hm, rfl⟩ := List.mem_map.mp this
  obtain ⟨e0, he0, hx0⟩ := mem_members.mp hm
  obtain ⟨y, hy⟩ := x.lok.members nv hnv e0 he0
  have := (x.lok.ids _ hy).1
  rw [show ((y, e0.oid) : Int × Nat).2 = e0.oid from rfl, hx0] at this
  cases this
  exact ⟨_, hy, rfl⟩

theorem XLd.seed_bwd (x : XLd K ts c ci H L ci' na ia ld) {y : Int} {a : Nat} (hy : (y, a) ∈ L)
    (ha : a ∈ defaultSeeds c) : na y ∈ defaultSeeds ld.cas := by
  unfold defaultSeeds at ha ⊢
  obtain ⟨nv, hnv, ha⟩ := List.mem_flatMap.mp ha
  obtain ⟨e, he, rfl⟩ := List.mem_map.mp ha
  obtain ⟨nv', hnv', hr⟩ := viewsRelL_fwd H na _ _ x.views nv hnv
  have hperm := hr.2.2.2.2.2.2.2
  refine List.mem_flatMap.mpr ⟨nv', hnv', hperm.mem_iff.mpr ?_⟩
  exact List.mem_map.mpr ⟨y, mem_members.mpr ⟨e, he, (x.lok.ids _ hy).1⟩, rfl⟩

/-- the ids of the structures of `SAll` in the loaded heap -/
theorem XLd.sall_xid (x : XLd K ts c ci H L ci' na ia ld) {a : Nat} (ha : SAll K ld.heap L na a) {y : Int}
    (hy : xidOf ld.heap a = some y) : ∃ q ∈ L, a = na q.1 ∧ y = q.1 := by
  rcases ha with ⟨q, hq, rfl⟩ | ⟨o, _, ho, hx, _⟩ | ⟨k, vs, hv, _⟩
  · rw [x.xid_new hq] at hy
    cases hy
    exact ⟨q, hq, rfl, rfl⟩
  · unfold xidOf at hy; rw [ho] at hy
    simp only [Option.bind_some] at hy
    rw [hx] at hy; cases hy
  · cases hv with
    | nil g1 g2 _ _ =>
      unfold xidOf at hy; rw [g1] at hy
      simp only [Option.bind_some] at hy
      rw [g2] at hy; cases hy
    | cons g1 g2 _ _ _ =>
      unfold xidOf at hy; rw [g1] at hy
      simp only [Option.bind_some] at hy
      rw [g2] at hy; cases hy

/-- **the traversal of the JSON writer on the loaded CAS** -/
theorem XLd.traversal (x : XLd K ts c ci H L ci' na ia ld) (htys : CollTypesOk K ts)
    (hjson : ∀ q ∈ L, JsonFs ts H q.2) (harr : ∀ q ∈ L, ArrElemsSome H q.2) :
    ∃ st2 : St, findAllFs K ts jop ld.heap ld.cas.nextXid (defaultSeeds ld.cas) = .ok st2 ∧
      SameShape ld.heap st2.heap ∧ (∀ r ∈ st2.allFs, SAll K ld.heap L na r.2) ∧
      (∀ a, SAll K ld.heap L na a → xidOf st2.heap a ≠ some 0) ∧
      ∀ a, SAll K ld.heap L na a → ∀ y, xidOf st2.heap a = some y → xidOf ld.heap a = some y ∨ ld.cas.nextXid ≤ y := by
  obtain ⟨st2, hfa, hsub, hnz, hfresh⟩ := findAllFs_succeeds_gen K ts jop rfl ld.heap ld.cas.nextXid (defaultSeeds ld.cas)
    (SAll K ld.heap L na)
    (fun a ha => by obtain ⟨q, hq, e⟩ := x.seed_fwd ha; exact .inl ⟨q, hq, e⟩)
    (fun a ha => by
      obtain ⟨⟨hk, _⟩, hcl⟩ := x.sall_j (ci' := ci') htys hjson harr ha
      obtain ⟨ob, t, ps, n, hob, hty, hns, hps⟩ := jop_succs (ld.heap.length + 1) hk
      refine ⟨ob, t, ps, n, hob, hty, hns, fun b hb => ?_⟩
      rcases hps b hb with ⟨m, hm⟩ | ⟨l, hl, hbl⟩
      · exact (hcl ob hob).1 m b hm
      · exact (hcl ob hob).2 l hl b hbl)
    (fun a ha y hy => by
      obtain ⟨q, hq, rfl, rfl⟩ := x.sall_xid ha hy
      obtain ⟨o, o', _, ho', hor⟩ := x.rel q hq
      exact x.ids_below (na q.1) o' q.1 (Nat.le_of_lt (x.naOk.gt q hq)) ho' hor.2.1)
    (fun a b ha hb y hya hyb => by
      obtain ⟨q, hq, rfl, rfl⟩ := x.sall_xid ha hya
      obtain ⟨q', hq', rfl, e⟩ := x.sall_xid hb hyb
      rw [e])
    x.next_pos
    (fun a ha h0 => by
      obtain ⟨q, hq, _, e⟩ := x.sall_xid ha h0
      exact (x.lok.ids q hq).2 e.symm)
  exact ⟨st2, hfa, (findAllFs_inv K ts jop ld.heap _ _ st2 hfa).1.shape, hsub, hnz, hfresh⟩

end

end Cassis.ChainC
